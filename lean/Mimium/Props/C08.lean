import Mimium.Proofs.StateTreeApply
import Mimium.Model.StateTreeCheck
/-!
# C08 — State migration plans are well-formed and keep everything that survives

Property theorems only (helper lemmas live in `Proofs/`).  All statements quantify over *every* pair of
layouts `o n : Sk`; no bound on size or depth.  Model: `Model/StateTree.lean`, a hand port of the
`state-tree` crate, tied to the crate by the correspondence check (`./check C08`).
-/
namespace Mimium.StateTree
open Patch

/-- *copies only between subtrees of identical shape*: every patch joins a whole subtree of the old layout
to a whole subtree of the new layout, the two have the same shape (`nodes_match`) and the patch has their size. -/
theorem C08_patches_match_shape (o n : Sk) : Shaped o n (takeDiff o n) := (diff_good o n).shaped

/-- *stays inside both storages* -/
theorem C08_patches_in_bounds (o n : Sk) :
    ∀ p ∈ takeDiff o n, p.src + p.size ≤ o.size ∧ p.dst + p.size ≤ n.size := (diff_good o n).within

/-- *never writes a destination word twice* -/
theorem C08_dst_disjoint (o n : Sk) : (takeDiff o n).Pairwise Patch.DstDisjoint :=
  sorted_dstDisjoint (diff_good o n).sorted

/-- no word is written twice, pointwise form: a destination word is covered by at most one patch -/
theorem C08_dst_covered_once (o n : Sk) (k : Nat) :
    ∀ p ∈ takeDiff o n, ∀ q ∈ takeDiff o n, p.covers k → q.covers k → p = q := by
  intro p hp q hq hpk hqk
  rcases pairwise_mem_cases (C08_dst_disjoint o n) p hp q hq with h | h | h
  · exact h
  · simp only [DstDisjoint, covers] at *; omega
  · simp only [DstDisjoint, covers] at *; omega

/-- *preserves the order of siblings* (in fact the order of all copied ranges): of two patches that copy
something, the one that starts earlier in the old storage starts earlier in the new storage. -/
theorem C08_order_preserving (o n : Sk) :
    ∀ p ∈ takeDiff o n, ∀ q ∈ takeDiff o n, 0 < p.size → 0 < q.size → (p.src < q.src ↔ p.dst < q.dst) := by
  intro p hp q hq hps hqs
  rcases pairwise_mem_cases (diff_good o n).sorted p hp q hq with h | h | h
  · subst h; simp
  · simp only [Before] at h; omega
  · simp only [Before] at h; omega

/-- the plan never makes `apply_patches` panic on a storage of the old layout's size -/
theorem C08_apply_total (o n : Sk) (old : List Nat) (h : old.length = o.size) (plan : Plan)
    (hp : buildPlan o n = some plan) : ∃ ws, applyPlan? old plan = some ws ∧ ws.length = n.size := by
  unfold buildPlan at hp
  split at hp
  · simp at hp
  · simp only [Option.some.injEq] at hp
    subst hp
    refine ⟨applyPatches old (List.replicate n.size 0) (takeDiff o n), ?_, ?_⟩
    · unfold applyPlan?
      rw [if_pos]
      rw [List.all_eq_true]
      intro p hp
      have := C08_patches_in_bounds o n p hp
      simp [Patch.inBounds, h]; omega
    · simp

/-- *leaves every other word zero* -/
theorem C08_others_zero (o n : Sk) (old : List Nat) (k : Nat) (hk : k < n.size)
    (h : ∀ p ∈ takeDiff o n, ¬ p.covers k) :
    (applyPatches old (List.replicate n.size 0) (takeDiff o n)).getD k 0 = 0 := by
  rw [applyPatches_not_covered old k _ _ (by simpa using hk) h]
  simp [List.getD, hk]

/-- a covered word receives exactly the old word at the corresponding place of the source subtree -/
theorem C08_copied_words (o n : Sk) (old : List Nat) (k : Nat) (hk : k < n.size)
    (p : Patch) (hp : p ∈ takeDiff o n) (hc : p.covers k) :
    (applyPatches old (List.replicate n.size 0) (takeDiff o n)).getD k 0 = old.getD (p.src + (k - p.dst)) 0 :=
  applyPatches_covered old k _ _ p (by simpa using hk) (C08_dst_disjoint o n) hp hc

/-- the iteration order of the `HashSet` of patches is irrelevant -/
theorem C08_apply_order_irrelevant (o n : Sk) (old new : List Nat) (qs : List Patch)
    (h : (takeDiff o n).Perm qs) : applyPatches old new (takeDiff o n) = applyPatches old new qs :=
  applyPatches_perm old new h (C08_dst_disjoint o n)

/-- *identical layouts produce a no-op*: no plan is built (the runtimes then keep the storage as it is) -/
theorem C08_identical_noop (s : Sk) : buildPlan s s = none := by
  simp [buildPlan, matches_refl]

/-- … and, were the diff taken anyway, it is the single whole-storage copy -/
theorem C08_matching_whole_copy (o n : Sk) (h : o.matches n = true) : takeDiff o n = [⟨0, 0, o.size⟩] := by
  unfold takeDiff
  cases o <;> (unfold diff; simp [h])

/-! ### survivors — the last sentence of the property

The full statement ("if the new layout differs only by added or removed subtrees, every word of every
surviving subtree is carried") is **false for the algorithm as it stands** (finding F5): the backtracking of
`lcs_by_score` takes a `Common` pair whenever the pair's score is positive, without looking at the table.
The refutation is machine checked on the smallest witnesses found by the correspondence run. -/

/-- adding a second, partially similar voice after an existing one loses the existing voice's state:
only 1 of its 3 words is carried (to the wrong sibling). -/
theorem C08_survivors_counterexample :
    let o := Sk.fn [.fn [.mem 2, .mem 1]]
    let n := Sk.fn [.fn [.mem 2, .mem 1], .fn [.mem 1, .mem 1]]
    embeds o n = true ∧ o.size = 3 ∧ takeDiff o n = [⟨2, 4, 1⟩] := by
  decide +kernel

/-- the witness from the design review (F5): `[A,B] → [A,B,A]` carries 2 of 8 words -/
theorem C08_survivors_counterexample_F5 :
    let A := Sk.fn [.mem 1, .feed 1]
    let B := Sk.fn [.mem 1, .delay 3]
    embeds (.fn [A, B]) (.fn [A, B, A]) = true ∧ (Sk.fn [A, B]).size = 8 ∧
      carried (takeDiff (.fn [A, B]) (.fn [A, B, A])) = 2 := by
  decide +kernel

/-! ### soundness of the executable judge that is applied to the implementation's own output -/

theorem pairwiseB_sound {r : Patch → Patch → Bool} : ∀ {ps : List Patch}, pairwiseB r ps = true →
    ps.Pairwise (fun p q => r p q = true)
  | [], _ => List.Pairwise.nil
  | p :: ps, h => by
    simp only [pairwiseB, Bool.and_eq_true, List.all_eq_true] at h
    exact List.Pairwise.cons h.1 (pairwiseB_sound h.2)

/-- if the judge accepts a plan then the plan is in bounds, writes no destination word twice and keeps the
relative order of the copied ranges -/
theorem C08_judge_sound (o n : Sk) (ps : List Patch) (h : wellFormedB o n ps = true) :
    (∀ p ∈ ps, p.src + p.size ≤ o.size ∧ p.dst + p.size ≤ n.size) ∧
    ps.Pairwise Patch.DstDisjoint ∧
    ps.Pairwise (fun p q => 0 < p.size → 0 < q.size → (p.src < q.src ↔ p.dst < q.dst)) := by
  simp only [wellFormedB, Bool.and_eq_true, List.all_eq_true] at h
  obtain ⟨⟨⟨hb, _⟩, hd⟩, ho⟩ := h
  refine ⟨?_, ?_, ?_⟩
  · intro p hp
    have := hb p hp
    simpa [boundsOk] using this
  · refine (pairwiseB_sound hd).imp ?_
    intro p q hpq
    simpa [dstDisjoint, DstDisjoint] using hpq
  · refine (pairwiseB_sound ho).imp ?_
    intro p q hpq hp hq
    simp only [orderOk, Bool.or_eq_true, beq_iff_eq] at hpq
    rcases hpq with (h0 | h0) | h0
    · omega
    · omega
    · constructor <;> intro hh <;> simp_all

/-! ### non-vacuity: a concrete, non-trivial pair on which every statement above says something -/

example :
    let o := Sk.fn [.fn [.mem 1, .delay 2], .feed 2, .mem 1]
    let n := Sk.fn [.mem 1, .fn [.mem 1, .delay 2], .fn [.feed 2], .mem 1]
    takeDiff o n = [⟨0, 1, 5⟩, ⟨7, 8, 1⟩] ∧ buildPlan o n ≠ none ∧ wellFormedB o n (takeDiff o n) = true := by
  decide +kernel

end Mimium.StateTree

