import Mimium.Proofs.StateTreeApply
import Mimium.Proofs.StateTreeMixed
import Mimium.Model.StateTreeCheck
/-!
# C08 — State migration plans are well-formed and keep everything that survives

Property theorems only (helper lemmas live in `Proofs/`).  All statements quantify over *every* pair of
layouts `o n : Sk`; no bound on size or depth.  Model: `Model/StateTree.lean`, a hand port of the
`state-tree` crate, tied to the crate by the correspondence check (`./check C08`).
-/
namespace Mimium.StateTree
open Patch

/-- *copies only between subtrees of identical shape*: every patch joins a whole subtree of the old layout
to a whole subtree of the new layout, the two have the same shape (`nodes_match`) and the patch has their size. -/
theorem C08_patches_match_shape (o n : Sk) : Shaped o n (takeDiff o n) := (diff_good o n).shaped

/-- *stays inside both storages* -/
theorem C08_patches_in_bounds (o n : Sk) :
    ∀ p ∈ takeDiff o n, p.src + p.size ≤ o.size ∧ p.dst + p.size ≤ n.size := (diff_good o n).within

/-- *never writes a destination word twice* -/
theorem C08_dst_disjoint (o n : Sk) : (takeDiff o n).Pairwise Patch.DstDisjoint :=
  sorted_dstDisjoint (diff_good o n).sorted

/-- no word is written twice, pointwise form: a destination word is covered by at most one patch -/
theorem C08_dst_covered_once (o n : Sk) (k : Nat) :
    ∀ p ∈ takeDiff o n, ∀ q ∈ takeDiff o n, p.covers k → q.covers k → p = q := by
  intro p hp q hq hpk hqk
  rcases pairwise_mem_cases (C08_dst_disjoint o n) p hp q hq with h | h | h
  · exact h
  · simp only [DstDisjoint, covers] at *; omega
  · simp only [DstDisjoint, covers] at *; omega

/-- *preserves the order of siblings* (in fact the order of all copied ranges): of two patches that copy
something, the one that starts earlier in the old storage starts earlier in the new storage. -/
theorem C08_order_preserving (o n : Sk) :
    ∀ p ∈ takeDiff o n, ∀ q ∈ takeDiff o n, 0 < p.size → 0 < q.size → (p.src < q.src ↔ p.dst < q.dst) := by
  intro p hp q hq hps hqs
  rcases pairwise_mem_cases (diff_good o n).sorted p hp q hq with h | h | h
  · subst h; simp
  · simp only [Before] at h; omega
  · simp only [Before] at h; omega

/-- the plan never makes `apply_patches` panic on a storage of the old layout's size -/
theorem C08_apply_total (o n : Sk) (old : List Nat) (h : old.length = o.size) (plan : Plan)
    (hp : buildPlan o n = some plan) : ∃ ws, applyPlan? old plan = some ws ∧ ws.length = n.size := by
  unfold buildPlan at hp
  split at hp
  · simp at hp
  · simp only [Option.some.injEq] at hp
    subst hp
    refine ⟨applyPatches old (List.replicate n.size 0) (takeDiff o n), ?_, ?_⟩
    · unfold applyPlan?
      rw [if_pos]
      rw [List.all_eq_true]
      intro p hp
      have := C08_patches_in_bounds o n p hp
      simp [Patch.inBounds, h]; omega
    · simp

/-- *leaves every other word zero* -/
theorem C08_others_zero (o n : Sk) (old : List Nat) (k : Nat) (hk : k < n.size)
    (h : ∀ p ∈ takeDiff o n, ¬ p.covers k) :
    (applyPatches old (List.replicate n.size 0) (takeDiff o n)).getD k 0 = 0 := by
  rw [applyPatches_not_covered old k _ _ (by simpa using hk) h]
  simp [List.getD, hk]

/-- a covered word receives exactly the old word at the corresponding place of the source subtree -/
theorem C08_copied_words (o n : Sk) (old : List Nat) (k : Nat) (hk : k < n.size)
    (p : Patch) (hp : p ∈ takeDiff o n) (hc : p.covers k) :
    (applyPatches old (List.replicate n.size 0) (takeDiff o n)).getD k 0 = old.getD (p.src + (k - p.dst)) 0 :=
  applyPatches_covered old k _ _ p (by simpa using hk) (C08_dst_disjoint o n) hp hc

/-- the iteration order of the `HashSet` of patches is irrelevant -/
theorem C08_apply_order_irrelevant (o n : Sk) (old new : List Nat) (qs : List Patch)
    (h : (takeDiff o n).Perm qs) : applyPatches old new (takeDiff o n) = applyPatches old new qs :=
  applyPatches_perm old new h (C08_dst_disjoint o n)

/-- *identical layouts produce a no-op*: no plan is built (the runtimes then keep the storage as it is) -/
theorem C08_identical_noop (s : Sk) : buildPlan s s = none := by
  simp [buildPlan, matches_refl]

/-- … and, were the diff taken anyway, it is the single whole-storage copy -/
theorem C08_matching_whole_copy (o n : Sk) (h : o.matches n = true) : takeDiff o n = [⟨0, 0, o.size⟩] := by
  unfold takeDiff
  cases o <;> (unfold diff; simp [h])

/-! ### survivors — the last sentence of the property

The full statement ("if the new layout differs only by added or removed subtrees, every word of every
surviving subtree is carried") is **false for the algorithm as it stands** (finding F5): the backtracking of
`lcs_by_score` takes a `Common` pair whenever the pair's score is positive, without looking at the table.
The refutation is machine checked on the smallest witnesses found by the correspondence run. -/

/-- adding a second, partially similar voice after an existing one loses the existing voice's state:
only 1 of its 3 words is carried (to the wrong sibling). -/
theorem C08_survivors_counterexample :
    let o := Sk.fn [.fn [.mem 2, .mem 1]]
    let n := Sk.fn [.fn [.mem 2, .mem 1], .fn [.mem 1, .mem 1]]
    embeds o n = true ∧ o.size = 3 ∧ takeDiff o n = [⟨2, 4, 1⟩] := by
  decide +kernel

/-- the witness from the design review (F5): `[A,B] → [A,B,A]` carries 2 of 8 words -/
theorem C08_survivors_counterexample_F5 :
    let A := Sk.fn [.mem 1, .feed 1]
    let B := Sk.fn [.mem 1, .delay 3]
    embeds (.fn [A, B]) (.fn [A, B, A]) = true ∧ (Sk.fn [A, B]).size = 8 ∧
      carried (takeDiff (.fn [A, B]) (.fn [A, B, A])) = 2 := by
  decide +kernel

/-! ### soundness of the executable judge that is applied to the implementation's own output -/

theorem pairwiseB_sound {r : Patch → Patch → Bool} : ∀ {ps : List Patch}, pairwiseB r ps = true →
    ps.Pairwise (fun p q => r p q = true)
  | [], _ => List.Pairwise.nil
  | p :: ps, h => by
    simp only [pairwiseB, Bool.and_eq_true, List.all_eq_true] at h
    exact List.Pairwise.cons h.1 (pairwiseB_sound h.2)

/-- if the judge accepts a plan then the plan is in bounds, writes no destination word twice and keeps the
relative order of the copied ranges -/
theorem C08_judge_sound (o n : Sk) (ps : List Patch) (h : wellFormedB o n ps = true) :
    (∀ p ∈ ps, p.src + p.size ≤ o.size ∧ p.dst + p.size ≤ n.size) ∧
    ps.Pairwise Patch.DstDisjoint ∧
    ps.Pairwise (fun p q => 0 < p.size → 0 < q.size → (p.src < q.src ↔ p.dst < q.dst)) := by
  simp only [wellFormedB, Bool.and_eq_true, List.all_eq_true] at h
  obtain ⟨⟨⟨hb, _⟩, hd⟩, ho⟩ := h
  refine ⟨?_, ?_, ?_⟩
  · intro p hp
    have := hb p hp
    simpa [boundsOk] using this
  · refine (pairwiseB_sound hd).imp ?_
    intro p q hpq
    simpa [dstDisjoint, DstDisjoint] using hpq
  · refine (pairwiseB_sound ho).imp ?_
    intro p q hpq hp hq
    simp only [orderOk, Bool.or_eq_true, beq_iff_eq] at hpq
    rcases hpq with (h0 | h0) | h0
    · omega
    · omega
    · constructor <;> intro hh <;> simp_all

/-! ### non-vacuity: a concrete, non-trivial pair on which every statement above says something -/

example :
    let o := Sk.fn [.fn [.mem 1, .delay 2], .feed 2, .mem 1]
    let n := Sk.fn [.mem 1, .fn [.mem 1, .delay 2], .fn [.feed 2], .mem 1]
    takeDiff o n = [⟨0, 1, 5⟩, ⟨7, 8, 1⟩] ∧ buildPlan o n ≠ none ∧ wellFormedB o n (takeDiff o n) = true := by
  decide +kernel

/-! ### survivors — the classes on which the clause DOES hold for the pinned algorithm

The full clause is refuted above.  What follows is proved for all layouts in the stated classes
(`Proofs/StateTreeDp.lean` table = recurrence, `StateTreeLcs.lean` / `StateTreeChain.lean` what the backtracking loop
achieves, `StateTreeSum.lean` bookkeeping, `StateTreeSurv.lean` classes `addOnly` / `removeOnly`, `StateTreeFlat.lean`
distinct voices, `StateTreeMixed.lean` edit descriptions `Kept`, class `mixedOk`, boundary `survivorsMayFail`).

FULL STATEMENT (false, see `C08_survivors_counterexample`):
  `∀ o n, embeds o n = true → carried (takeDiff o n) = o.size`   and
  `∀ o n, embeds n o = true → carried (takeDiff o n) = n.size`.
PROVED (`…_partial`): the same conclusions
 * with `embeds` replaced by the decidable classes `addOnly` / `removeOnly`: a pair is in the class if it is copied
   whole, or has no words to carry, or at the `FnCall` node
     (1) each old (new) child has the *same* score against all new (old) children it is similar to,
     (2) the DP optimum equals the sum of these scores (= all old (new) children that are similar to anything can be
         matched in order — the "only additions (removals)" hypothesis at this node),
     (3) a child similar to nothing has no words, and (4) every similar child pair is again in the class;
   identically shaped siblings are allowed (the clause's "up to exchange among identically shaped siblings");
 * for `embeds` pairs inside the decidable class `mixedOk` (similar child pairs form a chain at every node, any scores);
   on `mixedOk` also for edits that remove *and* add subtrees: every description `Kept o n k` is honoured.
MISSING for the full statement: pairs with `embeds` outside these classes (`survivorsMayFail`): there the greedy `Common`
choice either really loses words (both counterexamples are in it, `C08_survivors_counterexamples_in_boundary`) or keeps
them only by the luck of the sibling order.  Measured (exhaustive, model only): all 2 346 `embeds` pairs among the
147 456 pairs of layouts with ≤ 4 nodes over {M1,E1,E2,D1,D2,F[]} are inside `addOnly`; with old ≤ 5 nodes, new ≤ 7 nodes
over {M1,M2}: 19 722 `embeds` pairs, 19 442 in the class, 128 lose words, 152 keep them by sibling order.
-/

/-- the list-built DP table of `lcs_by_score` is, cell by cell, the textbook recurrence `dpS` (best total score of an
order preserving matching of the first `i` old with the first `j` new elements) -/
theorem C08_dp_table_is_recurrence (n m : Nat) (score : Nat → Nat → Nat) (i j : Nat) (hi : i ≤ n) (hj : j ≤ m) :
    dpGet (dpTable n m score) i j = dpS score i j ∧
    dpS score 0 j = 0 ∧ dpS score i 0 = 0 ∧
    dpS score (i+1) (j+1) =
      (if score i j > 0 then max (dpS score i j + score i j) (max (dpS score i (j+1)) (dpS score (i+1) j))
       else max (dpS score i (j+1)) (dpS score (i+1) j)) :=
  ⟨dpGet_dpTable n m score i j hi hj, dpS_zero_left _ _, dpS_zero_right _ _, by rw [dpS_succ]; rfl⟩

/-- *the greedy backtracking is optimal when no positive score is dominated*: if every positive score is maximal in
its row and in its column (in particular for 0/1 scores: then the number of `Common` pairs is the length of a longest
common subsequence), no order preserving matching `cm` has a larger total score than the `Common` pairs. -/
theorem C08_lcs_maximal (n m : Nat) (s : Nat → Nat → Nat)
    (hdom : ∀ i j, 0 < s i j → (∀ j', s i j' ≤ s i j) ∧ (∀ i', s i' j ≤ s i j))
    (cm : List (Nat × Nat)) (hinc : IncFrom n m 0 0 cm) :
    wsum s cm ≤ wsum s (commons (lcsByScore n m s)) := by
  have h1 := backtrack_opt s (dpTable n m s) n m (fun i j hi hj => dpGet_dpTable n m s i j hi hj) hdom
    (n+m) n m [] (Nat.le_refl _) (Nat.le_refl _) (Nat.le_refl _)
  have h2 := dpS_ge_chain s n m cm 0 0 hinc (Nat.zero_le _) (Nat.zero_le _)
  unfold lcsByScore
  simp only [commons, wsum, dpS_zero_left] at h1 h2
  omega

/-- **only additions, any depth** (`addOnly`): every word of the old layout is carried — as a count and word by word
(each old word is the source of a patch; by `C08_patches_match_shape` and `C08_order_preserving` it goes to a
subtree of identical shape, in order). -/
theorem C08_survivors_added_partial (o n : Sk) (h : addOnly o n = true) :
    carried (takeDiff o n) = o.size ∧
    ∀ w, w < o.size → ∃ p ∈ takeDiff o n, p.src ≤ w ∧ w < p.src + p.size := by
  have hc := addOnly_carried o n h
  have g := diff_good o n
  refine ⟨hc, fun w hw => ?_⟩
  exact covers_src (takeDiff o n) 0 o.size g.sorted (fun p hp => ⟨Nat.zero_le _, (g.within p hp).1⟩)
    (Nat.zero_le _) (by simpa [takeDiff] using hc) w (Nat.zero_le _) hw

/-- **only removals, any depth** (`removeOnly`): every word of the new layout is filled from the old one -/
theorem C08_survivors_removed_partial (o n : Sk) (h : removeOnly o n = true) :
    carried (takeDiff o n) = n.size ∧
    ∀ w, w < n.size → ∃ p ∈ takeDiff o n, p.covers w := by
  have hc := removeOnly_carried o n h
  have g := diff_good o n
  refine ⟨hc, fun w hw => ?_⟩
  exact covers_dst (takeDiff o n) 0 n.size g.sorted (fun p hp => ⟨Nat.zero_le _, (g.within p hp).2⟩)
    (Nat.zero_le _) (by simpa [takeDiff] using hc) w (Nat.zero_le _) hw

/-- **distinct voices, children inserted**: if every pair of children either matches or shares nothing and the new
child list is the old one with children inserted, every old child is copied whole by one patch. -/
theorem C08_survivors_inserted_children (ocs ncs : List Sk) (hd : Distinct ocs ncs) (hs : ocs.Sublist ncs) :
    carried (takeDiff (.fn ocs) (.fn ncs)) = sizeL ocs ∧
    ∀ (i : Nat) (hi : i < ocs.length), ∃ p ∈ takeDiff (.fn ocs) (.fn ncs),
      p.src ≤ offsetOf ocs i ∧ offsetOf ocs i + ocs[i].size ≤ p.src + p.size := by
  unfold takeDiff
  by_cases hm : (Sk.fn ocs).matches (.fn ncs) = true
  · rw [diff_of_matches _ _ hm]
    refine ⟨by simp, fun i hi => ⟨_, List.mem_cons_self, Nat.zero_le _, ?_⟩⟩
    have := offsetOf_succ_le ocs i hi
    simpa using this
  · constructor
    · refine level_added ocs ncs hm (fun _ => 1) ?_ ?_ ?_ ?_
      · intro i j; rcases hd.score i j with h0 | ⟨h1, _⟩ <;> simp [*]
      · rw [hd.full_of_sublist hs, sumTo_one]
      · intro i j hi hj hpos
        rcases hd.score i j with h0 | ⟨_, _, _, hmm⟩
        · omega
        · rw [diff_of_matches _ _ hmm]; simp
      · intro i hi h; simp at h
    · intro i hi
      obtain ⟨j, hj⟩ := hd.rows_covered hs i hi
      obtain ⟨_, hj', hmm⟩ := hd.common_matches (i, j) hj
      exact ⟨_, patch_of_common ocs ncs hm i j hi hj' hmm hj, Nat.le_refl _, Nat.le_refl _⟩

/-- **distinct voices, children deleted**: every new child is filled whole by one patch. -/
theorem C08_survivors_deleted_children (ocs ncs : List Sk) (hd : Distinct ocs ncs) (hs : ncs.Sublist ocs) :
    carried (takeDiff (.fn ocs) (.fn ncs)) = sizeL ncs ∧
    ∀ (j : Nat) (hj : j < ncs.length), ∃ p ∈ takeDiff (.fn ocs) (.fn ncs),
      p.dst ≤ offsetOf ncs j ∧ offsetOf ncs j + ncs[j].size ≤ p.dst + p.size := by
  unfold takeDiff
  by_cases hm : (Sk.fn ocs).matches (.fn ncs) = true
  · rw [diff_of_matches _ _ hm]
    have hsz := matches_size _ _ hm
    simp only [size_fn] at hsz
    refine ⟨by simpa using hsz, fun j hj => ⟨_, List.mem_cons_self, Nat.zero_le _, ?_⟩⟩
    have := offsetOf_succ_le ncs j hj
    simp only [size_fn]; omega
  · constructor
    · refine level_removed ocs ncs hm (fun _ => 1) ?_ ?_ ?_ ?_
      · intro i j; rcases hd.score i j with h0 | ⟨h1, _⟩ <;> simp [*]
      · rw [hd.full_of_sublist' hs, sumTo_one]
      · intro i j hi hj hpos
        rcases hd.score i j with h0 | ⟨_, _, _, hmm⟩
        · omega
        · rw [diff_of_matches _ _ hmm]; simpa using matches_size _ _ hmm
      · intro j hj h; simp at h
    · intro j hj
      obtain ⟨i, hi⟩ := hd.cols_covered hs j hj
      obtain ⟨hi', _, hmm⟩ := hd.common_matches (i, j) hi
      refine ⟨_, patch_of_common ocs ncs hm i j hi' hj hmm hi, Nat.le_refl _, ?_⟩
      have : ocs[i].size = ncs[j].size := matches_size _ _ hmm
      show offsetOf ncs j + ncs[j].size ≤ offsetOf ncs j + ocs[i].size
      omega

/-- **distinct voices, children inserted and deleted**: the children the plan carries form a *longest* common
subsequence of the old and the new child list (so at least as many children are carried as any description of the
edit by "these children survived" names), and each of them is copied whole. -/
theorem C08_survivors_mixed_children (ocs ncs : List Sk) (hd : Distinct ocs ncs)
    (hnm : ¬ (Sk.fn ocs).matches (.fn ncs) = true) :
    ∃ cm : List (Nat × Nat), IncFrom ocs.length ncs.length 0 0 cm ∧
      (∀ p ∈ cm, ∃ (hi : p.1 < ocs.length) (hj : p.2 < ncs.length), ocs[p.1].matches ncs[p.2] = true ∧
        (⟨offsetOf ocs p.1, offsetOf ncs p.2, ocs[p.1].size⟩ : Patch) ∈ takeDiff (.fn ocs) (.fn ncs)) ∧
      ∀ cm' : List (Nat × Nat), IncFrom ocs.length ncs.length 0 0 cm' →
        (∀ p ∈ cm', ∃ (hi : p.1 < ocs.length) (hj : p.2 < ncs.length), ocs[p.1].matches ncs[p.2] = true) →
        cm'.length ≤ cm.length := by
  refine ⟨nodeCommons ocs ncs, nodeCommons_inc ocs ncs, ?_, fun cm' h1 h2 => hd.commons_maximal cm' h1 h2⟩
  intro p hp
  obtain ⟨hi, hj, hmm⟩ := hd.common_matches p hp
  exact ⟨hi, hj, hmm, patch_of_common ocs ncs hnm p.1 p.2 hi hj hmm hp⟩

/-- **removed and added subtrees, any depth** (`mixedOk`: at every node that is not copied whole the similar child
pairs form a chain — no child is similar to two children of the other side, no crossing — recursively): whatever
description of the edit by removed and added subtrees one takes (`Kept o n k`: it keeps `k` words), the plan carries at
least that many words.  With `embeds` this gives the clause itself on this class, in both directions. -/
theorem C08_survivors_mixed_partial (o n : Sk) (h : mixedOk o n = true) :
    (∀ k, Kept o n k → k ≤ carried (takeDiff o n)) ∧
    (embeds o n = true → carried (takeDiff o n) = o.size) ∧
    (embeds n o = true → carried (takeDiff o n) = n.size) := by
  refine ⟨fun k hk => mixed_kept o n h k hk, fun he => ?_, fun he => ?_⟩
  · have := mixed_kept o n h _ (kept_of_embeds o n he)
    have := carried_le_old o n
    unfold takeDiff; omega
  · have := mixed_kept o n h _ (kept_of_embeds n o he).symm
    have := carried_le_new o n
    unfold takeDiff; omega

/-- **boundary**: outside the decidable class `survivorsMayFail` the executable survivor judge accepts the plan -/
theorem C08_survivors_outside_boundary (o n : Sk) (h : survivorsMayFail o n = false) :
    survivorsB o n (takeDiff o n) = true := by
  obtain ⟨h1, h2⟩ := survivors_of_not_mayFail o n h
  simp only [survivorsB, Bool.and_eq_true, Bool.or_eq_true, Bool.not_eq_true', beq_iff_eq]
  refine ⟨?_, ?_⟩
  · by_cases he : embeds o n = true
    · right; exact h1 he
    · left; simpa using he
  · by_cases he : embeds n o = true
    · right; exact h2 he
    · left; simpa using he

/-- … and both refuting witnesses lie inside it (as do their mirror images for removal) -/
theorem C08_survivors_counterexamples_in_boundary :
    let o := Sk.fn [.fn [.mem 2, .mem 1]]
    let n := Sk.fn [.fn [.mem 2, .mem 1], .fn [.mem 1, .mem 1]]
    let A := Sk.fn [.mem 1, .feed 1]
    let B := Sk.fn [.mem 1, .delay 3]
    survivorsMayFail o n = true ∧ survivorsMayFail n o = true ∧
    survivorsMayFail (.fn [A, B]) (.fn [A, B, A]) = true ∧ survivorsMayFail (.fn [A, B, A]) (.fn [A, B]) = true := by
  decide +kernel

/-! non-vacuity of the survivor theorems -/

/-- a nested pair of the class `addOnly` that is not a whole copy, and its mirror image in `removeOnly` -/
example :
    let o := Sk.fn [.fn [.mem 1, .delay 2], .feed 2]
    let n := Sk.fn [.mem 3, .fn [.mem 1, .mem 1, .delay 2], .feed 2, .fn [.feed 2]]
    addOnly o n = true ∧ o.matches n = false ∧ removeOnly n o = true ∧
      takeDiff o n = [⟨0, 4, 1⟩, ⟨1, 5, 4⟩, ⟨5, 9, 2⟩] ∧ o.size = 7 ∧ survivorsMayFail o n = false := by
  decide +kernel

/-- identically shaped siblings: `[V] → [V, V]` and `[V, V, W] → [V, W]` are in the classes -/
example :
    let V := Sk.fn [.mem 1, .feed 1]
    let W := Sk.fn [.delay 2]
    addOnly (.fn [V]) (.fn [V, V]) = true ∧ removeOnly (.fn [V, V, W]) (.fn [V, W]) = true := by
  decide +kernel

/-- distinct voices with an insertion at the front and a duplicate at the end -/
example :
    let A := Sk.fn [.mem 1, .feed 1]
    let B := Sk.fn [.delay 3]
    Distinct [A, B] [.mem 2, A, B, A] ∧ [A, B].Sublist [.mem 2, A, B, A] :=
  ⟨by unfold Distinct; decide +kernel, .cons _ (.cons_cons _ (.cons_cons _ (.cons _ .slnil)))⟩

/-- a mixed edit (one child removed, one added, one added inside a surviving child): in `mixedOk`, in neither of the
one-directional classes; a description keeping 3 words exists and 3 words are carried -/
example :
    let o := Sk.fn [.mem 1, .fn [.mem 2, .feed 1]]
    let n := Sk.fn [.fn [.mem 2, .delay 1, .feed 1], .feed 2]
    mixedOk o n = true ∧ addOnly o n = false ∧ removeOnly o n = false ∧ Kept o n 3 ∧
      carried (takeDiff o n) = 3 := by
  refine ⟨by decide +kernel, by decide +kernel, by decide +kernel, ?_, by decide +kernel⟩
  have inner : Kept (.fn [.mem 2, .feed 1]) (.fn [.mem 2, .delay 1, .feed 1]) 3 := by
    have := Kept.node [.mem 2, .feed 1] [.mem 2, .delay 1, .feed 1] [(0, 0), (1, 2)]
      (fun p => if p = (0, 0) then 2 else 1) (by simp [IncFrom]) (by
        intro i j hi hj hm
        simp only [List.mem_cons, Prod.mk.injEq, List.mem_nil_iff, or_false] at hm
        rcases hm with ⟨rfl, rfl⟩ | ⟨rfl, rfl⟩
        · have := Kept.whole (.mem 2) (.mem 2) (by decide)
          simpa [Sk.size] using this
        · have := Kept.whole (.feed 1) (.feed 1) (by decide)
          simpa [Sk.size] using this)
    simpa [psum] using this
  have := Kept.node [.mem 1, .fn [.mem 2, .feed 1]] [.fn [.mem 2, .delay 1, .feed 1], .feed 2] [(1, 0)]
    (fun _ => 3) (by simp [IncFrom]) (by
      intro i j hi hj hm
      simp only [List.mem_cons, Prod.mk.injEq, List.mem_nil_iff, or_false] at hm
      obtain ⟨rfl, rfl⟩ := hm
      simpa using inner)
  simpa [psum] using this

/-- `C08_lcs_maximal`: 0/1 scores satisfy the hypothesis -/
example (s : Nat → Nat → Nat) (h : ∀ i j, s i j ≤ 1) :
    ∀ i j, 0 < s i j → (∀ j', s i j' ≤ s i j) ∧ (∀ i', s i' j ≤ s i j) := by
  intro i j hp
  have := h i j
  exact ⟨fun j' => by have := h i j'; omega, fun i' => by have := h i' j; omega⟩

end Mimium.StateTree
