import Mimium.Proofs.Layout
import Mimium.Proofs.MirExample
import Mimium.Proofs.FlatTreeTop
import Mimium.Proofs.FlatTreeLabel
import Mimium.Proofs.FlatTreeEval
import Mimium.Proofs.FlatTreeVisits
import Mimium.Proofs.PublishOk
import Mimium.Proofs.PublishPrune
import Mimium.Proofs.PublishMono
import Mimium.Proofs.PublishZ
import Mimium.Proofs.FlatTreeArmsRun
import Mimium.Proofs.PublishArms
import Mimium.Proofs.MirStateFn
/-!
# C05 — compile-time state layout matches run-time state accesses

`Model/Layout.lean` says what one call of a function instance with published layout `sk` must do to the state
storage (`expectedTrace`).  The check records the real VM's accesses (hook `runtime::vm::verif`) for every dsp call
and applies the executable checker `conforms`; the theorems below are what an accepted trace guarantees, for
EVERY layout: each access touches exactly the words of a leaf cell of the right kind, at the offset the layout
assigns to it, with that cell's size, inside the storage sized from the layout, and the cursor is back at 0.
(The VM/WASM word-for-word comparison after every sample is done by the correspondence stage; the contract that
makes it hold in bounds is `C01_prim_bisim`.)

## flat storage = serialised state tree (second half of this file, namespace `Mimium.FlatTree`)

`Model/FlatTree.lean` ties the state TREE of the reference semantics (`Core.SNode`) to the FLAT storage of the runtimes
(`StateMachine.St`).  A bare skeleton `Sk` does not say which textual site owns which cell nor which shape `self` has, so
the bridge is stated over LABELLED layouts `LNode` (cells carry their site, the `Feed` cell carries the shape of `self`);
`LNode.sk` is the published skeleton and every well-formed skeleton is the erasure of a labelled layout
(`C05_every_skeleton_labelled`).  `serialize lay st` reads the tree through the evaluator's own accessors
(`memAt` / `ringAt` / `childAt`), so never-evaluated sites are zeros, like the zero-initialised storage.  Proved, for EVERY labelled
layout with distinct sibling sites, every conforming tree, every operand payload, anywhere inside a larger storage:
* `C05_serialize_size`, `C05_deserialize_serialize` (canonical trees), `C05_serialize_deserialize` (all word lists);
* one cell at the offset `path_to_address` assigns to it (`C05_cell_offset_is_path_address`): `C05_flat_mem_eq_tree`,
  `C05_flat_delay_eq_tree`, `C05_flat_cell_eq_tree` (any cell, including entering/leaving a child with push/pop),
  `C05_flat_self_get`, `C05_flat_self_set`;
* `C05_flat_eq_tree`: the state instructions of one whole call perform exactly the access sequence `expectedTrace lay.sk`,
  all in bounds, return the cursor, and turn `serialize lay st` into `serialize lay st'` with `st'` the tree after the
  evaluator's per-site operations, producing the same outputs; the result conforms again, so this iterates
  (`C05_flat_run_eq_tree_run`, all run lengths);
* `C05_same_words_same_behaviour`: trees with equal flat words are indistinguishable by any sequence of calls;
* `C05_eval_mem_is_treeCell`, `C05_eval_delay_is_treeCell`, `C05_eval_call_is_treeCell`: the per-site tree operations
  ARE the state operations of `Core.eval` (cases `mem`, `delay`, `call`).
* `C05_eval_respects_agreement` (induction over the fuel, all 18 constructs of `Core.eval`, closures and assignment
  included): for an expression whose stateful sites are COVERED by a labelled layout (`Covers`: every `mem` / `delay n` / call
  site owns a cell of its kind, callee bodies covered by the child's cells), evaluation from two trees that agree on the
  layout's cells gives the same value and store (or the same error) and agreeing trees; `C05_same_words_agree`: conforming
  trees with the same flat words agree.  Hence `C05_same_words_same_eval_future`: the values a function instance returns,
  sample after sample, are a function of its flat state words alone — the flat storage loses nothing the evaluator can see.
* `C05_eval_state_effect_is_tree_ops` (induction over the fuel, all 18 constructs): for an expression that VISITS the
  cells `seg` in this order, once each (`Visits`: operands before the operation, arguments left to right before the call,
  stateless `if` arms), the state effect of `Core.eval` IS `treeCells seg ps` for the payload `ps` of operands the evaluation
  computes; `C05_eval_instance_is_flat_call`: hence one sample of a function instance in the reference semantics (zero-init
  of `self`, body, store the returned value) and the state instructions of the call on the flat storage commute with
  `serialize` — the flat machine simulates the evaluator's state, access sequence `expectedTrace`, in bounds.
## the published layout, computed (third part, namespace `Mimium.Publish`)

`Model/Publish.lean` defines what mirgen publishes for a function (`publishFn`, a port of how `eval_expr` accumulates
`state_skeleton`; compared with the real compiler's `dsp` skeleton on every generated program by the correspondence stage),
and the `Visits` / `Covers` / `LNode.Ok` hypotheses above are PROVED for it: `C05_publish_visits`, `C05_publishFn_visits`,
`C05_publish_ok`, `C05_published_skeleton_same_meaning`, `C05_publish_depth_irrelevant`, and the corollaries
`C05_published_instance_is_flat_call`, `C05_published_same_words_same_eval_future`, `C05_published_eval_respects_agreement`,
`C05_published_state_effect_is_tree_ops`, whose only program-side hypotheses are decidable syntactic class predicates
(`noStateInArmsN`: no cell — stateful construct or named call — inside an `if` arm, in the function and its callees;
`SitesUnique` / `SitesOk`: sites of one body distinct, ring lengths < 2^64) and `publishFnN n P d = some lay` (callees
defined, no recursion).  `C05_published_instance_is_flat_call_stateless_arms` proves the main corollary for the WIDER class
`noStatefulInArmsN` (calls of functions without state allowed inside `if` arms — everything outside finding F3's class; the
reference semantics creates a stateless child node only when the arm runs, so the statement is about flat images instead
of trees; `C05_wider_class`: the narrow class is contained).

## state inside `if` arms — no class condition (added with the repair of finding F3)

The repaired compiler publishes the cells of BOTH arms of an `if` (condition ++ `then` ++ `else`; `pubE` follows it), so
every stateful site owns its own cell (`C05_state_in_arms_own_cells`, the former witness of F3) and one call reaches, in
layout order, the cells outside arms and those of the arms taken.  Payloads mark the cells not reached with `CPay.skip`
(`treeCell c .skip` = identity, `flatCell c .skip` = no instruction).  Proved for EVERY program (only `SitesUnique` /
`SitesOk` and `publishFnN n P d = some lay` are left as hypotheses):
* run-time judge: `C05_selected_trace_sound` (what `conformsSel` accepts is an in-order sub-selection — `List.Sublist` — of
  the accesses the layout prescribes, each one a leaf cell of the right kind at its layout offset inside `total_size`, cursor
  0), `C05_selected_trace_self_first_last`, `C05_conforming_trace_is_selected` (the strict judge is the special case);
* `C05_eval_state_effect_is_tree_ops_arms` (induction over the fuel, all 18 constructs): for `VisitsA P e seg` the state
  effect of `Core.eval` IS `treeCells seg ps`, `ps` skipping exactly the cells of the arms not taken
  (`C05_visits_is_visitsA`: `Visits` is the special case);
* `C05_flat_eq_tree_arms`: `C05_flat_eq_tree` for payloads that skip cells — accesses = `self` read, the accesses of the
  cells reached, `self` write, a `Sublist` of `expectedTrace lay.sk`, in bounds, cursor restored, `serialize` commutes;
  `C05_eval_instance_is_flat_call_arms`;
* `C05_publish_visits_arms` (whatever `pubE` publishes is `VisitsA`-visited), `C05_publishFn_covers_arms`, and the
  corollaries **`C05_published_instance_is_flat_call_arms`** (the flat-call simulation at the published offsets, tree
  equality, no `noStateInArmsN` / `noStatefulInArmsN`), `C05_published_state_effect_is_tree_ops_arms`,
  `C05_published_same_words_same_eval_future_arms`, `C05_published_eval_respects_agreement_arms`.
NOT proved: that the Rust `mirgen` computes `publishFn` (corresponded, not proved); that the accesses of a call with a
skipping payload are accepted by the GREEDY executable judge `conformsSel` (proved: they are a `Sublist` of the expected
trace with `self` first and last, which is what the judge's soundness theorem states; the judge itself is applied to the
real VM's traces); `match` is not a construct of the reference semantics (its arms are corresponded on VM vs WASM, C01);
and that returned values have the word
of trees; `C05_wider_class`: the narrow class is contained).  Outside the class the layout is not visited in order:
`C05_state_in_arms_not_visited` (finding F3 at model level).
## the MIR of every program, checked statically (fourth part, namespace `Mimium.Mir`)

`Model/Mir.lean` is a semantics of the MIR itself (run against the VM on every generated program); `Model/MirState.lean`
is a decidable check `stateOkFn` of ONE MIR function against its published skeleton (per-block certificate, callees
resolved statically).  `C05_mir_state_ok_sound`: for every program and every set `ok` of functions that pass the check
relative to the set (`okSetChecked`, evaluated by `drv_mir` on the dump of every generated program), EVERY run of a function
of the set in the MIR semantics — any call depth, arguments, closure, globals, storage, cursor — that returns performs
exactly `expectedTrace sk cursor` on the storage it runs in and returns the cursor; `C05_mir_dsp_sample_conforms`: hence every
sample of `dsp` is accepted by `Layout.conforms`, stays inside `total_size` and leaves the cursor at 0 (so the next sample
starts from the same invariant).  This turns the sampled trace conformance into a per-program proof obligation.
NOT proved there: that the VM executes the MIR as `Model/Mir.lean` says (corresponded on every program, bitwise);
progress (that a checked function never gets stuck on a state access: the theorem is about runs that return).

NOT proved: that the Rust `mirgen` computes `publishFn` (corresponded, not proved); the agreement corollaries
(`…_same_words_same_eval_future`, `…_eval_respects_agreement`, `…_state_effect_is_tree_ops`) are proved for the narrow class
only (their `Covers` / tree-equality statements exclude call sites without a cell); and that returned values have the word
count of their `Feed` cell (`NPayOk`, a typing fact; soundness of the type checker is not proved, see C03).
-/
namespace Mimium.Layout
open Mimium.StateTree

/-- soundness of the checker that judges the implementation's traces -/
theorem C05_conforming_trace_sound (sk : Sk) (trace : List Access) (cursor : Nat)
    (hw : WF sk = true) (h : conforms sk trace cursor = true) :
    cursor = 0 ∧ ∀ a ∈ trace, TouchesLeaf sk 0 a ∧ a.pos + a.size ≤ sk.size := by
  simp only [conforms, Bool.and_eq_true, decide_eq_true_eq, beq_iff_eq] at h
  refine ⟨h.2, ?_⟩
  intro a ha
  rw [h.1] at ha
  have := expected_sound sk 0 hw a ha
  exact ⟨this.1, by omega⟩

/-- **soundness of the generalised checker (state inside `if` / `match` arms).**  A call need not touch every cell: it
touches, in layout order, the cells outside arms and those of the arms taken.  A trace accepted by `conformsSel` leaves the
cursor at 0, is an in-order sub-selection of the accesses the layout prescribes (`List.Sublist`), and so touches, access by
access, exactly the words of a leaf cell of the right kind at its layout offset, inside `total_size` -/
theorem C05_selected_trace_sound (sk : Sk) (trace : List Access) (cursor : Nat)
    (hw : WF sk = true) (h : conformsSel sk trace cursor = true) :
    cursor = 0 ∧ trace.Sublist (expectedTrace sk 0) ∧ ∀ a ∈ trace, TouchesLeaf sk 0 a ∧ a.pos + a.size ≤ sk.size := by
  obtain ⟨hc, hs⟩ := conformsSel_sublist sk trace cursor h
  refine ⟨hc, hs, fun a ha => ?_⟩
  have := expected_sound sk 0 hw a (hs.subset ha)
  exact ⟨this.1, by omega⟩

/-- an accepted call of a function instance with `self` reads `self` first and writes it last, at the start of the region -/
theorem C05_selected_trace_self_first_last (s : Nat) (rest : List Sk) (trace : List Access) (cursor : Nat)
    (h : conformsSel (.fn (.feed s :: rest)) trace cursor = true) :
    ∃ mid, trace = ⟨.get, 0, s⟩ :: mid ++ [⟨.set, 0, s⟩] := by
  simp only [conformsSel, rootEntered, Bool.and_eq_true, decide_eq_true_eq, beq_iff_eq] at h
  obtain ⟨⟨hg, hsel⟩, _⟩ := h
  simp only [selTrace, hg, if_true, Nat.zero_add] at hsel
  cases hr : selTraceL rest s trace.tail with
  | none => simp [hr] at hsel
  | some t1 =>
    simp only [hr] at hsel
    split at hsel
    · rename_i hs
      simp only [Option.some.injEq] at hsel
      obtain ⟨pre1, e1, _⟩ := selTraceL_sublist rest s trace.tail t1 hr
      refine ⟨pre1, ?_⟩
      have e2 := head?_eq_some hs
      rw [hsel] at e2
      rw [head?_eq_some hg, e1, e2]
      simp
    · simp at hsel

/-- the strict checker is the special case in which no cell is skipped: whatever it accepts, the generalised statement holds -/
theorem C05_conforming_trace_is_selected (sk : Sk) (trace : List Access) (cursor : Nat)
    (h : conforms sk trace cursor = true) : cursor = 0 ∧ trace.Sublist (expectedTrace sk 0) :=
  conforms_sublist sk trace cursor h

/-- the expected trace itself stays inside the storage sized from the layout (`execute_idx` sizes it with `total_size`) -/
theorem C05_expected_in_bounds (sk : Sk) (b : Nat) (hw : WF sk = true) :
    ∀ a ∈ expectedTrace sk b, b ≤ a.pos ∧ a.pos + a.size ≤ b + sk.size := by
  intro a ha
  have := expected_sound sk b hw a ha
  exact ⟨this.2.1, this.2.2⟩

/-- a leaf touched at relative offset `o` really is the cell `path_to_address` finds there:
kinds get/set touch `Feed` cells, `mem` touches `Mem`, `delay` touches `Delay` with its two index words -/
theorem C05_touched_leaf_kind : ∀ (sk : Sk) (b : Nat) (a : Access), TouchesLeaf sk b a →
    (a.kind = .mem → a.size = 1) ∧ (a.kind = .delay → delayExtra ≤ a.size) := by
  intro sk b a h
  induction h with
  | mem s b => simp
  | delay n b => simp
  | feedGet s b => simp
  | feedSet s b => simp
  | child h _ ih => exact ih

/-! non-vacuity: nested stateful calls with a tuple-valued `self`, a mem and a delay -/
example :
    let sk := Sk.fn [.fn [.feed 2, .mem 1], .delay 3, .fn [.feed 1, .fn [.mem 1]]]
    WF sk = true ∧
    expectedTrace sk 0 = [⟨.get, 0, 2⟩, ⟨.mem, 2, 1⟩, ⟨.set, 0, 2⟩, ⟨.delay, 3, 5⟩, ⟨.get, 8, 1⟩, ⟨.mem, 9, 1⟩, ⟨.set, 8, 1⟩] ∧
    sk.size = 10 := by
  decide +kernel

/-! non-vacuity of the generalised checker: `dsp() = if c { counter() } else { counter()*100 } ; mem` — layout
`F[F[feed 1], F[feed 1], mem]`: a call in which the `else` arm runs touches the second instance and the `mem`; the strict
checker rejects it; entering an instance without writing `self` back, an access at a wrong offset, or out of order is rejected -/
example :
    let sk := Sk.fn [.fn [.feed 1], .fn [.feed 1], .mem 1]
    conformsSel sk [⟨.get, 1, 1⟩, ⟨.set, 1, 1⟩, ⟨.mem, 2, 1⟩] 0 = true ∧
    conformsSel sk [⟨.get, 0, 1⟩, ⟨.set, 0, 1⟩, ⟨.mem, 2, 1⟩] 0 = true ∧
    conforms sk [⟨.get, 1, 1⟩, ⟨.set, 1, 1⟩, ⟨.mem, 2, 1⟩] 0 = false ∧
    conformsSel sk [⟨.get, 1, 1⟩, ⟨.mem, 2, 1⟩] 0 = false ∧
    conformsSel sk [⟨.get, 1, 1⟩, ⟨.set, 1, 1⟩, ⟨.mem, 3, 1⟩] 0 = false ∧
    conformsSel sk [⟨.mem, 2, 1⟩, ⟨.get, 1, 1⟩, ⟨.set, 1, 1⟩] 0 = false ∧
    conformsSel sk [⟨.get, 1, 1⟩, ⟨.set, 1, 1⟩, ⟨.mem, 2, 1⟩] 1 = false := by
  decide +kernel

end Mimium.Layout

namespace Mimium.FlatTree
open Mimium.Core Mimium.Cells Mimium.StateTree Mimium.Layout Mimium.StateMachine

/-- the serialised tree fills exactly the storage the VM sizes from the published skeleton (`total_size`) -/
theorem C05_serialize_size (lay : LNode) (st : SNode) (h : Conforms lay st) :
    (serialize lay st).length = lay.sk.size := by
  rw [LNode.sk_size, serialize_length lay st h]

/-- the published skeleton of a labelled layout is well formed (so `C05_conforming_trace_sound` applies to it) -/
theorem C05_labelled_layout_WF (lay : LNode) : WF lay.sk = true := LNode.sk_WF lay

/-- every well-formed skeleton of a function whose ring lengths fit a machine word is the erasure of a labelled
layout with distinct sibling sites: the theorems below cover every published layout -/
theorem C05_every_skeleton_labelled (cs : List Sk) (hw : WF (.fn cs) = true) (hf : SkFits (.fn cs)) :
    (ofSk (.fn cs)).sk = .fn cs ∧ (ofSk (.fn cs)).Ok := ofSk_spec cs hw hf

/-- reading a canonical tree (all cells present, in layout order) back from its words gives the same tree -/
theorem C05_deserialize_serialize (lay : LNode) (st : SNode) (hl : lay.Ok) (h : Canon lay st) :
    deserialize lay (serialize lay st) = st := deserialize_serialize lay st hl h

/-- every word list of the layout's size is the serialisation of the (canonical, conforming) tree read from it -/
theorem C05_serialize_deserialize (lay : LNode) (ws : List UInt64) (hl : lay.Ok) (hlen : ws.length = lay.sk.size) :
    serialize lay (deserialize lay ws) = ws ∧ Canon lay (deserialize lay ws) ∧ Conforms lay (deserialize lay ws) := by
  rw [LNode.sk_size] at hlen
  have := serialize_deserialize lay ws hl hlen
  exact ⟨this.1, this.2, canon_conforms lay _ hl this.2⟩

/-- the offset at which the cell after `before` is executed is the address `path_to_address` computes for it on the
published skeleton, with the cell's size -/
theorem C05_cell_offset_is_path_address (self : Option Shape) (before : List LCell) (c : LCell) (after : List LCell) :
    pathToAddress (LNode.sk ⟨self, before ++ c :: after⟩) [(feedOf self).length + before.length] =
      some (selfSize self + sizeCells before, c.size) := cell_address self before c after

/-- ANY cell of a node (mem, delay, or a whole child call: `PushStatePos off`, the child's instructions, `PopStatePos off`)
executed at its layout offset: afterwards the storage is the serialisation of the tree after the evaluator's
operation at that site (every other word unchanged), the outputs agree, the cursor is back, nothing left the storage -/
theorem C05_flat_cell_eq_tree (self : Option Shape) (before : List LCell) (c : LCell) (after : List LCell) (p : CPay)
    (st : SNode) (pre post : List UInt64)
    (hl : LNode.Ok ⟨self, before ++ c :: after⟩) (hc : Conforms ⟨self, before ++ c :: after⟩ st) (hp : PayOk c p) :
    vmRun ⟨pre.length, pre ++ serialize ⟨self, before ++ c :: after⟩ st ++ post⟩
        ([.push (selfSize self + sizeCells before)] ++ flatCell c p ++ [.pop (selfSize self + sizeCells before)]) =
      some (⟨pre.length, pre ++ serialize ⟨self, before ++ c :: after⟩ (treeCell c p st).1 ++ post⟩, (treeCell c p st).2)
    ∧ Conforms ⟨self, before ++ c :: after⟩ (treeCell c p st).1 :=
  flat_cell_at self before c after p st pre post hl hc hp

/-- `mem`: the VM's `Mem` instruction at the cell's offset is `setCell site (.mem x)` on the tree and returns `memAt site` -/
theorem C05_flat_mem_eq_tree (self : Option Shape) (before after : List LCell) (site : Nat) (x : UInt64)
    (st : SNode) (pre post : List UInt64)
    (hl : LNode.Ok ⟨self, before ++ .mem site :: after⟩) (hc : Conforms ⟨self, before ++ .mem site :: after⟩ st) :
    vmRun ⟨pre.length, pre ++ serialize ⟨self, before ++ .mem site :: after⟩ st ++ post⟩
        [.push (selfSize self + sizeCells before), .mem x, .pop (selfSize self + sizeCells before)] =
      some (⟨pre.length, pre ++ serialize ⟨self, before ++ .mem site :: after⟩ (st.setCell site (.mem x)) ++ post⟩,
            [st.memAt site]) := by
  have := (flat_cell_at self before (.mem site) after (.mem x) st pre post hl hc (by simp [PayOk])).1
  simpa [flatCell, treeCell] using this

/-- `delay`: the VM's `Delay` instruction at the cell's offset is `Ringbuffer::process` on the site's ring -/
theorem C05_flat_delay_eq_tree (self : Option Shape) (before after : List LCell) (site n : Nat) (x t : UInt64)
    (st : SNode) (pre post : List UInt64)
    (hl : LNode.Ok ⟨self, before ++ .delay site n :: after⟩) (hc : Conforms ⟨self, before ++ .delay site n :: after⟩ st) :
    vmRun ⟨pre.length, pre ++ serialize ⟨self, before ++ .delay site n :: after⟩ st ++ post⟩
        [.push (selfSize self + sizeCells before), .delay n x t, .pop (selfSize self + sizeCells before)] =
      some (⟨pre.length, pre ++ serialize ⟨self, before ++ .delay site n :: after⟩
              (st.setCell site (.delay ((st.ringAt n site).process x t).2)) ++ post⟩,
            [((st.ringAt n site).process x t).1]) := by
  have := (flat_cell_at self before (.delay site n) after (.delay x t) st pre post hl hc (by simp [PayOk])).1
  simpa [flatCell, treeCell] using this

/-- `GetState` at the start of the region returns the words of the stored `self` (zeros before the first call) -/
theorem C05_flat_self_get (lay : LNode) (st : SNode) (pre post : List UInt64) (hc : Conforms lay st) :
    vmStep ⟨pre.length, pre ++ serialize lay st ++ post⟩ (.get (selfSize lay.self)) =
      some (⟨pre.length, pre ++ serialize lay st ++ post⟩, selfWords lay.self st) :=
  flat_self_get lay st pre post hc

/-- `SetState` at the start of the region is `setSelf` on the tree -/
theorem C05_flat_self_set (lay : LNode) (st : SNode) (v : Val) (sh : Shape) (pre post : List UInt64)
    (hs : lay.self = some sh) (hc : Conforms lay st) (hv : RetOk lay.self v) :
    vmStep ⟨pre.length, pre ++ serialize lay st ++ post⟩ (.set (flattenVal v)) =
      some (⟨pre.length, pre ++ serialize lay (st.setSelf v) ++ post⟩, []) ∧ Conforms lay (st.setSelf v) :=
  flat_self_set lay st v sh pre post hs hc hv

/-- **flat = serialised tree, one whole call.**  For every labelled layout with distinct sibling sites, every
conforming tree, every payload of operands, and a region starting anywhere (`pre.length`) in a larger storage:
the state instructions of the call (a) perform exactly the access sequence the published skeleton prescribes,
(b) every access inside the region, (c) run without leaving the storage (`vmRun … = some …`), return the cursor, leave
`pre`/`post` untouched and turn the words `serialize lay st` into `serialize lay st'`, where `st'` is the tree after the
evaluator's per-site operations, with the same outputs, and (d) `st'` conforms again. -/
theorem C05_flat_eq_tree (lay : LNode) (pay : NPay) (st : SNode) (pre post : List UInt64)
    (hl : lay.Ok) (hc : Conforms lay st) (hp : NPayOk lay pay) :
    accessesOf pre.length (flatNode lay pay) = expectedTrace lay.sk pre.length ∧
    (∀ a ∈ expectedTrace lay.sk pre.length,
      pre.length ≤ a.pos ∧ a.pos + a.size ≤ pre.length + (serialize lay st).length) ∧
    vmRun ⟨pre.length, pre ++ serialize lay st ++ post⟩ (flatNode lay pay) =
      some (⟨pre.length, pre ++ serialize lay (treeNode lay pay st).1 ++ post⟩, (treeNode lay pay st).2) ∧
    Conforms lay (treeNode lay pay st).1 := by
  have h := flat_node lay pay st pre post hl hc hp
  refine ⟨(acc_node lay pay pre.length hp).1, ?_, h.1, h.2⟩
  rw [C05_serialize_size lay st hc]
  exact C05_expected_in_bounds lay.sk pre.length (LNode.sk_WF lay)

/-- the statement of the task: the region is the whole storage, cursor 0 before and after -/
theorem C05_flat_eq_tree_root (lay : LNode) (pay : NPay) (st : SNode)
    (hl : lay.Ok) (hc : Conforms lay st) (hp : NPayOk lay pay) :
    accessesOf 0 (flatNode lay pay) = expectedTrace lay.sk 0 ∧
    (∀ a ∈ expectedTrace lay.sk 0, a.pos + a.size ≤ (serialize lay st).length) ∧
    vmRun ⟨0, serialize lay st⟩ (flatNode lay pay) =
      some (⟨0, serialize lay (treeNode lay pay st).1⟩, (treeNode lay pay st).2) ∧
    Conforms lay (treeNode lay pay st).1 := by
  have h := C05_flat_eq_tree lay pay st [] [] hl hc hp
  simp only [List.length_nil, List.nil_append, List.append_nil, Nat.zero_add] at h
  exact ⟨h.1, fun a ha => (h.2.1 a ha).2, h.2.2.1, h.2.2.2⟩

/-- any number of calls in a row (one per sample): the flat machine started on the serialised tree never leaves
its storage and produces, call by call, the outputs of the tree semantics -/
theorem C05_flat_run_eq_tree_run (lay : LNode) (pays : List NPay) (st : SNode) (pre post : List UInt64)
    (hl : lay.Ok) (hc : Conforms lay st) (hp : ∀ p ∈ pays, NPayOk lay p) :
    flatRun lay pays ⟨pre.length, pre ++ serialize lay st ++ post⟩ = some (treeRun lay pays st) :=
  flat_run lay hl pays st pre post hc hp

/-- two trees with the same flat words (e.g. a tree and the one read back from a migrated storage) are
indistinguishable: every sequence of calls, with whatever operands, yields the same outputs -/
theorem C05_same_words_same_behaviour (lay : LNode) (pays : List NPay) (st₁ st₂ : SNode)
    (hl : lay.Ok) (h1 : Conforms lay st₁) (h2 : Conforms lay st₂) (hp : ∀ p ∈ pays, NPayOk lay p)
    (hw : serialize lay st₁ = serialize lay st₂) : treeRun lay pays st₁ = treeRun lay pays st₂ := by
  have e1 := flat_run lay hl pays st₁ [] [] h1 hp
  have e2 := flat_run lay hl pays st₂ [] [] h2 hp
  rw [hw, e2] at e1
  exact (Option.some.inj e1).symm

/-- the tree operation at a `mem` site IS the evaluator's `mem` case -/
theorem C05_eval_mem_is_treeCell (fuel : Nat) (P : Prog) (rt : Rt) (env : Env) (a : Expr) (site : Nat)
    (σ σ' : Store) (st st' : SNode) (x : UInt64) (h : eval fuel P rt env a σ st = .ok (.num x, σ', st')) :
    eval (fuel + 1) P rt env (.mem a site) σ st =
      .ok (.num ((treeCell (.mem site) (.mem x) st').2.headD 0), σ', (treeCell (.mem site) (.mem x) st').1) := by
  simp [eval, h, treeCell]

/-- the tree operation at a `delay` site IS the evaluator's `delay` case -/
theorem C05_eval_delay_is_treeCell (fuel : Nat) (P : Prog) (rt : Rt) (env : Env) (a t : Expr) (n site : Nat)
    (σ σ1 σ2 : Store) (st st1 st2 : SNode) (x tm : UInt64)
    (ha : eval fuel P rt env a σ st = .ok (.num x, σ1, st1))
    (ht : eval fuel P rt env t σ1 st1 = .ok (.num tm, σ2, st2)) :
    eval (fuel + 1) P rt env (.delay n a t site) σ st =
      .ok (.num ((treeCell (.delay site n) (.delay x tm) st2).2.headD 0), σ2,
           (treeCell (.delay site n) (.delay x tm) st2).1) := by
  simp [eval, ha, ht, treeCell]

/-- the tree operation at a call site IS the evaluator's `call` case, given that the callee's body acts on the
child instance as the child's cells prescribe (the part that is mirgen's bookkeeping and is not proved) -/
theorem C05_eval_call_is_treeCell (fuel : Nat) (P : Prog) (rt : Rt) (env : Env) (f : String) (args : List Expr)
    (site : Nat) (σ σ1 σ2 : Store) (st st1 : SNode) (vs : List Val) (d : FnDecl) (cells : List LCell) (ps : List CPay)
    (v : Val) (child' : SNode)
    (hargs : evalList fuel P rt env args σ st = .ok (vs, σ1, st1))
    (hf : findFn P.fns f = some d) (hn : d.params.length = vs.length)
    (hbody : eval fuel P rt (bindAll (globalEnv P) σ1 d.params vs).1 d.body (bindAll (globalEnv P) σ1 d.params vs).2
        (initSelf d.selfShape (st1.childAt site)) = .ok (v, σ2, child'))
    (hcells : child' = (treeCells cells ps (initSelf d.selfShape (st1.childAt site))).1) :
    eval (fuel + 1) P rt env (.call f args site) σ st =
      .ok (v, σ2, (treeCell (.child site d.selfShape cells) (.child v ps) st1).1) := by
  subst hcells
  simp only [eval, hargs, hf, hn, bne_self_eq_false, Bool.false_eq_true, if_false]
  rw [show bindAll (globalEnv P) σ1 d.params vs =
    ((bindAll (globalEnv P) σ1 d.params vs).1, (bindAll (globalEnv P) σ1 d.params vs).2) from rfl]
  cases hsv : (st1.childAt site).selfv <;> cases hsh : d.selfShape <;>
    simp only [initSelf, hsv, hsh] at hbody <;>
    simp [hbody, treeCell, treeNodeWith, initSelf, hsv]

/-- **the evaluator cannot tell agreeing trees apart.**  For every program, every expression covered by the layout
cells (`Covers`), every fuel, environment, store: evaluation from two trees with the same `self` that agree on every
cell of the layout (`AgreeN`: same `memAt`, `ringAt`, recursively agreeing children) yields the same error, or the
same value, the same store and agreeing trees -/
theorem C05_eval_respects_agreement (P : Prog) (rt : Rt) (fuel : Nat) (e : Expr) (cells : List LCell) (env : Env)
    (σ : Store) (st₁ st₂ : SNode) (hl : LayOkL cells) (hc : Covers P cells e) (hag : AgreeN cells st₁ st₂) :
    SRel (RE cells) (eval fuel P rt env e σ st₁) (eval fuel P rt env e σ st₂) :=
  (eval_agree P rt fuel).1 e cells env σ st₁ st₂ hl hc hag

/-- trees that conform to a layout (with `self` values of the declared shapes) and serialise to the same words agree:
the flat words determine everything the evaluator's accessors can read -/
theorem C05_same_words_agree (lay : LNode) (a b : SNode) (ha : ConformsS lay a) (hb : ConformsS lay b)
    (h : serialize lay a = serialize lay b) : Agree lay a b := agree_of_words lay a b ha hb h

/-- the values a function instance returns, sample after sample (`instRun`: zero-initialise `self`, evaluate the body,
store the returned value — what `eval`'s `call` and `Machine.step` do), depend only on the instance's flat state words:
any run length, whatever time / environment / store each sample supplies -/
theorem C05_same_words_same_eval_future (fuel : Nat) (P : Prog) (lay : LNode) (body : Expr)
    (samples : List (Rt × Env × Store)) (a b : SNode)
    (hl : lay.Ok) (hc : Covers P lay.cells body) (ha : ConformsS lay a) (hb : ConformsS lay b)
    (h : serialize lay a = serialize lay b) :
    instRun fuel P lay.self body samples a = instRun fuel P lay.self body samples b :=
  instRun_agree fuel P lay body hl hc samples a b (agree_of_words lay a b ha hb h)

/-- **the evaluator's state effect is the per-site tree operations.**  If `e` visits the cells `seg` in this order
(`Visits`), a successful evaluation changes the state of the current function instance exactly as `treeCells seg ps` does,
for some payload `ps` shaped like `seg` (the operands the evaluation computed) -/
theorem C05_eval_state_effect_is_tree_ops (P : Prog) (rt : Rt) (fuel : Nat) (e : Expr) (seg : List LCell) (env : Env)
    (σ : Store) (st : SNode) (v : Val) (σ' : Store) (st' : SNode)
    (hv : Visits P e seg) (h : eval fuel P rt env e σ st = .ok (v, σ', st')) :
    ∃ ps, PayShapeL seg ps ∧ st' = (treeCells seg ps st).1 :=
  (eval_visits P rt fuel).1 e seg env σ st v σ' st' hv h

/-- **one sample of a function instance: reference evaluator = flat machine.**  Let the body visit the cells of the
labelled layout in order.  One sample in the reference semantics (`self` zero-initialised if absent, body evaluated
against the instance's tree `st`, returned value stored as the new `self` — `eval`'s `call`, `Machine.step`) leaves the tree
`finSelf lay.self st1 v`; this is `treeNode` for the payload the evaluation computed, and — provided the returned values
have the word counts of their `Feed` cells — the state instructions of the call, run on the flat image of `st` anywhere
in a larger storage, perform exactly `expectedTrace lay.sk`, stay in bounds and leave the flat image of that next tree,
which conforms again (so the statement iterates over samples) -/
theorem C05_eval_instance_is_flat_call (fuel : Nat) (P : Prog) (rt : Rt) (env : Env) (σ : Store) (lay : LNode)
    (body : Expr) (st : SNode) (v : Val) (σ' : Store) (st1 : SNode)
    (hl : lay.Ok) (hc : Conforms lay st) (hvis : Visits P body lay.cells)
    (h : eval fuel P rt env body σ (initSelf lay.self st) = .ok (v, σ', st1)) :
    ∃ ps, PayShapeL lay.cells ps ∧ finSelf lay.self st1 v = (treeNode lay ⟨v, ps⟩ st).1 ∧
      (NPayOk lay ⟨v, ps⟩ → ∀ pre post : List UInt64,
        vmRun ⟨pre.length, pre ++ serialize lay st ++ post⟩ (flatNode lay ⟨v, ps⟩) =
          some (⟨pre.length, pre ++ serialize lay (finSelf lay.self st1 v) ++ post⟩, (treeNode lay ⟨v, ps⟩ st).2) ∧
        accessesOf pre.length (flatNode lay ⟨v, ps⟩) = expectedTrace lay.sk pre.length ∧
        Conforms lay (finSelf lay.self st1 v)) := by
  obtain ⟨ps, hp, he⟩ := treeNode_of_eff lay st v st1 ((eval_visits P rt fuel).1 body _ env σ _ v σ' st1 hvis h)
  refine ⟨ps, hp, he, fun hpay pre post => ?_⟩
  have := C05_flat_eq_tree lay ⟨v, ps⟩ st pre post hl hc hpay
  rw [he]
  exact ⟨this.2.2.1, this.1, this.2.2.2⟩

/-! ### state inside `if` arms (after the repair of finding F3): no class condition

The compiler publishes the cells of both arms of an `if` (`VisitsA`: condition ++ `then` ++ `else`); one call reaches the
cells outside arms and those of the arms taken, the others are skipped (`CPay.skip`: no tree operation, no instruction). -/

/-- **the evaluator's state effect is the tree operations of the cells reached — state inside `if` arms included.**
If `e` visits the cells `seg` in the sense of `VisitsA` (the cells of both arms of every `if` are listed), a successful
evaluation changes the state of the current function instance exactly as `treeCells seg ps` does, for a payload `ps` shaped
like `seg` in which the cells of the arms NOT taken are marked `skip` (induction on the fuel over all 18 constructs) -/
theorem C05_eval_state_effect_is_tree_ops_arms (P : Prog) (rt : Rt) (fuel : Nat) (e : Expr) (seg : List LCell) (env : Env)
    (σ : Store) (st : SNode) (v : Val) (σ' : Store) (st' : SNode)
    (hv : VisitsA P e seg) (h : eval fuel P rt env e σ st = .ok (v, σ', st')) :
    ∃ ps, PayShapeAL seg ps ∧ st' = (treeCells seg ps st).1 :=
  (eval_visitsA P rt fuel).1 e seg env σ st v σ' st' hv h

/-- the strict discipline is the special case: arms without cells -/
theorem C05_visits_is_visitsA (P : Prog) (e : Expr) (seg : List LCell) (h : Visits P e seg) : VisitsA P e seg :=
  visitsA_of_visits P h

/-- **flat = serialised tree, one whole call that skips cells.**  As `C05_flat_eq_tree`, for a payload in which cells may
be skipped (`NPayOkA`): the state instructions of the call (a) perform `self`-read, the accesses of the cells reached,
`self`-write — altogether an in-order sub-selection (`List.Sublist`) of the accesses the layout prescribes —, (b) every
access inside the region, (c) the cursor returns, (d) they run without leaving the storage, leave `pre` / `post` untouched and
turn `serialize lay st` into `serialize lay st'`, `st'` the tree after the evaluator's operations at the cells reached (the
words of skipped cells stay what they are), with the same outputs, and (e) `st'` conforms again -/
theorem C05_flat_eq_tree_arms (lay : LNode) (pay : NPay) (st : SNode) (pre post : List UInt64)
    (hl : lay.Ok) (hc : Conforms lay st) (hp : NPayOkA lay pay) :
    accessesOf pre.length (flatNode lay pay) =
      selfGetAcc lay.self pre.length ++ accessesOf pre.length (flatCells lay.cells pay.cells (selfSize lay.self)) ++
        selfSetAcc lay.self pre.length ∧
    (accessesOf pre.length (flatNode lay pay)).Sublist (expectedTrace lay.sk pre.length) ∧
    (∀ a ∈ accessesOf pre.length (flatNode lay pay),
      pre.length ≤ a.pos ∧ a.pos + a.size ≤ pre.length + (serialize lay st).length) ∧
    cursorAfter pre.length (flatNode lay pay) = pre.length ∧
    vmRun ⟨pre.length, pre ++ serialize lay st ++ post⟩ (flatNode lay pay) =
      some (⟨pre.length, pre ++ serialize lay (treeNode lay pay st).1 ++ post⟩, (treeNode lay pay st).2) ∧
    Conforms lay (treeNode lay pay st).1 := by
  have h := flat_nodeA lay pay st pre post hl hc hp
  obtain ⟨hacc, hsub, hcur⟩ := acc_nodeA lay pay pre.length hp
  refine ⟨hacc, hsub, ?_, hcur, h.1, h.2⟩
  intro a ha
  rw [C05_serialize_size lay st hc]
  exact C05_expected_in_bounds lay.sk pre.length (LNode.sk_WF lay) a (hsub.subset ha)

/-- a payload of the strict discipline (no cell skipped) is one of the general one -/
theorem C05_full_payload_is_arms_payload (lay : LNode) (pay : NPay) (h : NPayOk lay pay) : NPayOkA lay pay :=
  ⟨h.1, payOkA_of_payOk.payOkAL_of_payOkL lay.cells pay.cells h.2⟩

/-- **one sample of a function instance: reference evaluator = flat machine, state inside `if` arms included.**  As
`C05_eval_instance_is_flat_call` with `VisitsA` in place of `Visits`: the payload the evaluation computes skips the cells of
the arms not taken; the flat call performs an in-order sub-selection of `expectedTrace lay.sk`, in bounds, cursor restored,
and leaves the flat image of the next tree, which conforms again -/
theorem C05_eval_instance_is_flat_call_arms (fuel : Nat) (P : Prog) (rt : Rt) (env : Env) (σ : Store) (lay : LNode)
    (body : Expr) (st : SNode) (v : Val) (σ' : Store) (st1 : SNode)
    (hl : lay.Ok) (hc : Conforms lay st) (hvis : VisitsA P body lay.cells)
    (h : eval fuel P rt env body σ (initSelf lay.self st) = .ok (v, σ', st1)) :
    ∃ ps, PayShapeAL lay.cells ps ∧ finSelf lay.self st1 v = (treeNode lay ⟨v, ps⟩ st).1 ∧
      (NPayOkA lay ⟨v, ps⟩ → ∀ pre post : List UInt64,
        vmRun ⟨pre.length, pre ++ serialize lay st ++ post⟩ (flatNode lay ⟨v, ps⟩) =
          some (⟨pre.length, pre ++ serialize lay (finSelf lay.self st1 v) ++ post⟩, (treeNode lay ⟨v, ps⟩ st).2) ∧
        (accessesOf pre.length (flatNode lay ⟨v, ps⟩)).Sublist (expectedTrace lay.sk pre.length) ∧
        (∀ a ∈ accessesOf pre.length (flatNode lay ⟨v, ps⟩),
          pre.length ≤ a.pos ∧ a.pos + a.size ≤ pre.length + (serialize lay st).length) ∧
        cursorAfter pre.length (flatNode lay ⟨v, ps⟩) = pre.length ∧
        Conforms lay (finSelf lay.self st1 v)) := by
  obtain ⟨ps, hp, he⟩ := treeNode_of_effA lay st v st1 ((eval_visitsA P rt fuel).1 body _ env σ _ v σ' st1 hvis h)
  refine ⟨ps, hp, he, fun hpay pre post => ?_⟩
  have := C05_flat_eq_tree_arms lay ⟨v, ps⟩ st pre post hl hc hpay
  rw [he]
  exact ⟨this.2.2.2.2.1, this.2.1, this.2.2.1, this.2.2.2.1, this.2.2.2.2.2⟩

/-! non-vacuity of `Visits`: the body `self + (mem(x) + f(delay(3, x, 1)))` with `f(y) = mem(y)` visits
`[mem 0, delay 1 3, child 2 [mem 0]]` -/
example :
    let P : Prog := ⟨[], [⟨"f", ["y"], .mem (.var "y") 0, none⟩], ⟨"dsp", ["x"], .lit 0, none⟩⟩
    let body : Expr := .bin .add .self (.bin .add (.mem (.var "x") 0) (.call "f" [.delay 3 (.var "x") (.lit 1) 1] 2))
    Visits P body [.mem 0, .delay 1 3, .child 2 none [.mem 0]] := by
  intro P body
  have hf : ∀ d, findFn P.fns "f" = some d → d = ⟨"f", ["y"], .mem (.var "y") 0, none⟩ := by
    intro d hd; simp [P, findFn] at hd; exact hd.symm
  have h : Visits P body ([] ++ (([] ++ [.mem 0]) ++ ((([] ++ [] ++ [.delay 1 3]) ++ []) ++ [.child 2 none ([] ++ [.mem 0])]))) :=
    .bin .self (.bin (.mem .var) (.call (.cons (.delay .var .lit) .nil)
      (fun d hd => by rw [hf d hd]) (fun d hd => by rw [hf d hd]; exact .mem .var)))
  simpa using h

/-! non-vacuity of the three theorems above: a body `self + mem(x) + f(delay(3, x, 1))` with `f(y) = mem(y)`,
covered by the layout `[mem 0, delay 1 3, child 2 [mem 0]]`; the empty tree and the all-zero canonical tree are
different trees that conform and have the same words -/
example :
    let P : Prog := ⟨[], [⟨"f", ["y"], .mem (.var "y") 0, none⟩], ⟨"dsp", ["x"], .lit 0, none⟩⟩
    let body : Expr := .bin .add .self (.bin .add (.mem (.var "x") 0) (.call "f" [.delay 3 (.var "x") (.lit 1) 1] 2))
    let lay : LNode := ⟨some .num, [.mem 0, .delay 1 3, .child 2 none [.mem 0]]⟩
    lay.Ok ∧ Covers P lay.cells body ∧ ConformsS lay SNode.empty ∧ ConformsS lay (deserialize lay (serialize lay SNode.empty)) ∧
    serialize lay SNode.empty = serialize lay (deserialize lay (serialize lay SNode.empty)) := by
  intro P body lay
  have hl : lay.Ok := by simp [lay, LNode.Ok, LayOkL, LayOk, sitesOf, LCell.site]
  have hcov : Covers P lay.cells body := by
    refine .bin .self (.bin (.mem .var (by simp [lay])) (.call (self := none) (cells' := [.mem 0]) ?_ (by simp [lay]) ?_ ?_))
    · intro e he
      simp only [List.mem_singleton] at he
      subst he
      exact .delay .var .lit (by simp [lay])
    · intro d hd
      simp [P, findFn] at hd
      subst hd; rfl
    · intro d hd
      simp [P, findFn] at hd
      subst hd
      exact .mem .var (by simp)
  have hc0 : ConformsS lay SNode.empty := by
    refine ⟨?_, ?_⟩
    · intro v hv; simp [SNode.empty, SNode.selfv] at hv
    · simp [lay, ConfSL, ConfS, SelfOkS, SNode.empty, SNode.childAt, SNode.ringAt, SNode.cells, SNode.selfv, lookupCell,
        Ring.zero]
  have hlen : (serialize lay SNode.empty).length = lay.size := serialize_length lay _ (conformsS_conforms _ _ hc0)
  have hr := serialize_deserialize lay _ hl hlen
  exact ⟨hl, hcov, hc0, canon_conformsS lay _ hl hr.2, hr.1.symm⟩

/-! non-vacuity: a layout with a tuple-valued `self`, a mem, a nested stateful call with scalar `self`, a delay and a
mem, and a stateless-self child; the hypotheses hold for the empty tree and a payload, and the call does what the
theorem says (second call, so that the state is not all zeros) -/
example :
    let lay : LNode := ⟨some (.tup [.num, .num]), [.mem 7, .child 3 (some .num) [.delay 4 3, .mem 9], .child 11 none [.mem 2]]⟩
    let pay : NPay := ⟨.tup [.num 100, .num 101], [.mem 42, .child (.num 77) [.delay 55 0, .mem 43], .child (.num 0) [.mem 44]]⟩
    lay.Ok ∧ Conforms lay SNode.empty ∧ NPayOk lay pay := by
  refine ⟨?_, ⟨?_, ?_⟩, ?_⟩
  · simp [LNode.Ok, LayOkL, LayOk, sitesOf, LCell.site]
  · intro v hv; simp [SNode.empty, SNode.selfv] at hv
  · simp [ConfL, Conf, SelfOk, SNode.empty, SNode.childAt, SNode.ringAt, SNode.cells, SNode.selfv, lookupCell, Ring.zero]
  · simp [NPayOk, RetOk, PayOkL, PayOk, flattenVal, flattenVals, shapeSize, shapeSizeL]

example :
    let lay : LNode := ⟨some (.tup [.num, .num]), [.mem 7, .child 3 (some .num) [.mem 9], .child 11 none [.mem 2]]⟩
    let pay : NPay := ⟨.tup [.num 100, .num 101], [.mem 42, .child (.num 77) [.mem 43], .child (.num 0) [.mem 44]]⟩
    let st1 := (treeNode lay pay SNode.empty).1
    serialize lay st1 = [100, 101, 42, 77, 43, 44] ∧
    vmRun ⟨0, serialize lay st1⟩ (flatNode lay pay) = some (⟨0, [100, 101, 42, 77, 43, 44]⟩, [100, 101, 42, 77, 43, 44]) ∧
    accessesOf 0 (flatNode lay pay) = expectedTrace lay.sk 0 := by
  decide +kernel

/-! non-vacuity of `C05_every_skeleton_labelled` and of the round trips: the skeleton of the first example of this
file is well formed with word-sized rings; the tree read from any 10 words is canonical -/
example :
    let cs := [Sk.fn [.feed 2, .mem 1], .delay 3, .fn [.feed 1, .fn [.mem 1]]]
    WF (.fn cs) = true ∧ SkFits (.fn cs) ∧ (ofSk (.fn cs)).size = 10 ∧
    Canon (ofSk (.fn cs)) (deserialize (ofSk (.fn cs)) [1, 2, 3, 4, 5, 6, 7, 8, 9, 10]) := by
  intro cs
  have hw : WF (.fn cs) = true := by decide +kernel
  have hf : SkFits (.fn cs) := by simp [cs, SkFits, SkFitsL]
  have hs : (ofSk (.fn cs)).size = 10 := by decide +kernel
  have hsk := C05_every_skeleton_labelled cs hw hf
  exact ⟨hw, hf, hs, (C05_serialize_deserialize _ _ hsk.2 (by rw [LNode.sk_size, hs]; rfl)).2.1⟩

end Mimium.FlatTree

namespace Mimium.Publish
open Mimium.Core Mimium.Cells Mimium.StateTree Mimium.Layout Mimium.StateMachine Mimium.FlatTree

/-! ## the published layout, computed (third part of this file, namespace `Mimium.Publish`)

`Model/Publish.lean` defines IN LEAN what mirgen publishes for a function: `publishFnN n P d` (`publishFn` = depth
`|P.fns|`) — the labelled layout built the way `eval_expr` builds `state_skeleton` (operands before the operation,
arguments left to right, the callee's layout as a child, `self` as the leading `Feed`, nothing for a lambda, the LARGER arm
of an `if`) — and `publishedSk lay`, the bare skeleton (`emit_fncall` publishes nothing for a callee without state).  The
correspondence stage compares `publishedSk (publishFn P dsp)` with the skeleton of the real compiler for every generated
program.  The theorems below discharge the hypotheses `Visits` / `Covers` / `LNode.Ok` of the evaluator-level theorems
above for that layout, for EVERY program, function, call depth `n`: what remains are syntactic, decidable class predicates
* `noStateInArmsN n P body` — no cell is published for an arm of an `if`, in the body and in every function it
  transitively calls (outside this class mirgen's layout is NOT visited in order: finding F3);
* `SitesUnique P`, `SitesOk body` — the stateful sites of one function body are pairwise distinct, ring lengths < 2^64;
and `publishFnN n P d = some lay` (every called function exists and the call graph below `d` is acyclic within depth `n`). -/

/-- **the published layout is visited.**  For every program, expression and call depth: if no cell is published for an
`if` arm (here and in the callees), the evaluation of `e` visits exactly the cells `pubE` publishes for it, in that
order, once each (`Visits`), and hence every stateful construct of `e` owns a cell of its kind in them (`Covers`) -/
theorem C05_publish_visits (n : Nat) (P : Prog) (e : Expr) (seg : List LCell)
    (harms : noStateInArmsN n P e = true) (hpub : publishEN n P e = some seg) :
    Visits P e seg ∧ Covers P seg e :=
  have hv := publishEN_visits n P e seg harms hpub
  ⟨hv, visits_covers P hv seg (fun _ h => h)⟩

/-- the same for a function: its layout is `self` shape + the cells its body visits -/
theorem C05_publishFn_visits (n : Nat) (P : Prog) (d : FnDecl) (lay : LNode)
    (harms : noStateInArmsN n P d.body = true) (hpub : publishFnN n P d = some lay) :
    lay.self = d.selfShape ∧ Visits P d.body lay.cells ∧ Covers P lay.cells d.body :=
  have hi := publishFnN_inv hpub
  ⟨hi.1, C05_publish_visits n P d.body lay.cells harms hi.2⟩

/-- `Visits` is the stronger discipline: whatever is visited is covered (so `Covers` never was an independent hypothesis) -/
theorem C05_visits_covers (P : Prog) (e : Expr) (seg cells : List LCell) (h : Visits P e seg)
    (hsub : ∀ c ∈ seg, c ∈ cells) : Covers P cells e := visits_covers P h cells hsub

/-- **the published layout is well formed.**  Sibling cells have distinct sites and ring lengths fit a word
(`LNode.Ok`) when the stateful sites of every function body are pairwise distinct and ring lengths are < 2^64 -/
theorem C05_publish_ok (n : Nat) (P : Prog) (d : FnDecl) (lay : LNode)
    (hs : SitesUnique P) (hd : SitesOk d.body) (hpub : publishFnN n P d = some lay) : lay.Ok :=
  publishEN_ok n P d.body lay.cells hs hd (publishFnN_inv hpub).2

/-- **the bare skeleton means the same.**  Dropping the zero-sized children of calls of stateless functions (what
`emit_fncall` does) keeps the skeleton well formed, keeps its total size (the storage `execute_idx` allocates) and the
access sequence it prescribes, at every base address -/
theorem C05_published_skeleton_same_meaning (lay : LNode) :
    WF (publishedSk lay) = true ∧ (publishedSk lay).size = lay.sk.size ∧
    ∀ b, expectedTrace (publishedSk lay) b = expectedTrace lay.sk b := publishedSk_spec lay

/-- **one sample of any function instance: reference evaluator = flat machine at the published offsets.**
For every program `P`, function `d` (of `P` or not), call depth `n` with `publishFnN n P d = some lay`, in the class
(no cell published for an `if` arm, sites unique): one sample of an instance of `d` in the reference semantics (`self`
zero-initialised if absent, body evaluated against the instance's tree `st`, returned value stored as the new `self`) and the
state instructions of the call, run on the flat image `serialize lay st` of the tree anywhere in a larger storage, commute
with `serialize`; the accesses are exactly those the PUBLISHED skeleton prescribes at that base, every one inside the
region of `total_size` words, the cursor returns, the rest of the storage is untouched, and the next tree conforms again.
No `Visits` / `Covers` / `LNode.Ok` hypothesis is left.  (`NPayOk`: returned values have the word count of their `Feed`
cell — a typing fact; the soundness of the type checker is not proved, see C03.) -/
theorem C05_published_instance_is_flat_call (fuel n : Nat) (P : Prog) (d : FnDecl) (lay : LNode)
    (rt : Rt) (env : Env) (σ : Store) (st : SNode) (v : Val) (σ' : Store) (st1 : SNode)
    (hpub : publishFnN n P d = some lay)
    (harms : noStateInArmsN n P d.body = true) (hs : SitesUnique P) (hd : SitesOk d.body)
    (hc : Conforms lay st)
    (h : eval fuel P rt env d.body σ (initSelf d.selfShape st) = .ok (v, σ', st1)) :
    ∃ ps, PayShapeL lay.cells ps ∧ finSelf d.selfShape st1 v = (treeNode lay ⟨v, ps⟩ st).1 ∧
      (NPayOk lay ⟨v, ps⟩ → ∀ pre post : List UInt64,
        vmRun ⟨pre.length, pre ++ serialize lay st ++ post⟩ (flatNode lay ⟨v, ps⟩) =
          some (⟨pre.length, pre ++ serialize lay (finSelf d.selfShape st1 v) ++ post⟩, (treeNode lay ⟨v, ps⟩ st).2) ∧
        accessesOf pre.length (flatNode lay ⟨v, ps⟩) = expectedTrace (publishedSk lay) pre.length ∧
        (∀ a ∈ expectedTrace (publishedSk lay) pre.length,
          pre.length ≤ a.pos ∧ a.pos + a.size ≤ pre.length + (publishedSk lay).size) ∧
        (serialize lay st).length = (publishedSk lay).size ∧
        Conforms lay (finSelf d.selfShape st1 v)) := by
  obtain ⟨hself, hvis, _⟩ := C05_publishFn_visits n P d lay harms hpub
  have hl := C05_publish_ok n P d lay hs hd hpub
  rw [← hself] at h ⊢
  obtain ⟨ps, hp, he, hrest⟩ := C05_eval_instance_is_flat_call fuel P rt env σ lay d.body st v σ' st1 hl hc hvis h
  obtain ⟨hwf, hsz, htr⟩ := publishedSk_spec lay
  refine ⟨ps, hp, he, fun hpay pre post => ?_⟩
  obtain ⟨hrun, hacc, hconf⟩ := hrest hpay pre post
  refine ⟨hrun, by rw [htr]; exact hacc, ?_, by rw [hsz]; exact C05_serialize_size lay st hc, hconf⟩
  exact C05_expected_in_bounds (publishedSk lay) pre.length hwf

/-- the published storage loses nothing the evaluator can see: what an instance of `d` returns, sample after sample,
depends only on its flat state words laid out by the published layout (`Covers` discharged) -/
theorem C05_published_same_words_same_eval_future (fuel n : Nat) (P : Prog) (d : FnDecl) (lay : LNode)
    (samples : List (Rt × Env × Store)) (a b : SNode)
    (hpub : publishFnN n P d = some lay)
    (harms : noStateInArmsN n P d.body = true) (hs : SitesUnique P) (hd : SitesOk d.body)
    (ha : ConformsS lay a) (hb : ConformsS lay b) (h : serialize lay a = serialize lay b) :
    instRun fuel P d.selfShape d.body samples a = instRun fuel P d.selfShape d.body samples b := by
  obtain ⟨hself, _, hcov⟩ := C05_publishFn_visits n P d lay harms hpub
  rw [← hself]
  exact C05_same_words_same_eval_future fuel P lay d.body samples a b (C05_publish_ok n P d lay hs hd hpub) hcov ha hb h

/-- `C05_eval_respects_agreement` for the published layout of a function (hypotheses `LayOkL`, `Covers` discharged) -/
theorem C05_published_eval_respects_agreement (n : Nat) (P : Prog) (d : FnDecl) (lay : LNode) (rt : Rt) (fuel : Nat)
    (env : Env) (σ : Store) (st₁ st₂ : SNode)
    (hpub : publishFnN n P d = some lay)
    (harms : noStateInArmsN n P d.body = true) (hs : SitesUnique P) (hd : SitesOk d.body)
    (hag : AgreeN lay.cells st₁ st₂) :
    SRel (RE lay.cells) (eval fuel P rt env d.body σ st₁) (eval fuel P rt env d.body σ st₂) :=
  C05_eval_respects_agreement P rt fuel d.body lay.cells env σ st₁ st₂ (C05_publish_ok n P d lay hs hd hpub)
    (C05_publishFn_visits n P d lay harms hpub).2.2 hag

/-- `C05_eval_state_effect_is_tree_ops` for the cells published for ANY expression (hypothesis `Visits` discharged):
a successful evaluation changes the state tree exactly as the per-site tree operations of the published cells do -/
theorem C05_published_state_effect_is_tree_ops (n : Nat) (P : Prog) (rt : Rt) (fuel : Nat) (e : Expr) (seg : List LCell)
    (env : Env) (σ : Store) (st : SNode) (v : Val) (σ' : Store) (st' : SNode)
    (hpub : publishEN n P e = some seg) (harms : noStateInArmsN n P e = true)
    (h : eval fuel P rt env e σ st = .ok (v, σ', st')) :
    ∃ ps, PayShapeL seg ps ∧ st' = (treeCells seg ps st).1 :=
  C05_eval_state_effect_is_tree_ops P rt fuel e seg env σ st v σ' st' (C05_publish_visits n P e seg harms hpub).1 h

/-- the wider class contains the narrow one -/
theorem C05_wider_class (n : Nat) (P : Prog) (e : Expr) (h : noStateInArmsN n P e = true) :
    noStatefulInArmsN n P e = true := noStatefulInArmsN_of_noStateInArmsN n P e h

/-- **the same for the wider class: calls of functions WITHOUT state inside `if` arms allowed** (the class of the
generator's `avoid_f3` profiles: no `mem`, `delay` or call of a function with state inside an `if` arm, here and in the
callees).  The reference semantics creates a (stateless) child node at such a call site only when its arm runs, so the
tree after the sample and the tree `treeNode` computes may differ at sites the layout does not own; their FLAT IMAGES are
equal, which is all the flat machine sees: one sample of any function instance in the reference semantics and the state
instructions of the call on the flat storage laid out by the published layout commute with `serialize`; accesses exactly
those the published skeleton prescribes, in bounds, cursor restored, next tree conforming again.  (Proof: frame property of
`eval` — an expression changes the state node only at its own sites —, the per-site tree operations respect agreement on
the layout's cells, visiting stateless cells is the identity up to that agreement; induction on the fuel over all 18
constructs.) -/
theorem C05_published_instance_is_flat_call_stateless_arms (fuel n : Nat) (P : Prog) (d : FnDecl) (lay : LNode)
    (rt : Rt) (env : Env) (σ : Store) (st : SNode) (v : Val) (σ' : Store) (st1 : SNode)
    (hpub : publishFnN n P d = some lay)
    (harms : noStatefulInArmsN n P d.body = true) (hs : SitesUnique P) (hd : SitesOk d.body)
    (hc : Conforms lay st)
    (h : eval fuel P rt env d.body σ (initSelf d.selfShape st) = .ok (v, σ', st1)) :
    ∃ ps, PayShapeL lay.cells ps ∧
      serialize lay (finSelf d.selfShape st1 v) = serialize lay (treeNode lay ⟨v, ps⟩ st).1 ∧
      (NPayOk lay ⟨v, ps⟩ → ∀ pre post : List UInt64,
        vmRun ⟨pre.length, pre ++ serialize lay st ++ post⟩ (flatNode lay ⟨v, ps⟩) =
          some (⟨pre.length, pre ++ serialize lay (finSelf d.selfShape st1 v) ++ post⟩, (treeNode lay ⟨v, ps⟩ st).2) ∧
        accessesOf pre.length (flatNode lay ⟨v, ps⟩) = expectedTrace (publishedSk lay) pre.length ∧
        (∀ a ∈ expectedTrace (publishedSk lay) pre.length,
          pre.length ≤ a.pos ∧ a.pos + a.size ≤ pre.length + (publishedSk lay).size) ∧
        (serialize lay st).length = (publishedSk lay).size ∧
        Conforms lay (finSelf d.selfShape st1 v)) := by
  obtain ⟨hself, hcells⟩ := publishFnN_inv hpub
  obtain ⟨hvis, hjunk⟩ := publishEN_visitsZ n P d.body lay.cells hs hd harms hcells
  have hl := C05_publish_ok n P d lay hs hd hpub
  rw [← hself] at h ⊢
  obtain ⟨ps, hp, hsame⟩ := (eval_visitsZ P rt fuel).1 d.body lay.cells _ lay.cells env σ _ v σ' st1 hl (fun _ hm => hm)
    hjunk hvis h
  have hsame' : SameN lay.cells (finSelf lay.self st1 v) (treeNode lay ⟨v, ps⟩ st).1 := by
    have := same_finSelf lay.self lay.cells _ _ v hsame
    simpa [treeNode, treeNodeWith_fst] using this
  have hser := serialize_same lay _ _ hsame'
  obtain ⟨hwf, hsz, htr⟩ := publishedSk_spec lay
  refine ⟨ps, hp, hser, fun hpay pre post => ?_⟩
  obtain ⟨hacc, _, hrun, hconf⟩ := C05_flat_eq_tree lay ⟨v, ps⟩ st pre post hl hc hpay
  refine ⟨by rw [hser]; exact hrun, by rw [htr]; exact hacc, C05_expected_in_bounds (publishedSk lay) pre.length hwf,
    by rw [hsz]; exact C05_serialize_size lay st hc, conforms_same lay _ _ hsame'.symm hconf⟩

/-! ### no class condition (after the repair of finding F3) -/

/-- **the published layout is reached in order, for EVERY program**: whatever `pubE` publishes for an expression — the
cells of the condition, of the `then` arm and of the `else` arm of every `if` — is `VisitsA`-visited by it -/
theorem C05_publish_visits_arms (n : Nat) (P : Prog) (e : Expr) (seg : List LCell) (hpub : publishEN n P e = some seg) :
    VisitsA P e seg := publishEN_visitsA n P e seg hpub

/-- `C05_eval_state_effect_is_tree_ops_arms` for the cells published for ANY expression of ANY program -/
theorem C05_published_state_effect_is_tree_ops_arms (n : Nat) (P : Prog) (rt : Rt) (fuel : Nat) (e : Expr)
    (seg : List LCell) (env : Env) (σ : Store) (st : SNode) (v : Val) (σ' : Store) (st' : SNode)
    (hpub : publishEN n P e = some seg) (h : eval fuel P rt env e σ st = .ok (v, σ', st')) :
    ∃ ps, PayShapeAL seg ps ∧ st' = (treeCells seg ps st).1 :=
  C05_eval_state_effect_is_tree_ops_arms P rt fuel e seg env σ st v σ' st' (C05_publish_visits_arms n P e seg hpub) h

/-- **one sample of any function instance: reference evaluator = flat machine at the published offsets — no class
condition** (`C05_published_instance_is_flat_call` without `noStateInArmsN`: stateful constructs inside `if` arms allowed).
For every program `P`, function `d`, call depth `n` with `publishFnN n P d = some lay` and unique sites: one sample of an
instance of `d` in the reference semantics and the state instructions of the call — every cell bracketed by push / pop of
its published offset, the cells of the arms not taken skipped —, run on the flat image `serialize lay st` anywhere in a
larger storage, commute with `serialize` (tree equality, as in the narrow class); the accesses are an in-order
sub-selection of those the PUBLISHED skeleton prescribes at that base (`self` first and last), every one inside the region
of `total_size` words, the cursor returns, the rest of the storage is untouched, and the next tree conforms again -/
theorem C05_published_instance_is_flat_call_arms (fuel n : Nat) (P : Prog) (d : FnDecl) (lay : LNode)
    (rt : Rt) (env : Env) (σ : Store) (st : SNode) (v : Val) (σ' : Store) (st1 : SNode)
    (hpub : publishFnN n P d = some lay) (hs : SitesUnique P) (hd : SitesOk d.body)
    (hc : Conforms lay st)
    (h : eval fuel P rt env d.body σ (initSelf d.selfShape st) = .ok (v, σ', st1)) :
    ∃ ps, PayShapeAL lay.cells ps ∧ finSelf d.selfShape st1 v = (treeNode lay ⟨v, ps⟩ st).1 ∧
      (NPayOkA lay ⟨v, ps⟩ → ∀ pre post : List UInt64,
        vmRun ⟨pre.length, pre ++ serialize lay st ++ post⟩ (flatNode lay ⟨v, ps⟩) =
          some (⟨pre.length, pre ++ serialize lay (finSelf d.selfShape st1 v) ++ post⟩, (treeNode lay ⟨v, ps⟩ st).2) ∧
        accessesOf pre.length (flatNode lay ⟨v, ps⟩) =
          selfGetAcc lay.self pre.length ++ accessesOf pre.length (flatCells lay.cells ps (selfSize lay.self)) ++
            selfSetAcc lay.self pre.length ∧
        (accessesOf pre.length (flatNode lay ⟨v, ps⟩)).Sublist (expectedTrace (publishedSk lay) pre.length) ∧
        (∀ a ∈ accessesOf pre.length (flatNode lay ⟨v, ps⟩),
          pre.length ≤ a.pos ∧ a.pos + a.size ≤ pre.length + (publishedSk lay).size) ∧
        cursorAfter pre.length (flatNode lay ⟨v, ps⟩) = pre.length ∧
        (serialize lay st).length = (publishedSk lay).size ∧
        Conforms lay (finSelf d.selfShape st1 v)) := by
  obtain ⟨hself, hcells⟩ := publishFnN_inv hpub
  have hvis := C05_publish_visits_arms n P d.body lay.cells hcells
  have hl := C05_publish_ok n P d lay hs hd hpub
  rw [← hself] at h ⊢
  obtain ⟨ps, hp, he⟩ := treeNode_of_effA lay st v st1 ((eval_visitsA P rt fuel).1 d.body _ env σ _ v σ' st1 hvis h)
  obtain ⟨hwf, hsz, htr⟩ := publishedSk_spec lay
  refine ⟨ps, hp, he, fun hpay pre post => ?_⟩
  obtain ⟨hacc, hsub, hin, hcur, hrun, hconf⟩ := C05_flat_eq_tree_arms lay ⟨v, ps⟩ st pre post hl hc hpay
  have hlen := C05_serialize_size lay st hc
  refine ⟨by rw [he]; exact hrun, hacc, by rw [htr]; exact hsub, ?_, hcur, by rw [hsz]; exact hlen, by rw [he]; exact hconf⟩
  intro a ha
  have := hin a ha
  rw [hlen, ← hsz] at this
  exact this

/-- **the published layout covers every body** (`Covers`, the hypothesis of the agreement theorems) — no class condition -/
theorem C05_publishFn_covers_arms (n : Nat) (P : Prog) (d : FnDecl) (lay : LNode) (hpub : publishFnN n P d = some lay) :
    lay.self = d.selfShape ∧ VisitsA P d.body lay.cells ∧ Covers P lay.cells d.body :=
  have hi := publishFnN_inv hpub
  ⟨hi.1, C05_publish_visits_arms n P d.body lay.cells hi.2, (publishFnN_coversA n P d lay hpub).2⟩

/-- `C05_published_same_words_same_eval_future` without `noStateInArmsN`: what an instance of ANY function returns, sample
after sample, depends only on its flat state words laid out by the published layout -/
theorem C05_published_same_words_same_eval_future_arms (fuel n : Nat) (P : Prog) (d : FnDecl) (lay : LNode)
    (samples : List (Rt × Env × Store)) (a b : SNode)
    (hpub : publishFnN n P d = some lay) (hs : SitesUnique P) (hd : SitesOk d.body)
    (ha : ConformsS lay a) (hb : ConformsS lay b) (h : serialize lay a = serialize lay b) :
    instRun fuel P d.selfShape d.body samples a = instRun fuel P d.selfShape d.body samples b := by
  obtain ⟨hself, _, hcov⟩ := C05_publishFn_covers_arms n P d lay hpub
  rw [← hself]
  exact C05_same_words_same_eval_future fuel P lay d.body samples a b (C05_publish_ok n P d lay hs hd hpub) hcov ha hb h

/-- `C05_published_eval_respects_agreement` without `noStateInArmsN` -/
theorem C05_published_eval_respects_agreement_arms (n : Nat) (P : Prog) (d : FnDecl) (lay : LNode) (rt : Rt) (fuel : Nat)
    (env : Env) (σ : Store) (st₁ st₂ : SNode)
    (hpub : publishFnN n P d = some lay) (hs : SitesUnique P) (hd : SitesOk d.body)
    (hag : AgreeN lay.cells st₁ st₂) :
    SRel (RE lay.cells) (eval fuel P rt env d.body σ st₁) (eval fuel P rt env d.body σ st₂) :=
  C05_eval_respects_agreement P rt fuel d.body lay.cells env σ st₁ st₂ (C05_publish_ok n P d lay hs hd hpub)
    (C05_publishFn_covers_arms n P d lay hpub).2.2 hag

/-! non-vacuity of the `_arms` theorems on the witness of the former finding F3, `dsp() = if (now > 2) counter() else
counter()*100`, layout `[child 1 (self), child 2 (self)]`: a call in which the `else` arm runs has the payload
`[skip, child 9]`; on the storage `[5, 7]` it reads and writes the SECOND word only (`get 1`, `set 1`), which the generalised
checker accepts and the strict one rejects; the tree operation leaves the first instance alone -/
example :
    let lay : LNode := ⟨none, [.child 1 (some .num) [], .child 2 (some .num) []]⟩
    let pay : NPay := ⟨.num 0, [.skip, .child (.num 9) []]⟩
    NPayOkA lay pay ∧ lay.Ok ∧
    accessesOf 0 (flatNode lay pay) = [⟨.get, 1, 1⟩, ⟨.set, 1, 1⟩] ∧
    conformsSel (publishedSk lay) (accessesOf 0 (flatNode lay pay)) (cursorAfter 0 (flatNode lay pay)) = true ∧
    conforms (publishedSk lay) (accessesOf 0 (flatNode lay pay)) (cursorAfter 0 (flatNode lay pay)) = false ∧
    vmRun ⟨0, [5, 7]⟩ (flatNode lay pay) = some (⟨0, [5, 9]⟩, [7]) := by
  intro lay pay
  refine ⟨?_, ?_, ?_, ?_, ?_, ?_⟩
  · simp [NPayOkA, RetOk, PayOkAL, PayOkA, lay, pay, flattenVal, shapeSize]
  · simp [LNode.Ok, LayOkL, LayOk, sitesOf, LCell.site, lay]
  · rfl
  · decide +kernel
  · decide +kernel
  · decide +kernel

/-- `publishFn` / `publishE` / `noStateInArms` are the instances at depth `|P.fns|` -/
theorem C05_publishFn_is_depth_instance (P : Prog) (d : FnDecl) (e : Expr) :
    publishFn P d = publishFnN P.fns.length P d ∧ publishE P e = publishEN P.fns.length P e ∧
    noStateInArms P e = noStateInArmsN P.fns.length P e ∧
    noStatefulInArms P e = noStatefulInArmsN P.fns.length P e := ⟨rfl, rfl, rfl, rfl⟩

/-- **the call depth is irrelevant once it suffices**: a layout computed at depth `n` is the layout at every depth
`m ≥ n`, and membership in the class persists (so the theorems above, stated for every `n`, speak about one layout) -/
theorem C05_publish_depth_irrelevant (P : Prog) (n m : Nat) (hnm : n ≤ m) :
    (∀ d lay, publishFnN n P d = some lay → publishFnN m P d = some lay) ∧
    (∀ e seg, publishEN n P e = some seg → publishEN m P e = some seg) ∧
    (∀ e, noStateInArmsN n P e = true → noStateInArmsN m P e = true) ∧
    (∀ e, noStatefulInArmsN n P e = true → noStatefulInArmsN m P e = true) :=
  have h := publish_depth_mono P n m hnm
  ⟨h.1, h.2.1, h.2.2, noStatefulInArmsN_mono P n m hnm⟩

/-! non-vacuity of the five theorems above.  `f(y) = mem(y)`, `g(y) = y*2` (no state), `c() = self + g(1)` and
`dsp(x) = self + mem(x) + f(delay(3, x, 1)) + g(c()) + (if x then (|q| mem(q))(1) else 2)` with a one-word tuple `self`:
the published labelled layout has a mem, a delay, a child with a mem, a child with `self` and a zero-sized grandchild (the
call of `g`), and a zero-sized child (the call of `g`); the bare skeleton drops the two zero-sized ones; the lambda's `mem`
is not published here; the program is in the class -/
example :
    let fF : FnDecl := ⟨"f", ["y"], .mem (.var "y") 0, none⟩
    let gF : FnDecl := ⟨"g", ["y"], .bin .mul (.var "y") (.lit 2), none⟩
    let cF : FnDecl := ⟨"c", [], .bin .add .self (.call "g" [.lit 1] 0), some .num⟩
    let dspF : FnDecl := ⟨"dsp", ["x"],
      .bin .add .self (.bin .add (.mem (.var "x") 0)
        (.bin .add (.call "f" [.delay 3 (.var "x") (.lit 1) 1] 2)
          (.bin .add (.call "g" [.call "c" [] 3] 4)
            (.ite (.var "x") (.app (.lam ["q"] (.mem (.var "q") 7)) [.lit 1]) (.lit 2))))), some (.tup [.num])⟩
    let P : Prog := ⟨[], [fF, gF, cF], dspF⟩
    let lay : LNode := ⟨some (.tup [.num]),
      [.mem 0, .delay 1 3, .child 2 none [.mem 0], .child 3 (some .num) [.child 0 none []], .child 4 none []]⟩
    publishFn P dspF = some lay ∧ noStateInArms P dspF.body = true ∧ SitesUnique P ∧ SitesOk dspF.body ∧
    publishedSk lay = .fn [.feed 1, .mem 1, .delay 3, .fn [.mem 1], .fn [.feed 1]] ∧
    lay.sk = .fn [.feed 1, .mem 1, .delay 3, .fn [.mem 1], .fn [.feed 1, .fn []], .fn []] := by
  intro fF gF cF dspF P lay
  refine ⟨rfl, rfl, ?_, ?_, rfl, rfl⟩
  · intro d hd
    simp only [P, List.mem_cons, List.not_mem_nil, or_false] at hd
    rcases hd with rfl | rfl | rfl <;> simp [SitesOk, siteLens, siteLensL, fF, gF, cF]
  · simp [SitesOk, siteLens, siteLensL, dspF]

/-! non-vacuity of `C05_published_instance_is_flat_call_stateless_arms`: `g(y) = y*2`, `h(y) = if y then g(y) else 3`,
`dsp(x) = mem(x) + (if x then h(x) else g(1) + g(2))`: outside the narrow class, inside the wide one; the labelled layout
lists the (zero-sized) cells of both arms, `then` first, the bare skeleton is `F[M1]` -/
example :
    let gF : FnDecl := ⟨"g", ["y"], .bin .mul (.var "y") (.lit 2), none⟩
    let hF : FnDecl := ⟨"h", ["y"], .ite (.var "y") (.call "g" [.var "y"] 0) (.lit 3), none⟩
    let dspF : FnDecl := ⟨"dsp", ["x"],
      .bin .add (.mem (.var "x") 0)
        (.ite (.var "x") (.call "h" [.var "x"] 1) (.bin .add (.call "g" [.lit 1] 2) (.call "g" [.lit 2] 3))), none⟩
    let P : Prog := ⟨[], [gF, hF], dspF⟩
    let lay : LNode := ⟨none, [.mem 0, .child 1 none [.child 0 none []], .child 2 none [], .child 3 none []]⟩
    publishFn P dspF = some lay ∧ noStateInArms P dspF.body = false ∧ noStatefulInArms P dspF.body = true ∧
    SitesUnique P ∧ SitesOk dspF.body ∧ publishedSk lay = .fn [.mem 1] := by
  intro gF hF dspF P lay
  refine ⟨rfl, rfl, rfl, ?_, ?_, rfl⟩
  · intro d hd
    simp only [P, List.mem_cons, List.not_mem_nil, or_false] at hd
    rcases hd with rfl | rfl <;> simp [SitesOk, siteLens, siteLensL, gF, hF]
  · simp [SitesOk, siteLens, siteLensL, dspF]

/-- **state inside `if` arms: every call site owns its own cell (formerly finding F3, repaired by F3-1).**
`counter() = self + 1`, `dsp() = if (now > 2) counter() else counter()*100`: the compiler publishes TWO children, one per
call site, `then` arm first (before the repair: one, overlaid); the layout is well formed (`LNode.Ok`), covers both call
sites (`Covers`), and the bare skeleton has two one-word instances.  The program is outside the class of the strict
straight-line discipline (`Visits` demands stateless arms: a call visits only the cells of the arm taken), which is what
`VisitsA` / `C05_eval_state_effect_is_tree_ops_arms` generalise -/
theorem C05_state_in_arms_own_cells :
    let counterF : FnDecl := ⟨"counter", [], .bin .add .self (.lit 1), some .num⟩
    let dsp : FnDecl := ⟨"dsp", [],
      .ite (.bin .gt .now (.lit 2)) (.call "counter" [] 1) (.bin .mul (.call "counter" [] 2) (.lit 100)), none⟩
    let P : Prog := ⟨[], [counterF], dsp⟩
    let lay : LNode := ⟨none, [.child 1 (some .num) [], .child 2 (some .num) []]⟩
    publishFn P dsp = some lay ∧ noStateInArms P dsp.body = false ∧ lay.Ok ∧ Covers P lay.cells dsp.body ∧
    publishedSk lay = .fn [.fn [.feed 1], .fn [.feed 1]] ∧ (∀ seg, ¬ Visits P dsp.body seg) := by
  intro counterF dsp P lay
  have hfind : ∀ d, findFn P.fns "counter" = some d → d = counterF := by
    intro d hd
    simp [P, findFn, counterF] at hd
    exact hd.symm
  refine ⟨rfl, rfl, by simp [lay, LNode.Ok, LayOkL, LayOk, sitesOf, LCell.site], ?_, rfl, ?_⟩
  · refine .ite (.bin .now .lit) ?_ (.bin ?_ .lit)
    · exact .call (self := some .num) (cells' := []) (by simp) (by simp [lay])
        (fun d hd => by rw [hfind d hd]) (fun d hd => by rw [hfind d hd]; exact .bin .self .lit)
    · exact .call (self := some .num) (cells' := []) (by simp) (by simp [lay])
        (fun d hd => by rw [hfind d hd]) (fun d hd => by rw [hfind d hd]; exact .bin .self .lit)
  · intro seg h
    cases h with
    | ite _ ha _ => exact visits_call_ne_nil ha

end Mimium.Publish

namespace Mimium.Mir
open Mimium.StateMachine Mimium.Layout Mimium.StateTree

/-- Soundness of the static state check.  `okSetChecked P ok`: every function of `ok` passes `stateOkFn` against its own
published skeleton, with callees in `ok`.  Then EVERY run (all fuels = call depths, argument words, closures, globals,
storages, cursors, earlier traces) of a function of `ok` in the MIR semantics that returns has appended exactly the accesses
its layout prescribes at the cursor it was called with, and has returned the cursor. -/
theorem C05_mir_state_ok_sound (P : Prog) (ok : List Nat) (hchk : okSetChecked P ok = true)
    (n g : Nat) (hg : g ∈ ok) (ws : List UInt64) (clo : Option Nat) (glob glob' : Glob) (st st' : St)
    (tr tr' : List Access) (out : List UInt64)
    (hrun : runFn P n g ws clo glob st tr = .ok (out, glob', st', tr')) :
    ∃ f, P.fns[g]? = some f ∧ tr' = tr ++ expectedTrace f.sk st.pos ∧ st'.pos = st.pos := by
  have hset : ∀ g ∈ ok, ∃ f cert, P.fns[g]? = some f ∧ stateOkFn P ok f cert = true := by
    intro g hg
    simp only [okSetChecked, List.all_eq_true] at hchk
    have := hchk g hg
    cases hf : P.fns[g]? with
    | none => simp [hf] at this
    | some f => exact ⟨f, inferCert P ok f, rfl, by simpa [hf] using this⟩
  exact runFn_sound hset n g hg ws clo glob st tr out glob' st' tr' hrun

/-- One sample of `dsp` (`Machine.step`: what `drv_mir` runs against the VM): when `dsp` is in a checked set and the cursor
is 0, the recorded accesses are accepted by `Layout.conforms` — the checker the VM's hook traces are judged with — the
cursor is 0 again, and (layout well formed) every access lies inside `total_size`. -/
theorem C05_mir_dsp_sample_conforms (P : Prog) (ok : List Nat) (hchk : okSetChecked P ok = true)
    (d : Nat) (hd : findFn P "dsp" = some d) (hmem : d ∈ ok) (fuel : Nat) (m m' : Machine) (now : UInt64)
    (inputs out : List UInt64) (tr : List Access) (hpos : m.st.pos = 0)
    (hstep : Machine.step fuel P m now inputs = .ok (out, m', tr)) :
    ∃ f, P.fns[d]? = some f ∧ conforms f.sk tr m'.st.pos = true ∧ m'.st.pos = 0 ∧
      (WF f.sk = true → ∀ a ∈ tr, a.pos + a.size ≤ f.sk.size) := by
  simp only [Machine.step, hd, Bind.bind, Except.bind] at hstep
  cases hr : runFn P fuel d inputs none { m.g with mem := #[], now := now } m.st [] with
  | error e => simp [hr] at hstep
  | ok v =>
    obtain ⟨o, g', st', tr'⟩ := v
    simp only [hr, Except.ok.injEq, Prod.mk.injEq] at hstep
    obtain ⟨_, hm, htr⟩ := hstep
    obtain ⟨f, hf, htr', hpos'⟩ := C05_mir_state_ok_sound P ok hchk fuel d hmem inputs none _ g' m.st st' [] tr' o hr
    subst hm; subst htr
    rw [hpos] at htr' hpos'
    simp only [List.nil_append] at htr'
    refine ⟨f, hf, ?_, hpos', ?_⟩
    · simp [conforms, htr', hpos']
    · intro hwf a ha
      rw [htr'] at ha
      have := C05_expected_in_bounds f.sk 0 hwf a ha
      omega


/-! ### non-vacuity on a real dump (`Proofs/MirExample.lean`: the MIR the compiler produced for `corpus/MIR/*.mmm`), kernel-evaluated -/

/-- every function of the example (global initialiser, `cnt` with `self`, `two` with a delay, `mk`, a lambda with `mem`, `dsp` with
three stateful calls, one of them in front of an `if`) passes the static check, and the set is closed under it -/
example : okSet exProg = [0, 1, 2, 3, 4, 5] ∧ okSetChecked exProg (okSet exProg) = true := by decide +kernel

/-- hence EVERY run of its `dsp` (function 5) performs the five accesses of the published layout at the cursor it starts from -/
example (n : Nat) (ws out : List UInt64) (clo : Option Nat) (glob glob' : Glob) (st st' : St) (tr tr' : List Access)
    (h : runFn exProg n 5 ws clo glob st tr = .ok (out, glob', st', tr')) :
    tr' = tr ++ [⟨.delay, 0 + st.pos, 5⟩, ⟨.get, 5 + st.pos, 1⟩, ⟨.set, 5 + st.pos, 1⟩, ⟨.get, 6 + st.pos, 1⟩, ⟨.set, 6 + st.pos, 1⟩]
      ∧ st'.pos = st.pos := by
  obtain ⟨f, hf, h1, h2⟩ := C05_mir_state_ok_sound exProg [0, 1, 2, 3, 4, 5] (by decide +kernel) n 5 (by decide) ws clo glob glob' st st' tr tr' out h
  have hsk : f.sk = .fn [.fn [.delay 3], .fn [.feed 1], .fn [.feed 1]] := by
    have : exProg.fns[5]? = some exProg_dsp := rfl
    rw [this] at hf
    rw [← Option.some.inj hf]; rfl
  refine ⟨?_, h2⟩
  rw [h1, expected_at, hsk]
  have : expectedTrace (.fn [.fn [.delay 3], .fn [.feed 1], .fn [.feed 1]]) 0 =
      [⟨.delay, 0, 5⟩, ⟨.get, 5, 1⟩, ⟨.set, 5, 1⟩, ⟨.get, 6, 1⟩, ⟨.set, 6, 1⟩] := by decide +kernel
  rw [this]; rfl

/-- state inside `if` arms as a failed proof obligation: with a stateful call in both arms of an `if` a run visits the cell of ONE arm
only (on the tree of finding F3 the else arm pushed and the merge block popped unconditionally; since /repo defc5f6 every arm owns its
cell and brackets it itself), so no run performs `expectedTrace` of the published layout and `dsp` is rejected — and only `dsp`: the
set without it is closed, the set with it is not -/
example : okSet exStateInArms = [0, 1] ∧ okSetChecked exStateInArms [0, 1] = true ∧ okSetChecked exStateInArms [0, 1, 2] = false := by
  decide +kernel
end Mimium.Mir
