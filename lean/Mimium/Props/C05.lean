import Mimium.Proofs.Layout
/-!
# C05 — compile-time state layout matches run-time state accesses

`Model/Layout.lean` says what one call of a function instance with published layout `sk` must do to the state
storage (`expectedTrace`).  The check records the real VM's accesses (hook `runtime::vm::verif`) for every dsp call
and applies the executable checker `conforms`; the theorems below are what an accepted trace guarantees, for
EVERY layout: each access touches exactly the words of a leaf cell of the right kind, at the offset the layout
assigns to it, with that cell's size, inside the storage sized from the layout, and the cursor is back at 0.
(The VM/WASM word-for-word comparison after every sample is done by the correspondence stage; the contract that
makes it hold in bounds is `C01_prim_bisim`.)
-/
namespace Mimium.Layout
open Mimium.StateTree

/-- soundness of the checker that judges the implementation's traces -/
theorem C05_conforming_trace_sound (sk : Sk) (trace : List Access) (cursor : Nat)
    (hw : WF sk = true) (h : conforms sk trace cursor = true) :
    cursor = 0 ∧ ∀ a ∈ trace, TouchesLeaf sk 0 a ∧ a.pos + a.size ≤ sk.size := by
  simp only [conforms, Bool.and_eq_true, decide_eq_true_eq, beq_iff_eq] at h
  refine ⟨h.2, ?_⟩
  intro a ha
  rw [h.1] at ha
  have := expected_sound sk 0 hw a ha
  exact ⟨this.1, by omega⟩

/-- the expected trace itself stays inside the storage sized from the layout (`execute_idx` sizes it with `total_size`) -/
theorem C05_expected_in_bounds (sk : Sk) (b : Nat) (hw : WF sk = true) :
    ∀ a ∈ expectedTrace sk b, b ≤ a.pos ∧ a.pos + a.size ≤ b + sk.size := by
  intro a ha
  have := expected_sound sk b hw a ha
  exact ⟨this.2.1, this.2.2⟩

/-- a leaf touched at relative offset `o` really is the cell `path_to_address` finds there:
kinds get/set touch `Feed` cells, `mem` touches `Mem`, `delay` touches `Delay` with its two index words -/
theorem C05_touched_leaf_kind : ∀ (sk : Sk) (b : Nat) (a : Access), TouchesLeaf sk b a →
    (a.kind = .mem → a.size = 1) ∧ (a.kind = .delay → delayExtra ≤ a.size) := by
  intro sk b a h
  induction h with
  | mem s b => simp
  | delay n b => simp
  | feedGet s b => simp
  | feedSet s b => simp
  | child h _ ih => exact ih

/-! non-vacuity: nested stateful calls with a tuple-valued `self`, a mem and a delay -/
example :
    let sk := Sk.fn [.fn [.feed 2, .mem 1], .delay 3, .fn [.feed 1, .fn [.mem 1]]]
    WF sk = true ∧
    expectedTrace sk 0 = [⟨.get, 0, 2⟩, ⟨.mem, 2, 1⟩, ⟨.set, 0, 2⟩, ⟨.delay, 3, 5⟩, ⟨.get, 8, 1⟩, ⟨.mem, 9, 1⟩, ⟨.set, 8, 1⟩] ∧
    sk.size = 10 := by
  decide +kernel

end Mimium.Layout
