import Mimium.Model.Migration
import Mimium.Props.C08
import Mimium.Props.C05
import Mimium.Props.C06
import Mimium.Proofs.LiveCodingVoice
import Mimium.Proofs.LiveCodingVoices
/-!
# C07 — hot swap after an edit preserves the state of untouched signal paths

Proved (all layouts, all storage contents):
* `C07_carried_range_words`: if the executable test `carriesRange` accepts a word range, then after applying the
  plan (in any order — `C08_apply_order_irrelevant`) every word of the range arrives unchanged at its new position;
  hence a voice whose cells are carried continues from exactly its pre-swap state words;
* `C07_new_cells_start_from_zero`: words no patch covers are zero after the VM's migration (new sites start from zero);
* `C07_failed_compile_no_swap`: in the model of the recompile path an edit that does not compile produces no
  payload and leaves the machine untouched.
Decided by correspondence: real edit histories (insert / delete / replace / nest a voice, change a constant, inject
a compile error) on both runtimes; every channel observing an untouched voice must continue as predicted by the
reference semantics of that voice alone, new voices start from zero.  When an untouched voice is NOT carried, the
Lean model of the pinned diff (`carriesChild`) says whether this is finding F5 (model predicts the loss) or a new violation.
* `C07_carried_words_same_state`, `C07_carried_words_same_future` (link "state words carried ⇒ voice continues", built on
  `C05_flat_eq_tree`): the words of a carried voice, read back at the voice's NEW layout position as a state tree
  (`FlatTree.deserialize`), give the tree they encoded at the old position — exactly the same `SNode` when the old tree was
  canonical (every site evaluated, in layout order), hence `Core.eval` of every expression from it is the same (functional
  determinism); and for every conforming tree (sites not yet evaluated, any cell order) a tree with the same flat
  words, hence (a) the same outputs for every sequence of calls of the voice seen as per-site state operations
  (`FlatTree.treeRun`) and (b) — `C05_eval_respects_agreement` — the same returned values of the reference evaluator
  `Core.eval` on the voice's body, sample after sample, all run lengths (`FlatTree.instRun`), for every body whose stateful
  sites are covered by the voice's labelled layout.
* WHOLE SESSIONS (second half of this file, namespace `Mimium.LiveCoding`; model `Model/LiveCoding.lean`: `session` = run, hot
  swap, run … on the reference semantics, each swap = serialise under the published layout, migrate with the model of
  `Machine::new_resume`, read back under the new published layout): `C07_swapState_carried_voice`,
  `C07_session_untouched_voice_transplant` (any programs), `C07_session_fresh_voice` (new sites start from zero),
  **`C07_session_untouched_voice`** (voice programs `let c_i = f_i(k_i); …; (c_a, c_b)`: after the swap every channel observing
  an untouched, carried voice carries exactly the values the voice ALONE returns when continued from its pre-swap state),
  `C07_session_untouched_voice_as_uninterrupted` (… which are the values of the old program's uninterrupted run),
  `C07_voice_program_channel`, `C07_carriesChild_gives_carried_range`.
PARTIAL: the runtimes themselves are corresponded (since this revision against the PREDICTED stream of `session`, sample by
sample), not proved; the session theorems cover call-site voices (not the dsp-level `delay`/`mem` cells the generator wraps
around a third of the voices, nor voices nested deeper by an edit); conformance of the reached state trees (ring lengths,
`self` values of the declared shape — typing facts) and error-freedom of the voice's own run are hypotheses; `Covers` is
discharged by C05's publish theorems where a program is given (`C07_session_*`), a hypothesis in `C07_carried_words_same_future`.
-/
namespace Mimium.Migration
open Mimium.StateTree

theorem wordMoved_spec {ps : List Patch} {a b : Nat} (h : wordMoved ps a b = true) :
    ∃ p ∈ ps, p.covers b ∧ p.src + (b - p.dst) = a := by
  simp only [wordMoved, List.any_eq_true, Bool.and_eq_true, decide_eq_true_eq, beq_iff_eq] at h
  obtain ⟨p, hp, ⟨h1, h2⟩, h3⟩ := h
  refine ⟨p, hp, ?_, ?_⟩
  · simp only [Patch.covers]; omega
  · omega

/-- carried ranges arrive word for word -/
theorem C07_carried_range_words (o n : Sk) (old : List Nat) (srcOff dstOff size : Nat)
    (hb : dstOff + size ≤ n.size)
    (h : carriesRange (takeDiff o n) srcOff dstOff size = true) :
    ∀ w, w < size →
      (applyPatches old (List.replicate n.size 0) (takeDiff o n)).getD (dstOff + w) 0 = old.getD (srcOff + w) 0 := by
  intro w hw
  simp only [carriesRange, List.all_eq_true, List.mem_range] at h
  obtain ⟨p, hp, hc, he⟩ := wordMoved_spec (h w hw)
  rw [C08_copied_words o n old (dstOff + w) (by omega) p hp hc, he]

open Mimium.FlatTree Mimium.Core in
/-- the words of a carried voice arrive unchanged at its new position, so the state tree read back there is the
tree read at the old position -/
theorem C07_carried_words_same_state (o n : Sk) (old : List Nat) (srcOff dstOff : Nat) (lay : LNode)
    (hb : dstOff + lay.size ≤ n.size)
    (h : carriesRange (takeDiff o n) srcOff dstOff lay.size = true) :
    wordsAt (applyPatches old (List.replicate n.size 0) (takeDiff o n)) dstOff lay.size = wordsAt old srcOff lay.size ∧
    deserialize lay (wordsAt (applyPatches old (List.replicate n.size 0) (takeDiff o n)) dstOff lay.size) =
      deserialize lay (wordsAt old srcOff lay.size) := by
  have hw : wordsAt (applyPatches old (List.replicate n.size 0) (takeDiff o n)) dstOff lay.size =
      wordsAt old srcOff lay.size := by
    simp only [wordsAt]
    apply List.map_congr_left
    intro w hw
    rw [C07_carried_range_words o n old srcOff dstOff lay.size hb h w (by simpa using hw)]
  exact ⟨hw, by rw [hw]⟩

open Mimium.FlatTree Mimium.Core in
/-- **state words carried ⇒ the voice continues.**  Let the old storage hold, at `srcOff`, the serialisation of the
voice's state tree `st` under the voice's labelled layout, and let the plan carry that range to `dstOff`.  Then the
tree `st'` read back from the migrated storage at `dstOff` (1) has the same flat words as `st`, and therefore
produces the same outputs as `st` for every sequence of calls of the voice with whatever operands (any run length);
(2) if `st` is canonical, `st' = st`, so every evaluation from it is the evaluation from `st`;
(3) if the `self` values of `st` have their declared shapes, the reference evaluator returns, for every body covered by
the voice's layout, the same values from `st'` as from `st`, sample after sample (any run length, any inputs). -/
theorem C07_carried_words_same_future (o n : Sk) (old : List Nat) (srcOff dstOff : Nat) (lay : LNode) (st : SNode)
    (hl : lay.Ok) (hb : dstOff + lay.size ≤ n.size)
    (h : carriesRange (takeDiff o n) srcOff dstOff lay.size = true)
    (hold : wordsAt old srcOff lay.size = serialize lay st) (hc : Conforms lay st) :
    let st' := deserialize lay (wordsAt (applyPatches old (List.replicate n.size 0) (takeDiff o n)) dstOff lay.size)
    (serialize lay st' = serialize lay st ∧ Conforms lay st' ∧
      ∀ pays : List NPay, (∀ p ∈ pays, NPayOk lay p) → treeRun lay pays st' = treeRun lay pays st) ∧
    (Canon lay st → st' = st ∧
      ∀ (fuel : Nat) (P : Prog) (rt : Rt) (env : Env) (e : Expr) (σ : Store),
        eval fuel P rt env e σ st' = eval fuel P rt env e σ st) ∧
    (ConformsS lay st → ∀ (fuel : Nat) (P : Prog) (body : Expr) (samples : List (Rt × Env × Store)),
      Covers P lay.cells body → instRun fuel P lay.self body samples st' = instRun fuel P lay.self body samples st) := by
  intro st'
  have hst' : st' = deserialize lay (serialize lay st) := by
    simp only [st', (C07_carried_words_same_state o n old srcOff dstOff lay hb h).1, hold]
  have hlen : (serialize lay st).length = lay.sk.size := C05_serialize_size lay st hc
  have hr := C05_serialize_deserialize lay (serialize lay st) hl hlen
  refine ⟨⟨?_, ?_, ?_⟩, ?_, ?_⟩
  · rw [hst']; exact hr.1
  · rw [hst']; exact hr.2.2
  · intro pays hp
    rw [hst']
    exact C05_same_words_same_behaviour lay pays _ st hl hr.2.2 hc hp hr.1
  · intro hcan
    have : st' = st := by rw [hst']; exact C05_deserialize_serialize lay st hl hcan
    exact ⟨this, fun fuel P rt env e σ => by rw [this]⟩
  · intro hcs fuel P body samples hcov
    rw [hst']
    exact C05_same_words_same_eval_future fuel P lay body samples _ st hl hcov
      (canon_conformsS lay _ hl hr.2.1) hcs hr.1

/-- words that no patch covers are zero after the VM's migration: new sites start from zero -/
theorem C07_new_cells_start_from_zero (o n : Sk) (old : List Nat) (k : Nat) (hk : k < n.size)
    (h : ∀ p ∈ takeDiff o n, ¬ p.covers k) :
    (applyPatches old (List.replicate n.size 0) (takeDiff o n)).getD k 0 = 0 :=
  C08_others_zero o n old k hk h

/-- the recompile path: a compile result is either a payload or diagnostics; only a payload reaches the runtime -/
inductive CompileResult (P : Type) | ok (payload : P) | err (diagnostics : List String)

def recompile {M P : Type} (swap : M → P → M) (m : M) : CompileResult P → M
  | .ok p => swap m p
  | .err _ => m

theorem C07_failed_compile_no_swap {M P : Type} (swap : M → P → M) (m : M) (ds : List String) :
    recompile swap m (CompileResult.err ds : CompileResult P) = m := rfl

/-! non-vacuity: inserting a voice in front moves the two old voices; both are carried -/
example :
    let old := Sk.fn [.fn [.feed 1], .fn [.mem 1, .delay 4]]
    let new := Sk.fn [.fn [.mem 1], .fn [.feed 1], .fn [.mem 1, .delay 4]]
    carriesChild old new 0 1 = true ∧ carriesChild old new 1 2 = true ∧ carriesChild old new 0 0 = false := by
  decide +kernel

/-! non-vacuity of `C07_carried_words_same_future`: the second voice (a mem and a stateful child with `self`) of the
example above is carried from offset 1 to offset 2; its canonical tree holds 5, 6, 7 -/
open Mimium.FlatTree Mimium.Core in
example :
    let oldSk := Sk.fn [.fn [.feed 1], .fn [.mem 1, .fn [.feed 1, .mem 1]]]
    let newSk := Sk.fn [.fn [.mem 1], .fn [.feed 1], .fn [.mem 1, .fn [.feed 1, .mem 1]]]
    let lay : LNode := ⟨none, [.mem 0, .child 1 (some .num) [.mem 0]]⟩
    let st : SNode := .mk none [(0, .mem 5), (1, .child (.mk (some (.num 6)) [(0, .mem 7)]))]
    let old : List Nat := [9, 5, 6, 7]
    lay.sk.matches (.fn [.mem 1, .fn [.feed 1, .mem 1]]) = true ∧ lay.size = 3 ∧ 2 + lay.size ≤ newSk.size ∧
    carriesRange (takeDiff oldSk newSk) 1 2 lay.size = true ∧
    wordsAt old 1 lay.size = serialize lay st ∧
    wordsAt (applyPatches old (List.replicate newSk.size 0) (takeDiff oldSk newSk)) 2 lay.size = [5, 6, 7] := by
  decide +kernel

open Mimium.FlatTree Mimium.Core in
example :
    let lay : LNode := ⟨none, [.mem 0, .child 1 (some .num) [.mem 0]]⟩
    let st : SNode := .mk none [(0, .mem 5), (1, .child (.mk (some (.num 6)) [(0, .mem 7)]))]
    lay.Ok ∧ Canon lay st ∧ Conforms lay st ∧ ConformsS lay st := by
  have hl : LNode.Ok ⟨none, [.mem 0, .child 1 (some .num) [.mem 0]]⟩ := by
    simp [LNode.Ok, LayOkL, LayOk, sitesOf, LCell.site]
  have hc : Canon ⟨none, [.mem 0, .child 1 (some .num) [.mem 0]]⟩
      (.mk none [(0, .mem 5), (1, .child (.mk (some (.num 6)) [(0, .mem 7)]))]) := by
    simp [Canon, CanonSelf, CanonCells, CanonCell, SNode.selfv, SNode.cells, HasShape]
  exact ⟨hl, hc, canon_conforms _ _ hl hc, canon_conformsS _ _ hl hc⟩

end Mimium.Migration

/-! ## a whole session: the state of an untouched voice survives the swap (when the diff carries it)

`Model/LiveCoding.lean`: `swapState old new st` = `deserialize` (layout published for `new.dsp`) of `vmResume` (published
skeletons of `old.dsp`, `new.dsp`) of `serialize` (layout published for `old.dsp`) of `st`; `session` = run, swap, run ….
A VOICE is a named call site of `dsp` (`let c_i = f_i(const_i)` in the generated programs; any position of a child cell in
the published layout here).  It is UNTOUCHED by an edit when the new program publishes the same labelled layout
`⟨self, cells⟩` for it (same callee, same callees of the callee), possibly at another site `sj` and at another offset. -/
namespace Mimium.LiveCoding
open Mimium.Core Mimium.StateTree Mimium.FlatTree Mimium.Publish Mimium.Migration

/-- **`swapState` keeps the words of a carried voice.**  If the plan the runtimes apply for the two published skeletons
carries the voice's word range (`carriesRange`, the test behind `carriesChild`), the hot swap of the old program in ANY
conforming state `st` succeeds in the model, the new `dsp` tree is canonical for the new layout, and the voice's instance
in it (child `sj`) has exactly the flat words the voice's instance (child `si`) had before the swap -/
theorem C07_swapState_carried_voice (Pold Pnew : Prog) (lo ln : LNode) (preO postO preN postN : List LCell) (si sj : Nat)
    (self : Option Shape) (cells : List LCell)
    (hpo : publishFn Pold Pold.dsp = some lo) (hpn : publishFn Pnew Pnew.dsp = some ln)
    (hs : SitesUnique Pnew) (hd : SitesOk Pnew.dsp.body)
    (hco : lo.cells = preO ++ .child si self cells :: postO) (hcn : ln.cells = preN ++ .child sj self cells :: postN)
    (st : SNode) (hconf : Conforms lo st)
    (hcar : carriesRange (planPatches (publishedSk lo) (publishedSk ln)) (selfSize lo.self + sizeCells preO)
      (selfSize ln.self + sizeCells preN) (LNode.size ⟨self, cells⟩) = true) :
    ∃ st', swapState Pold Pnew st = some st' ∧ Canon ln st' ∧
      serialize ⟨self, cells⟩ (st'.childAt sj) = serialize ⟨self, cells⟩ (st.childAt si) := by
  have hln := C05_publish_ok Pnew.fns.length Pnew Pnew.dsp ln hs hd hpn
  obtain ⟨ws, h1, _, h3, h4⟩ := swapWords_carried_child lo ln hln preO postO preN postN si sj self cells hco hcn st hconf hcar
  exact ⟨deserialize ln ws, by simp [swapState, hpo, hpn, h1], h3, h4⟩

/-- **a session with an edit: the untouched voice continues from exactly its pre-swap state.**
The old program runs `n` samples (outputs `o1`, machine `m`), then the edit `Pnew` is swapped in.  Let a voice have the
same labelled layout in both published layouts and let the plan carry its word range.  Then the session continues, for
EVERY number `k` of further samples and every input stream, exactly like the NEW program started on the machine in which
the voice's instance IS the tree it was in the old program just before the swap (`m.root.childAt si`, transplanted to
site `sj`), everything else as migrated — all output channels, in particular the one observing the voice.
(`Pnew` in the class of C05's evaluator theorems; `hconf`, `hvoice`: the old `dsp` state conforms to its layout, the
voice's `self` values have their declared shapes — typing facts.)
This form holds for ANY pair of programs (the new one in the class of C05's evaluator theorems); for voice programs
`C07_session_untouched_voice` below turns the right-hand side into the voice's own uninterrupted stream. -/
theorem C07_session_untouched_voice_transplant (fuel : Nat) (sr : UInt64) (Pold Pnew : Prog) (lo ln : LNode)
    (preO postO preN postN : List LCell) (si sj : Nat) (self : Option Shape) (cells : List LCell)
    (inputs : Nat → List UInt64) (n : Nat) (m0 mn m : Machine) (o1 : List (List UInt64))
    (hpo : publishFn Pold Pold.dsp = some lo) (hpn : publishFn Pnew Pnew.dsp = some ln)
    (harms : noStateInArms Pnew Pnew.dsp.body = true) (hs : SitesUnique Pnew) (hd : SitesOk Pnew.dsp.body)
    (hco : lo.cells = preO ++ .child si self cells :: postO) (hcn : ln.cells = preN ++ .child sj self cells :: postN)
    (hcar : carriesRange (planPatches (publishedSk lo) (publishedSk ln)) (selfSize lo.self + sizeCells preO)
      (selfSize ln.self + sizeCells preN) (LNode.size ⟨self, cells⟩) = true)
    (hinit : Machine.init fuel Pold sr = .ok m0) (hinitn : Machine.init fuel Pnew sr = .ok mn)
    (hpre : prefixRun fuel Pold sr inputs n m0 = some (o1, m))
    (hconf : Conforms lo m.root) (hvoice : ConformsS ⟨self, cells⟩ (m.root.childAt si)) :
    ∃ st', swapState Pold Pnew m.root = some st' ∧
      serialize ⟨self, cells⟩ (st'.childAt sj) = serialize ⟨self, cells⟩ (m.root.childAt si) ∧
      ∀ k, session fuel sr Pold [(n, Pnew)] inputs (n + k) =
        (runFrom fuel Pnew sr inputs k ⟨mn.store, st'.setCell sj (.child (m.root.childAt si)), n⟩).map (o1 ++ ·) := by
  obtain ⟨st', hsw, hcanon, hw⟩ := C07_swapState_carried_voice Pold Pnew lo ln preO postO preN postN si sj self cells
    hpo hpn hs hd hco hcn m.root hconf hcar
  refine ⟨st', hsw, hw, fun k => ?_⟩
  have hln := C05_publish_ok Pnew.fns.length Pnew Pnew.dsp ln hs hd hpn
  obtain ⟨hself, _, hcov⟩ := C05_publishFn_visits Pnew.fns.length Pnew Pnew.dsp ln harms hpn
  have htm : m.t = n := by
    rw [prefixRun_t fuel Pold sr inputs n m0 o1 m hpre, (init_t fuel Pold sr m0 hinit).1]; omega
  cases k with
  | zero =>
    have := sessionFrom_prefix fuel sr [(n, Pnew)] inputs Pold 0 n m0 (by simp [(init_t fuel Pold sr m0 hinit).1])
    simp only [session, hinit, this, hpre, sessionFrom, runFrom, Option.map_some, List.append_nil]
  | succ k =>
    rw [session_one_swap fuel sr Pold Pnew inputs n k m0 hinit o1 m hpre]
    have hso : swapOne fuel sr Pold m Pnew = some (Pnew, ⟨mn.store, st', m.t⟩) := by
      simp [swapOne, hpn, hsw, hinitn]
    simp only [hso, sessionFrom_nil, htm]
    congr 1
    refine C06_agreeing_machines_same_future fuel Pnew sr inputs ln hln hself.symm hcov (k + 1) _ _ ⟨rfl, rfl, ?_⟩
    exact agree_transplant ln hln preN postN sj self cells hcn st' _ (canon_conformsS ln st' hln hcanon) hvoice hw

/-- **a session with an edit: a new voice starts from zero.**  If no patch of the plan touches the word range of the child
cell `sj` of the new layout (the executable test `childReceives` of the judge is false), the session continues, for every
number of further samples, exactly like the new program started on the machine in which that call site has NEVER been
evaluated (`SNode.empty`: `self`, `mem`, `delay` contents zero), everything else as migrated -/
theorem C07_session_fresh_voice (fuel : Nat) (sr : UInt64) (Pold Pnew : Prog) (lo ln : LNode)
    (preN postN : List LCell) (sj : Nat) (self : Option Shape) (cells : List LCell)
    (inputs : Nat → List UInt64) (n : Nat) (m0 mn m : Machine) (o1 : List (List UInt64))
    (hpo : publishFn Pold Pold.dsp = some lo) (hpn : publishFn Pnew Pnew.dsp = some ln)
    (harms : noStateInArms Pnew Pnew.dsp.body = true) (hs : SitesUnique Pnew) (hd : SitesOk Pnew.dsp.body)
    (hcn : ln.cells = preN ++ .child sj self cells :: postN)
    (hnone : ∀ p ∈ planPatches (publishedSk lo) (publishedSk ln), ∀ k, k < LNode.size ⟨self, cells⟩ →
      ¬ p.covers (selfSize ln.self + sizeCells preN + k))
    (hinit : Machine.init fuel Pold sr = .ok m0) (hinitn : Machine.init fuel Pnew sr = .ok mn)
    (hpre : prefixRun fuel Pold sr inputs n m0 = some (o1, m))
    (hconf : Conforms lo m.root) :
    ∃ st', swapState Pold Pnew m.root = some st' ∧
      serialize ⟨self, cells⟩ (st'.childAt sj) = List.replicate (LNode.size ⟨self, cells⟩) 0 ∧
      ∀ k, session fuel sr Pold [(n, Pnew)] inputs (n + k) =
        (runFrom fuel Pnew sr inputs k ⟨mn.store, st'.setCell sj (.child SNode.empty), n⟩).map (o1 ++ ·) := by
  have hln := C05_publish_ok Pnew.fns.length Pnew Pnew.dsp ln hs hd hpn
  obtain ⟨ws, h1, _, hcanon, hw⟩ := swapWords_fresh_child lo ln hln preN postN sj self cells hcn m.root hconf hnone
  have hsw : swapState Pold Pnew m.root = some (deserialize ln ws) := by simp [swapState, hpo, hpn, h1]
  refine ⟨deserialize ln ws, hsw, by rw [hw, serialize_empty], fun k => ?_⟩
  obtain ⟨hself, _, hcov⟩ := C05_publishFn_visits Pnew.fns.length Pnew Pnew.dsp ln harms hpn
  have htm : m.t = n := by
    rw [prefixRun_t fuel Pold sr inputs n m0 o1 m hpre, (init_t fuel Pold sr m0 hinit).1]; omega
  have hlc : LayOk (.child sj self cells) := layOk_of_mem ln.cells _ hln (by rw [hcn]; simp)
  have hempty : ConformsS ⟨self, cells⟩ SNode.empty := by
    have := confS_empty _ hlc
    simpa [ConfS, childAt_empty', ConformsS] using this
  cases k with
  | zero =>
    have := sessionFrom_prefix fuel sr [(n, Pnew)] inputs Pold 0 n m0 (by simp [(init_t fuel Pold sr m0 hinit).1])
    simp only [session, hinit, this, hpre, sessionFrom, runFrom, Option.map_some, List.append_nil]
  | succ k =>
    rw [session_one_swap fuel sr Pold Pnew inputs n k m0 hinit o1 m hpre]
    have hso : swapOne fuel sr Pold m Pnew = some (Pnew, ⟨mn.store, deserialize ln ws, m.t⟩) := by
      simp [swapOne, hpn, hsw, hinitn]
    simp only [hso, sessionFrom_nil, htm]
    congr 1
    refine C06_agreeing_machines_same_future fuel Pnew sr inputs ln hln hself.symm hcov (k + 1) _ _ ⟨rfl, rfl, ?_⟩
    exact agree_transplant ln hln preN postN sj self cells hcn _ _ (canon_conformsS ln _ hln hcanon) hempty hw

/-! ### voice programs: the channel of an untouched voice IS the voice's own uninterrupted stream

`dsp() = let c_1 = f_1(k_1); …; let c_m = f_m(k_m); (c_a, c_b, …)` (`voicesBody`), no globals, first-order single-assignment
functions (`SimpleProg`) — the programs of the generator.  `P₀` is any program that contains the voice's function (and what
it calls) and is contained in the running program (`SubProg`), e.g. `fn dsp(){ f(k) }` — the oracle of the check;
`instRun fuel₀ P₀ … (voiceSamples d k sr t n) st` = the values the voice alone returns, sample after sample, from state `st`. -/

/-- **the stream of a voice program, channel by channel** (any voice program, no swap): if the voice alone runs without
error for `k` samples from its current child node, every channel of the program that observes the voice carries exactly the
values of that alone run, and every output row is the flattened tuple of the observed values -/
theorem C07_voice_program_channel (P P₀ : Prog) (hP : SimpleProg P) (hP₀ : SimpleProg P₀) (hsub : SubProg P₀ P)
    (pre post : List Voice) (v : Voice) (obs : List String)
    (hname : v.name ∉ post.map (·.name)) (hs1 : v.site ∉ pre.map (·.site)) (hs2 : v.site ∉ post.map (·.site))
    (d : FnDecl) (hd : findFn P₀.fns v.f = some d) (fuel fuel₀ : Nat) (hn : fuel₀ + pre.length + 3 ≤ fuel)
    (sr : UInt64) (inputs : Nat → List UInt64)
    (hpar : P.dsp.params = []) (hself : P.dsp.selfShape = none)
    (hbody : P.dsp.body = voicesBody (pre ++ v :: post) (.tup (obs.map .var)))
    (k : Nat) (root : SNode) (t : Nat) (rows : List (List UInt64))
    (hrun : runFrom fuel P sr inputs k ⟨[], root, t⟩ = some rows)
    (hok : ∀ o ∈ instRun fuel₀ P₀ d.selfShape d.body (voiceSamples d v.c sr t k) (root.childAt v.site), o ≠ none) :
    ∃ valss : List (List Val), rows = valss.map flattenVals ∧
      ∀ (i : Nat), obs[i]? = some v.name →
        valss.map (fun vals => vals[i]?) =
          instRun fuel₀ P₀ d.selfShape d.body (voiceSamples d v.c sr t k) (root.childAt v.site) := by
  rw [← sessionFrom_nil] at hrun
  exact voice_run P P₀ hP hP₀ hsub pre post v obs hname hs1 hs2 d hd fuel fuel₀ hn sr inputs hpar hself hbody k root t rows
    hrun hok

/-- **hot swap after an edit preserves the state of an untouched voice — for voice programs.**  The old program (any
program with a published layout) runs `n` samples (outputs `o1`, machine `m`); the edit `Pnew`, a voice program, is swapped
in.  Let the voice `v` of `Pnew` (function `d`, constant `v.c`, site `v.site`) have the labelled layout `⟨self, cells⟩`
published for `d`, let the old layout hold a child with the same labelled layout at site `si` (the voice before the edit,
at whatever position), and let the plan the runtimes apply carry that child's word range to the voice's new position.
Then, for every number `k` of further samples: if the voice ALONE (program `P₀`), continued from the state it had in the old
program just before the swap (`m.root.childAt si`) and fed the constant of the new program, runs without error, every
output row of the session after the swap is the flattened tuple of the observed values and EVERY CHANNEL THAT OBSERVES THE
VOICE CARRIES EXACTLY THE VALUES OF THAT UNINTERRUPTED RUN OF THE VOICE.
(`hconf`, `hvoice`: the old `dsp` tree conforms to its layout, the voice's `self` values have their declared shape — typing
facts; `hpub₀ … hd₀`: the voice's function is in the class of C05's theorems.) -/
theorem C07_session_untouched_voice (fuel fuel₀ : Nat) (sr : UInt64) (Pold Pnew P₀ : Prog) (lo ln : LNode)
    (preO postO preN postN : List LCell) (si : Nat) (self : Option Shape) (cells : List LCell)
    (pre post : List Voice) (v : Voice) (obs : List String) (d : FnDecl) (n₀ : Nat)
    (inputs : Nat → List UInt64) (n : Nat) (m0 mn m : Machine) (o1 : List (List UInt64))
    -- the new program is a voice program, `P₀` holds the voice's function
    (hP : SimpleProg Pnew) (hP₀ : SimpleProg P₀) (hsub : SubProg P₀ Pnew)
    (hname : v.name ∉ post.map (·.name)) (hs1 : v.site ∉ pre.map (·.site)) (hs2 : v.site ∉ post.map (·.site))
    (hd : findFn P₀.fns v.f = some d) (hn : fuel₀ + pre.length + 3 ≤ fuel)
    (hpar : Pnew.dsp.params = []) (hself : Pnew.dsp.selfShape = none)
    (hbody : Pnew.dsp.body = voicesBody (pre ++ v :: post) (.tup (obs.map .var)))
    -- the layouts
    (hpo : publishFn Pold Pold.dsp = some lo) (hpn : publishFn Pnew Pnew.dsp = some ln)
    (hs : SitesUnique Pnew) (hds : SitesOk Pnew.dsp.body)
    (hco : lo.cells = preO ++ .child si self cells :: postO) (hcn : ln.cells = preN ++ .child v.site self cells :: postN)
    (hpub₀ : publishFnN n₀ P₀ d = some ⟨self, cells⟩) (harms₀ : noStateInArmsN n₀ P₀ d.body = true)
    (hs₀ : SitesUnique P₀) (hd₀ : SitesOk d.body)
    -- the plan carries the voice
    (hcar : carriesRange (planPatches (publishedSk lo) (publishedSk ln)) (selfSize lo.self + sizeCells preO)
      (selfSize ln.self + sizeCells preN) (LNode.size ⟨self, cells⟩) = true)
    -- the run up to the swap
    (hinit : Machine.init fuel Pold sr = .ok m0) (hinitn : Machine.init fuel Pnew sr = .ok mn)
    (hpre : prefixRun fuel Pold sr inputs n m0 = some (o1, m))
    (hconf : Conforms lo m.root) (hvoice : ConformsS ⟨self, cells⟩ (m.root.childAt si))
    (k : Nat) (rows : List (List UInt64))
    (hrun : session fuel sr Pold [(n, Pnew)] inputs (n + k) = some rows)
    (hok : ∀ o ∈ instRun fuel₀ P₀ d.selfShape d.body (voiceSamples d v.c sr n k) (m.root.childAt si), o ≠ none) :
    ∃ valss : List (List Val), rows = o1 ++ valss.map flattenVals ∧
      ∀ (i : Nat), obs[i]? = some v.name →
        valss.map (fun vals => vals[i]?) =
          instRun fuel₀ P₀ d.selfShape d.body (voiceSamples d v.c sr n k) (m.root.childAt si) := by
  obtain ⟨st', hsw, hcanon, hw⟩ := C07_swapState_carried_voice Pold Pnew lo ln preO postO preN postN si v.site self cells
    hpo hpn hs hds hco hcn m.root hconf hcar
  have hln := C05_publish_ok Pnew.fns.length Pnew Pnew.dsp ln hs hds hpn
  have htm : m.t = n := by
    rw [prefixRun_t fuel Pold sr inputs n m0 o1 m hpre, (init_t fuel Pold sr m0 hinit).1]; omega
  have hstore : mn.store = [] := (init_store_nil fuel Pnew sr hP.1 mn hinitn).1
  -- the voice alone cannot tell the migrated child from the old one
  have hchild : ConformsS ⟨self, cells⟩ (st'.childAt v.site) :=
    conformsS_child ln preN postN v.site self cells hcn st' (canon_conformsS ln st' hln hcanon)
  have heq : ∀ samples, instRun fuel₀ P₀ d.selfShape d.body samples (st'.childAt v.site) =
      instRun fuel₀ P₀ d.selfShape d.body samples (m.root.childAt si) := fun samples =>
    C05_published_same_words_same_eval_future fuel₀ n₀ P₀ d ⟨self, cells⟩ samples _ _ hpub₀ harms₀ hs₀ hd₀ hchild hvoice hw
  cases k with
  | zero =>
    have := sessionFrom_prefix fuel sr [(n, Pnew)] inputs Pold 0 n m0 (by simp [(init_t fuel Pold sr m0 hinit).1])
    simp only [session, hinit] at hrun
    rw [this, hpre] at hrun
    simp only [sessionFrom, Option.map_some, List.append_nil, Option.some.injEq] at hrun
    subst hrun
    exact ⟨[], by simp, fun i _ => by simp [voiceSamples, instRun]⟩
  | succ k =>
    rw [session_one_swap fuel sr Pold Pnew inputs n k m0 hinit o1 m hpre] at hrun
    have hso : swapOne fuel sr Pold m Pnew = some (Pnew, ⟨[], st', n⟩) := by
      simp [swapOne, hpn, hsw, hinitn, hstore, htm]
    simp only [hso] at hrun
    cases hr : sessionFrom fuel sr [] inputs (k + 1) Pnew ⟨[], st', n⟩ with
    | none => simp [hr] at hrun
    | some rows' =>
      simp only [hr, Option.map_some, Option.some.injEq] at hrun
      subst hrun
      obtain ⟨valss, e1, e2⟩ := voice_run Pnew P₀ hP hP₀ hsub pre post v obs hname hs1 hs2 d hd fuel fuel₀ hn sr inputs hpar
        hself hbody (k + 1) st' n rows' hr (by rw [heq]; exact hok)
      exact ⟨valss, by rw [e1], fun i hi => by rw [e2 i hi, heq]⟩

/-- **… exactly as in an uninterrupted run.**  If the OLD program is a voice program too, in which the same voice (same
function, same constant) sits at site `si`, then — under the hypotheses of `C07_session_untouched_voice` — the channels of
the session after the swap that observe the voice carry, sample for sample, the values the channels observing it carry in
the UNINTERRUPTED run of the old program from the swap point on (whenever that run and the voice's own run succeed) -/
theorem C07_session_untouched_voice_as_uninterrupted (fuel fuel₀ : Nat) (sr : UInt64) (Pold Pnew P₀ : Prog) (lo ln : LNode)
    (preO postO preN postN : List LCell) (self : Option Shape) (cells : List LCell)
    (pre post preV postV : List Voice) (v vo : Voice) (obs obsO : List String) (d : FnDecl) (n₀ : Nat)
    (inputs : Nat → List UInt64) (n : Nat) (m0 mn m : Machine) (o1 : List (List UInt64))
    (hP : SimpleProg Pnew) (hP₀ : SimpleProg P₀) (hsub : SubProg P₀ Pnew)
    (hname : v.name ∉ post.map (·.name)) (hs1 : v.site ∉ pre.map (·.site)) (hs2 : v.site ∉ post.map (·.site))
    (hd : findFn P₀.fns v.f = some d) (hn : fuel₀ + pre.length + 3 ≤ fuel)
    (hpar : Pnew.dsp.params = []) (hself : Pnew.dsp.selfShape = none)
    (hbody : Pnew.dsp.body = voicesBody (pre ++ v :: post) (.tup (obs.map .var)))
    -- the old program is a voice program with the same voice
    (hPo : SimpleProg Pold) (hsubo : SubProg P₀ Pold) (hf : vo.f = v.f) (hc : vo.c = v.c)
    (hnameo : vo.name ∉ postV.map (·.name)) (hs1o : vo.site ∉ preV.map (·.site)) (hs2o : vo.site ∉ postV.map (·.site))
    (hno : fuel₀ + preV.length + 3 ≤ fuel)
    (hparo : Pold.dsp.params = []) (hselfo : Pold.dsp.selfShape = none)
    (hbodyo : Pold.dsp.body = voicesBody (preV ++ vo :: postV) (.tup (obsO.map .var)))
    (hpo : publishFn Pold Pold.dsp = some lo) (hpn : publishFn Pnew Pnew.dsp = some ln)
    (hs : SitesUnique Pnew) (hds : SitesOk Pnew.dsp.body)
    (hco : lo.cells = preO ++ .child vo.site self cells :: postO)
    (hcn : ln.cells = preN ++ .child v.site self cells :: postN)
    (hpub₀ : publishFnN n₀ P₀ d = some ⟨self, cells⟩) (harms₀ : noStateInArmsN n₀ P₀ d.body = true)
    (hs₀ : SitesUnique P₀) (hd₀ : SitesOk d.body)
    (hcar : carriesRange (planPatches (publishedSk lo) (publishedSk ln)) (selfSize lo.self + sizeCells preO)
      (selfSize ln.self + sizeCells preN) (LNode.size ⟨self, cells⟩) = true)
    (hinit : Machine.init fuel Pold sr = .ok m0) (hinitn : Machine.init fuel Pnew sr = .ok mn)
    (hpre : prefixRun fuel Pold sr inputs n m0 = some (o1, m))
    (hconf : Conforms lo m.root) (hvoice : ConformsS ⟨self, cells⟩ (m.root.childAt vo.site))
    (k : Nat) (rows rowsU : List (List UInt64))
    (hrun : session fuel sr Pold [(n, Pnew)] inputs (n + k) = some rows)
    (hrunU : runFrom fuel Pold sr inputs k m = some rowsU)
    (hok : ∀ o ∈ instRun fuel₀ P₀ d.selfShape d.body (voiceSamples d v.c sr n k) (m.root.childAt vo.site), o ≠ none) :
    ∃ valss valssU : List (List Val), rows = o1 ++ valss.map flattenVals ∧ rowsU = valssU.map flattenVals ∧
      ∀ (a b : Nat), obsO[a]? = some vo.name → obs[b]? = some v.name →
        valss.map (fun vals => vals[b]?) = valssU.map (fun vals => vals[a]?) := by
  obtain ⟨valss, e1, e2⟩ := C07_session_untouched_voice fuel fuel₀ sr Pold Pnew P₀ lo ln preO postO preN postN vo.site self
    cells pre post v obs d n₀ inputs n m0 mn m o1 hP hP₀ hsub hname hs1 hs2 hd hn hpar hself hbody hpo hpn hs hds hco hcn
    hpub₀ harms₀ hs₀ hd₀ hcar hinit hinitn hpre hconf hvoice k rows hrun hok
  have hmstore : m.store = [] :=
    prefixRun_store_nil fuel Pold sr inputs n m0 o1 m (init_store_nil fuel Pold sr hPo.1 m0 hinit).1 hpre
  have htm : m.t = n := by
    rw [prefixRun_t fuel Pold sr inputs n m0 o1 m hpre, (init_t fuel Pold sr m0 hinit).1]; omega
  have hm : m = ⟨[], m.root, n⟩ := by cases m; simp_all
  rw [hm] at hrunU
  obtain ⟨valssU, u1, u2⟩ := C07_voice_program_channel Pold P₀ hPo hP₀ hsubo preV postV vo obsO hnameo hs1o hs2o d
    (by rw [hf]; exact hd) fuel fuel₀ hno sr inputs hparo hselfo hbodyo k m.root n rowsU hrunU (by rw [hc]; exact hok)
  refine ⟨valss, valssU, e1, u1, fun a b ha hb => ?_⟩
  rw [e2 b hb, u2 a ha, hc]

/-! non-vacuity of `C07_session_untouched_voice`, all hypotheses at once and with a run that does happen: `cnt(x) = self + x`,
`lag(x) = mem(x)`; old program `let c1 = cnt(1); (c1, c1)` runs ONE sample (`cnt` holds `w = 0 + 1`), then the edit
`let c2 = lag(2); let c1 = cnt(1); (c2, c1)` is swapped in and runs two samples: the session exists, and channel 1 carries
the values `cnt` alone returns when continued from the child node that holds `w` (the reference evaluator computes with
opaque `Float`s: the sums stay symbolic, everything structural is evaluated by the kernel) -/
example (inputs : Nat → List UInt64) :
    let cntF : FnDecl := ⟨"cnt", ["x"], .bin .add .self (.var "x"), some .num⟩
    let lagF : FnDecl := ⟨"lag", ["x"], .mem (.var "x") 1, none⟩
    let Pold : Prog := ⟨[], [cntF, lagF], ⟨"dsp", [], .letE "c1" (.call "cnt" [.lit 1] 1) (.tup [.var "c1", .var "c1"]), none⟩⟩
    let Pnew : Prog := ⟨[], [cntF, lagF], ⟨"dsp", [],
      voicesBody ([⟨"c2", "lag", 2, 2⟩] ++ ⟨"c1", "cnt", 1, 1⟩ :: []) (.tup (["c2", "c1"].map .var)), none⟩⟩
    let P₀ : Prog := ⟨[], [cntF, lagF], ⟨"dsp", [], .lit 0, none⟩⟩
    let w := evalBin .add 0 1
    let m : Machine := ⟨[], .mk none [(1, .child (.mk (some (.num w)) []))], 1⟩
    ∃ (rows : List (List UInt64)) (valss : List (List Val)), session 20 0 Pold [(1, Pnew)] inputs (1 + 2) = some rows ∧ rows = [[w, w]] ++ valss.map flattenVals ∧
      ∀ (i : Nat), ["c2", "c1"][i]? = some "c1" → valss.map (fun vals => vals[i]?) =
        instRun 10 P₀ cntF.selfShape cntF.body (voiceSamples cntF 1 0 1 2) (m.root.childAt 1) := by
  intro cntF lagF Pold Pnew P₀ w m
  have hsome : (session 20 0 Pold [(1, Pnew)] inputs (1 + 2)).isSome = true := by rfl
  obtain ⟨rows, hrows⟩ := Option.isSome_iff_exists.1 hsome
  have hsu : SitesUnique Pnew := by
    intro d hd
    simp only [Pnew, List.mem_cons, List.not_mem_nil, or_false] at hd
    rcases hd with rfl | rfl <;> simp [SitesOk, siteLens, cntF, lagF]
  have hsu₀ : SitesUnique P₀ := hsu
  have hch : m.root.childAt 1 = .mk (some (.num w)) [] := rfl
  have hvoice : ConformsS ⟨some .num, []⟩ (m.root.childAt 1) := by
    rw [hch]
    refine ⟨?_, by simp [ConfSL]⟩
    intro v hv
    simp only [SNode.selfv, Option.some.injEq] at hv
    subst hv; simp [HasShape]
  have hconf : Conforms ⟨none, [.child 1 (some .num) []]⟩ m.root := by
    refine ⟨?_, ?_⟩
    · intro v hv; simp [m, SNode.selfv] at hv
    · simp only [ConfL, Conf, hch, and_true]
      intro v hv
      simp only [SNode.selfv, Option.some.injEq] at hv
      subst hv; simp [flattenVal, selfSize, shapeSize]
  obtain ⟨valss, h1, h2⟩ := C07_session_untouched_voice 20 10 0 Pold Pnew P₀
    ⟨none, [.child 1 (some .num) []]⟩ ⟨none, [.child 2 none [.mem 1], .child 1 (some .num) []]⟩
    [] [] [.child 2 none [.mem 1]] [] 1 (some .num) [] [⟨"c2", "lag", 2, 2⟩] [] ⟨"c1", "cnt", 1, 1⟩ ["c2", "c1"] cntF 0
    inputs 1 ⟨[], SNode.empty, 0⟩ ⟨[], SNode.empty, 0⟩ m [[w, w]]
    ⟨rfl, by intro d hd; simp only [Pnew, List.mem_cons, List.not_mem_nil, or_false] at hd; rcases hd with rfl | rfl <;> rfl⟩
    ⟨rfl, by intro d hd; simp only [P₀, List.mem_cons, List.not_mem_nil, or_false] at hd; rcases hd with rfl | rfl <;> rfl⟩
    (fun _ _ h => h) (by simp) (by simp) (by simp) rfl (by decide) rfl rfl rfl rfl rfl hsu
    (by simp [SitesOk, siteLens, siteLensL, Pnew, voicesBody]) rfl rfl rfl rfl hsu₀
    (by simp [SitesOk, siteLens, cntF]) (by decide +kernel) rfl rfl rfl
    hconf hvoice
    2 rows hrows
    (by
      have : (instRun 10 P₀ cntF.selfShape cntF.body (voiceSamples cntF 1 0 1 2) (m.root.childAt 1)).all (·.isSome) = true := by rfl
      intro o ho hn
      have := List.all_eq_true.1 this o ho
      simp [hn] at this)
  exact ⟨rows, valss, hrows, h1, h2⟩

/-! non-vacuity of `C07_voice_program_channel`: the same voice program from the start, two samples -/
example (inputs : Nat → List UInt64) :
    let cntF : FnDecl := ⟨"cnt", ["x"], .bin .add .self (.var "x"), some .num⟩
    let lagF : FnDecl := ⟨"lag", ["x"], .mem (.var "x") 1, none⟩
    let P : Prog := ⟨[], [cntF, lagF], ⟨"dsp", [],
      voicesBody ([⟨"c2", "lag", 2, 2⟩] ++ ⟨"c1", "cnt", 1, 1⟩ :: []) (.tup (["c2", "c1"].map .var)), none⟩⟩
    ∃ (rows : List (List UInt64)) (valss : List (List Val)),
      runFrom 20 P 0 inputs 2 ⟨[], SNode.empty, 0⟩ = some rows ∧ rows = valss.map flattenVals ∧
      ∀ (i : Nat), ["c2", "c1"][i]? = some "c1" → valss.map (fun vals => vals[i]?) =
        instRun 10 P cntF.selfShape cntF.body (voiceSamples cntF 1 0 0 2) (SNode.empty.childAt 1) := by
  intro cntF lagF P
  have hsome : (runFrom 20 P 0 inputs 2 ⟨[], SNode.empty, 0⟩).isSome = true := by rfl
  obtain ⟨rows, hrows⟩ := Option.isSome_iff_exists.1 hsome
  have hsp : SimpleProg P :=
    ⟨rfl, by intro d hd; simp only [P, List.mem_cons, List.not_mem_nil, or_false] at hd; rcases hd with rfl | rfl <;> rfl⟩
  obtain ⟨valss, h1, h2⟩ := C07_voice_program_channel P P hsp hsp (fun _ _ h => h) [⟨"c2", "lag", 2, 2⟩] []
    ⟨"c1", "cnt", 1, 1⟩ ["c2", "c1"] (by simp) (by simp) (by simp) cntF rfl 20 10 (by decide) 0 inputs rfl rfl rfl 2
    SNode.empty 0 rows hrows
    (by
      have : (instRun 10 P cntF.selfShape cntF.body (voiceSamples cntF 1 0 0 2) (SNode.empty.childAt 1)).all (·.isSome) = true := by
        rfl
      intro o ho hn
      have := List.all_eq_true.1 this o ho
      simp [hn] at this)
  exact ⟨rows, valss, hrows, h1, h2⟩

/-- the judge's test `carriesChild` (child INDICES of the published skeletons) gives the hypothesis `carriesRange` (word
OFFSETS of the labelled layouts) of the two theorems above, when no child of `dsp` is pruned from the skeletons (every call
site of `dsp` is a function with state, as the voices are): the voice is child `|feed| + |cells before it|` and its offset
is `selfSize + sizeCells (cells before it)` -/
theorem C07_carriesChild_gives_carried_range (lo ln : LNode) (preO postO preN postN : List LCell) (si sj : Nat)
    (self : Option Shape) (cells : List LCell)
    (hco : lo.cells = preO ++ .child si self cells :: postO) (hcn : ln.cells = preN ++ .child sj self cells :: postN)
    (hpo : publishedSk lo = lo.sk) (hpn : publishedSk ln = ln.sk)
    (h : carriesChild (publishedSk lo) (publishedSk ln) ((feedOf lo.self).length + preO.length)
      ((feedOf ln.self).length + preN.length) = true) :
    carriesRange (planPatches (publishedSk lo) (publishedSk ln)) (selfSize lo.self + sizeCells preO)
      (selfSize ln.self + sizeCells preN) (LNode.size ⟨self, cells⟩) = true := by
  have := (carriesRange_of_carriesChild lo ln preO postO preN postN _ _ hco hcn hpo hpn h).2
  simpa [LCell.size, LNode.size] using this

/-! non-vacuity of the two theorems above (all hypotheses at once): `cnt(x) = self + x`, `lag(x) = mem(x)`; the old program
is `let c1 = cnt(1); (c1, c1)`, the edit inserts a voice in front: `let c2 = lag(2); let c1 = cnt(1); (c2, c1)`.  The
published skeletons are `F[F[E1]]` and `F[F[M1],F[E1]]`, the plan carries the word of `cnt` from offset 0 to offset 1; the
swap happens before the first sample (the reference evaluator computes with opaque `Float`s, so no step is unfolded here) -/
example (fuel : Nat) (sr : UInt64) (inputs : Nat → List UInt64) :
    let cntF : FnDecl := ⟨"cnt", ["x"], .bin .add .self (.var "x"), some .num⟩
    let lagF : FnDecl := ⟨"lag", ["x"], .mem (.var "x") 1, none⟩
    let Pold : Prog := ⟨[], [cntF, lagF], ⟨"dsp", [], .letE "c1" (.call "cnt" [.lit 1] 1) (.tup [.var "c1", .var "c1"]), none⟩⟩
    let Pnew : Prog := ⟨[], [cntF, lagF], ⟨"dsp", [],
      .letE "c2" (.call "lag" [.lit 2] 2) (.letE "c1" (.call "cnt" [.lit 1] 1) (.tup [.var "c2", .var "c1"])), none⟩⟩
    let lo : LNode := ⟨none, [.child 1 (some .num) []]⟩
    let ln : LNode := ⟨none, [.child 2 none [.mem 1], .child 1 (some .num) []]⟩
    let m0 : Machine := ⟨[], SNode.empty, 0⟩
    publishFn Pold Pold.dsp = some lo ∧ publishFn Pnew Pnew.dsp = some ln ∧
    noStateInArms Pnew Pnew.dsp.body = true ∧ SitesUnique Pnew ∧ SitesOk Pnew.dsp.body ∧
    lo.cells = [] ++ .child 1 (some .num) [] :: [] ∧ ln.cells = [.child 2 none [.mem 1]] ++ .child 1 (some .num) [] :: [] ∧
    carriesRange (planPatches (publishedSk lo) (publishedSk ln)) (selfSize lo.self + sizeCells [])
      (selfSize ln.self + sizeCells [.child 2 none [.mem 1]]) (LNode.size ⟨some .num, []⟩) = true ∧
    Machine.init fuel Pold sr = .ok m0 ∧ Machine.init fuel Pnew sr = .ok m0 ∧
    prefixRun fuel Pold sr inputs 0 m0 = some ([], m0) ∧
    Conforms lo m0.root ∧ ConformsS ⟨some .num, []⟩ (m0.root.childAt 1) ∧
    publishedSk lo = lo.sk ∧ publishedSk ln = ln.sk ∧
    carriesChild (publishedSk lo) (publishedSk ln) ((feedOf lo.self).length + 0) ((feedOf ln.self).length + 1) = true ∧
    -- `C07_session_fresh_voice`: the inserted voice `lag` (child 2, offset 0, one word) receives nothing
    ln.cells = [] ++ .child 2 none [.mem 1] :: [.child 1 (some .num) []] ∧
    (∀ p ∈ planPatches (publishedSk lo) (publishedSk ln), ∀ k, k < LNode.size ⟨none, [.mem 1]⟩ →
      ¬ p.covers (selfSize ln.self + sizeCells [] + k)) := by
  intro cntF lagF Pold Pnew lo ln m0
  refine ⟨rfl, rfl, rfl, ?_, ?_, rfl, rfl, by decide +kernel, rfl, rfl, rfl, ?_, ?_, rfl, rfl, by decide +kernel, rfl,
    by decide +kernel⟩
  · intro d hd
    simp only [Pnew, List.mem_cons, List.not_mem_nil, or_false] at hd
    rcases hd with rfl | rfl <;> simp [SitesOk, siteLens, cntF, lagF]
  · simp [SitesOk, siteLens, siteLensL, Pnew]
  · refine ⟨?_, ?_⟩
    · intro v hv; simp [m0, SNode.empty, SNode.selfv] at hv
    · simp [lo, ConfL, Conf, SelfOk, m0, SNode.empty, SNode.childAt, SNode.cells, SNode.selfv, lookupCell]
  · refine ⟨?_, ?_⟩
    · simp [SelfOkS, m0, SNode.empty, SNode.childAt, SNode.cells, SNode.selfv, lookupCell]
    · simp [ConfSL]

end Mimium.LiveCoding
