import Mimium.Model.Migration
import Mimium.Props.C08
/-!
# C07 — hot swap after an edit preserves the state of untouched signal paths

Proved (all layouts, all storage contents):
* `C07_carried_range_words`: if the executable test `carriesRange` accepts a word range, then after applying the
  plan (in any order — `C08_apply_order_irrelevant`) every word of the range arrives unchanged at its new position;
  hence a voice whose cells are carried continues from exactly its pre-swap state words;
* `C07_new_cells_start_from_zero`: words no patch covers are zero after the VM's migration (new sites start from zero);
* `C07_failed_compile_no_swap`: in the model of the recompile path an edit that does not compile produces no
  payload and leaves the machine untouched.
Decided by correspondence: real edit histories (insert / delete / replace / nest a voice, change a constant, inject
a compile error) on both runtimes; every channel observing an untouched voice must continue as predicted by the
reference semantics of that voice alone, new voices start from zero.  When an untouched voice is NOT carried, the
Lean model of the pinned diff (`carriesChild`) says whether this is finding F5 (model predicts the loss) or a new violation.
PARTIAL: the link from "state words carried" to "voice output continues" (flat words = serialised per-call-site state)
is exercised, not proved.
-/
namespace Mimium.Migration
open Mimium.StateTree

theorem wordMoved_spec {ps : List Patch} {a b : Nat} (h : wordMoved ps a b = true) :
    ∃ p ∈ ps, p.covers b ∧ p.src + (b - p.dst) = a := by
  simp only [wordMoved, List.any_eq_true, Bool.and_eq_true, decide_eq_true_eq, beq_iff_eq] at h
  obtain ⟨p, hp, ⟨h1, h2⟩, h3⟩ := h
  refine ⟨p, hp, ?_, ?_⟩
  · simp only [Patch.covers]; omega
  · omega

/-- carried ranges arrive word for word -/
theorem C07_carried_range_words (o n : Sk) (old : List Nat) (srcOff dstOff size : Nat)
    (hb : dstOff + size ≤ n.size)
    (h : carriesRange (takeDiff o n) srcOff dstOff size = true) :
    ∀ w, w < size →
      (applyPatches old (List.replicate n.size 0) (takeDiff o n)).getD (dstOff + w) 0 = old.getD (srcOff + w) 0 := by
  intro w hw
  simp only [carriesRange, List.all_eq_true, List.mem_range] at h
  obtain ⟨p, hp, hc, he⟩ := wordMoved_spec (h w hw)
  rw [C08_copied_words o n old (dstOff + w) (by omega) p hp hc, he]

/-- words that no patch covers are zero after the VM's migration: new sites start from zero -/
theorem C07_new_cells_start_from_zero (o n : Sk) (old : List Nat) (k : Nat) (hk : k < n.size)
    (h : ∀ p ∈ takeDiff o n, ¬ p.covers k) :
    (applyPatches old (List.replicate n.size 0) (takeDiff o n)).getD k 0 = 0 :=
  C08_others_zero o n old k hk h

/-- the recompile path: a compile result is either a payload or diagnostics; only a payload reaches the runtime -/
inductive CompileResult (P : Type) | ok (payload : P) | err (diagnostics : List String)

def recompile {M P : Type} (swap : M → P → M) (m : M) : CompileResult P → M
  | .ok p => swap m p
  | .err _ => m

theorem C07_failed_compile_no_swap {M P : Type} (swap : M → P → M) (m : M) (ds : List String) :
    recompile swap m (CompileResult.err ds : CompileResult P) = m := rfl

/-! non-vacuity: inserting a voice in front moves the two old voices; both are carried -/
example :
    let old := Sk.fn [.fn [.feed 1], .fn [.mem 1, .delay 4]]
    let new := Sk.fn [.fn [.mem 1], .fn [.feed 1], .fn [.mem 1, .delay 4]]
    carriesChild old new 0 1 = true ∧ carriesChild old new 1 2 = true ∧ carriesChild old new 0 0 = false := by
  decide +kernel

end Mimium.Migration
