import Mimium.Model.Core
import Mimium.Props.C05
/-!
# C03 — programs accepted by the type checker run without crashes or memory errors

Proved here (model level):
* `C03_output_width`: a value of first-order type `τ` flattens to exactly `wordSize τ` output words, for every
  value and type — the arithmetic behind "dsp yields exactly the number of output words its type declares";
* `C03_zero_has_shape`: the zero-initial `self` value has its declared shape;
* `C03_state_accesses_in_bounds`: the accesses a published layout prescribes stay inside the storage sized from that
  layout (`total_size`), for every layout — the model-level reason the VM's unchecked state accesses are safe
  (the run-time side is watched by the bounds-asserting hook on every generated program).
NOT proved: soundness of the real type checker. It is observed: everything the real checker accepts among
generated well-typed programs and their near-miss mutants must run safely on both backends; the pinned tree has
listed findings there (K1–K6).
-/
namespace Mimium.Core

/-- first-order types -/
inductive Ty | num | tup (ts : List Ty)
deriving Repr, Inhabited

mutual
def wordSize : Ty → Nat
  | .num => 1
  | .tup ts => wordSizeL ts
def wordSizeL : List Ty → Nat
  | [] => 0
  | t :: ts => wordSize t + wordSizeL ts
end

mutual
inductive HasTy : Val → Ty → Prop
  | num (b : UInt64) : HasTy (.num b) .num
  | tup {vs : List Val} {ts : List Ty} : HasTys vs ts → HasTy (.tup vs) (.tup ts)
inductive HasTys : List Val → List Ty → Prop
  | nil : HasTys [] []
  | cons {v : Val} {t : Ty} {vs : List Val} {ts : List Ty} : HasTy v t → HasTys vs ts → HasTys (v :: vs) (t :: ts)
end

mutual
theorem C03_output_width : ∀ (v : Val) (t : Ty), HasTy v t → (flattenVal v).length = wordSize t
  | _, _, .num b => by simp [flattenVal, wordSize]
  | _, _, .tup h => by simp only [flattenVal, wordSize]; exact C03_output_width_list _ _ h
theorem C03_output_width_list : ∀ (vs : List Val) (ts : List Ty), HasTys vs ts → (flattenVals vs).length = wordSizeL ts
  | _, _, .nil => by simp [flattenVals, wordSizeL]
  | _, _, .cons h hs => by
    simp only [flattenVals, wordSizeL, List.length_append]
    rw [C03_output_width _ _ h, C03_output_width_list _ _ hs]
end

mutual
def tyOfShape : Shape → Ty
  | .num => .num
  | .tup ss => .tup (tyOfShapes ss)
def tyOfShapes : List Shape → List Ty
  | [] => []
  | s :: ss => tyOfShape s :: tyOfShapes ss
end

mutual
theorem C03_zero_has_shape : ∀ (s : Shape), HasTy (zeroOf s) (tyOfShape s)
  | .num => by simp only [zeroOf, tyOfShape]; exact HasTy.num 0
  | .tup ss => by simp only [zeroOf, tyOfShape]; exact HasTy.tup (C03_zero_has_shapes ss)
theorem C03_zero_has_shapes : ∀ (ss : List Shape), HasTys (zeroOf.zeroOfL ss) (tyOfShapes ss)
  | [] => by simp only [zeroOf.zeroOfL, tyOfShapes]; exact HasTys.nil
  | s :: ss => by simp only [zeroOf.zeroOfL, tyOfShapes]; exact HasTys.cons (C03_zero_has_shape s) (C03_zero_has_shapes ss)
end

/-- every access prescribed by a published layout lies inside `total_size` words -/
theorem C03_state_accesses_in_bounds (sk : StateTree.Sk) (hw : Layout.WF sk = true) :
    ∀ a ∈ Layout.expectedTrace sk 0, a.pos + a.size ≤ sk.size := by
  intro a ha
  have := Layout.C05_expected_in_bounds sk 0 hw a ha
  omega

example : wordSize (.tup [.num, .tup [.num, .num]]) = 3 ∧
    (flattenVal (.tup [.num 1, .tup [.num 2, .num 3]])).length = 3 := by decide

end Mimium.Core
