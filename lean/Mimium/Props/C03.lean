import Mimium.Model.Core
import Mimium.Proofs.MirExample
import Mimium.Props.C05
import Mimium.Proofs.CoreSoundMachine
import Mimium.Proofs.CoreCheckComplete
import Mimium.Proofs.MirWfFn
import Mimium.Proofs.UnifyStrictStore
import Mimium.Gen.Unify
/-!
# C03 — programs accepted by the type checker run without crashes or memory errors

Proved here (model level), for the reference semantics `Model/Core` and the declarative type system of
`Proofs/CoreTy.lean` (`HasType Φ Γ ρ e τ`, `WellTyped Φ Ψg τout P`; function types, closures, assignment, per-call-site
state and tuple-valued `self` included — all 18 constructs):

* `C03_sound` / `C03_sound_list` — **type soundness**: in a well-typed program, an expression of type `τ` evaluated with
  ANY fuel in ANY typed environment / store / state either runs out of fuel or yields a value of type `τ`, a store typed by
  an extension of the store typing and a typed state; `C03_never_type_error` spells out the consequence: the result is
  never `.error (.type _)`, `.error (.unbound _)`, `.error (.nofn _)`;
* `C03_init_sound`, `C03_dsp_output_width`, `C03_run_output_width` — `Machine.init` establishes and `Machine.step`
  preserves the machine invariant (globals typed, root state typed), every successful `dsp` call outputs exactly
  `wordSize τout` words, for any number of samples, and no sample ends in a type error;
* `C03_sites_unique_suffices` — the premise on site identifiers used by the theorems (`Agree`: two calls sharing a site
  identifier name the same function) follows from the decidable `SitesUnique` (site identifiers pairwise distinct),
  which the program generator guarantees;
* `C03_output_width`, `C03_output_width_typed`, `C03_zero_has_shape`: the arithmetic of output widths;
* `C03_state_accesses_in_bounds`: the accesses a published layout prescribes stay inside the storage sized from that
  layout (`total_size`), for every layout — the model-level reason the VM's unchecked state accesses are safe.

Restrictions built into `WellTyped` (each forced by a quirk of the model, see `Proofs/CoreTy.lean`): globals have
first-order types and their initialisers call no named function (`Machine.step` truncates the store to the globals and
`initGlobals` drops an initialiser's temporaries; a named function sees the locations of all globals, also of those not
initialised yet); a function with a `selfShape` returns the type of that shape; lambda bodies cannot mention `self`
(closures run against a scratch state).

**An algorithmic checker, proved sound and (for annotated programs) complete** — `Model/CoreCheck.lean`, executable:
`inferE Φ B Γ ρ e : Option Ty` synthesises the type of an expression (the parameter types of a `lam`, the one rule of
`HasType` that is not syntax-directed, are read from a side table `B` keyed by parameter name, absent = `num`);
`checkProg A P : Option (Sig × List Ty × Ty)` decides every clause of `WellTyped` (globals, every declared function against
the signature the annotations `A` give it, `selfShape`, `Agree` of the call sites, numeric `dsp` parameters) plus a
first-order output type.
* `C03_check_sound` — `checkProg A P = some (Φ, Ψg, τ) → WellTyped Φ Ψg τ P`, for EVERY annotation table `A` (so also for
  the ones guessed by the untrusted unification pre-pass `Model/CoreInfer.lean`, whose verdict the driver prints);
* `C03_check_run_output_width`, `C03_check_never_type_error` — hence a program the checker accepts never goes wrong in the
  reference semantics: init + any number of samples is fuel exhaustion or `k` frames of exactly `wordSize τ` words;
* `C03_check_expr_sound`, `C03_check_expr_iff`, `C03_check_expr_unique`, `C03_check_lambda_free_complete` — expression
  level: `inferE … = some τ` iff there is an ANNOTATED derivation `HasTypeA` (= `HasType` whose `lam` rule uses the table);
  every annotated derivation is a derivation; types are unique; for lambda-free expressions every `HasType` derivation is
  found, whatever the table;
* `C03_check_complete`, `C03_check_iff` — program level: `checkProg A P = some (Φ, Ψg, τ)` iff `Φ` is the annotated signature
  list and `WellTypedA A Ψg τ P` (`WellTyped` with annotated derivations, every declaration checked, output first-order);
* `C03_check_complete_lambda_free_program` — for programs without `lam` (distinct function names) the checker is complete
  w.r.t. the DECLARATIVE `WellTyped` whose signatures are the annotated ones;
* `C03_check_agree_decided`, `C03_check_output_first_order` — the side conditions are decided exactly.
NOT proved here: completeness w.r.t. un-annotated `WellTyped` (a derivation may type two lambdas whose parameters share a
name differently, or choose signatures the annotations do not name; the inference pre-pass is not verified — it need not be).

**The MIR the compiler produced, checked per program** (`Model/Mir.lean`, `Model/MirWf.lean`; namespace `Mimium.Mir`):
`wfFn P f cert` is a decidable SSA well-formedness of one MIR function (every register defined before use on every path, the
`Phi` / `PhiSwitch` operand of the entered predecessor defined there, branch targets and fall-through merge blocks in range,
upvalue operands of a closure defined where it is made); `drv_mir` evaluates it on every function of the MIR of every generated
program.  `C03_mir_wf_no_stuck`: if every function of a program is `wfFn`, NO run of any function in the MIR semantics — any
call depth, arguments, closure, globals, storage — ends in `undefReg` (a register read before it was defined) or `badBlock`
(a jump to a block that does not exist); `C03_mir_wf_program_no_stuck`: the same for `Machine.init` and every sample.

NOT proved: soundness of the REAL type checker / that the real checker accepts only `WellTyped` programs. That is
observed, now in both directions: on every generated well-typed program and every near-miss mutant the verdict of the Lean
checker (accept with output width / reject) is compared with the real compiler's verdict (`tools/props/c03.py`); what the
real checker accepts must run safely on both backends; the pinned tree has listed findings there (K1–K10).
-/
namespace Mimium.Core

mutual
theorem C03_output_width : ∀ (v : Val) (t : Ty), HasTy v t → (flattenVal v).length = wordSize t
  | _, _, .num b => by simp [flattenVal, wordSize]
  | _, _, .tup h => by simp only [flattenVal, wordSize]; exact C03_output_width_list _ _ h
theorem C03_output_width_list : ∀ (vs : List Val) (ts : List Ty), HasTys vs ts → (flattenVals vs).length = wordSizeL ts
  | _, _, .nil => by simp [flattenVals, wordSizeL]
  | _, _, .cons h hs => by
    simp only [flattenVals, wordSizeL, List.length_append]
    rw [C03_output_width _ _ h, C03_output_width_list _ _ hs]
end

/-- … also for values containing closures (which occupy no output word), under any store typing -/
theorem C03_output_width_typed (Φ : Sig) (Ψ : List Ty) (v : Val) (τ : Ty) (h : VT Φ Ψ v τ) :
    (flattenVal v).length = wordSize τ := h.flatten_length

mutual
theorem C03_zero_has_shape : ∀ (s : Shape), HasTy (zeroOf s) (tyOfShape s)
  | .num => by simp only [zeroOf, tyOfShape]; exact HasTy.num 0
  | .tup ss => by simp only [zeroOf, tyOfShape]; exact HasTy.tup (C03_zero_has_shapes ss)
theorem C03_zero_has_shapes : ∀ (ss : List Shape), HasTys (zeroOf.zeroOfL ss) (tyOfShapes ss)
  | [] => by simp only [zeroOf.zeroOfL, tyOfShapes]; exact HasTys.nil
  | s :: ss => by simp only [zeroOf.zeroOfL, tyOfShapes]; exact HasTys.cons (C03_zero_has_shape s) (C03_zero_has_shapes ss)
end

/-- every access prescribed by a published layout lies inside `total_size` words -/
theorem C03_state_accesses_in_bounds (sk : StateTree.Sk) (hw : Layout.WF sk = true) :
    ∀ a ∈ Layout.expectedTrace sk 0, a.pos + a.size ≤ sk.size := by
  intro a ha
  have := Layout.C05_expected_in_bounds sk 0 hw a ha
  omega

example : wordSize (.tup [.num, .tup [.num, .num]]) = 3 ∧
    (flattenVal (.tup [.num 1, .tup [.num 2, .num 3]])).length = 3 := by decide

/-! ## Type soundness of the reference semantics -/

/-- **Soundness.** `P` well typed (signatures Φ, global types Ψg); `e : τ` under Γ and `self` type ρ; the environment
binds Γ's variables to locations of their types in a store typing Ψ that extends the globals' Ψg; the store is typed by Ψ;
`e` lies in a function body whose call sites `C` agree; the state of the running instance is typed for that body. Then,
for every fuel, `eval` either runs out of fuel or returns `(v, σ', st')` with `v : τ` and `σ'` typed under some extension
`Ψ'` of Ψ and `st'` typed: `Good R r` is `R a` for `r = .ok a`, `True` for `.error .fuel`, `False` for every other error. -/
theorem C03_sound {Φ : Sig} {Ψg : List Ty} {τout : Ty} {P : Prog} (hP : WellTyped Φ Ψg τout P)
    (fuel : Nat) (rt : Rt) (e : Expr) (Γ : Ctx) (ρ : Option Ty) (τ : Ty) (env : Env) (σ : Store) (st : SNode)
    (Ψ : List Ty) (C : List (Nat × String))
    (hty : HasType Φ Γ ρ e τ) (henv : EnvOK Ψ env Γ) (hσ : StoreOK Φ Ψ σ) (hg : Ψg <+: Ψ)
    (hC : calls e ⊆ C) (hA : Agree C) (hst : RunOK P C ρ st) :
    Good (fun r : Val × Store × SNode =>
        ∃ Ψ', Ψ <+: Ψ' ∧ VT Φ Ψ' r.1 τ ∧ StoreOK Φ Ψ' r.2.1 ∧ RunOK P C ρ r.2.2)
      (eval fuel P rt env e σ st) :=
  (sound rt hP.progOK fuel).1 e Γ ρ τ env σ st Ψ C hty henv hσ hg hC hA hst

/-- the same for argument lists / tuple components -/
theorem C03_sound_list {Φ : Sig} {Ψg : List Ty} {τout : Ty} {P : Prog} (hP : WellTyped Φ Ψg τout P)
    (fuel : Nat) (rt : Rt) (es : List Expr) (Γ : Ctx) (ρ : Option Ty) (τs : List Ty) (env : Env) (σ : Store) (st : SNode)
    (Ψ : List Ty) (C : List (Nat × String))
    (hty : HasTypes Φ Γ ρ es τs) (henv : EnvOK Ψ env Γ) (hσ : StoreOK Φ Ψ σ) (hg : Ψg <+: Ψ)
    (hC : callsL es ⊆ C) (hA : Agree C) (hst : RunOK P C ρ st) :
    Good (fun r : List Val × Store × SNode =>
        ∃ Ψ', Ψ <+: Ψ' ∧ VTs Φ Ψ' r.1 τs ∧ StoreOK Φ Ψ' r.2.1 ∧ RunOK P C ρ r.2.2)
      (evalList fuel P rt env es σ st) :=
  (sound rt hP.progOK fuel).2 es Γ ρ τs env σ st Ψ C hty henv hσ hg hC hA hst

/-- spelled out: a well-typed expression never ends in a type error, an unbound variable or an unknown function, and
when it succeeds its value has the expression's type -/
theorem C03_never_type_error {Φ : Sig} {Ψg : List Ty} {τout : Ty} {P : Prog} (hP : WellTyped Φ Ψg τout P)
    (fuel : Nat) (rt : Rt) (e : Expr) (Γ : Ctx) (ρ : Option Ty) (τ : Ty) (env : Env) (σ : Store) (st : SNode)
    (Ψ : List Ty) (C : List (Nat × String))
    (hty : HasType Φ Γ ρ e τ) (henv : EnvOK Ψ env Γ) (hσ : StoreOK Φ Ψ σ) (hg : Ψg <+: Ψ)
    (hC : calls e ⊆ C) (hA : Agree C) (hst : RunOK P C ρ st) :
    (∀ w, eval fuel P rt env e σ st ≠ .error (.type w)) ∧
    (∀ x, eval fuel P rt env e σ st ≠ .error (.unbound x)) ∧
    (∀ f, eval fuel P rt env e σ st ≠ .error (.nofn f)) ∧
    (∀ v σ' st', eval fuel P rt env e σ st = .ok (v, σ', st') →
      ∃ Ψ', Ψ <+: Ψ' ∧ VT Φ Ψ' v τ ∧ StoreOK Φ Ψ' σ' ∧ RunOK P C ρ st') := by
  have h := C03_sound hP fuel rt e Γ ρ τ env σ st Ψ C hty henv hσ hg hC hA hst
  refine ⟨?_, ?_, ?_, ?_⟩
  · intro w hw; rw [hw] at h; exact h
  · intro x hx; rw [hx] at h; exact h
  · intro f hf; rw [hf] at h; exact h
  · intro v σ' st' hr; rw [hr] at h; exact h

/-- the premise on site identifiers follows from the generator's guarantee (decidable): pairwise distinct site
identifiers (`call`, `mem`, `delay`) within a body -/
theorem C03_sites_unique_suffices (e : Expr) (h : SitesUnique e) : Agree (calls e) := h.agree

/-- **Initialisation.** `Machine.init` of a well-typed program never fails with a type error (any fuel) and yields a
machine whose globals and root state are typed. -/
theorem C03_init_sound {Φ : Sig} {Ψg : List Ty} {τout : Ty} {P : Prog} (hP : WellTyped Φ Ψg τout P) (fuel : Nat) (sr : UInt64) :
    Good (MachineOK Φ Ψg P) (Machine.init fuel P sr) := init_ok hP fuel sr

/-- **Output width, one sample.** From any typed machine state, `dsp` either runs out of fuel or outputs exactly
`wordSize τout` words and leaves a typed machine state — for any inputs (missing inputs read as 0). -/
theorem C03_dsp_output_width {Φ : Sig} {Ψg : List Ty} {τout : Ty} {P : Prog} (hP : WellTyped Φ Ψg τout P)
    (fuel : Nat) (sr : UInt64) (m : Machine) (inputs : List UInt64) (hm : MachineOK Φ Ψg P m) :
    Good (fun r : List UInt64 × Machine => r.1.length = wordSize τout ∧ MachineOK Φ Ψg P r.2)
      (Machine.step fuel P sr m inputs) := step_ok hP fuel sr m inputs hm

/-- … in the form asked for: every successful `Machine.step` outputs exactly `wordSize τout` words -/
theorem C03_dsp_output_width_ok {Φ : Sig} {Ψg : List Ty} {τout : Ty} {P : Prog} (hP : WellTyped Φ Ψg τout P)
    (fuel : Nat) (sr : UInt64) (m m' : Machine) (inputs out : List UInt64) (hm : MachineOK Φ Ψg P m)
    (hs : Machine.step fuel P sr m inputs = .ok (out, m')) : out.length = wordSize τout ∧ MachineOK Φ Ψg P m' := by
  have h := C03_dsp_output_width hP fuel sr m inputs hm
  rw [hs] at h; exact h

/-- **Output width, any number of samples.** Starting from `Machine.init`, a run of `k` samples either runs out of fuel
somewhere or produces `k` frames of exactly `wordSize τout` words each; it never ends in a type error. -/
theorem C03_run_output_width {Φ : Sig} {Ψg : List Ty} {τout : Ty} {P : Prog} (hP : WellTyped Φ Ψg τout P)
    (fuel : Nat) (sr : UInt64) (inputs : Nat → List UInt64) (k : Nat) :
    Good (fun r : List (List UInt64) × Machine =>
        r.1.length = k ∧ (∀ o ∈ r.1, o.length = wordSize τout) ∧ MachineOK Φ Ψg P r.2)
      (andThen (Machine.init fuel P sr) (runSamples fuel P sr inputs k)) :=
  Good.andThen (init_ok hP fuel sr) (fun m hm => run_ok hP fuel sr inputs k m hm)

/-! ## Non-vacuity: a concrete well-typed program
one global; a stateful function `acc` with a tuple-valued `self`, a `mem` and a `delay`, called from two sites of `dsp`;
a closure `inc` capturing and assigning the local `c`. -/

def exAcc : FnDecl :=
  { name := "acc", params := ["x"], selfShape := some (.tup [.num, .num]),
    body := .letTup ["a", "b"] .self
      (.tup [.bin .add (.var "a") (.mem (.var "x") 0),
             .bin .add (.var "b") (.bin .mul (.var "g0") (.delay 4 (.var "x") (.lit 0) 1))]) }

def exDsp : FnDecl :=
  { name := "dsp", params := ["in"], selfShape := none,
    body := .letE "t1" (.call "acc" [.var "in"] 1)
      (.letE "t2" (.call "acc" [.lit 0] 2)
        (.letE "c" (.lit 0)
          (.letE "inc" (.lam ["d"] (.assign "c" (.bin .add (.var "c") (.var "d")) (.var "c")))
            (.letE "u" (.app (.var "inc") [.proj (.var "t1") 0])
              (.tup [.var "u", .bin .add (.proj (.var "t2") 1) (.var "c")]))))) }

def exProg : Prog := { globals := [("g0", .bin .add (.lit 1) (.lit 2))], fns := [exAcc], dsp := exDsp }

def exSig : Sig := [("acc", [.num], .tup [.num, .num])]

/-- syntax-directed typing derivations (the parameter types of a `lam` must be given by hand) -/
macro "core_typing" : tactic => `(tactic| repeat (first
  | exact HasType.lit | exact HasType.now | exact HasType.samplerate | exact HasType.self
  | exact HasType.var rfl | exact HasTypes.nil | rfl
  | apply HasType.un | apply HasType.bin | apply HasType.ite | apply HasType.letE | apply HasType.letTup
  | apply HasType.tup | apply HasType.proj | apply HasType.call | apply HasType.app | apply HasType.mem
  | apply HasType.delay | apply HasType.assign | apply HasTypes.cons))

example : WellTyped exSig [.num] (.tup [.num, .num]) exProg where
  globals := .cons (by core_typing) rfl .nil
  fns := fns_of_all (by
    intro s hs
    simp only [exSig, List.mem_singleton] at hs
    subst hs
    refine ⟨exAcc, rfl, ?_⟩
    exact { arity := rfl
            body := by
              show HasType exSig [("x", .num), ("g0", .num)] (some (.tup [.num, .num])) exAcc.body _
              unfold exAcc; core_typing
            selfRet := by intro sh h; cases h; rfl
            agree := SitesUnique.agree (by decide) })
  dsp :=
    { arity := rfl
      body := by
        show HasType exSig [("in", .num), ("g0", .num)] none exDsp.body _
        unfold exDsp
        refine .letE (by core_typing) (.letE (by core_typing) (.letE .lit (.letE (τ₁ := .fn [.num] .num) ?_ (by core_typing))))
        exact .lam (τs := [.num]) rfl (by core_typing)
      selfRet := by intro sh h; cases h
      agree := SitesUnique.agree (by decide) }

/-- the example's hypotheses of `C03_sound` are satisfiable too: the empty store typing extended by the global -/
example : EnvOK [.num] [("g0", 0)] [("g0", .num)] ∧ StoreOK exSig [.num] [.num 0] ∧ RunOK exProg [] none SNode.empty := by
  refine ⟨?_, ⟨rfl, ?_⟩, StOK.empty _ _ _, by simp⟩
  · have := (EnvOK.nil [] []).push "g0" .num
    simpa using this
  · intro l v τ hv hτ
    cases l with
    | zero => simp at hv hτ; subst hv; subst hτ; exact .num 0
    | succ l => simp at hv

/-! ## The restrictions of `WellTyped` are forced by the model (concrete runs, checked by evaluation)
Each program below satisfies every clause of `WellTyped` except the named one, and ends in an error. -/

/-- a function-typed global whose closure captured a temporary of its initialiser: `initGlobals` drops the temporaries,
the captured location then holds the global itself -/
def exBadGlobalClosure : Prog :=
  { globals := [("g", .letE "y" (.lit 1) (.lam ["x"] (.bin .add (.var "x") (.var "y"))))], fns := [],
    dsp := { name := "dsp", params := [], selfShape := none, body := .app (.var "g") [.lit 2] } }

example : HasType [] [] none (.letE "y" (.lit 1) (.lam ["x"] (.bin .add (.var "x") (.var "y")))) (.fn [.num] .num) :=
  .letE .lit (.lam (τs := [.num]) rfl (by core_typing))
example : HasType [] [("g", .fn [.num] .num)] none exBadGlobalClosure.dsp.body .num := by
  unfold exBadGlobalClosure; core_typing
example (sr : UInt64) : ∃ m, Machine.init 10 exBadGlobalClosure sr = .ok m ∧
    Machine.step 10 exBadGlobalClosure sr m [] = .error (.type "binary operand") := ⟨_, rfl, rfl⟩

/-- a global initialiser calling a function that reads a later global -/
def exBadGlobalCall : Prog :=
  { globals := [("a", .call "f" [] 0), ("b", .lit 1)],
    fns := [{ name := "f", params := [], selfShape := none, body := .var "b" }],
    dsp := { name := "dsp", params := [], selfShape := none, body := .var "a" } }

example : HasType [("f", [], .num)] [] none (.call "f" [] 0) .num := by core_typing
example : HasType [("f", [], .num)] [("b", .num), ("a", .num)] none (.var "b") .num := by core_typing
example (sr : UInt64) : Machine.init 10 exBadGlobalCall sr = .error (.unbound "b") := rfl

/-- one site identifier shared by calls of two functions with different `self` types (`Agree` fails) -/
def exBadSites : Prog :=
  { globals := [],
    fns := [{ name := "f", params := [], selfShape := some .num, body := .self },
            { name := "g", params := [], selfShape := some (.tup [.num, .num]),
              body := .letTup ["a", "b"] .self (.tup [.var "a", .var "b"]) }],
    dsp := { name := "dsp", params := [], selfShape := none, body := .letE "u" (.call "f" [] 7) (.call "g" [] 7) } }

example : HasType [("f", [], .num), ("g", [], .tup [.num, .num])] [] none exBadSites.dsp.body (.tup [.num, .num]) := by
  unfold exBadSites; core_typing
example : HasType [("f", [], .num), ("g", [], .tup [.num, .num])] [] (some (.tup [.num, .num]))
    (.letTup ["a", "b"] .self (.tup [.var "a", .var "b"])) (.tup [.num, .num]) := by core_typing
example : ¬ Agree (calls exBadSites.dsp.body) := by
  intro h
  have := h 7 "f" "g" (by simp [exBadSites, calls, callsL]) (by simp [exBadSites, calls, callsL])
  exact absurd this (by decide)
example (sr : UInt64) : ∃ m, Machine.init 10 exBadSites sr = .ok m ∧
    Machine.step 10 exBadSites sr m [] = .error (.type "tuple pattern") := ⟨_, rfl, rfl⟩

/-! ## The algorithmic checker (`Model/CoreCheck.lean`) -/

/-- **Soundness of the checker.** Whatever the annotation table, a program the checker accepts is well typed with the
signatures, global types and output type the checker returns. -/
theorem C03_check_sound {A : Annot} {P : Prog} {Φ : Sig} {Ψg : List Ty} {τ : Ty}
    (h : checkProg A P = some (Φ, Ψg, τ)) : WellTyped Φ Ψg τ P := (checkProg_sound h).1

/-- … and its output type is first-order, its signatures are the annotated ones -/
theorem C03_check_output_first_order {A : Annot} {P : Prog} {Φ : Sig} {Ψg : List Ty} {τ : Ty}
    (h : checkProg A P = some (Φ, Ψg, τ)) : τ.fo = true ∧ Φ = P.fns.map (sigOf A) := (checkProg_sound h).2

/-- **Accepted programs run safely.** Init then any number `k` of samples of an accepted program: fuel exhaustion, or `k`
frames of exactly `wordSize τ` words each (`Good` is `False` on every error other than fuel). -/
theorem C03_check_run_output_width {A : Annot} {P : Prog} {Φ : Sig} {Ψg : List Ty} {τ : Ty}
    (h : checkProg A P = some (Φ, Ψg, τ)) (fuel : Nat) (sr : UInt64) (inputs : Nat → List UInt64) (k : Nat) :
    Good (fun r : List (List UInt64) × Machine =>
        r.1.length = k ∧ (∀ o ∈ r.1, o.length = wordSize τ) ∧ MachineOK Φ Ψg P r.2)
      (andThen (Machine.init fuel P sr) (runSamples fuel P sr inputs k)) :=
  C03_run_output_width (C03_check_sound h) fuel sr inputs k

/-- spelled out: no run of an accepted program ends in a type error, an unbound variable or an unknown function -/
theorem C03_check_never_type_error {A : Annot} {P : Prog} {Φ : Sig} {Ψg : List Ty} {τ : Ty}
    (h : checkProg A P = some (Φ, Ψg, τ)) (fuel : Nat) (sr : UInt64) (inputs : Nat → List UInt64) (k : Nat) :
    (∀ w, andThen (Machine.init fuel P sr) (runSamples fuel P sr inputs k) ≠ .error (.type w)) ∧
    (∀ x, andThen (Machine.init fuel P sr) (runSamples fuel P sr inputs k) ≠ .error (.unbound x)) ∧
    (∀ f, andThen (Machine.init fuel P sr) (runSamples fuel P sr inputs k) ≠ .error (.nofn f)) := by
  have hr := C03_check_run_output_width h fuel sr inputs k
  refine ⟨?_, ?_, ?_⟩
  · intro w hw; rw [hw] at hr; exact hr
  · intro x hx; rw [hx] at hr; exact hr
  · intro f hf; rw [hf] at hr; exact hr

/-- **Expressions: soundness.** What `inferE` synthesises is a type of the declarative system. -/
theorem C03_check_expr_sound (Φ : Sig) (B : Binders) (e : Expr) (Γ : Ctx) (ρ : Option Ty) (τ : Ty)
    (h : inferE Φ B Γ ρ e = some τ) : HasType Φ Γ ρ e τ := inferE_sound Φ B e Γ ρ τ h

/-- **Expressions: the checker decides annotated typability.** `HasTypeA` is `HasType` with the parameter types of every
`lam` read from the table `B` (`C03_check_annotated_is_typed`). -/
theorem C03_check_expr_iff (Φ : Sig) (B : Binders) (e : Expr) (Γ : Ctx) (ρ : Option Ty) (τ : Ty) :
    inferE Φ B Γ ρ e = some τ ↔ HasTypeA Φ B Γ ρ e τ := inferE_iff

theorem C03_check_annotated_is_typed (Φ : Sig) (B : Binders) (e : Expr) (Γ : Ctx) (ρ : Option Ty) (τ : Ty)
    (h : HasTypeA Φ B Γ ρ e τ) : HasType Φ Γ ρ e τ := h.toHasType

/-- under annotations an expression has at most one type -/
theorem C03_check_expr_unique (Φ : Sig) (B : Binders) (e : Expr) (Γ : Ctx) (ρ : Option Ty) (τ τ' : Ty)
    (h : HasTypeA Φ B Γ ρ e τ) (h' : HasTypeA Φ B Γ ρ e τ') : τ = τ' := h.unique h'

/-- **Completeness without annotations for lambda-free expressions**: every declarative derivation is found. -/
theorem C03_check_lambda_free_complete (Φ : Sig) (B : Binders) (e : Expr) (Γ : Ctx) (ρ : Option Ty) (τ : Ty)
    (h : HasType Φ Γ ρ e τ) (hl : noLam e = true) : inferE Φ B Γ ρ e = some τ := inferE_complete (h.toA B hl)

/-- **Programs: completeness for the annotated fragment.** -/
theorem C03_check_complete {A : Annot} {P : Prog} {Ψg : List Ty} {τ : Ty} (h : WellTypedA A Ψg τ P) :
    checkProg A P = some (P.fns.map (sigOf A), Ψg, τ) := checkProg_iff.2 ⟨rfl, h⟩

/-- **Programs: the checker decides `WellTypedA`** (`WellTyped` with annotated derivations, the annotated signatures for
every declaration, a first-order output type); `WellTypedA A Ψg τ P → WellTyped (sigs) Ψg τ P` is `C03_check_sound` ∘ this. -/
theorem C03_check_iff {A : Annot} {P : Prog} {Φ : Sig} {Ψg : List Ty} {τ : Ty} :
    checkProg A P = some (Φ, Ψg, τ) ↔ Φ = P.fns.map (sigOf A) ∧ WellTypedA A Ψg τ P := checkProg_iff

/-- **Programs: completeness w.r.t. the declarative `WellTyped`, lambda-free programs.** If a program without `lam`, with
pairwise distinct function names, is `WellTyped` with the signatures the annotations name and a first-order output type,
the checker accepts it and returns exactly that typing. (With lambdas the derivation must use the annotated parameter
types: `C03_check_complete`.) -/
theorem C03_check_complete_lambda_free_program {A : Annot} {P : Prog} {Ψg : List Ty} {τ : Ty}
    (h : WellTyped (P.fns.map (sigOf A)) Ψg τ P) (hl : noLamProg P = true)
    (hn : (P.fns.map (·.name)).Nodup) (hfo : τ.fo = true) :
    checkProg A P = some (P.fns.map (sigOf A), Ψg, τ) := checkProg_complete_noLam h hl hn hfo

/-- the side condition on site identifiers is decided exactly -/
theorem C03_check_agree_decided (C : List (Nat × String)) : agreeB C = true ↔ Agree C := agreeB_iff C

/-! ### non-vacuity: the checker accepts the example program (by evaluation) and rejects the three bad ones -/
def exAnnot : Annot := { binders := [], rets := [("acc", .tup [.num, .num])] }

example : checkProg exAnnot exProg = some (exSig, [.num], .tup [.num, .num]) := by decide
example : WellTyped exSig [.num] (.tup [.num, .num]) exProg := C03_check_sound (A := exAnnot) (by decide)
example : WellTypedA exAnnot [.num] (.tup [.num, .num]) exProg := (C03_check_iff (Φ := exSig).1 (by decide)).2
example : sitesUniqueProg exProg = true := by decide
/-- the hypotheses of `C03_check_complete_lambda_free_program` are satisfiable: `exProg` without its closure -/
def exNoLam : Prog :=
  { globals := exProg.globals, fns := exProg.fns,
    dsp := { name := "dsp", params := ["in"], selfShape := none,
             body := .letE "t1" (.call "acc" [.var "in"] 1) (.tup [.proj (.var "t1") 0, .var "g0"]) } }
example : WellTyped (exNoLam.fns.map (sigOf exAnnot)) [.num] (.tup [.num, .num]) exNoLam ∧ noLamProg exNoLam = true ∧
    (exNoLam.fns.map (·.name)).Nodup ∧ (Ty.tup [.num, .num]).fo = true :=
  ⟨C03_check_sound (A := exAnnot) (by decide), by decide, by decide, by decide⟩
/-- a lambda with a function-typed parameter needs its annotation: with it the checker accepts, without it it rejects -/
def exHO : Prog :=
  { globals := [], fns := [],
    dsp := { name := "dsp", params := [], selfShape := none,
             body := .letE "twice" (.lam ["f", "x"] (.app (.var "f") [.app (.var "f") [.var "x"]]))
               (.app (.var "twice") [.lam ["y"] (.bin .mul (.var "y") (.var "y")), .lit 3]) } }
example : checkProg ⟨[("f", .fn [.num] .num)], []⟩ exHO = some ([], [], .num) := by decide
example : checkProg ⟨[], []⟩ exHO = none := by decide
/-- … so the un-annotated completeness statement `WellTyped Φ Ψg τ P → checkProg A P ≠ none` is FALSE for a fixed table:
completeness is necessarily relative to the annotations (`C03_check_complete`) or to lambda-free programs -/
example : WellTyped [] [] .num exHO ∧ checkProg ⟨[], []⟩ exHO = none :=
  ⟨C03_check_sound (A := ⟨[("f", .fn [.num] .num)], []⟩) (by decide), by decide⟩
example : inferE [] [] [("t", .tup [.num, .num])] none (.proj (.var "t") 1) = some .num ∧
    noLam (.proj (.var "t") 1) = true := by decide
example : HasTypeA [] [] [] none (.lam ["q"] (.var "q")) (.fn [.num] .num) := (C03_check_expr_iff ..).1 (by decide)
-- the three programs that satisfy all clauses of `WellTyped` but one are rejected, whatever the annotations of their functions
example : checkProg ⟨[], []⟩ exBadGlobalClosure = none := by decide
example : checkProg ⟨[], []⟩ exBadGlobalCall = none := by decide
example : checkProg ⟨[], [("g", .tup [.num, .num])]⟩ exBadSites = none := by decide
example : agreeB (calls exBadSites.dsp.body) = false := by decide

end Mimium.Core

namespace Mimium.Mir

/-- A program all of whose MIR functions pass `wfFn`: no call of any function, at any depth and from any machine state,
gets stuck on an undefined register or a bad block index (every other outcome — words, `unsupported`, the remaining `stuck`
reasons, `fuel` — stays possible). -/
theorem C03_mir_wf_no_stuck (P : Prog) (hwf : ∀ (g : Nat) (f : Fn), P.fns[g]? = some f → ∃ c, wfFn P f c = true)
    (n g : Nat) (ws : List UInt64) (clo : Option Nat) (glob : Glob) (st : StateMachine.St) (tr : List Layout.Access) :
    (∀ r, runFn P n g ws clo glob st tr ≠ .error (.undefReg r)) ∧ (∀ b, runFn P n g ws clo glob st tr ≠ .error (.badBlock b)) := by
  have h := runFn_safe hwf n g ws clo glob st tr
  exact ⟨fun r hr => (h _ hr).1 r rfl, fun b hb => (h _ hb).2 b rfl⟩

/-- the executable whole-program predicate `wfProg` (certificates inferred by `inferWf`) is such a hypothesis, so neither the
global initialisation nor any sample of a `wfProg` program gets stuck that way -/
theorem C03_mir_wf_program_no_stuck (P : Prog) (hwf : wfProg P = true) (fuel : Nat) :
    (∀ sr r, Machine.init fuel P sr ≠ .error (.undefReg r)) ∧ (∀ sr b, Machine.init fuel P sr ≠ .error (.badBlock b)) ∧
    (∀ m now inputs r, Machine.step fuel P m now inputs ≠ .error (.undefReg r)) ∧
    (∀ m now inputs b, Machine.step fuel P m now inputs ≠ .error (.badBlock b)) := by
  have hall : ∀ (g : Nat) (f : Fn), P.fns[g]? = some f → ∃ c, wfFn P f c = true := by
    intro g f hf
    simp only [wfProg, List.all_eq_true] at hwf
    exact ⟨inferWf f, hwf f (List.mem_of_getElem? hf)⟩
  have hsafe := runFn_safe hall fuel
  have hinit : ∀ sr, Safe (Machine.init fuel P sr) := by
    intro sr
    exact Safe.bind (hsafe _ _ _ _ _ _) (fun _ => Safe.ok _)
  have hstep : ∀ m now inputs, Safe (Machine.step fuel P m now inputs) := by
    intro m now inputs
    unfold Machine.step
    split
    · exact Safe.stuck _
    · exact Safe.bind (hsafe _ _ _ _ _ _) (fun _ => Safe.ok _)
  exact ⟨fun sr r h => (hinit sr _ h).1 r rfl, fun sr b h => (hinit sr _ h).2 b rfl,
         fun m now inputs r h => (hstep m now inputs _ h).1 r rfl, fun m now inputs b h => (hstep m now inputs _ h).2 b rfl⟩


/-! ### non-vacuity on a real dump (`Proofs/MirExample.lean`), kernel-evaluated -/

/-- both example programs are well formed (the F3 program too: its defect is the state cursor, not a register) -/
example : wfProg exProg = true ∧ wfProg exStateInArms = true := by decide +kernel

/-- hence neither its global initialisation nor any sample can end on an undefined register or a bad block -/
example (fuel : Nat) (m : Machine) (now : UInt64) (inputs : List UInt64) (r : Nat) :
    Machine.step fuel exProg m now inputs ≠ .error (.undefReg r) :=
  (C03_mir_wf_program_no_stuck exProg (by decide +kernel) fuel).2.2.1 m now inputs r

/-- a use before the definition is rejected: `dsp` of the example with its first `load` removed reads register 1 undefined -/
example :
    wfFn exProg (Fn.build "bad" none [1] [] (.fn []) 4 1 [[.bin .addf 2 (.reg 1) (.reg 0), .ret (.reg 2) 1]])
      (inferWf (Fn.build "bad" none [1] [] (.fn []) 4 1 [[.bin .addf 2 (.reg 1) (.reg 0), .ret (.reg 2) 1]])) = false ∧
    wfFn exProg (Fn.build "good" none [1] [] (.fn []) 4 1 [[.load 1 (.reg 0) 1, .bin .addf 2 (.reg 1) (.reg 0), .ret (.reg 2) 1]])
      (inferWf (Fn.build "good" none [1] [] (.fn []) 4 1 [[.load 1 (.reg 0) 1, .bin .addf 2 (.reg 1) (.reg 0), .ret (.reg 2) 1]])) = true := by
  decide +kernel
end Mimium.Mir

/-! ## The real checker's UNIFICATION (`typing/unification.rs`), ported whole (`Model/Unify.lean`, namespace `Mimium.Unify`)

`go g f false` = `unify_types`, `go g f true` = `unify_types_args` (every arm of both `match` tables, `unify_vec`, the record arm with
its four passes, the union arms with the bindings their failed attempts leave), tied to the real functions by the stream
`unification` of `tools/props/c03.py` (exact agreement on verdict, error kinds, parents and `substitute_type` of every variable).

* `C03_unify_sound` — what an `Ok(_)` of the real unification MEANS: its two arguments are related by `Len σ'` (`Model/UnifySpec.lean`)
  in the store it leaves — equality modulo the bindings (`SEq`) weakened by one clause per lenient arm.  The clauses ARE the finding:
  `tupleSameLength` (`unify_vec` drops the errors of the members: two tuples of the same length unify, so the ARGUMENT TYPES of every
  call with two or more arguments are unchecked — K1, K9, K16), `tuple1L/R`, `argsTuple1L/R`, `argsRecord1L/R` (a one-element pack is
  its element), `argsRecordTuple` (parameters against arguments by position, keys forgotten), `unitTuple0`/`unitRecord0`,
  `anyL/R`, `failureL/R`, `boxedL/R`, `record` (fields on one side only are accepted), `unionL/R/Both`, `argsUnionL`.
  The same holds when the answer is `Err(vec![])` (an error WITHOUT any diagnostic: `unify_vec` on members of both variances).
* `C03_unify_strict_fragment` — the converse boundary: on types without tuples, records, unions, `Boxed`, `Any`, `Failure` (the two
  arguments and the parents of the store the call starts from) none of the lenient clauses applies: success implies the textbook
  statement `SEq`, and the store stays in the fragment.
* `C03_unification_functions_pinned` — the bodies of unification.rs are the ones the port was made from (hashes, arm counts).
NOT proved: completeness (that unifiable types are unified), principality, anything about `typing.rs` (what it asks to be unified). -/
namespace Mimium.Unify

/-- **Soundness of the real unification, with its leniencies spelled out.**  For ALL stores, types, fuels: if `unify_types`
(`args = false`) / `unify_types_args` (`args = true`) started on an acyclic store answers `Ok(_)` — or fails with an EMPTY error
list — then in the store `σ'` it leaves its arguments are `Len`-related. -/
theorem C03_unify_sound (g f : Nat) (args : Bool) (σ σ' : Store) (t1 t2 : Ty) (r : Res)
    (hσ : Occurs.Acyclic (absS σ)) (h : go g f args σ t1 t2 = some (σ', r))
    (hr : (∃ rel, r = .ok rel) ∨ r = .error []) : Len σ' args t1 t2 := by
  refine go_sound g f args σ t1 t2 σ' r hσ h ?_
  rcases hr with ⟨rel, rfl⟩ | rfl <;> rfl

/-- **The converse boundary.**  On the fragment without tuples, records, unions, `Boxed`, `Any`, `Failure` (the two types and the
parents of the store the call starts from) a successful unification establishes syntactic equality modulo the bindings — the
textbook statement — and the store it leaves is again in the fragment. -/
theorem C03_unify_strict_fragment (g f : Nat) (args : Bool) (σ σ' : Store) (t1 t2 : Ty) (rel : Rel)
    (hσ : Occurs.Acyclic (absS σ)) (h : go g f args σ t1 t2 = some (σ', .ok rel))
    (h1 : strict t1 = true) (h2 : strict t2 = true) (hS : StrictStore σ) : SEq σ' t1 t2 ∧ StrictStore σ' :=
  have hS' := go_strict g f args σ t1 t2 hS h1 h2 σ' _ h
  ⟨len_strict hS' (C03_unify_sound g f args σ σ' t1 t2 (.ok rel) hσ h (.inl ⟨rel, rfl⟩)) h1 h2, hS'⟩

/-- obligation: every function of `typing/unification.rs` (test and hook modules aside) has the text `Model/Unify.lean` was ported
from, and the two `match` tables have the arms the port has (12 and 26) -/
theorem C03_unification_functions_pinned :
    Mimium.Gen.unifyFns = Mimium.Gen.unifyFnsPinned ∧ Mimium.Gen.unifyArms = Mimium.Gen.unifyArmsPinned ∧
    Mimium.Gen.unifyArms = [("unify_types_args", 12), ("unify_types", 26)] := by decide

/-! ### witnesses (kernel-evaluated; each is replayed on the real `unify_types` by `corpus/C03/unify.txt`) -/

/-- K16 (root of K1 / K9): tuples of the same length unify whatever their members — `(float, string)` with `(float, float)` -/
example : verdict (unify 8 8 [] (.tuple [.prim .num, .prim .str]) (.tuple [.prim .num, .prim .num])) = some (.ok .ident) ∧
    verdict (unify 8 8 [] (.prim .str) (.prim .num)) = some (.error [.mismatch]) := by decide +kernel

/-- K1 at the level of unification: `fn f1(a3, a4){ a3(1.0) }` called as `f1(0.3, 0.007)` — the parameter pack `{a3: (float)->?0, a4: ?1}`
against the argument pack `(float, float)`: `(float)->?0` against `float` fails, `unify_vec` drops the error, the call type-checks -/
example : verdict (unify 16 16 [] (.fn (.record [⟨0, false, .fn (.prim .num) (.var 0)⟩, ⟨1, false, .var 1⟩]) (.var 2))
      (.fn (.tuple [.prim .num, .prim .num]) (.var 3))) = some (.ok .ident) := by decide +kernel

/-- K9: a parameter the body makes a pair, a number passed for it -/
example : verdict (unify 16 16 [] (.fn (.record [⟨0, false, .var 0⟩, ⟨1, false, .tuple [.prim .num, .prim .num]⟩]) (.var 2))
      (.fn (.tuple [.prim .num, .prim .num]) (.var 3))) = some (.ok .ident) := by decide +kernel

/-- K10 / K8 (arity): a function of ONE un-annotated parameter has that parameter's type as its `arg`, so a call with two arguments
binds the parameter to the pair of them and a call with none binds it to `unit`; with an annotation both are refused -/
example :
    verdict (unify 16 16 [] (.fn (.var 0) (.var 1)) (.fn (.tuple [.prim .num, .prim .num]) (.var 2))) = some (.ok .ident) ∧
    ((parentAfter (unify 16 16 [] (.fn (.var 0) (.var 1)) (.fn (.tuple [.prim .num, .prim .num]) (.var 2))) 0).bind asTuple).map List.length = some 2 ∧
    verdict (unify 16 16 [] (.fn (.var 0) (.var 1)) (.fn (.prim .unit) (.var 2))) = some (.ok .ident) ∧
    verdict (unify 16 16 [] (.fn (.prim .num) (.var 1)) (.fn (.tuple [.prim .num, .prim .num]) (.var 2))) = some (.error [.mismatch]) ∧
    verdict (unify 16 16 [] (.fn (.prim .num) (.var 1)) (.fn (.prim .unit) (.var 2))) = some (.error [.mismatch]) := by decide +kernel

/-- K4: a one-element tuple is its element, in both directions and at any depth; `unit` is `()` and `{}` -/
example : verdict (unify 8 8 [] (.prim .num) (.tuple [.tuple [.prim .num]])) = some (.ok .ident) ∧
    verdict (unify 8 8 [] (.tuple []) (.prim .unit)) = some (.ok .ident) ∧
    verdict (unify 8 8 [] (.prim .unit) (.record [])) = some (.ok .ident) := by decide +kernel

/-- an error WITHOUT a diagnostic: members of both variances make `unify_vec` return `Err(vec![])` -/
example : verdict (unify 16 16 [] (.tuple [.record [⟨0, false, .prim .num⟩], .record [⟨0, false, .prim .num⟩, ⟨1, false, .prim .num⟩]])
      (.tuple [.record [⟨0, false, .prim .num⟩, ⟨1, false, .prim .num⟩], .record [⟨0, false, .prim .num⟩]])) = some (.error []) := by
  decide +kernel

/-- the converse of soundness fails even for IDENTICAL types (so there is no `C03_unify_error_means_clash`): `TypeAlias(A)` against
`TypeAlias(A)` and `Unknown` against `Unknown` fall through both tables to `TypeMismatch` (typing.rs resolves aliases and replaces
`Unknown` by fresh variables before it asks) -/
example : verdict (unify 8 8 [] (.alias 0) (.alias 0)) = some (.error [.mismatch]) ∧
    verdict (unify 8 8 [] .unknown .unknown) = some (.error [.mismatch]) := by decide +kernel

/-- non-vacuity of the strict fragment: `(?0) -> [float]` against `(float) -> ?1` binds both, nothing lenient is involved;
and the occurs check refuses `?0 := [?0]` -/
example : verdict (unify 16 16 [] (.fn (.var 0) (.array (.prim .num))) (.fn (.prim .num) (.var 1))) = some (.ok .ident) ∧
    strict (.fn (.var 0) (.array (.prim .num))) = true ∧
    verdict (unify 16 16 [] (.var 0) (.array (.var 0))) = some (.error [.circular]) := by decide +kernel

end Mimium.Unify
