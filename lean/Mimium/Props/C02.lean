import Mimium.Proofs.Ring
import Mimium.Model.Core
/-!
# C02 — call-by-value semantics with per-call-site state

`Model/Core.lean` *is* the independent definition the property asks for (a big-step evaluator with a state tree
indexed by textual call sites).  This file proves that the definition has the four semantic clauses of the
statement, for all programs / streams / run lengths:

* `delay(n,x,t)` returns `x` from `d` samples earlier for every clamped delay `1 ≤ d ≤ n-1` (and exactly what it
  returns outside that range) — `C02_delay_spec`, proved on the ring-buffer port by an invariant over all run lengths;
* `mem(x)` returns the operand of the previous evaluation at that site — `C02_mem_step` + `C02_cell_read_after_write`;
* every site owns its own cell: writing one site never changes another — `C02_cells_independent`;
* `self` is the function instance's previous return value, zero at first — `C02_call_step`;
* `now` counts samples from 0 — `C02_now_counts`.

That the real compiler + VM implement this definition is decided by the correspondence stage (`./check C02`).
The conversion of the time argument from `f64` (`clampTime`) goes through Lean's opaque `Float` and is tied by
the correspondence only.
-/
namespace Mimium.Core
open Mimium.Cells

/-- `delay`: for every ring size `n ≥ 1`, every input stream `x`, every sequence of clamped delays `d k ≤ n-1`,
after any number `k` of samples the ring returns the input from `d k` samples ago (0 before the stream starts);
`d k = 0` returns what was written `n` samples ago. -/
theorem C02_delay_spec (n : Nat) (hn : 0 < n) (x : Nat → UInt64) (d : Nat → Nat) (hd : ∀ k, d k ≤ n - 1) (k : Nat) :
    ((ringAfter n x d k).processD (x k) (d k)).1 =
      if d k = 0 then (if n ≤ k then x (k - n) else 0)
      else if d k ≤ k then x (k - d k) else 0 :=
  ring_output hn (ringAfter_inv n x d hn k) (x k) (d k) (hd k)

/-- in the range the statement names (`1 ≤ d ≤ n-1`, stream already `d` samples long): exactly `x (k-d)` -/
theorem C02_delay_in_range (n : Nat) (hn : 0 < n) (x : Nat → UInt64) (d : Nat → Nat) (hd : ∀ k, d k ≤ n - 1) (k : Nat)
    (h1 : 1 ≤ d k) (h2 : d k ≤ k) : ((ringAfter n x d k).processD (x k) (d k)).1 = x (k - d k) := by
  rw [C02_delay_spec n hn x d hd k]
  simp [show d k ≠ 0 by omega, h2]

/-- a site's cell holds what was last written to it … -/
theorem C02_cell_read_after_write (cs : List (Nat × SCell)) (site : Nat) (c : SCell) :
    lookupCell (setCell cs site c) site = some c := by
  induction cs with
  | nil => simp [setCell, lookupCell]
  | cons kc rest ih =>
    obtain ⟨k, c'⟩ := kc
    by_cases h : k = site
    · simp [setCell, lookupCell, h]
    · have : (k == site) = false := by simpa using h
      simp [setCell, lookupCell, this, ih]

/-- … and writing one site never changes what another site holds: every textual site owns its own state -/
theorem C02_cells_independent (cs : List (Nat × SCell)) (s s' : Nat) (c : SCell) (h : s ≠ s') :
    lookupCell (setCell cs s c) s' = lookupCell cs s' := by
  induction cs with
  | nil =>
    have : (s == s') = false := by simpa using h
    simp [setCell, lookupCell, this]
  | cons kc rest ih =>
    obtain ⟨k, c'⟩ := kc
    by_cases hk : k = s
    · subst hk
      have : (k == s') = false := by simpa using h
      simp [setCell, lookupCell, this]
    · have h1 : (k == s) = false := by simpa using hk
      by_cases hk' : k = s'
      · subst hk'
        simp [setCell, lookupCell, h1]
      · have h2 : (k == s') = false := by simpa using hk'
        simp [setCell, lookupCell, h1, h2, ih]

/-- `mem(a)`: returns the word stored at this site by the previous evaluation (0 if none) and stores the operand -/
theorem C02_mem_step (fuel : Nat) (P : Prog) (rt : Rt) (env : Env) (a : Expr) (site : Nat) (σ σ' : Store) (st st' : SNode)
    (x : UInt64) (h : eval fuel P rt env a σ st = .ok (.num x, σ', st')) :
    eval (fuel + 1) P rt env (.mem a site) σ st =
      .ok (.num (st'.memAt site), σ', st'.setCell site (.mem x)) := by
  simp [eval, h]

/-- `delay(n,a,t)`: this site's ring (all zeros at first) processes the operand with the clamped time -/
theorem C02_delay_step (fuel : Nat) (P : Prog) (rt : Rt) (env : Env) (a t : Expr) (n site : Nat)
    (σ σ1 σ2 : Store) (st st1 st2 : SNode) (x tm : UInt64)
    (ha : eval fuel P rt env a σ st = .ok (.num x, σ1, st1))
    (ht : eval fuel P rt env t σ1 st1 = .ok (.num tm, σ2, st2)) :
    eval (fuel + 1) P rt env (.delay n a t site) σ st =
      .ok (.num ((st2.ringAt n site).process x tm).1, σ2,
           st2.setCell site (.delay ((st2.ringAt n site).process x tm).2)) := by
  simp [eval, ha, ht]

/-- `now` is whatever the driver supplies … -/
theorem C02_now_step (fuel : Nat) (P : Prog) (rt : Rt) (env : Env) (σ : Store) (st : SNode) :
    eval (fuel + 1) P rt env .now σ st = .ok (.num rt.now, σ, st) := by
  simp [eval]

/-- … and the driver supplies the index of the sample: a successful step advances it by exactly one -/
theorem C02_now_counts (fuel : Nat) (P : Prog) (sr : UInt64) (m m' : Machine) (ins out : List UInt64)
    (h : Machine.step fuel P sr m ins = .ok (out, m')) : m'.t = m.t + 1 := by
  unfold Machine.step at h
  simp only at h
  split at h
  · simp at h
  · simp only [Except.ok.injEq, Prod.mk.injEq] at h
    rw [← h.2]

/-- `self` reads the instance's stored previous return value -/
theorem C02_self_step (fuel : Nat) (P : Prog) (rt : Rt) (env : Env) (σ : Store) (st : SNode) (v : Val)
    (h : st.selfv = some v) : eval (fuel + 1) P rt env .self σ st = .ok (v, σ, st) := by
  simp [eval, h]

/-! ### non-vacuity: a concrete ring run on which `C02_delay_spec` says something (n = 4, delay 2) -/
example :
    let x : Nat → UInt64 := fun k => (k + 10).toUInt64
    ((ringAfter 4 x (fun _ => 2) 5).processD (x 5) 2).1 = x 3 := by
  decide +kernel

end Mimium.Core
