import Mimium.Proofs.Ring
import Mimium.Model.Core
import Mimium.Proofs.CoreFuelDemo
/-!
# C02 — call-by-value semantics with per-call-site state

`Model/Core.lean` *is* the independent definition the property asks for (a big-step evaluator with a state tree
indexed by textual call sites).  This file proves that the definition has the four semantic clauses of the
statement, for all programs / streams / run lengths:

* `delay(n,x,t)` returns `x` from `d` samples earlier for every clamped delay `1 ≤ d ≤ n-1` (and exactly what it
  returns outside that range) — `C02_delay_spec`, proved on the ring-buffer port by an invariant over all run lengths;
* `mem(x)` returns the operand of the previous evaluation at that site — `C02_mem_step` + `C02_cell_read_after_write`;
* every site owns its own cell: writing one site never changes another — `C02_cells_independent`;
* `self` is the function instance's previous return value, zero at first — `C02_call_step`;
* `now` counts samples from 0 — `C02_now_counts`.

The evaluator takes a **fuel** argument.  The second half of the file proves that the fuel is a proof device and not part
of the meaning (helper lemmas: `Proofs/CoreFuel.lean`, `CoreFuelMachine.lean`, `CoreFuelIO.lean`), for every program,
environment, store, state tree, expression / input stream / run length, all 18 constructs, no syntactic restriction:

* `C02_eval_fuel_monotone`, `C02_evalList_fuel_monotone` — a result other than "out of fuel" (a value **or** a genuine
  error) is the result with every larger fuel;
* `C02_eval_fuel_independent`, `C02_evalList_fuel_independent` — any two fuels that do not run out agree: the meaning of
  an expression is a (partial) function of program, environment, store and state only;
* `C02_init_fuel_monotone`, `C02_step_fuel_monotone`, `C02_run_fuel_monotone`, `C02_run_fuel_independent`,
  `C02_exec_fuel_independent` — the same for global initialisation, one sample, a run of `k` samples from any machine
  (`runSamples`: output stream **and** final machine) and a whole execution (`runFrom0` = initialise + run);
* `C02_runProg_fuel_independent` — the text printed by `drv_prog` (`runProg`, what every program-level check compares
  the VM / WASM output with) is the same for every sufficient fuel, in particular for the default 200000;
* `C02_run_prefix` — running `n + m` samples = running `n`, then `m` more from the machine reached (the stream
  semantics is compositional); `C02_run_length` — a successful run of `k` samples yields exactly `k` frames and
  advances `now` by `k`.

Not proved here: that a sufficient fuel *exists* (termination — false in general: `fn f(x){f(x)}`), and nothing about
`Float`.

That the real compiler + VM implement this definition is decided by the correspondence stage (`./check C02`).
The conversion of the time argument from `f64` (`clampTime`) goes through Lean's opaque `Float` and is tied by
the correspondence only.
-/
namespace Mimium.Core
open Mimium.Cells

/-- `delay`: for every ring size `n ≥ 1`, every input stream `x`, every sequence of clamped delays `d k ≤ n-1`,
after any number `k` of samples the ring returns the input from `d k` samples ago (0 before the stream starts);
`d k = 0` returns what was written `n` samples ago. -/
theorem C02_delay_spec (n : Nat) (hn : 0 < n) (x : Nat → UInt64) (d : Nat → Nat) (hd : ∀ k, d k ≤ n - 1) (k : Nat) :
    ((ringAfter n x d k).processD (x k) (d k)).1 =
      if d k = 0 then (if n ≤ k then x (k - n) else 0)
      else if d k ≤ k then x (k - d k) else 0 :=
  ring_output hn (ringAfter_inv n x d hn k) (x k) (d k) (hd k)

/-- in the range the statement names (`1 ≤ d ≤ n-1`, stream already `d` samples long): exactly `x (k-d)` -/
theorem C02_delay_in_range (n : Nat) (hn : 0 < n) (x : Nat → UInt64) (d : Nat → Nat) (hd : ∀ k, d k ≤ n - 1) (k : Nat)
    (h1 : 1 ≤ d k) (h2 : d k ≤ k) : ((ringAfter n x d k).processD (x k) (d k)).1 = x (k - d k) := by
  rw [C02_delay_spec n hn x d hd k]
  simp [show d k ≠ 0 by omega, h2]

/-- a site's cell holds what was last written to it … -/
theorem C02_cell_read_after_write (cs : List (Nat × SCell)) (site : Nat) (c : SCell) :
    lookupCell (setCell cs site c) site = some c := by
  induction cs with
  | nil => simp [setCell, lookupCell]
  | cons kc rest ih =>
    obtain ⟨k, c'⟩ := kc
    by_cases h : k = site
    · simp [setCell, lookupCell, h]
    · have : (k == site) = false := by simpa using h
      simp [setCell, lookupCell, this, ih]

/-- … and writing one site never changes what another site holds: every textual site owns its own state -/
theorem C02_cells_independent (cs : List (Nat × SCell)) (s s' : Nat) (c : SCell) (h : s ≠ s') :
    lookupCell (setCell cs s c) s' = lookupCell cs s' := by
  induction cs with
  | nil =>
    have : (s == s') = false := by simpa using h
    simp [setCell, lookupCell, this]
  | cons kc rest ih =>
    obtain ⟨k, c'⟩ := kc
    by_cases hk : k = s
    · subst hk
      have : (k == s') = false := by simpa using h
      simp [setCell, lookupCell, this]
    · have h1 : (k == s) = false := by simpa using hk
      by_cases hk' : k = s'
      · subst hk'
        simp [setCell, lookupCell, h1]
      · have h2 : (k == s') = false := by simpa using hk'
        simp [setCell, lookupCell, h1, h2, ih]

/-- `mem(a)`: returns the word stored at this site by the previous evaluation (0 if none) and stores the operand -/
theorem C02_mem_step (fuel : Nat) (P : Prog) (rt : Rt) (env : Env) (a : Expr) (site : Nat) (σ σ' : Store) (st st' : SNode)
    (x : UInt64) (h : eval fuel P rt env a σ st = .ok (.num x, σ', st')) :
    eval (fuel + 1) P rt env (.mem a site) σ st =
      .ok (.num (st'.memAt site), σ', st'.setCell site (.mem x)) := by
  simp [eval, h]

/-- `delay(n,a,t)`: this site's ring (all zeros at first) processes the operand with the clamped time -/
theorem C02_delay_step (fuel : Nat) (P : Prog) (rt : Rt) (env : Env) (a t : Expr) (n site : Nat)
    (σ σ1 σ2 : Store) (st st1 st2 : SNode) (x tm : UInt64)
    (ha : eval fuel P rt env a σ st = .ok (.num x, σ1, st1))
    (ht : eval fuel P rt env t σ1 st1 = .ok (.num tm, σ2, st2)) :
    eval (fuel + 1) P rt env (.delay n a t site) σ st =
      .ok (.num ((st2.ringAt n site).process x tm).1, σ2,
           st2.setCell site (.delay ((st2.ringAt n site).process x tm).2)) := by
  simp [eval, ha, ht]

/-- `now` is whatever the driver supplies … -/
theorem C02_now_step (fuel : Nat) (P : Prog) (rt : Rt) (env : Env) (σ : Store) (st : SNode) :
    eval (fuel + 1) P rt env .now σ st = .ok (.num rt.now, σ, st) := by
  simp [eval]

/-- … and the driver supplies the index of the sample: a successful step advances it by exactly one -/
theorem C02_now_counts (fuel : Nat) (P : Prog) (sr : UInt64) (m m' : Machine) (ins out : List UInt64)
    (h : Machine.step fuel P sr m ins = .ok (out, m')) : m'.t = m.t + 1 := by
  unfold Machine.step at h
  simp only at h
  split at h
  · simp at h
  · simp only [Except.ok.injEq, Prod.mk.injEq] at h
    rw [← h.2]

/-- `self` reads the instance's stored previous return value -/
theorem C02_self_step (fuel : Nat) (P : Prog) (rt : Rt) (env : Env) (σ : Store) (st : SNode) (v : Val)
    (h : st.selfv = some v) : eval (fuel + 1) P rt env .self σ st = .ok (v, σ, st) := by
  simp [eval, h]

/-! ### non-vacuity: a concrete ring run on which `C02_delay_spec` says something (n = 4, delay 2) -/
example :
    let x : Nat → UInt64 := fun k => (k + 10).toUInt64
    ((ringAfter 4 x (fun _ => 2) 5).processD (x 5) 2).1 = x 3 := by
  decide +kernel

/-! ## the fuel is not part of the meaning -/

/-- **Fuel monotonicity** of `eval`: a result other than "out of fuel" — a value or a genuine error — is the result
with every larger fuel. -/
theorem C02_eval_fuel_monotone (fuel k : Nat) (P : Prog) (rt : Rt) (env : Env) (e : Expr) (σ : Store) (st : SNode)
    (r : Res (Val × Store × SNode)) (h : eval fuel P rt env e σ st = r) (hr : r ≠ .error .fuel) :
    eval (fuel + k) P rt env e σ st = r := by
  subst h; exact eval_fuel_add P rt fuel k e env σ st hr

/-- the same for the other function of the mutual block (argument / component lists) -/
theorem C02_evalList_fuel_monotone (fuel k : Nat) (P : Prog) (rt : Rt) (env : Env) (es : List Expr) (σ : Store) (st : SNode)
    (r : Res (List Val × Store × SNode)) (h : evalList fuel P rt env es σ st = r) (hr : r ≠ .error .fuel) :
    evalList (fuel + k) P rt env es σ st = r := by
  subst h; exact evalList_fuel_add P rt fuel k es env σ st hr

/-- **Determinacy of the meaning**: two fuels that both end without "out of fuel" give the same result. -/
theorem C02_eval_fuel_independent (f₁ f₂ : Nat) (P : Prog) (rt : Rt) (env : Env) (e : Expr) (σ : Store) (st : SNode)
    (r₁ r₂ : Res (Val × Store × SNode)) (h₁ : eval f₁ P rt env e σ st = r₁) (h₂ : eval f₂ P rt env e σ st = r₂)
    (hr₁ : r₁ ≠ .error .fuel) (hr₂ : r₂ ≠ .error .fuel) : r₁ = r₂ := by
  subst h₁ h₂
  exact FuelLe.determinate (fun f => eval f P rt env e σ st) (fun _ _ h => eval_fuel_le P rt h e env σ st) f₁ f₂ hr₁ hr₂

theorem C02_evalList_fuel_independent (f₁ f₂ : Nat) (P : Prog) (rt : Rt) (env : Env) (es : List Expr) (σ : Store) (st : SNode)
    (r₁ r₂ : Res (List Val × Store × SNode)) (h₁ : evalList f₁ P rt env es σ st = r₁) (h₂ : evalList f₂ P rt env es σ st = r₂)
    (hr₁ : r₁ ≠ .error .fuel) (hr₂ : r₂ ≠ .error .fuel) : r₁ = r₂ := by
  subst h₁ h₂
  exact FuelLe.determinate (fun f => evalList f P rt env es σ st) (fun _ _ h => evalList_fuel_le P rt h es env σ st) f₁ f₂ hr₁ hr₂

/-- global initialisation (`Machine.init`) -/
theorem C02_init_fuel_monotone (fuel k : Nat) (P : Prog) (sr : UInt64) (r : Res Machine)
    (h : Machine.init fuel P sr = r) (hr : r ≠ .error .fuel) : Machine.init (fuel + k) P sr = r := by
  subst h; exact init_fuel_le P sr (Nat.le_add_right _ _) hr

/-- one sample (`Machine.step`): same output words and same next machine, or the same genuine error -/
theorem C02_step_fuel_monotone (fuel k : Nat) (P : Prog) (sr : UInt64) (m : Machine) (inputs : List UInt64)
    (r : Res (List UInt64 × Machine)) (h : Machine.step fuel P sr m inputs = r) (hr : r ≠ .error .fuel) :
    Machine.step (fuel + k) P sr m inputs = r := by
  subst h; exact step_fuel_le P sr (Nat.le_add_right _ _) m inputs hr

/-- a run of `n` samples from any machine on any input stream: same output stream and same final machine (or the same
genuine error) with every larger fuel -/
theorem C02_run_fuel_monotone (fuel k : Nat) (P : Prog) (sr : UInt64) (inputs : Nat → List UInt64) (n : Nat) (m : Machine)
    (r : Res (List (List UInt64) × Machine)) (h : runSamples fuel P sr inputs n m = r) (hr : r ≠ .error .fuel) :
    runSamples (fuel + k) P sr inputs n m = r := by
  subst h; exact runSamples_fuel_le P sr inputs (Nat.le_add_right _ _) n m hr

/-- **the run is a function of the program and the input stream**: two fuels that do not run out give the same output
stream and the same final machine -/
theorem C02_run_fuel_independent (f₁ f₂ : Nat) (P : Prog) (sr : UInt64) (inputs : Nat → List UInt64) (n : Nat) (m : Machine)
    (r₁ r₂ : Res (List (List UInt64) × Machine)) (h₁ : runSamples f₁ P sr inputs n m = r₁)
    (h₂ : runSamples f₂ P sr inputs n m = r₂) (hr₁ : r₁ ≠ .error .fuel) (hr₂ : r₂ ≠ .error .fuel) : r₁ = r₂ := by
  subst h₁ h₂
  exact FuelLe.determinate (fun f => runSamples f P sr inputs n m)
    (fun _ _ h => runSamples_fuel_le P sr inputs h n m) f₁ f₂ hr₁ hr₂

/-- a whole execution (initialise the globals, then run `n` samples from sample 0) -/
theorem C02_exec_fuel_independent (f₁ f₂ : Nat) (P : Prog) (sr : UInt64) (inputs : Nat → List UInt64) (n : Nat)
    (r₁ r₂ : Res (List (List UInt64) × Machine)) (h₁ : runFrom0 f₁ P sr inputs n = r₁)
    (h₂ : runFrom0 f₂ P sr inputs n = r₂) (hr₁ : r₁ ≠ .error .fuel) (hr₂ : r₂ ≠ .error .fuel) : r₁ = r₂ := by
  subst h₁ h₂
  exact FuelLe.determinate (fun f => runFrom0 f P sr inputs n)
    (fun _ _ h => runFrom0_fuel_le P sr inputs n h) f₁ f₂ hr₁ hr₂

/-- what `drv_prog` prints (`runProg`, fuel 200000 by default) is what it prints with any other fuel that suffices for
the whole execution -/
theorem C02_runProg_fuel_independent (f₁ f₂ : Nat) (P : Prog) (times : Nat) (inputs : List (List UInt64))
    (h₁ : runFrom0 f₁ P (48000.0 : Float).toBits (streamOf inputs) times ≠ .error .fuel)
    (h₂ : runFrom0 f₂ P (48000.0 : Float).toBits (streamOf inputs) times ≠ .error .fuel) :
    runProg P times inputs f₁ = runProg P times inputs f₂ := by
  rcases Nat.le_total f₁ f₂ with h | h
  · exact (runProg_fuel_le P times inputs h h₁).symm
  · exact runProg_fuel_le P times inputs h h₂

/-- **the stream semantics is compositional**: running `n + m` samples is running `n` samples and then `m` more from the
machine reached (errors propagate) -/
theorem C02_run_prefix (fuel : Nat) (P : Prog) (sr : UInt64) (inputs : Nat → List UInt64) (n m : Nat) (mc : Machine) :
    runSamples fuel P sr inputs (n + m) mc =
      match runSamples fuel P sr inputs n mc with
      | .error e => .error e
      | .ok (out₁, mc₁) =>
        match runSamples fuel P sr inputs m mc₁ with
        | .error e => .error e
        | .ok (out₂, mc₂) => .ok (out₁ ++ out₂, mc₂) := by
  rw [runSamples_add]
  cases runSamples fuel P sr inputs n mc with
  | error e => rfl
  | ok r =>
    obtain ⟨o1, m1⟩ := r
    simp only [andThen]
    cases runSamples fuel P sr inputs m m1 with
    | error e => rfl
    | ok q => rfl

/-- a successful run of `n` samples yields exactly `n` output frames and advances the sample counter by `n` -/
theorem C02_run_length (fuel : Nat) (P : Prog) (sr : UInt64) (inputs : Nat → List UInt64) (n : Nat) (mc mc' : Machine)
    (out : List (List UInt64)) (h : runSamples fuel P sr inputs n mc = .ok (out, mc')) :
    out.length = n ∧ mc'.t = mc.t + n :=
  runSamples_length fuel P sr inputs n mc mc' out h

/-! ### non-vacuity: a concrete program with a global, a stateful function (`mem`, `self`) called at two sites, a closure
capturing a parameter, and a `mem` in `dsp`; three samples on the input stream 5, 6, 7.  Fuel 11 runs out, fuel 12
succeeds, and (by the theorems above, instantiated) every fuel `12 + k` gives the same stream; fuel 62 is also
evaluated directly.  No float arithmetic: the kernel evaluates the model itself (`decide +kernel`). -/
theorem C02_fuel_witness_runs_out : isFuel (runFrom0 11 fuelDemo 0 fuelDemoIn 3) = true := by decide +kernel
theorem C02_fuel_witness_succeeds : outOf (runFrom0 12 fuelDemo 0 fuelDemoIn 3) = some fuelDemoOut := by decide +kernel
theorem C02_fuel_witness_plus50 : outOf (runFrom0 62 fuelDemo 0 fuelDemoIn 3) = some fuelDemoOut := by decide +kernel

/-- the hypotheses of the machine-level theorems are satisfiable, and the theorems say something: every fuel ≥ 12 -/
theorem C02_fuel_witness_all_larger (k : Nat) : outOf (runFrom0 (12 + k) fuelDemo 0 fuelDemoIn 3) = some fuelDemoOut := by
  have h12 : isFuel (runFrom0 12 fuelDemo 0 fuelDemoIn 3) = false := by decide +kernel
  have hne : runFrom0 12 fuelDemo 0 fuelDemoIn 3 ≠ .error .fuel := by
    intro he; rw [he] at h12; simp [isFuel] at h12
  rw [runFrom0_fuel_le fuelDemo 0 fuelDemoIn 3 (Nat.le_add_right 12 k) hne]
  decide +kernel

/-- … and at the level of `eval`, on the expression `(mem(4), (|y| (y, y))(9))` (a `mem`, a closure, tuples):
fuel 7 runs out, fuel 8 gives the value, hence (theorem) so does every fuel `8 + k` -/
example : isFuel (eval 7 fuelDemo ⟨0, 0⟩ [] fuelDemoE [] SNode.empty) = true := by decide +kernel
example : valOf (eval 8 fuelDemo ⟨0, 0⟩ [] fuelDemoE [] SNode.empty) = some ([0, 9, 9], 4) := by decide +kernel
example : valOf (eval 58 fuelDemo ⟨0, 0⟩ [] fuelDemoE [] SNode.empty) = some ([0, 9, 9], 4) := by decide +kernel
example (k : Nat) : valOf (eval (8 + k) fuelDemo ⟨0, 0⟩ [] fuelDemoE [] SNode.empty) = some ([0, 9, 9], 4) := by
  have h8 : isFuel (eval 8 fuelDemo ⟨0, 0⟩ [] fuelDemoE [] SNode.empty) = false := by decide +kernel
  rw [C02_eval_fuel_monotone 8 k fuelDemo ⟨0, 0⟩ [] fuelDemoE [] SNode.empty _ rfl
    (by intro he; rw [he] at h8; simp [isFuel] at h8)]
  decide +kernel

/-- a genuine error is as stable as a value: an unbound variable is reported with every fuel ≥ 1 -/
example (k : Nat) (P : Prog) (rt : Rt) (st : SNode) :
    eval (1 + k) P rt [] (.var "zz") [] st = .error (.unbound "zz") :=
  C02_eval_fuel_monotone 1 k P rt [] (.var "zz") [] st _ (by simp [eval, List.lookup]) (by simp)

/-- what `drv_prog` prints for the witness program with its default fuel (200000) is what it prints with fuel 12 -/
theorem C02_fuel_witness_runProg :
    runProg fuelDemo 3 [[5], [6], [7]] = runProg fuelDemo 3 [[5], [6], [7]] 12 := by
  have ne_of {r : Res (List (List UInt64) × Machine)} (h : isFuel r = false) : r ≠ .error .fuel := by
    intro he; rw [he] at h; simp [isFuel] at h
  exact C02_runProg_fuel_independent 200000 12 fuelDemo 3 [[5], [6], [7]]
    (ne_of (by decide +kernel)) (ne_of (by decide +kernel))

end Mimium.Core
