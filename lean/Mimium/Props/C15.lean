import Mimium.Proofs.Interner
import Mimium.Proofs.HashOrder
import Mimium.Gen.HashSites
/-!
# C15 — Compilation is deterministic

What is proved here (level: **partial**).  The compiler itself is not modelled.  Two sources of run-to-run
variation exist in it, and the theorems cover the *logic* that makes each harmless:

1. **ids come from a process-global, append-only interner / arenas** whose contents depend on everything the
   process compiled before (`interner.rs`; model `Model/Interner.lean`).  `C15_resolve_intern`,
   `C15_intern_idempotent`, `C15_ids_stable`, `C15_fresh_id_unused`, `C15_ids_injective` are the interner laws;
   `C15_history_independence`: the same program of API calls run from two different initial tables yields
   observations equal up to a renaming of ids that is injective on the ids obtained, and every string read back
   is *equal* (`C15_reads_history_independent`).  So a compiler that never lets the numeric value of an id reach
   its output (no `Ord` on ids feeding output, no printing of raw ids) is history independent.
2. **hash-ordered iteration** (`HashMap`/`HashSet` with per-process `RandomState`; `BTreeMap<Symbol,_>` in id
   order).  `C15_perm_*`: every KIND of consumer the translator accepts gives the same result on any two
   permutations of the elements.  `C15_sites_classified`: every iteration site the translator finds in
   typing / mirgen / bytecodegen / wasmgen / rustgen / program.rs / lower.rs (regenerated from /repo on every run,
   `Gen/HashSites.lean`) carries a reviewed kind (`C15_sites_classified_partial`); a new or changed site is
   `unclassified` and breaks that theorem.  No reviewed site is order-sensitive any more
   (`C15_no_order_sensitive_site`): the five sites where the property was FALSE of the pinned tree (findings F18a/b,
   F19a/b, F20; witness programs kept in corpus/C15) now go through `sorted_by_name` (kind `sort_after_collect`, ordered
   by the TEXT of the keys) or collect into a `Vec` in source order, and the MIR listing prints argument names instead
   of raw ids (F17).  The negations on the model stay as the reason why such code is wrong:
   `C15_collect_dup_keys_order_dependent`, `C15_id_order_history_dependent`, `C15_raw_ids_history_dependent`.

NOT proved: that each classified site really is of its kind (reviewed allow-list `tools/hash_sites.json`), that
ids never reach output by another route, anything about wasm-encoder / the VM.  That is what the differential run
of `./check C15` exercises (same source: 5 histories in one process x 8 fresh processes, all artefacts compared).
-/
namespace Mimium.Interner
variable {α : Type} [DecidableEq α]

/-- `resolve (intern s) = s` -/
theorem C15_resolve_intern (t : List α) (s : α) : resolve (intern t s).2 (intern t s).1 = some s := by
  rw [intern_fst_eq_idxOf]; exact getElem?_idxOf_of_mem (mem_intern t s)

/-- interning is idempotent: the second `intern s` returns the same id and leaves the table alone -/
theorem C15_intern_idempotent (t : List α) (s : α) :
    intern (intern t s).2 s = ((intern t s).1, (intern t s).2) := by
  by_cases h : s ∈ t <;> simp [intern, h, List.idxOf_append]

/-- ids are stable once issued: whatever any thread does afterwards (any schedule), an issued symbol id keeps
resolving to the same string and an issued arena id to the same node -/
theorem C15_ids_stable (l : List (Nat × Op α)) (st : St α) (id : Nat) :
    (∀ v, resolve st.syms id = some v → resolve (run st l).syms id = some v) ∧
    (∀ v, get st.arena id = some v → get (run st l).arena id = some v) := by
  induction l generalizing st with
  | nil => exact ⟨fun _ h => h, fun _ h => h⟩
  | cons x l ih =>
    have hstep : ∀ v, resolve st.syms id = some v → resolve (step st x).syms id = some v := by
      intro v h
      obtain ⟨j, op⟩ := x
      cases op with
      | intern s =>
        obtain ⟨r, hr⟩ := intern_prefix st.syms s
        simp only [step, hr, resolve] at h ⊢
        have : id < st.syms.length := by
          rcases Nat.lt_or_ge id st.syms.length with h' | h'
          · exact h'
          · rw [List.getElem?_eq_none h'] at h; cases h
        rw [List.getElem?_append_left this]; exact h
      | resolve k => exact h
      | alloc p ks => exact h
      | get k => exact h
    have hstepA : ∀ v, get st.arena id = some v → get (step st x).arena id = some v := by
      intro v h
      obtain ⟨j, op⟩ := x
      cases op with
      | alloc p ks =>
        simp only [step, alloc, get] at h ⊢
        have : id < st.arena.length := by
          rcases Nat.lt_or_ge id st.arena.length with h' | h'
          · exact h'
          · rw [List.getElem?_eq_none h'] at h; cases h
        rw [List.getElem?_append_left this]; exact h
      | intern s => exact h
      | resolve k => exact h
      | get k => exact h
    exact ⟨fun v h => (ih (step st x)).1 v (hstep v h), fun v h => (ih (step st x)).2 v (hstepA v h)⟩

/-- ids are never reused: a new string gets an id that resolved to nothing before -/
theorem C15_fresh_id_unused (t : List α) (s : α) (h : s ∉ t) :
    resolve t (intern t s).1 = none ∧ (intern t s).1 = t.length := by
  simp [intern, h, resolve]

/-- two ids of one table that resolve to the same string are the same id (tables reachable from a
duplicate-free table are duplicate-free: `C15_table_nodup`) -/
theorem C15_ids_injective (t : List α) (h : t.Nodup) (a b : Nat) (v : α)
    (ha : resolve t a = some v) (hb : resolve t b = some v) : a = b := by
  simp only [resolve] at ha hb
  obtain ⟨ha', hav⟩ := List.getElem?_eq_some_iff.mp ha
  obtain ⟨hb', hbv⟩ := List.getElem?_eq_some_iff.mp hb
  have e1 := idxOf_getElem_of_nodup h a ha'
  have e2 := idxOf_getElem_of_nodup h b hb'
  rw [hav] at e1; rw [hbv] at e2
  exact e1.symm.trans e2

/-- every table reachable by any schedule from a duplicate-free table is duplicate-free -/
theorem C15_table_nodup (l : List (Nat × Op α)) (s : List α) (a : List Node) (h : s.Nodup) :
    (run (init s a) l).syms.Nodup := (inv_run l (inv_init s a h 0)).nodup

/-- **history independence**: the same program `p`, run by a thread from two different states of the process
(tables `s₁ a₁` vs `s₂ a₂` left behind by whatever was compiled before), observes the same things up to a renaming
of ids that is injective on the ids obtained. -/
theorem C15_history_independence (p : List (Op α)) (i : Nat) (s₁ s₂ : List α) (a₁ a₂ : List Node)
    (h₁ : s₁.Nodup) (h₂ : s₂.Nodup) :
    Renamed ((run (init s₁ a₁) (solo i p)).ths i) ((run (init s₂ a₂) (solo i p)).ths i) := by
  have r1 := inv_run (solo i p) (inv_init s₁ a₁ h₁ i)
  have r2 := inv_run (solo i p) (inv_init s₂ a₂ h₂ i)
  rw [proj_solo] at r1 r2
  exact renamed_of_inv r1 r2

/-- every string read back is a function of the program alone (not of the history) -/
theorem C15_reads_history_independent (p : List (Op α)) (i : Nat) (s : List α) (a : List Node) (h : s.Nodup) :
    ((run (init s a) (solo i p)).ths i).strs = specStrs [] p := by
  have r := inv_run (solo i p) (inv_init s a h i)
  rw [proj_solo] at r
  simpa using r.strs

/-- the symbol ids a program obtains are the positions of its strings in the final table -/
theorem C15_ids_are_positions (p : List (Op α)) (i : Nat) (s : List α) (a : List Node) (h : s.Nodup) :
    ((run (init s a) (solo i p)).ths i).hs = (interned p).map ((run (init s a) (solo i p)).syms.idxOf ·) := by
  have r := inv_run (solo i p) (inv_init s a h i)
  rw [proj_solo] at r
  simpa using r.hs

/-- the negation, for anything that shows RAW ids (what finding F17 was: the MIR listing printed `arg <symbol id>`; and
F20: fresh type-scheme ids were handed out in symbol-id order — both repaired in /repo): the same one-call program observes
id 0 in a fresh process and id 1 after a history that interned another string first. -/
theorem C15_raw_ids_history_dependent :
    ((run (init ([] : List Nat) []) (solo 0 [Op.intern 7])).ths 0).hs = [0] ∧
    ((run (init [3] []) (solo 0 [Op.intern 7])).ths 0).hs = [1] := by decide

/-- and the ORDER of two ids is history dependent too (a `BTreeMap<Symbol,_>` iterates in this order) -/
theorem C15_id_order_history_dependent :
    ((run (init ([] : List Nat) []) (solo 0 [Op.intern 1, Op.intern 2])).ths 0).hs = [0, 1] ∧
    ((run (init [2] []) (solo 0 [Op.intern 1, Op.intern 2])).ths 0).hs = [1, 0] := by decide

end Mimium.Interner

namespace Mimium.Gen

/-- **translator obligation (partial)**: every hash-ordered iteration site found in /repo's current source has been
reviewed — none is `unclassified` (a new or edited site is, until it is added to `tools/hash_sites.json`). -/
theorem C15_sites_classified_partial : ∀ k ∈ hashSiteKinds, k ≠ HashKind.unclassified := by decide

/-- **no reviewed site is order-SENSITIVE**: every hash-ordered iteration site of /repo's current source carries a kind
proved order-insensitive below.  (Until the repairs of F18a, F18b, F19a, F19b, F20 this theorem pinned five such sites;
their witness programs stay under corpus/C15.)  A site reviewed as order-sensitive breaks this theorem. -/
theorem C15_no_order_sensitive_site : ∀ k ∈ hashSiteKinds, k ≠ HashKind.orderSensitive := by decide

end Mimium.Gen

namespace Mimium.HashOrder
variable {β κ ν : Type} [DecidableEq κ]

/-- kind `max_by_strict_key` -/
theorem C15_perm_max_by_strict_key (key : β → Nat) {l₁ l₂ : List β} (p : l₁.Perm l₂)
    (inj : ∀ x ∈ l₁, ∀ y ∈ l₁, key x = key y → x = y) : maxBy key l₁ = maxBy key l₂ := perm_maxBy_strict key p inj

/-- kind `find_unique_key` -/
theorem C15_perm_find_unique_key (q : β → Bool) {l₁ l₂ : List β} (p : l₁.Perm l₂)
    (uniq : ∀ x ∈ l₁, ∀ y ∈ l₁, q x = true → q y = true → x = y) : l₁.find? q = l₂.find? q := perm_find_unique q p uniq

/-- kind `sum` (sum, count, commutative fold) -/
theorem C15_perm_sum {l₁ l₂ : List Nat} (p : l₁.Perm l₂) : l₁.sum = l₂.sum := perm_sum p
theorem C15_perm_count (q : β → Bool) {l₁ l₂ : List β} (p : l₁.Perm l₂) : l₁.countP q = l₂.countP q := perm_count q p
theorem C15_perm_fold_comm {σ : Type} (f : σ → β → σ) (comm : ∀ z x y, f (f z x) y = f (f z y) x)
    {l₁ l₂ : List β} (p : l₁.Perm l₂) (init : σ) : l₁.foldl f init = l₂.foldl f init := perm_fold_comm f comm p init

/-- kind `any_all` -/
theorem C15_perm_any_all (q : β → Bool) {l₁ l₂ : List β} (p : l₁.Perm l₂) :
    l₁.any q = l₂.any q ∧ l₁.all q = l₂.all q := ⟨perm_any q p, perm_all q p⟩

/-- kind `collect_map_set` -/
theorem C15_perm_collect_map (m : κ → Option ν) {l₁ l₂ : List (κ × ν)} (p : l₁.Perm l₂)
    (nd : (l₁.map (·.1)).Nodup) : collectInto m l₁ = collectInto m l₂ := perm_collect_map m p nd
theorem C15_perm_collect_set {l₁ l₂ : List κ} (p : l₁.Perm l₂) (k : κ) : (k ∈ l₁) ↔ (k ∈ l₂) := perm_collect_set p k

/-- kind `sort_after_collect` -/
theorem C15_perm_sort_after_collect (le : β → β → Bool)
    (trans : ∀ a b c, le a b → le b c → le a c) (total : ∀ a b, le a b || le b a)
    {l₁ l₂ : List β} (p : l₁.Perm l₂) (antisymm : ∀ a ∈ l₁, ∀ b ∈ l₁, le a b → le b a → a = b) :
    l₁.mergeSort le = l₂.mergeSort le := perm_sort le trans total p antisymm

/-- kind `foreach_independent` -/
theorem C15_perm_foreach_independent {σ : Type} (body : σ → β → σ) {l₁ l₂ : List β} (p : l₁.Perm l₂)
    (comm : ∀ x ∈ l₁, ∀ y ∈ l₁, ∀ z, body (body z x) y = body (body z y) x) (init : σ) :
    l₁.foldl body init = l₂.foldl body init := perm_foreach body p comm init

/-- without the distinct-keys premise `collect_map_set` is NOT order-insensitive: two declarations that insert the
same key (what finding F18 was: two sum types sharing a constructor name, `constructor_env.insert(name, …)` in HashMap
order; repaired by visiting the declarations in the order of their names) leave the value of whichever came last -/
theorem C15_collect_dup_keys_order_dependent :
    collectInto (fun _ => none) [(0, 10), (0, 20)] 0 ≠ collectInto (fun _ => none) [(0, 20), (0, 10)] (0 : Nat) ∧
    [(0, 10), (0, 20)].Perm [(0, 20), ((0 : Nat), (10 : Nat))] := by
  refine ⟨by decide, by decide⟩

/-- the sort lemma is not vacuous: sorting by `≤` on `Nat` -/
example : [3, 1, 2].mergeSort (fun a b => decide (a ≤ b)) = [2, 3, 1].mergeSort (fun a b => decide (a ≤ b)) :=
  C15_perm_sort_after_collect _ (by intro a b c; simp; omega) (by intro a b; simp; omega)
    (by decide) (by intro a _ b _; simp; omega)

end Mimium.HashOrder
