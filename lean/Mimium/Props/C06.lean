import Mimium.Model.HotSwap
import Mimium.Proofs.StateTreeApply
import Mimium.Model.Core
import Mimium.Props.C08
import Mimium.Props.C05
import Mimium.Proofs.LiveCodingFull
/-!
# C06 — hot-swapping an unchanged program is inaudible

The logic the property rests on, as theorems about `Model/HotSwap.lean` (ports of `Machine::new_resume` and of
`WasmDspRuntime::try_hot_swap` + the CLI's plan construction), for EVERY layout and EVERY storage content:
swapping to a program with the same dsp layout hands the new machine exactly the old state words — on the VM
because no plan is built and the storage is cloned, on WASM because the whole-storage copy plan overwrites every
word of the prewarmed state.  And in the reference semantics a machine is a function of (globals, state tree,
sample index) only, so equal machines produce equal futures, however often the swap is repeated
(`C06_same_machine_same_future`).  Stronger (built on `C05_eval_respects_agreement`): the future is a function of the
globals, the sample index and the FLAT STATE WORDS of `dsp` alone — two reference machines whose `dsp` trees serialise to
the same words under a labelled layout covering `dsp`'s body produce the same samples forever
(`C06_same_words_same_future`), in particular the machine whose tree is read back from the words a swap hands over
(`C06_swap_words_same_future`).  That the real runtimes behave like this (including re-running `main`, `now`
continuing, closures/arrays glue in `new_resume`) is decided by the correspondence stage: real swaps at every
split point on both runtimes against the uninterrupted run.
-/
namespace Mimium.HotSwap
open Mimium.StateTree

/-- VM: an unchanged layout keeps the storage word for word -/
theorem C06_vm_resume_same_layout (sk : Sk) (old : List Nat) : vmResume sk sk old = some old := by
  simp [vmResume, C08_identical_noop]

theorem applyPatch_whole (old new : List Nat) (h : old.length = new.length) :
    applyPatch old new ⟨0, 0, new.length⟩ = old := by
  apply List.ext_getElem (by simp [applyPatch, h])
  intro k h1 h2
  have hk : k < new.length := by simpa [applyPatch] using h1
  simp [applyPatch, hk, List.getD, h2]

/-- WASM: with the CLI's whole-copy plan every word of the prewarmed state is overwritten by the old word -/
theorem C06_wasm_swap_same_layout (sk : Sk) (old prewarmed : List Nat) (h : old.length = sk.size) :
    wasmSwap sk sk old prewarmed = some old := by
  have hplan : cliPlan sk sk = ⟨sk.size, [⟨0, 0, sk.size⟩]⟩ := by simp [cliPlan, C08_identical_noop]
  have hlen : (resizeTo prewarmed sk.size).length = sk.size := by
    simp [resizeTo]; omega
  simp only [wasmSwap, hplan, matches_refl, List.isEmpty_cons, Bool.and_false, Bool.false_eq_true, if_false,
    List.all_cons, List.all_nil, Bool.and_true, Patch.inBounds, hlen, h]
  simp only [Nat.zero_add, Nat.le_refl, decide_true, Bool.and_self, if_true, applyPatches, List.foldl]
  have := applyPatch_whole old (resizeTo prewarmed sk.size) (by rw [hlen, h])
  rw [hlen] at this
  rw [this]

/-- **one migration model serves both runtimes**: on a storage of the old layout's size, with the prewarmed `dsp` state the
CLI hands over (all zeros, any length up to the new size: `main` touches no `dsp` state), `WasmDspRuntime::try_hot_swap`
computes exactly the storage `Machine::new_resume` computes, for EVERY pair of layouts (so `Model/LiveCoding.lean: swapState`,
defined with `vmResume`, is the WASM swap as well) -/
theorem C06_wasm_swap_is_vm_resume (o n : Sk) (old : List Nat) (k : Nat) (hk : k ≤ n.size) (hlen : old.length = o.size) :
    wasmSwap o n old (List.replicate k 0) = vmResume o n old := by
  have hnext : resizeTo (List.replicate k 0) n.size = List.replicate n.size 0 := by
    simp only [resizeTo, List.take_replicate, List.length_replicate, List.replicate_append_replicate]
    congr 1; omega
  cases hm : o.matches n with
  | true =>
    have hsz := matches_size o n hm
    have hbp : buildPlan o n = none := by simp [buildPlan, hm]
    simp only [wasmSwap, cliPlan, hbp, vmResume, hm, List.isEmpty_cons, Bool.and_false, Bool.false_eq_true, if_false, hnext,
      List.all_cons, List.all_nil, Bool.and_true, Patch.inBounds, List.length_replicate, hlen, hsz]
    simp only [Nat.zero_add, Nat.le_refl, decide_true, Bool.and_self, if_true, applyPatches, List.foldl]
    have := applyPatch_whole old (List.replicate n.size 0) (by simp [hlen, hsz])
    simp only [List.length_replicate] at this
    rw [this]
  | false =>
    have hbp : buildPlan o n = some ⟨n.size, takeDiff o n⟩ := by simp [buildPlan, hm]
    simp only [wasmSwap, cliPlan, hbp, vmResume, hm, Bool.false_and, Bool.false_eq_true, if_false, hnext, applyPlan?,
      List.length_replicate]

end Mimium.HotSwap

namespace Mimium.Core

/-- run `k` samples from a machine, collecting the outputs (`none` on an evaluation error) -/
def runFrom (fuel : Nat) (P : Prog) (sr : UInt64) (inputs : Nat → List UInt64) : Nat → Machine → Option (List (List UInt64))
  | 0, _ => some []
  | k + 1, m =>
    match Machine.step fuel P sr m (inputs m.t) with
    | .error _ => none
    | .ok (o, m') => (runFrom fuel P sr inputs k m').map (o :: ·)

/-- the future of a run is a function of the machine (globals, state tree, sample index) alone: a swap that
reconstructs an equal machine — any number of times — is inaudible -/
theorem C06_same_machine_same_future (fuel : Nat) (P : Prog) (sr : UInt64) (inputs : Nat → List UInt64)
    (k : Nat) (m m' : Machine) (h : m' = m) : runFrom fuel P sr inputs k m' = runFrom fuel P sr inputs k m := by
  rw [h]

/-- the machine reached after `n` samples, with the outputs so far -/
def stepsTo (fuel : Nat) (P : Prog) (sr : UInt64) (inputs : Nat → List UInt64) : Nat → Machine → Option (List (List UInt64) × Machine)
  | 0, m => some ([], m)
  | n + 1, m =>
    match Machine.step fuel P sr m (inputs m.t) with
    | .error _ => none
    | .ok (o, m') => (stepsTo fuel P sr inputs n m').map fun (os, m'') => (o :: os, m'')

/-- splitting a run at any point `n` and continuing from the machine reached there gives the same samples -/
theorem C06_split_run (fuel : Nat) (P : Prog) (sr : UInt64) (inputs : Nat → List UInt64) :
    ∀ (n k : Nat) (m : Machine) (o1 : List (List UInt64)) (m1 : Machine),
      stepsTo fuel P sr inputs n m = some (o1, m1) →
      runFrom fuel P sr inputs (n + k) m = (runFrom fuel P sr inputs k m1).map (o1 ++ ·) := by
  intro n
  induction n with
  | zero =>
    intro k m o1 m1 h
    simp only [stepsTo, Option.some.injEq, Prod.mk.injEq] at h
    obtain ⟨rfl, rfl⟩ := h
    simp
  | succ n ih =>
    intro k m o1 m1 h
    simp only [stepsTo] at h
    rw [show n + 1 + k = (n + k) + 1 by omega]
    simp only [runFrom]
    cases hs : Machine.step fuel P sr m (inputs m.t) with
    | error e => simp [hs] at h
    | ok r =>
      obtain ⟨o, m'⟩ := r
      simp only [hs] at h
      cases hrest : stepsTo fuel P sr inputs n m' with
      | none => simp [hrest] at h
      | some r2 =>
        obtain ⟨o2, m2⟩ := r2
        simp only [hrest, Option.map_some, Option.some.injEq, Prod.mk.injEq] at h
        obtain ⟨rfl, rfl⟩ := h
        simp only [ih k m' o2 m2 hrest, Option.map_map]
        congr 1

open Mimium.FlatTree in
/-- machines with the same globals and sample index whose `dsp` states agree on the cells of a layout covering
`dsp`'s body produce the same samples, for every run length -/
theorem C06_agreeing_machines_same_future (fuel : Nat) (P : Prog) (sr : UInt64) (inputs : Nat → List UInt64)
    (lay : LNode) (hl : lay.Ok) (hself : P.dsp.selfShape = lay.self) (hc : Covers P lay.cells P.dsp.body) :
    ∀ (k : Nat) (m₁ m₂ : Machine), MAgree lay m₁ m₂ →
      runFrom fuel P sr inputs k m₁ = runFrom fuel P sr inputs k m₂ := by
  intro k
  induction k with
  | zero => intro m₁ m₂ _; simp [runFrom]
  | succ k ih =>
    intro m₁ m₂ h
    have hs := step_agree fuel P sr lay hl hself hc m₁ m₂ (inputs m₂.t) h
    simp only [runFrom, h.2.1]
    cases h1 : Machine.step fuel P sr m₁ (inputs m₂.t) with
    | error e1 =>
      cases h2 : Machine.step fuel P sr m₂ (inputs m₂.t) with
      | error e2 => rfl
      | ok r2 => simp [h1, h2, SRel] at hs
    | ok r1 =>
      cases h2 : Machine.step fuel P sr m₂ (inputs m₂.t) with
      | error e2 => simp [h1, h2, SRel] at hs
      | ok r2 =>
        obtain ⟨o1, m1'⟩ := r1
        obtain ⟨o2, m2'⟩ := r2
        simp only [h1, h2, SRel] at hs
        simp only [hs.1, ih m1' m2' hs.2]

open Mimium.FlatTree in
/-- **the future is a function of the flat state words.**  Two machines with the same globals and sample index whose
`dsp` trees conform to a labelled layout covering `dsp`'s body and serialise to the same words: same samples forever -/
theorem C06_same_words_same_future (fuel : Nat) (P : Prog) (sr : UInt64) (inputs : Nat → List UInt64)
    (lay : LNode) (hl : lay.Ok) (hself : P.dsp.selfShape = lay.self) (hc : Covers P lay.cells P.dsp.body)
    (k : Nat) (m₁ m₂ : Machine) (hst : m₁.store = m₂.store) (ht : m₁.t = m₂.t)
    (h1 : ConformsS lay m₁.root) (h2 : ConformsS lay m₂.root)
    (hw : serialize lay m₁.root = serialize lay m₂.root) :
    runFrom fuel P sr inputs k m₁ = runFrom fuel P sr inputs k m₂ :=
  C06_agreeing_machines_same_future fuel P sr inputs lay hl hself hc k m₁ m₂
    ⟨hst, ht, C05_same_words_agree lay _ _ h1 h2 hw⟩

open Mimium.FlatTree in
/-- a swap hands over the flat words (`C06_vm_resume_same_layout`, `C06_wasm_swap_same_layout`): the machine whose
`dsp` tree is READ BACK from those words continues exactly like the uninterrupted machine, for every run length -/
theorem C06_swap_words_same_future (fuel : Nat) (P : Prog) (sr : UInt64) (inputs : Nat → List UInt64)
    (lay : LNode) (hl : lay.Ok) (hself : P.dsp.selfShape = lay.self) (hc : Covers P lay.cells P.dsp.body)
    (k : Nat) (m : Machine) (h : ConformsS lay m.root) :
    runFrom fuel P sr inputs k ⟨m.store, deserialize lay (serialize lay m.root), m.t⟩ = runFrom fuel P sr inputs k m := by
  have hlen : (serialize lay m.root).length = lay.sk.size := C05_serialize_size lay _ (conformsS_conforms _ _ h)
  have hr := C05_serialize_deserialize lay _ hl hlen
  exact C06_same_words_same_future fuel P sr inputs lay hl hself hc k _ m rfl rfl
    (canon_conformsS lay _ hl hr.2.1) h hr.1

/-! non-vacuity: `dsp = self + mem(x)`; after one sample the reference machine's tree is not canonical-by-construction
but conforms, and the hypotheses of the three theorems hold -/
open Mimium.FlatTree in
example :
    let P : Prog := ⟨[], [], ⟨"dsp", ["x"], .bin .add .self (.mem (.var "x") 0), some .num⟩⟩
    let lay : LNode := ⟨some .num, [.mem 0]⟩
    lay.Ok ∧ P.dsp.selfShape = lay.self ∧ Covers P lay.cells P.dsp.body ∧ ConformsS lay SNode.empty := by
  intro P lay
  refine ⟨by simp [lay, LNode.Ok, LayOkL, LayOk, sitesOf], rfl, .bin .self (.mem .var (by simp [lay])), ?_, ?_⟩
  · intro v hv; simp [SNode.empty, SNode.selfv] at hv
  · simp [lay, ConfSL, ConfS]

end Mimium.Core

/-! ## a whole session: swapping to the SAME program, any number of times, at any times

`Model/LiveCoding.lean` composes the reference semantics, the published layout (`Publish.publishFn`), the flat image of the
state tree (`FlatTree.serialize` / `deserialize`) and the VM's migration (`HotSwap.vmResume`) into `session`: run, hot swap,
run, ….  For a program of the class of C05's theorems the session in which every swap event names the running program
returns exactly the samples of the uninterrupted run — the property as a theorem about PROGRAMS of the reference semantics
(every program of the class, every event list: every split point, repeated swaps at one time, any number of times, every
run length, every input stream). -/
namespace Mimium.LiveCoding
open Mimium.Core Mimium.FlatTree Mimium.Publish

/-- a session without swap events is the plain run -/
theorem sessionFrom_nil (fuel : Nat) (sr : UInt64) (inputs : Nat → List UInt64) (P : Prog) :
    ∀ (k : Nat) (m : Machine), sessionFrom fuel sr [] inputs k P m = runFrom fuel P sr inputs k m
  | 0, _ => rfl
  | k + 1, m => by
    have e0 : swapMany fuel sr (eventsAt [] m.t) P m = some (P, m) := rfl
    rw [sessionFrom, runFrom, e0]
    simp only
    cases Machine.step fuel P sr m (inputs m.t) with
    | error e => rfl
    | ok r => obtain ⟨o, m'⟩ := r; simp only [sessionFrom_nil fuel sr inputs P k m']

/-- **hot-swapping an unchanged program is inaudible — for programs.**  Let `P` be a program of the class of C05's
evaluator theorems — `noStatefulInArms` (no `mem`, `delay` or call of a function with state inside an `if` arm, here and in
the callees; calls of functions without state are allowed there), `SitesUnique` / `SitesOk` (the stateful sites of every
function body pairwise distinct, ring lengths < 2^64) — whose `dsp` has the published layout `lay`; let `full` be the layout
of ALL stateful sites of `dsp` (`fullFn`: the published cells plus the zero-sized children of the calls mirgen publishes
nothing for), let `main` start the machine `m0`, and let the uninterrupted run keep its globals and a `dsp` state tree
conforming to `full` at every sample (rings of the declared length, `self` values of the declared shape: typing facts).
Then for EVERY list of swap events that all name `P` (any split points, any number of swaps, several at the same time),
every run length `N` and every input stream, the session — each swap serialises the state tree under the published layout,
migrates the words as `Machine::new_resume` does, reads them back under the published layout and re-runs `main` — returns
exactly the samples of the uninterrupted run.
(Proof: `vmResume sk sk w = some w` (C08 identity); the tree read back agrees with the old tree on every cell of `full`
— `agree_deser_ser_ext`, on top of `C05_serialize_deserialize` —; `C05_eval_respects_agreement` for `full`, which covers
`dsp`'s body for every program (`fullE_covers`); in the class `full` extends `lay` by zero-sized cells only (`pubE_ext`).) -/
theorem C06_session_swap_same_program (fuel : Nat) (sr : UInt64) (P : Prog) (lay full : LNode)
    (swaps : List (Nat × Prog)) (inputs : Nat → List UInt64) (N : Nat) (m0 : Machine)
    (hsame : ∀ e ∈ swaps, e.2 = P)
    (hpub : publishFn P P.dsp = some lay) (hfull : fullFn P P.dsp = some full)
    (harms : noStatefulInArms P P.dsp.body = true) (hs : SitesUnique P) (hd : SitesOk P.dsp.body)
    (hinit : Machine.init fuel P sr = .ok m0)
    (hgood : ∀ j m, machineAfter fuel P sr inputs j m0 = some m → m.store = m0.store ∧ ConformsS full m.root) :
    session fuel sr P swaps inputs N = runFrom fuel P sr inputs N m0 := by
  obtain ⟨full', hf', hok, hsf, hself, hext, hcov⟩ := full_layout_exists P.fns.length P P.dsp lay hpub harms hs hd
  have : full' = full := by
    have h1 : fullFn P P.dsp = some full' := hf'
    rw [hfull] at h1; exact (Option.some.inj h1).symm
  subst this
  have hl := C05_publish_ok P.fns.length P P.dsp lay hs hd hpub
  have hag : MAgree full' m0 m0 := ⟨rfl, rfl, Agree.refl full' m0.root⟩
  simp only [session, hinit]
  rw [sessionFrom_same_program_ext fuel sr inputs P lay full' hpub hl hok hsf hext hself hcov m0 hinit swaps hsame N m0 m0
    hag hgood, sessionFrom_nil]

/-- the same for a program without globals: the global store is empty and stays empty, only the conformance of the
`dsp` state along the uninterrupted run is assumed -/
theorem C06_session_swap_same_program_no_globals (fuel : Nat) (sr : UInt64) (P : Prog) (lay full : LNode)
    (swaps : List (Nat × Prog)) (inputs : Nat → List UInt64) (N : Nat) (m0 : Machine)
    (hsame : ∀ e ∈ swaps, e.2 = P)
    (hpub : publishFn P P.dsp = some lay) (hfull : fullFn P P.dsp = some full)
    (harms : noStatefulInArms P P.dsp.body = true) (hs : SitesUnique P) (hd : SitesOk P.dsp.body)
    (hglob : P.globals = []) (hinit : Machine.init fuel P sr = .ok m0)
    (hconf : ∀ j m, machineAfter fuel P sr inputs j m0 = some m → ConformsS full m.root) :
    session fuel sr P swaps inputs N = runFrom fuel P sr inputs N m0 := by
  have h0 := (init_store_nil fuel P sr hglob m0 hinit).1
  refine C06_session_swap_same_program fuel sr P lay full swaps inputs N m0 hsame hpub hfull harms hs hd hinit
    (fun j m hm => ⟨?_, hconf j m hm⟩)
  rw [h0]
  exact machineAfter_invariant fuel P sr inputs (fun m => m.store = [])
    (fun m o m' hi h => step_store_nil fuel P sr m _ o m' hi h) j m0 m h0 hm

/-- in the narrow class (`noStateInArms`: no named call at all inside an `if` arm) the layout of all sites IS the published
layout, so the conformance hypothesis speaks about the published layout -/
theorem C06_session_swap_same_program_narrow (fuel : Nat) (sr : UInt64) (P : Prog) (lay : LNode)
    (swaps : List (Nat × Prog)) (inputs : Nat → List UInt64) (N : Nat) (m0 : Machine)
    (hsame : ∀ e ∈ swaps, e.2 = P)
    (hpub : publishFn P P.dsp = some lay)
    (harms : noStateInArms P P.dsp.body = true) (hs : SitesUnique P) (hd : SitesOk P.dsp.body)
    (hinit : Machine.init fuel P sr = .ok m0)
    (hgood : ∀ j m, machineAfter fuel P sr inputs j m0 = some m → m.store = m0.store ∧ ConformsS lay m.root) :
    session fuel sr P swaps inputs N = runFrom fuel P sr inputs N m0 := by
  obtain ⟨hself, _, hcov⟩ := C05_publishFn_visits P.fns.length P P.dsp lay harms hpub
  have hl := C05_publish_ok P.fns.length P P.dsp lay hs hd hpub
  have hag : MAgree lay m0 m0 := ⟨rfl, rfl, Agree.refl lay m0.root⟩
  simp only [session, hinit]
  rw [sessionFrom_same_program fuel sr inputs P lay hpub hl hself.symm hcov m0 hinit swaps hsame N m0 m0 hag hgood,
    sessionFrom_nil]

/-- **hot-swapping an unchanged program is inaudible — for EVERY program, state inside `if` arms included** (the class
condition `noStatefulInArms` of `C06_session_swap_same_program` is gone: after the repair of finding F3 the compiler
publishes a cell for every stateful site, in both arms of every `if`, so the published layout IS the layout of all sites —
`fullFn_eq_publishFn` — and covers the body of every program — `publishFnN_covers`).  Hypotheses left: the sites of every
body are pairwise distinct with word-sized ring lengths, `main` starts the machine, and the uninterrupted run keeps its
globals and a `dsp` state tree conforming to the PUBLISHED layout (typing facts).  Then every session whose swap events all
name `P` returns exactly the samples of the uninterrupted run, for every run length and input stream -/
theorem C06_session_swap_same_program_all (fuel : Nat) (sr : UInt64) (P : Prog) (lay : LNode)
    (swaps : List (Nat × Prog)) (inputs : Nat → List UInt64) (N : Nat) (m0 : Machine)
    (hsame : ∀ e ∈ swaps, e.2 = P)
    (hpub : publishFn P P.dsp = some lay) (hs : SitesUnique P) (hd : SitesOk P.dsp.body)
    (hinit : Machine.init fuel P sr = .ok m0)
    (hgood : ∀ j m, machineAfter fuel P sr inputs j m0 = some m → m.store = m0.store ∧ ConformsS lay m.root) :
    session fuel sr P swaps inputs N = runFrom fuel P sr inputs N m0 := by
  obtain ⟨hself, hcov⟩ := publishFnN_covers P.fns.length P P.dsp lay hpub
  have hl := C05_publish_ok P.fns.length P P.dsp lay hs hd hpub
  have hag : MAgree lay m0 m0 := ⟨rfl, rfl, Agree.refl lay m0.root⟩
  simp only [session, hinit]
  rw [sessionFrom_same_program fuel sr inputs P lay hpub hl hself.symm hcov m0 hinit swaps hsame N m0 m0 hag hgood,
    sessionFrom_nil]

/-- the layout of all stateful sites (`fullFn`, the second layout of `C06_session_swap_same_program`) is the published one -/
theorem C06_full_layout_is_published (P : Prog) (d : FnDecl) : fullFn P d = publishFn P d := fullFn_eq_publishFn P d

/-! non-vacuity of `C06_session_swap_same_program_all` outside every former class: the witness of finding F3,
`dsp() = if (now > 2) counter() else counter()*100` — static hypotheses hold, the layout has one child per call site -/
example :
    let counterF : FnDecl := ⟨"counter", [], .bin .add .self (.lit 1), some .num⟩
    let P : Prog := ⟨[], [counterF], ⟨"dsp", [],
      .ite (.bin .gt .now (.lit 2)) (.call "counter" [] 1) (.bin .mul (.call "counter" [] 2) (.lit 100)), none⟩⟩
    publishFn P P.dsp = some ⟨none, [.child 1 (some .num) [], .child 2 (some .num) []]⟩ ∧
    noStatefulInArms P P.dsp.body = false ∧ SitesUnique P ∧ SitesOk P.dsp.body := by
  intro counterF P
  refine ⟨rfl, rfl, ?_, ?_⟩
  · intro d hd
    simp only [P, List.mem_cons, List.not_mem_nil, or_false] at hd
    subst hd; simp [SitesOk, siteLens, counterF]
  · simp [SitesOk, siteLens, siteLensL, P]

/-! non-vacuity: `dsp(x) = mem(x)`: every hypothesis holds, for every fuel, input stream and every run length (the root never
stores a `self`, the layout has one `mem` cell); a session with three swaps, two of them at the same time -/
example (fuel : Nat) (sr : UInt64) (inputs : Nat → List UInt64) (N : Nat) (m0 : Machine)
    (hinit : Machine.init fuel ⟨[], [], ⟨"dsp", ["x"], .mem (.var "x") 0, none⟩⟩ sr = .ok m0) :
    let P : Prog := ⟨[], [], ⟨"dsp", ["x"], .mem (.var "x") 0, none⟩⟩
    session fuel sr P [(2, P), (2, P), (5, P)] inputs N = runFrom fuel P sr inputs N m0 := by
  intro P
  have hroot := (init_store_nil fuel P sr rfl m0 hinit).2.1
  refine C06_session_swap_same_program_no_globals fuel sr P ⟨none, [.mem 0]⟩ ⟨none, [.mem 0]⟩ _ inputs N m0 ?_ rfl rfl rfl ?_ ?_ rfl
    hinit ?_
  · intro e he; simp at he; rcases he with rfl | rfl | rfl <;> rfl
  · intro d hd; simp [P] at hd
  · simp [SitesOk, siteLens, P]
  · intro j m hm
    have : m.root.selfv = none :=
      machineAfter_invariant fuel P sr inputs (fun m => m.root.selfv = none)
        (fun m o m' hi h => step_selfv_none fuel P sr m _ o m' rfl hi h) j m0 m (by rw [hroot]; rfl) hm
    exact ⟨this, by simp [ConfSL, ConfS]⟩

/-! the static hypotheses of `C06_session_swap_same_program` outside the narrow class: `g(y) = y*2`,
`dsp(x) = mem(x) + (if x then 1 else g(x))`: the labelled published layout lists the zero-sized child of the call in the
`else` arm (the bare skeleton drops it), and IS the layout of all sites -/
example :
    let gF : FnDecl := ⟨"g", ["y"], .bin .mul (.var "y") (.lit 2), none⟩
    let P : Prog := ⟨[], [gF], ⟨"dsp", ["x"],
      .bin .add (.mem (.var "x") 0) (.ite (.var "x") (.lit 1) (.call "g" [.var "x"] 1)), none⟩⟩
    publishFn P P.dsp = some ⟨none, [.mem 0, .child 1 none []]⟩ ∧ fullFn P P.dsp = some ⟨none, [.mem 0, .child 1 none []]⟩ ∧
    publishedSk ⟨none, [.mem 0, .child 1 none []]⟩ = .fn [.mem 1] ∧
    noStateInArms P P.dsp.body = false ∧ noStatefulInArms P P.dsp.body = true ∧ SitesUnique P ∧ SitesOk P.dsp.body := by
  intro gF P
  refine ⟨rfl, rfl, rfl, rfl, rfl, ?_, ?_⟩
  · intro d hd
    simp only [P, List.mem_cons, List.not_mem_nil, or_false] at hd
    subst hd; simp [SitesOk, siteLens, gF]
  · simp [SitesOk, siteLens, siteLensL, P]

end Mimium.LiveCoding
