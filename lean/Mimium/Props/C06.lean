import Mimium.Model.HotSwap
import Mimium.Proofs.StateTreeApply
import Mimium.Model.Core
import Mimium.Props.C08
/-!
# C06 — hot-swapping an unchanged program is inaudible

The logic the property rests on, as theorems about `Model/HotSwap.lean` (ports of `Machine::new_resume` and of
`WasmDspRuntime::try_hot_swap` + the CLI's plan construction), for EVERY layout and EVERY storage content:
swapping to a program with the same dsp layout hands the new machine exactly the old state words — on the VM
because no plan is built and the storage is cloned, on WASM because the whole-storage copy plan overwrites every
word of the prewarmed state.  And in the reference semantics a machine is a function of (globals, state tree,
sample index) only, so equal machines produce equal futures, however often the swap is repeated
(`C06_same_machine_same_future`).  That the real runtimes behave like this (including re-running `main`, `now`
continuing, closures/arrays glue in `new_resume`) is decided by the correspondence stage: real swaps at every
split point on both runtimes against the uninterrupted run.
-/
namespace Mimium.HotSwap
open Mimium.StateTree

/-- VM: an unchanged layout keeps the storage word for word -/
theorem C06_vm_resume_same_layout (sk : Sk) (old : List Nat) : vmResume sk sk old = some old := by
  simp [vmResume, C08_identical_noop]

theorem applyPatch_whole (old new : List Nat) (h : old.length = new.length) :
    applyPatch old new ⟨0, 0, new.length⟩ = old := by
  apply List.ext_getElem (by simp [applyPatch, h])
  intro k h1 h2
  have hk : k < new.length := by simpa [applyPatch] using h1
  simp [applyPatch, hk, List.getD, h2]

/-- WASM: with the CLI's whole-copy plan every word of the prewarmed state is overwritten by the old word -/
theorem C06_wasm_swap_same_layout (sk : Sk) (old prewarmed : List Nat) (h : old.length = sk.size) :
    wasmSwap sk sk old prewarmed = some old := by
  have hplan : cliPlan sk sk = ⟨sk.size, [⟨0, 0, sk.size⟩]⟩ := by simp [cliPlan, C08_identical_noop]
  have hlen : (resizeTo prewarmed sk.size).length = sk.size := by
    simp [resizeTo]; omega
  simp only [wasmSwap, hplan, matches_refl, List.isEmpty_cons, Bool.and_false, Bool.false_eq_true, if_false,
    List.all_cons, List.all_nil, Bool.and_true, Patch.inBounds, hlen, h]
  simp only [Nat.zero_add, Nat.le_refl, decide_true, Bool.and_self, if_true, applyPatches, List.foldl]
  have := applyPatch_whole old (resizeTo prewarmed sk.size) (by rw [hlen, h])
  rw [hlen] at this
  rw [this]

end Mimium.HotSwap

namespace Mimium.Core

/-- run `k` samples from a machine, collecting the outputs (`none` on an evaluation error) -/
def runFrom (fuel : Nat) (P : Prog) (sr : UInt64) (inputs : Nat → List UInt64) : Nat → Machine → Option (List (List UInt64))
  | 0, _ => some []
  | k + 1, m =>
    match Machine.step fuel P sr m (inputs m.t) with
    | .error _ => none
    | .ok (o, m') => (runFrom fuel P sr inputs k m').map (o :: ·)

/-- the future of a run is a function of the machine (globals, state tree, sample index) alone: a swap that
reconstructs an equal machine — any number of times — is inaudible -/
theorem C06_same_machine_same_future (fuel : Nat) (P : Prog) (sr : UInt64) (inputs : Nat → List UInt64)
    (k : Nat) (m m' : Machine) (h : m' = m) : runFrom fuel P sr inputs k m' = runFrom fuel P sr inputs k m := by
  rw [h]

/-- the machine reached after `n` samples, with the outputs so far -/
def stepsTo (fuel : Nat) (P : Prog) (sr : UInt64) (inputs : Nat → List UInt64) : Nat → Machine → Option (List (List UInt64) × Machine)
  | 0, m => some ([], m)
  | n + 1, m =>
    match Machine.step fuel P sr m (inputs m.t) with
    | .error _ => none
    | .ok (o, m') => (stepsTo fuel P sr inputs n m').map fun (os, m'') => (o :: os, m'')

/-- splitting a run at any point `n` and continuing from the machine reached there gives the same samples -/
theorem C06_split_run (fuel : Nat) (P : Prog) (sr : UInt64) (inputs : Nat → List UInt64) :
    ∀ (n k : Nat) (m : Machine) (o1 : List (List UInt64)) (m1 : Machine),
      stepsTo fuel P sr inputs n m = some (o1, m1) →
      runFrom fuel P sr inputs (n + k) m = (runFrom fuel P sr inputs k m1).map (o1 ++ ·) := by
  intro n
  induction n with
  | zero =>
    intro k m o1 m1 h
    simp only [stepsTo, Option.some.injEq, Prod.mk.injEq] at h
    obtain ⟨rfl, rfl⟩ := h
    simp
  | succ n ih =>
    intro k m o1 m1 h
    simp only [stepsTo] at h
    rw [show n + 1 + k = (n + k) + 1 by omega]
    simp only [runFrom]
    cases hs : Machine.step fuel P sr m (inputs m.t) with
    | error e => simp [hs] at h
    | ok r =>
      obtain ⟨o, m'⟩ := r
      simp only [hs] at h
      cases hrest : stepsTo fuel P sr inputs n m' with
      | none => simp [hrest] at h
      | some r2 =>
        obtain ⟨o2, m2⟩ := r2
        simp only [hrest, Option.map_some, Option.some.injEq, Prod.mk.injEq] at h
        obtain ⟨rfl, rfl⟩ := h
        simp only [ih k m' o2 m2 hrest, Option.map_map]
        congr 1

end Mimium.Core
