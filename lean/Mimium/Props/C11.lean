import Mimium.Proofs.Sched
import Mimium.Proofs.SchedRun
import Mimium.Proofs.SchedMore
import Mimium.Model.SchedMem
import Mimium.Proofs.SchedMem
import Mimium.Gen.Sched
import Mimium.Proofs.HeapStdQueue
import Mimium.Proofs.SchedHeap
import Mimium.Proofs.SchedMemRec
import Mimium.Model.SchedIO
/-!
# C11 — scheduled tasks run exactly once at exactly their sample time

Statement: for every set of tasks scheduled with `@` at times later than the current sample, each task runs exactly
once, at the start of the sample whose index equals the scheduled time truncated to an integer and before dsp of that
sample — never earlier, never later, never dropped or duplicated — regardless of how many tasks are pending or in which
order they were scheduled, and tasks may keep rescheduling themselves. The VM and WASM runtimes agree.

What is proved here (about `Model/Sched.lean`, a literal port of `scheduler.rs`, `wasm_handle.rs` and the
`on_sample`-then-`dsp` order of both `run_dsp`s; the port is tied to the code by the correspondence stage of the check):

* quantifiers: every program behaviour `env : Env σ` (arbitrary user state, arbitrary `schedule_at` calls from global
  scope, from task bodies — including self-rescheduling — and from dsp), every tie-breaking oracle `ch` of the heap,
  every number of samples `n`, no bound on the number of pending tasks;
* premise `env.Future`: each call has `trunc when > now_at_call`;
* `C11_vm_exactly_once_on_time`, `C11_wasm_exactly_once_on_time`: no panic branch is reached and at every sample `t`
  the list of executed closures is a permutation (= equal as multiset: nothing dropped, nothing duplicated, nothing
  else) of all calls issued before `t` whose time is `t`;
* `C11_*_before_dsp`: the calls recorded for a sample are those of the executed bodies, in order, then dsp's, and dsp
  ran on the user state left by those bodies (tasks run before dsp of the same sample);
* `C11_*_executions_eq_requests`: over a whole run, the number of executions of a task `(when,id)` with `when < n`
  equals the number of times it was scheduled — the global "exactly once";
* `C11_*_never_early_never_late`: an execution at sample `t` has `when = t`;
* `C11_vm_invariant`, `C11_wasm_invariant`: the explicit invariant (heap ∪ channel = pending multiset, all later than `cur_time`);
* `C11_vm_wasm_same_ticks`: for programs whose calls do not depend on the user state (commuting effects), both models
  execute the same multiset at every sample, whatever the two tie-breaking oracles;
* `C11_*_self_reschedule_chain`: a closure that re-schedules itself `p ≥ 1` samples ahead runs at `t0, t0+p, t0+2p, …` in every run length.

* `C11_source_shape`: the comparison / ordering sites the model ports are the ones found in /repo's source right now;
* finding F17 (REPAIRED) — the last sentence of the statement was false of the code: on WASM the closure handle was the
  address of a record that was freed when the scheduling body returned, so a pending task could run another function.
  `C11_wasm_closure_reuse_counterexample` proves the negation on a concrete program in the WASM model extended with that
  memory (`Model/SchedMem.lean`: the OLD discipline — these theorems now explain why it failed, they no longer describe the
  implementation); `C11_wasm_queue_partial` (queue logic, handles assumed stable) is what the repaired back end is compared
  with: `closure_retain` keeps the handle valid until the task ran. `C11_wasm_mem_slot_consistent_partial`: the programs the
  old discipline could not hurt (memory included, the `j`-th `@` of every body names one fixed function).

* the heap itself: `C11_heap_push_invariant`, `C11_heap_pop_invariant`, `C11_heap_multiset`, `C11_heap_pop_min`,
  `C11_heap_refines_priority_queue` (+ `C11_heap_pop_keys_eq_sorted_queue`, `C11_heap_eq_sorted_queue_of_total_order`,
  `C11_heap_tie_order_witness`): the literal port of `BinaryHeap::push`/`pop` is a priority queue ordered by `when`;
  `C11_binary_heap_meets_spec` and the `…_on_binary_heap` corollaries restate every theorem above for the scheduler
  loops with that port inside (`Vm.runH stdHeap`, `W.runH stdHeap`, `M.run stdHeap`), with no oracle and no hypothesis
  about the heap;
* closure records with captured values (`R.run fmt`, records of any size): `C11_wasm_mem_records_one_cell_eq`,
  `C11_wasm_mem_records_slot_consistent_partial` (+ `…_on_binary_heap`), `C11_table_record_format_ok`,
  `C11_wasm_record_upvalue_read_as_function_counterexample` (a task is dropped).

Not proved (exercised by the correspondence only): that the port IS what `std::collections::BinaryHeap` does (exact pop
order compared on every handle-level history), `mpsc` FIFO, closure retention
(`resolve_closure`/`execute_closure`), the `f64 as u64` truncation (the driver uses `Float.toUInt64`, compared against
the real code on fractional / negative / NaN / huge times), the compiler's translation of `@`.
-/
namespace Mimium.Sched

/-- VM side: no panic, all `n` samples ran, and sample `t` executed exactly the calls issued before `t` with time `t`. -/
theorem C11_vm_exactly_once_on_time {σ : Type} (env : Env σ) (ch : Nat → Nat) (n : Nat) (s0 : σ) (hf : env.Future) :
    (Vm.run env ch n s0).final.isSome ∧ (Vm.run env ch n s0).ticks.length = n ∧
    ∀ (t : Nat) (ht : t < (Vm.run env ch n s0).ticks.length),
      ((Vm.run env ch n s0).ticks[t]).execd.Perm
        ((issuedBefore (Vm.run env ch n s0).greqs (Vm.run env ch n s0).ticks t).filter (fun x => decide (x.when = t))) := by
  obtain ⟨st', e, l, idl, _⟩ := Vm.run_spec env ch n s0 hf
  refine ⟨by simp [e], l, ?_⟩
  intro t ht
  have := idl.onTime t ht
  simpa [issuedBefore] using this

/-- WASM side: the same. -/
theorem C11_wasm_exactly_once_on_time {σ : Type} (env : Env σ) (ch : Nat → Nat) (n : Nat) (s0 : σ) (hf : env.Future) :
    (W.run env ch n s0).final.isSome ∧ (W.run env ch n s0).ticks.length = n ∧
    ∀ (t : Nat) (ht : t < (W.run env ch n s0).ticks.length),
      ((W.run env ch n s0).ticks[t]).execd.Perm
        ((issuedBefore (W.run env ch n s0).greqs (W.run env ch n s0).ticks t).filter (fun x => decide (x.when = t))) := by
  obtain ⟨st', e, l, idl, _⟩ := W.run_spec env ch n s0 hf
  refine ⟨by simp [e], l, ?_⟩
  intro t ht
  have := idl.onTime t ht
  simpa [issuedBefore] using this

/-- VM side, tasks before dsp: the whole run is a run of the ideal scheduler (`Ideal`): in every sample the recorded
calls are those of the executed bodies in order followed by dsp's, dsp starting from the state the bodies left. -/
theorem C11_vm_before_dsp {σ : Type} (env : Env σ) (ch : Nat → Nat) (n : Nat) (s0 : σ) (hf : env.Future) :
    Ideal env 0 (env.global s0).2 (env.global s0).1 (Vm.run env ch n s0).ticks := by
  obtain ⟨_, _, _, idl, _⟩ := Vm.run_spec env ch n s0 hf
  exact idl

theorem C11_wasm_before_dsp {σ : Type} (env : Env σ) (ch : Nat → Nat) (n : Nat) (s0 : σ) (hf : env.Future) :
    Ideal env 0 (env.global s0).2 (env.global s0).1 (W.run env ch n s0).ticks := by
  obtain ⟨_, _, _, idl, _⟩ := W.run_spec env ch n s0 hf
  exact idl

/-- Never early, never late: whatever ran in sample `t` was scheduled for `t`. -/
theorem C11_vm_never_early_never_late {σ : Type} (env : Env σ) (ch : Nat → Nat) (n : Nat) (s0 : σ) (hf : env.Future)
    (t : Nat) (ht : t < (Vm.run env ch n s0).ticks.length) (x : Task)
    (hx : x ∈ ((Vm.run env ch n s0).ticks[t]).execd) : x.when = t := by
  have := ((C11_vm_exactly_once_on_time env ch n s0 hf).2.2 t ht).mem_iff.1 hx
  simpa using (List.mem_filter.1 this).2

theorem C11_wasm_never_early_never_late {σ : Type} (env : Env σ) (ch : Nat → Nat) (n : Nat) (s0 : σ) (hf : env.Future)
    (t : Nat) (ht : t < (W.run env ch n s0).ticks.length) (x : Task)
    (hx : x ∈ ((W.run env ch n s0).ticks[t]).execd) : x.when = t := by
  have := ((C11_wasm_exactly_once_on_time env ch n s0 hf).2.2 t ht).mem_iff.1 hx
  simpa using (List.mem_filter.1 this).2

/-- The explicit invariant, VM side, after any number of samples: `cur_time` is the last sample, the channel only
holds later tasks, and heap ∪ channel is exactly the multiset of issued-but-not-yet-due tasks. -/
theorem C11_vm_invariant {σ : Type} (env : Env σ) (ch : Nat → Nat) (n : Nat) (s0 : σ) (hf : env.Future) :
    ∃ st, (Vm.run env ch n s0).final = some st ∧
      VmInv n ((Vm.run env ch n s0).greqs ++ (Vm.run env ch n s0).ticks.flatMap (·.reqs)) st := by
  obtain ⟨st', e, _, _, inv⟩ := Vm.run_spec env ch n s0 hf
  exact ⟨st', e, by simpa using inv⟩

theorem C11_wasm_invariant {σ : Type} (env : Env σ) (ch : Nat → Nat) (n : Nat) (s0 : σ) (hf : env.Future) :
    ∃ st, (W.run env ch n s0).final = some st ∧
      WInv n ((W.run env ch n s0).greqs ++ (W.run env ch n s0).ticks.flatMap (·.reqs)) st := by
  obtain ⟨st', e, _, _, inv⟩ := W.run_spec env ch n s0 hf
  exact ⟨st', e, by simpa using inv⟩

/-- Global "exactly once", VM side: over a run of `n` samples a task `(when,id)` with `when < n` is executed exactly
as many times as `schedule_at` was called for it. -/
theorem C11_vm_executions_eq_requests {σ : Type} (env : Env σ) (ch : Nat → Nat) (n : Nat) (s0 : σ) (hf : env.Future)
    (x : Task) (hx : x.when < n) :
    ((Vm.run env ch n s0).ticks.flatMap (·.execd)).count x
      = ((Vm.run env ch n s0).greqs ++ (Vm.run env ch n s0).ticks.flatMap (·.reqs)).count x := by
  obtain ⟨_, _, l, idl, _⟩ := Vm.run_spec env ch n s0 hf
  simpa using idl.count_eq hf x (Nat.zero_le _) (by omega)

theorem C11_wasm_executions_eq_requests {σ : Type} (env : Env σ) (ch : Nat → Nat) (n : Nat) (s0 : σ) (hf : env.Future)
    (x : Task) (hx : x.when < n) :
    ((W.run env ch n s0).ticks.flatMap (·.execd)).count x
      = ((W.run env ch n s0).greqs ++ (W.run env ch n s0).ticks.flatMap (·.reqs)).count x := by
  obtain ⟨_, _, l, idl, _⟩ := W.run_spec env ch n s0 hf
  simpa using idl.count_eq hf x (Nat.zero_le _) (by omega)

/-- The two models agree: when the calls a body / dsp issues do not depend on the user state (`ReqDet`: commuting
effects such as counters), the VM model and the WASM model execute the same multiset of closures in every sample,
for any two tie-breaking oracles. -/
theorem C11_vm_wasm_same_ticks {σ : Type} (env : Env σ) (ch1 ch2 : Nat → Nat) (n : Nat) (s0 : σ)
    (hf : env.Future) (hd : env.ReqDet)
    (t : Nat) (h1 : t < (Vm.run env ch1 n s0).ticks.length) (h2 : t < (W.run env ch2 n s0).ticks.length) :
    ((Vm.run env ch1 n s0).ticks[t]).execd.Perm ((W.run env ch2 n s0).ticks[t]).execd := by
  obtain ⟨_, _, _, i1, _⟩ := Vm.run_spec env ch1 n s0 hf
  obtain ⟨_, _, _, i2, _⟩ := W.run_spec env ch2 n s0 hf
  exact Ideal.same_ticks hd i1 i2 (List.Perm.refl _) t h1 h2

/-- Unbounded self-rescheduling chain, VM side: closure `a` scheduled for `t0` from global scope, whose body
re-schedules `a` for `now + p` (`p ≥ 1`) every time it runs, is executed in sample `t0 + k*p` for every `k`, in every run
long enough to contain that sample (no bound on `n`, `k`). -/
theorem C11_vm_self_reschedule_chain {σ : Type} (env : Env σ) (ch : Nat → Nat) (n : Nat) (s0 : σ) (hf : env.Future)
    (a t0 p : Nat) (hp : 1 ≤ p) (h0 : (⟨t0, a⟩ : Task) ∈ (env.global s0).2)
    (hre : ∀ now s, (⟨now + p, a⟩ : Task) ∈ (env.task a now s).2)
    (k : Nat) (hk : t0 + k * p < (Vm.run env ch n s0).ticks.length) :
    (⟨t0 + k * p, a⟩ : Task) ∈ ((Vm.run env ch n s0).ticks[t0 + k * p]).execd := by
  obtain ⟨_, _, _, idl, _⟩ := Vm.run_spec env ch n s0 hf
  exact idl.chain a t0 p hp h0 hre k hk

theorem C11_wasm_self_reschedule_chain {σ : Type} (env : Env σ) (ch : Nat → Nat) (n : Nat) (s0 : σ) (hf : env.Future)
    (a t0 p : Nat) (hp : 1 ≤ p) (h0 : (⟨t0, a⟩ : Task) ∈ (env.global s0).2)
    (hre : ∀ now s, (⟨now + p, a⟩ : Task) ∈ (env.task a now s).2)
    (k : Nat) (hk : t0 + k * p < (W.run env ch n s0).ticks.length) :
    (⟨t0 + k * p, a⟩ : Task) ∈ ((W.run env ch n s0).ticks[t0 + k * p]).execd := by
  obtain ⟨_, _, _, idl, _⟩ := W.run_spec env ch n s0 hf
  exact idl.chain a t0 p hp h0 hre k hk

/-- Translator tie: the comparison / ordering sites re-extracted from /repo by `tools/extract.py` on every run are
the ones `Model/Sched.lean` ports (`Ord for Task` on `when` only; due = `when <= now`; rejected = `when <= cur_time`
resp. `when <= current_time`; `as u64`; drain → set time → pop; `on_sample` before dsp). A source edit at one of
these sites breaks this theorem, and the correspondence then searches for a failing input. -/
theorem C11_source_shape : Mimium.Gen.schedShape = [
    ("taskOrd", "self.when.cmp(&other.when)"),
    ("vmHeapType", "BinaryHeap<Reverse<Task>>"),
    ("vmDue", "*when <= now"),
    ("vmReject", "task.when <= self.cur_time"),
    ("vmTrunc", "handle.get_arg_f64(0) as u64"),
    ("wasmDue", "task.when <= now"),
    ("wasmReject", "when <= s.current_time"),
    ("wasmTrunc", "args[0] as u64"),
    ("vmOnSampleOrder", "drain<setcur<pop"),
    ("wasmOnSampleOrder", "setcur<drain"),
    ("vmRunDspOrder", "on_sample<dsp"),
    ("wasmRunDspOrder", "on_sample<dsp")] := rfl

/-! ## Finding F17 (repaired): the OLD memory discipline of the WASM backend makes the property false

`C11_wasm_exactly_once_on_time` is about the queue with closure handles that stay valid. Until the repair the real WASM
handle was the address of a bump-allocated record that was freed when the scheduling body returned
(`Model/SchedMem.lean`); the theorems of this section are about that discipline (why it failed, and for which programs it
did not matter). The repaired back end keeps the record until the task ran and is compared with `W.runH stdHeap` only. -/

/-- Non-vacuity of the premise and of the witness: `f17Env` satisfies `Future`. -/
theorem C11_f17_witness_premise : f17Env.Future := by
  refine ⟨?_, ?_, ?_⟩
  · intro s x hx
    simp [f17Env] at hx
    rcases hx with rfl | rfl <;> simp
  · intro id now s x hx
    simp only [f17Env] at hx
    split at hx
    · simp at hx; subst hx; simp
    · split at hx
      · simp at hx; subst hx; simp
      · simp at hx
  · intro now s x hx
    simp [f17Env] at hx

/-- **Negation on a concrete witness** (WASM model with closure memory): the only call for sample 3 names function 0,
but sample 3 runs function 1; function 1 runs twice (samples 3 and 4), function 0 never. The plain queue model and the
VM model run function 0 at 3 and function 1 at 4. Replayed on the real runtimes by every check run
(`corpus/C11/f17_witness.txt`; since the repair both runtimes must give the ideal run there). No two tasks are due in the same sample, so the tie oracle is irrelevant. -/
theorem C11_wasm_closure_reuse_counterexample :
    (M.run (oracleHeap (fun _ => 0)) f17Env 6 ()).ticks.map (·.execd)
      = [[], [⟨1, 2⟩], [⟨2, 3⟩], [⟨3, 1⟩], [⟨4, 1⟩], []] ∧
    (issuedBefore (M.run (oracleHeap (fun _ => 0)) f17Env 6 ()).greqs
        (M.run (oracleHeap (fun _ => 0)) f17Env 6 ()).ticks 3).filter (fun x => decide (x.when = 3)) = [⟨3, 0⟩] ∧
    (W.run f17Env (fun _ => 0) 6 ()).ticks.map (·.execd) = [[], [⟨1, 2⟩], [⟨2, 3⟩], [⟨3, 0⟩], [⟨4, 1⟩], []] ∧
    (Vm.run f17Env (fun _ => 0) 6 ()).ticks.map (·.execd) = [[], [⟨1, 2⟩], [⟨2, 3⟩], [⟨3, 0⟩], [⟨4, 1⟩], []] := by
  decide +kernel

/-- The part that does hold on the WASM side: the queue and hand-over logic of `WasmSchedulerHandle` executes every
handle exactly once at exactly its sample, before dsp, for every program behaviour and tie order — i.e. C11 holds for
WASM *provided the closure handle still denotes the closure that was scheduled* (true for closures created in global
scope; for closures created inside task bodies or dsp it was false until the repair of F17 and is what `closure_retain` /
`closure_release` of wasmgen.rs now provide). -/
theorem C11_wasm_queue_partial {σ : Type} (env : Env σ) (ch : Nat → Nat) (n : Nat) (s0 : σ) (hf : env.Future) :
    (W.run env ch n s0).final.isSome ∧ (W.run env ch n s0).ticks.length = n ∧
    Ideal env 0 (env.global s0).2 (env.global s0).1 (W.run env ch n s0).ticks := by
  obtain ⟨st', e, l, idl, _⟩ := W.run_spec env ch n s0 hf
  exact ⟨by simp [e], l, idl⟩

/-- The part that does hold of the WASM side *including* closure memory: if the `j`-th `@` of every body (task or
dsp) always names the same function `slot j` (`Env.SlotConsistent`; e.g. each body re-schedules one fixed closure —
the shape of all shipped scheduler fixtures), overwritten records are overwritten with what they already held, and the
run is again that of an ideal scheduler: no panic, every sample executes exactly the functions scheduled for it, before
dsp. For every priority-queue implementation meeting `HeapSpec` (so also for every tie oracle), every program state,
every run length. -/
theorem C11_wasm_mem_slot_consistent_partial {σ H : Type} (ops : HeapOps H) (toList : H → List Task)
    (hs : HeapSpec ops toList) (env : Env σ) (slot : Nat → Nat) (n : Nat) (s0 : σ)
    (hf : env.Future) (hc : env.SlotConsistent slot) :
    (M.run ops env n s0).final.isSome ∧ (M.run ops env n s0).ticks.length = n ∧
    Ideal env 0 (env.global s0).2 (env.global s0).1 (M.run ops env n s0).ticks ∧
    ∀ (t : Nat) (ht : t < (M.run ops env n s0).ticks.length),
      ((M.run ops env n s0).ticks[t]).execd.Perm
        ((issuedBefore (M.run ops env n s0).greqs (M.run ops env n s0).ticks t).filter (fun x => decide (x.when = t))) := by
  obtain ⟨st', e, l, g, idl⟩ := M.run_spec hs.toI hf hc n s0
  refine ⟨by simp [e], l, idl, ?_⟩
  intro t ht
  have := idl.onTime t ht
  simpa [issuedBefore, g] using this

/-- the abstract heap with any tie oracle is such an implementation -/
theorem C11_oracle_heap_meets_spec (ch : Nat → Nat) : HeapSpec (oracleHeap ch) (fun h => h.1) :=
  oracleHeap_spec ch

/-! ## The literal `BinaryHeap<Reverse<Task>>` port is a priority queue (theorems, no longer a trusted assumption)

`stdPush` / `stdPop` (`Model/SchedMem.lean`) port `BinaryHeap::push` (`sift_up`) and `BinaryHeap::pop`
(`sift_down_to_bottom` + `sift_up`) on an array. The key is `Reverse<Task>` with `Ord for Task` comparing `when` ONLY
(`C11_source_shape`: `self.when.cmp(&other.when)`) — there is no sequence number, so the order is a total PREorder:
`IsHeap d` = min-heap on `when`. The exact pop order of the port (ties included) is what the real `WasmSchedulerHandle`
is compared with, history by history, in the correspondence stage. -/

/-- `push` keeps the array a heap. -/
theorem C11_heap_push_invariant (x : Task) (d : Array Task) (h : IsHeap d) : IsHeap (stdPush x d) :=
  stdPush_isHeap x d h

/-- `push` adds exactly one element (as a multiset; no invariant needed). -/
theorem C11_heap_multiset (x : Task) (d : Array Task) :
    (stdPush x d).toList.Perm (x :: d.toList) ∧ (stdPush x d).size = d.size + 1 :=
  ⟨stdPush_perm x d, stdPush_size x d⟩

/-- `pop` keeps the array a heap. -/
theorem C11_heap_pop_invariant (d : Array Task) (h : IsHeap d) (x : Task) (r : Array Task)
    (e : stdPop d = some (x, r)) : IsHeap r := by
  have hs : d.size ≠ 0 := fun h0 => by rw [(stdPop_none d).2 h0] at e; cases e
  obtain ⟨r', e', hr, _, _⟩ := stdPop_spec d h hs
  rw [e'] at e
  simp only [Option.some.injEq, Prod.mk.injEq] at e
  rw [← e.2]
  exact hr

/-- `pop` returns `None` exactly on the empty heap; otherwise it returns a member with minimal `when` and removes
exactly one occurrence of it: the old contents are a permutation of the popped element plus the new contents. -/
theorem C11_heap_pop_min (d : Array Task) (h : IsHeap d) :
    (stdPop d = none ↔ d.size = 0) ∧
    ∀ (x : Task) (r : Array Task), stdPop d = some (x, r) →
      x ∈ d.toList ∧ (∀ y ∈ d.toList, x.when ≤ y.when) ∧ d.toList.Perm (x :: r.toList) ∧ r.size + 1 = d.size := by
  refine ⟨stdPop_none d, ?_⟩
  intro x r e
  have hs : d.size ≠ 0 := fun h0 => by rw [(stdPop_none d).2 h0] at e; cases e
  obtain ⟨r', e', _, p, hsz⟩ := stdPop_spec d h hs
  rw [e'] at e
  simp only [Option.some.injEq, Prod.mk.injEq] at e
  obtain ⟨rfl, rfl⟩ := e
  exact ⟨p.mem_iff.2 (List.mem_cons_self ..), h.root_min, p, hsz⟩

/-- **Refinement.** Any sequence of `push`/`pop` on the port, started from any heap, behaves pop by pop as a priority
queue ordered by `when` over the multiset of its contents (`PQTrace`): `None` exactly when empty; otherwise a member
of minimal `when`, exactly one occurrence of which is removed. WHICH of several members with the same `when` is
returned is not determined by the specification (and, for the real heap, depends on the array layout: see
`C11_heap_tie_order_witness`). -/
theorem C11_heap_refines_priority_queue (ops : List QOp) (d : Array Task) (h : IsHeap d) :
    PQTrace d.toList ops (runStd ops d) :=
  runStd_trace ops d h

/-- Up to the order among equal keys the port IS the sorted-list queue: from contents with the same multiset of keys,
the two pop the same `when` at every pop (and `None` at the same pops). -/
theorem C11_heap_pop_keys_eq_sorted_queue (ops : List QOp) (d : Array Task) (l : List Task) (h : IsHeap d)
    (hl : SortedByWhen l) (hk : (d.toList.map (·.when)).Perm (l.map (·.when))) :
    (runStd ops d).map (Option.map (·.when)) = (runSorted ops l).map (Option.map (·.when)) :=
  PQTrace.keys_eq ops (runStd_trace ops d h) (runSorted_trace ops l hl) hk

/-- When the order is total on the tasks involved (`when` injective on contents and pushed tasks — e.g. a key with a
sequence number, or all scheduled times distinct) the port equals the sorted-list queue exactly. -/
theorem C11_heap_eq_sorted_queue_of_total_order (ops : List QOp) (d : Array Task) (l : List Task) (h : IsHeap d)
    (hl : SortedByWhen l) (hp : d.toList.Perm l) (inj : KeyInj (d.toList ++ pushed ops)) :
    runStd ops d = runSorted ops l :=
  PQTrace.unique ops (runStd_trace ops d h) (runSorted_trace ops l hl) hp inj

/-- Among equal keys the port (like the real heap) is neither FIFO nor LIFO: four tasks with the same time pushed in
the order 0,1,2,3 are popped 0,2,1,3 (FIFO sorted-list queue: 0,1,2,3; LIFO: 3,2,1,0). This order is what the real
`BinaryHeap` produces (handle-level correspondence, exact pop order). -/
theorem C11_heap_tie_order_witness :
    (runStd [.push ⟨1, 0⟩, .push ⟨1, 1⟩, .push ⟨1, 2⟩, .push ⟨1, 3⟩, .pop, .pop, .pop, .pop] #[]).map (Option.map (·.id))
      = [some 0, some 2, some 1, some 3] ∧
    (runSorted [.push ⟨1, 0⟩, .push ⟨1, 1⟩, .push ⟨1, 2⟩, .push ⟨1, 3⟩, .pop, .pop, .pop, .pop] []).map (Option.map (·.id))
      = [some 0, some 1, some 2, some 3] ∧
    (runSortedLifo [.push ⟨1, 0⟩, .push ⟨1, 1⟩, .push ⟨1, 2⟩, .push ⟨1, 3⟩, .pop, .pop, .pop, .pop] []).map (Option.map (·.id))
      = [some 3, some 2, some 1, some 0] := by
  decide +kernel

/-- non-vacuity: the empty array is a heap, so the refinement covers every history of a fresh queue; and the
total-order premise is satisfiable with the outputs being non-trivial -/
example (ops : List QOp) : PQTrace [] ops (runStd ops #[]) := C11_heap_refines_priority_queue ops #[] isHeap_empty
example (ops : List QOp) : (runStd ops #[]).map (Option.map (·.when)) = (runSorted ops []).map (Option.map (·.when)) :=
  C11_heap_pop_keys_eq_sorted_queue ops #[] [] isHeap_empty List.Pairwise.nil (List.Perm.refl _)
example : KeyInj ((#[] : Array Task).toList ++ pushed [.push ⟨3, 0⟩, .push ⟨1, 1⟩, .pop, .push ⟨2, 2⟩, .pop, .pop, .pop]) := by
  unfold KeyInj; decide
example : runStd [.push ⟨3, 0⟩, .push ⟨1, 1⟩, .pop, .push ⟨2, 2⟩, .pop, .pop, .pop] #[]
    = [some ⟨1, 1⟩, some ⟨2, 2⟩, some ⟨3, 0⟩, none] := by decide +kernel
example : IsHeap (stdPush ⟨1, 7⟩ (stdPush ⟨2, 8⟩ #[])) :=
  C11_heap_push_invariant _ _ (C11_heap_push_invariant _ _ isHeap_empty)
example : stdPop (stdPush ⟨1, 7⟩ (stdPush ⟨2, 8⟩ #[])) = some (⟨1, 7⟩, #[⟨2, 8⟩]) := by decide +kernel


/-! ## The C11 theorems with the real heap algorithm inside (`…_on_binary_heap`)

`Vm.runH ops` / `W.runH ops` (`Model/SchedHeap.lean`) are the two scheduler loops of `Model/Sched.lean` written over a
heap implementation `ops` instead of a list with a tie oracle; `M.run ops` is the WASM side with closure memory.
With `ops := stdHeap` (the literal `BinaryHeap` port) nothing about the heap is assumed any more: the port meets the
priority-queue specification (`C11_binary_heap_meets_spec`, from the `C11_heap_*` theorems), hence every statement
above holds for the schedulers running the real sift-up / sift-down code, whatever its tie order. -/

/-- the literal `BinaryHeap` port meets the priority-queue specification used by the scheduler proofs, with contents
`Array.toList` and representation invariant `IsHeap` (established by `new`, kept by `push` and `pop`) -/
theorem C11_binary_heap_meets_spec : HeapSpecI stdHeap Array.toList IsHeap := stdHeap_spec

/-- VM scheduler over ANY heap implementation meeting the specification: no panic, `n` samples, ideal run, invariant. -/
theorem C11_vm_ideal_over_any_heap {σ H : Type} (ops : HeapOps H) (toList : H → List Task) (Inv : H → Prop)
    (hs : HeapSpecI ops toList Inv) (env : Env σ) (n : Nat) (s0 : σ) (hf : env.Future) :
    ∃ st, (Vm.runH ops env n s0).final = some st ∧ (Vm.runH ops env n s0).ticks.length = n ∧
      Ideal env 0 (env.global s0).2 (env.global s0).1 (Vm.runH ops env n s0).ticks ∧
      VmInvH toList Inv n ((Vm.runH ops env n s0).greqs ++ (Vm.runH ops env n s0).ticks.flatMap (·.reqs)) st := by
  obtain ⟨st', e, l, idl, inv⟩ := Vm.runH_spec hs env n s0 hf
  exact ⟨st', e, l, idl, by simpa using inv⟩

/-- WASM scheduler (handles stable) over ANY heap implementation meeting the specification. -/
theorem C11_wasm_ideal_over_any_heap {σ H : Type} (ops : HeapOps H) (toList : H → List Task) (Inv : H → Prop)
    (hs : HeapSpecI ops toList Inv) (env : Env σ) (n : Nat) (s0 : σ) (hf : env.Future) :
    ∃ st, (W.runH ops env n s0).final = some st ∧ (W.runH ops env n s0).ticks.length = n ∧
      Ideal env 0 (env.global s0).2 (env.global s0).1 (W.runH ops env n s0).ticks ∧
      WInvH toList Inv n ((W.runH ops env n s0).greqs ++ (W.runH ops env n s0).ticks.flatMap (·.reqs)) st := by
  obtain ⟨st', e, l, g, idl, inv⟩ := W.runH_spec hs env n s0 hf
  exact ⟨st', e, l, idl, by simpa [g] using inv⟩

theorem C11_vm_exactly_once_on_time_on_binary_heap {σ : Type} (env : Env σ) (n : Nat) (s0 : σ) (hf : env.Future) :
    (Vm.runH stdHeap env n s0).final.isSome ∧ (Vm.runH stdHeap env n s0).ticks.length = n ∧
    ∀ (t : Nat) (ht : t < (Vm.runH stdHeap env n s0).ticks.length),
      ((Vm.runH stdHeap env n s0).ticks[t]).execd.Perm
        ((issuedBefore (Vm.runH stdHeap env n s0).greqs (Vm.runH stdHeap env n s0).ticks t).filter
          (fun x => decide (x.when = t))) := by
  obtain ⟨st', e, l, idl, _⟩ := Vm.runH_spec stdHeap_spec env n s0 hf
  refine ⟨by simp [e], l, ?_⟩
  intro t ht
  have := idl.onTime t ht
  simpa [issuedBefore] using this

theorem C11_wasm_exactly_once_on_time_on_binary_heap {σ : Type} (env : Env σ) (n : Nat) (s0 : σ) (hf : env.Future) :
    (W.runH stdHeap env n s0).final.isSome ∧ (W.runH stdHeap env n s0).ticks.length = n ∧
    ∀ (t : Nat) (ht : t < (W.runH stdHeap env n s0).ticks.length),
      ((W.runH stdHeap env n s0).ticks[t]).execd.Perm
        ((issuedBefore (W.runH stdHeap env n s0).greqs (W.runH stdHeap env n s0).ticks t).filter
          (fun x => decide (x.when = t))) := by
  obtain ⟨st', e, l, g, idl, _⟩ := W.runH_spec stdHeap_spec env n s0 hf
  refine ⟨by simp [e], l, ?_⟩
  intro t ht
  have := idl.onTime t ht
  simpa [issuedBefore, g] using this

theorem C11_vm_before_dsp_on_binary_heap {σ : Type} (env : Env σ) (n : Nat) (s0 : σ) (hf : env.Future) :
    Ideal env 0 (env.global s0).2 (env.global s0).1 (Vm.runH stdHeap env n s0).ticks := by
  obtain ⟨_, _, _, idl, _⟩ := Vm.runH_spec stdHeap_spec env n s0 hf
  exact idl

theorem C11_wasm_before_dsp_on_binary_heap {σ : Type} (env : Env σ) (n : Nat) (s0 : σ) (hf : env.Future) :
    Ideal env 0 (env.global s0).2 (env.global s0).1 (W.runH stdHeap env n s0).ticks := by
  obtain ⟨_, _, _, _, idl, _⟩ := W.runH_spec stdHeap_spec env n s0 hf
  exact idl

theorem C11_vm_never_early_never_late_on_binary_heap {σ : Type} (env : Env σ) (n : Nat) (s0 : σ) (hf : env.Future)
    (t : Nat) (ht : t < (Vm.runH stdHeap env n s0).ticks.length) (x : Task)
    (hx : x ∈ ((Vm.runH stdHeap env n s0).ticks[t]).execd) : x.when = t := by
  have := ((C11_vm_exactly_once_on_time_on_binary_heap env n s0 hf).2.2 t ht).mem_iff.1 hx
  simpa using (List.mem_filter.1 this).2

theorem C11_wasm_never_early_never_late_on_binary_heap {σ : Type} (env : Env σ) (n : Nat) (s0 : σ) (hf : env.Future)
    (t : Nat) (ht : t < (W.runH stdHeap env n s0).ticks.length) (x : Task)
    (hx : x ∈ ((W.runH stdHeap env n s0).ticks[t]).execd) : x.when = t := by
  have := ((C11_wasm_exactly_once_on_time_on_binary_heap env n s0 hf).2.2 t ht).mem_iff.1 hx
  simpa using (List.mem_filter.1 this).2

/-- explicit invariant with the array inside: it is a heap, `cur_time` is the last sample, the channel only holds
later tasks, and array ∪ channel is exactly the multiset of issued-but-not-yet-due tasks -/
theorem C11_vm_invariant_on_binary_heap {σ : Type} (env : Env σ) (n : Nat) (s0 : σ) (hf : env.Future) :
    ∃ st, (Vm.runH stdHeap env n s0).final = some st ∧
      VmInvH Array.toList IsHeap n
        ((Vm.runH stdHeap env n s0).greqs ++ (Vm.runH stdHeap env n s0).ticks.flatMap (·.reqs)) st := by
  obtain ⟨st, e, _, _, inv⟩ := C11_vm_ideal_over_any_heap stdHeap _ _ stdHeap_spec env n s0 hf
  exact ⟨st, e, inv⟩

theorem C11_wasm_invariant_on_binary_heap {σ : Type} (env : Env σ) (n : Nat) (s0 : σ) (hf : env.Future) :
    ∃ st, (W.runH stdHeap env n s0).final = some st ∧
      WInvH Array.toList IsHeap n
        ((W.runH stdHeap env n s0).greqs ++ (W.runH stdHeap env n s0).ticks.flatMap (·.reqs)) st := by
  obtain ⟨st, e, _, _, inv⟩ := C11_wasm_ideal_over_any_heap stdHeap _ _ stdHeap_spec env n s0 hf
  exact ⟨st, e, inv⟩

theorem C11_vm_executions_eq_requests_on_binary_heap {σ : Type} (env : Env σ) (n : Nat) (s0 : σ) (hf : env.Future)
    (x : Task) (hx : x.when < n) :
    ((Vm.runH stdHeap env n s0).ticks.flatMap (·.execd)).count x
      = ((Vm.runH stdHeap env n s0).greqs ++ (Vm.runH stdHeap env n s0).ticks.flatMap (·.reqs)).count x := by
  obtain ⟨_, _, l, idl, _⟩ := Vm.runH_spec stdHeap_spec env n s0 hf
  simpa using idl.count_eq hf x (Nat.zero_le _) (by omega)

theorem C11_wasm_executions_eq_requests_on_binary_heap {σ : Type} (env : Env σ) (n : Nat) (s0 : σ) (hf : env.Future)
    (x : Task) (hx : x.when < n) :
    ((W.runH stdHeap env n s0).ticks.flatMap (·.execd)).count x
      = ((W.runH stdHeap env n s0).greqs ++ (W.runH stdHeap env n s0).ticks.flatMap (·.reqs)).count x := by
  obtain ⟨_, _, l, g, idl, _⟩ := W.runH_spec stdHeap_spec env n s0 hf
  simpa [g] using idl.count_eq hf x (Nat.zero_le _) (by omega)

/-- both schedulers with the real heap inside execute the same multiset in every sample (programs with `ReqDet`) -/
theorem C11_vm_wasm_same_ticks_on_binary_heap {σ : Type} (env : Env σ) (n : Nat) (s0 : σ)
    (hf : env.Future) (hd : env.ReqDet)
    (t : Nat) (h1 : t < (Vm.runH stdHeap env n s0).ticks.length) (h2 : t < (W.runH stdHeap env n s0).ticks.length) :
    ((Vm.runH stdHeap env n s0).ticks[t]).execd.Perm ((W.runH stdHeap env n s0).ticks[t]).execd := by
  obtain ⟨_, _, _, i1, _⟩ := Vm.runH_spec stdHeap_spec env n s0 hf
  obtain ⟨_, _, _, _, i2, _⟩ := W.runH_spec stdHeap_spec env n s0 hf
  exact Ideal.same_ticks hd i1 i2 (List.Perm.refl _) t h1 h2

/-- … and the same multiset as the oracle-heap models of `Model/Sched.lean`, for every oracle -/
theorem C11_binary_heap_same_ticks_as_oracle_heap {σ : Type} (env : Env σ) (ch : Nat → Nat) (n : Nat) (s0 : σ)
    (hf : env.Future) (hd : env.ReqDet)
    (t : Nat) (h1 : t < (Vm.runH stdHeap env n s0).ticks.length) (h2 : t < (Vm.run env ch n s0).ticks.length) :
    ((Vm.runH stdHeap env n s0).ticks[t]).execd.Perm ((Vm.run env ch n s0).ticks[t]).execd := by
  obtain ⟨_, _, _, i1, _⟩ := Vm.runH_spec stdHeap_spec env n s0 hf
  obtain ⟨_, _, _, i2, _⟩ := Vm.run_spec env ch n s0 hf
  exact Ideal.same_ticks hd i1 i2 (List.Perm.refl _) t h1 h2

theorem C11_vm_self_reschedule_chain_on_binary_heap {σ : Type} (env : Env σ) (n : Nat) (s0 : σ) (hf : env.Future)
    (a t0 p : Nat) (hp : 1 ≤ p) (h0 : (⟨t0, a⟩ : Task) ∈ (env.global s0).2)
    (hre : ∀ now s, (⟨now + p, a⟩ : Task) ∈ (env.task a now s).2)
    (k : Nat) (hk : t0 + k * p < (Vm.runH stdHeap env n s0).ticks.length) :
    (⟨t0 + k * p, a⟩ : Task) ∈ ((Vm.runH stdHeap env n s0).ticks[t0 + k * p]).execd := by
  obtain ⟨_, _, _, idl, _⟩ := Vm.runH_spec stdHeap_spec env n s0 hf
  exact idl.chain a t0 p hp h0 hre k hk

theorem C11_wasm_self_reschedule_chain_on_binary_heap {σ : Type} (env : Env σ) (n : Nat) (s0 : σ) (hf : env.Future)
    (a t0 p : Nat) (hp : 1 ≤ p) (h0 : (⟨t0, a⟩ : Task) ∈ (env.global s0).2)
    (hre : ∀ now s, (⟨now + p, a⟩ : Task) ∈ (env.task a now s).2)
    (k : Nat) (hk : t0 + k * p < (W.runH stdHeap env n s0).ticks.length) :
    (⟨t0 + k * p, a⟩ : Task) ∈ ((W.runH stdHeap env n s0).ticks[t0 + k * p]).execd := by
  obtain ⟨_, _, _, _, idl, _⟩ := W.runH_spec stdHeap_spec env n s0 hf
  exact idl.chain a t0 p hp h0 hre k hk

/-- `C11_wasm_queue_partial` with the real heap inside -/
theorem C11_wasm_queue_partial_on_binary_heap {σ : Type} (env : Env σ) (n : Nat) (s0 : σ) (hf : env.Future) :
    (W.runH stdHeap env n s0).final.isSome ∧ (W.runH stdHeap env n s0).ticks.length = n ∧
    Ideal env 0 (env.global s0).2 (env.global s0).1 (W.runH stdHeap env n s0).ticks := by
  obtain ⟨st', e, l, _, idl, _⟩ := W.runH_spec stdHeap_spec env n s0 hf
  exact ⟨by simp [e], l, idl⟩

/-- `C11_wasm_mem_slot_consistent_partial` for `M.run stdHeap` — the model the driver runs against the real WASM
runtime: closure memory AND the literal `BinaryHeap` port, no hypothesis on the heap left. -/
theorem C11_wasm_mem_slot_consistent_on_binary_heap {σ : Type} (env : Env σ) (slot : Nat → Nat) (n : Nat) (s0 : σ)
    (hf : env.Future) (hc : env.SlotConsistent slot) :
    (M.run stdHeap env n s0).final.isSome ∧ (M.run stdHeap env n s0).ticks.length = n ∧
    Ideal env 0 (env.global s0).2 (env.global s0).1 (M.run stdHeap env n s0).ticks ∧
    ∀ (t : Nat) (ht : t < (M.run stdHeap env n s0).ticks.length),
      ((M.run stdHeap env n s0).ticks[t]).execd.Perm
        ((issuedBefore (M.run stdHeap env n s0).greqs (M.run stdHeap env n s0).ticks t).filter
          (fun x => decide (x.when = t))) := by
  obtain ⟨st', e, l, g, idl⟩ := M.run_spec stdHeap_spec hf hc n s0
  refine ⟨by simp [e], l, idl, ?_⟩
  intro t ht
  have := idl.onTime t ht
  simpa [issuedBefore, g] using this

/-- the F17 witness with the real heap inside: same wrong executions (no ties in that run) -/
theorem C11_wasm_closure_reuse_counterexample_on_binary_heap :
    (M.run stdHeap f17Env 6 ()).ticks.map (·.execd) = [[], [⟨1, 2⟩], [⟨2, 3⟩], [⟨3, 1⟩], [⟨4, 1⟩], []] ∧
    (W.runH stdHeap f17Env 6 ()).ticks.map (·.execd) = [[], [⟨1, 2⟩], [⟨2, 3⟩], [⟨3, 0⟩], [⟨4, 1⟩], []] ∧
    (Vm.runH stdHeap f17Env 6 ()).ticks.map (·.execd) = [[], [⟨1, 2⟩], [⟨2, 3⟩], [⟨3, 0⟩], [⟨4, 1⟩], []] := by
  decide +kernel

/-- non-vacuity of the `…_on_binary_heap` family: `counterEnv` (premises shown below) runs, one execution per sample -/
example : (Vm.runH stdHeap counterEnv 5 0).ticks.map (·.execd.length) = [0, 1, 1, 1, 1] := by decide +kernel
example : (W.runH stdHeap counterEnv 5 0).ticks.map (·.execd.length) = [0, 1, 1, 1, 1] := by decide +kernel
example : (M.run stdHeap counterEnv 5 0).ticks.map (·.execd.length) = [0, 1, 1, 1, 1] := by decide +kernel


/-! ## Closure records with upvalues (records larger than one cell): `R.run`

`R.run fmt` (`Model/SchedMem.lean`) is the WASM side with closure memory where a record is `[function word][captured
words…]` (`RecFmt`): records of one body are laid out back to back from the same base, the trampoline reads the function
word at the task's address (a captured word found there makes `call_indirect` trap: the task is DROPPED) and the callee
reads its captured words behind it. The driver runs `R.run tableFmt stdHeap` on generated programs whose closures
capture a float (`selK(t, v)`); `M.run` is the one-cell instance. -/

/-- with one-cell records `[id]` the model with record layout IS `M.run` -/
theorem C11_wasm_mem_records_one_cell_eq {σ H : Type} (ops : HeapOps H) (env : Env σ) (n : Nat) (s0 : σ) :
    R.run unitFmt ops env n s0 = M.run ops env n s0 :=
  R.run_unitFmt ops env n s0

/-- `C11_wasm_mem_slot_consistent_partial` for records of any sizes, over any heap meeting the specification: if the
`j`-th `@` of every body always names the same closure (same function AND same captured words, hence same record size
and address) and the layout is well formed (`RecFmt.Ok`: intact cells of closure `id` make the trampoline run `id`),
the run is ideal. -/
theorem C11_wasm_mem_records_slot_consistent_partial {σ H : Type} (ops : HeapOps H) (toList : H → List Task)
    (Inv : H → Prop) (hs : HeapSpecI ops toList Inv) (fmt : RecFmt) (ok : fmt.Ok) (env : Env σ) (slot : Nat → Nat)
    (n : Nat) (s0 : σ) (hf : env.Future) (hc : env.SlotConsistent slot) :
    (R.run fmt ops env n s0).final.isSome ∧ (R.run fmt ops env n s0).ticks.length = n ∧
    Ideal env 0 (env.global s0).2 (env.global s0).1 (R.run fmt ops env n s0).ticks ∧
    ∀ (t : Nat) (ht : t < (R.run fmt ops env n s0).ticks.length),
      ((R.run fmt ops env n s0).ticks[t]).execd.Perm
        ((issuedBefore (R.run fmt ops env n s0).greqs (R.run fmt ops env n s0).ticks t).filter
          (fun x => decide (x.when = t))) := by
  obtain ⟨st', e, l, g, idl⟩ := R.run_spec hs hf hc ok n s0
  refine ⟨by simp [e], l, idl, ?_⟩
  intro t ht
  have := idl.onTime t ht
  simpa [issuedBefore, g] using this

/-- … in particular with the literal `BinaryHeap` port inside -/
theorem C11_wasm_mem_records_slot_consistent_on_binary_heap {σ : Type} (fmt : RecFmt) (ok : fmt.Ok) (env : Env σ)
    (slot : Nat → Nat) (n : Nat) (s0 : σ) (hf : env.Future) (hc : env.SlotConsistent slot) :
    (R.run fmt stdHeap env n s0).final.isSome ∧ (R.run fmt stdHeap env n s0).ticks.length = n ∧
    Ideal env 0 (env.global s0).2 (env.global s0).1 (R.run fmt stdHeap env n s0).ticks :=
  let h := C11_wasm_mem_records_slot_consistent_partial stdHeap _ _ stdHeap_spec fmt ok env slot n s0 hf hc
  ⟨h.1, h.2.1, h.2.2.1⟩

/-- the layout the driver uses for generated programs (`tK`: one cell; closure of `selK(t, v)`: two cells) is well formed -/
theorem C11_table_record_format_ok : tableFmt.Ok := by
  constructor
  intro id rd h
  by_cases hid : id < lamBase
  · have h0 := h 0 (by simp [tableFmt, hid])
    simp only [tableFmt, hid, if_true, List.getElem_cons_zero] at h0
    simp only [tableFmt, h0]
    have : 1 ≤ 1 + id ∧ 1 + id ≤ lamBase := by unfold lamBase at hid ⊢; omega
    simp [this]
  · have h0 := h 0 (by simp [tableFmt, hid])
    have h1 := h 1 (by simp [tableFmt, hid])
    simp only [tableFmt, hid, if_false, List.getElem_cons_zero, List.getElem_cons_succ] at h0 h1
    simp only [tableFmt, h0, h1]
    unfold lamBase lamId at *
    have a1 : ¬ (1 ≤ 65536 + 1 + id % 65536 ∧ 65536 + 1 + id % 65536 ≤ 65536) := by omega
    have a2 : 65536 < 65536 + 1 + id % 65536 ∧ 65536 + 1 + id % 65536 ≤ 2 * 65536 := by omega
    simp only [a1, a2, if_false, if_true, and_self, Option.some.injEq]
    have : id / 65536 - 1 + 1 = id / 65536 := by omega
    rw [this]
    have := Nat.div_add_mod id 65536
    have e : 65536 + 1 + id % 65536 - 65536 - 1 = id % 65536 := by omega
    rw [e]
    rw [Nat.mul_comm]
    exact this

/-- **Negation on a concrete witness, records with an upvalue**: the task `t1@6` issued by `t3` is never executed —
by sample 6 its address holds the captured word of closure 10's record, the trampoline's `call_indirect` traps and the
scheduler goes on (a DROPPED task; with one-cell records F17 can only run a wrong function — which is what happens to
`t0@6` here: its address now holds closure 10's function word). The queue model with stable handles runs `t1` and `t0` at 6. Shape replayed on the real runtimes by every check run (`corpus/C11/upvalue_records.txt`). -/
theorem C11_wasm_record_upvalue_read_as_function_counterexample :
    (R.run recFmt stdHeap recEnv 8 ()).ticks.map (·.execd)
      = [[], [⟨1, 3⟩], [⟨2, 2⟩], [⟨3, 10⟩], [], [], [⟨6, 10⟩], []] ∧
    (W.runH stdHeap recEnv 8 ()).ticks.map (·.execd)
      = [[], [⟨1, 3⟩], [⟨2, 2⟩], [⟨3, 10⟩], [], [], [⟨6, 1⟩, ⟨6, 0⟩], []] ∧
    ((R.run recFmt stdHeap recEnv 8 ()).ticks.flatMap (·.execd)).count ⟨6, 1⟩ = 0 ∧
    ((R.run recFmt stdHeap recEnv 8 ()).greqs ++ (R.run recFmt stdHeap recEnv 8 ()).ticks.flatMap (·.reqs)).count ⟨6, 1⟩ = 1 := by
  decide +kernel

/-- non-vacuity: `recFmt` is well formed on the closures `recEnv` uses … and `counterEnv` is slot consistent (above), so
the positive theorem applies to it with two-cell records as well -/
example : ∀ id, id = 10 ∨ id < 99 → ∀ rd : Nat → Nat,
    (∀ (k : Nat) (hk : k < (recFmt.cells id).length), rd k = (recFmt.cells id)[k]) → recFmt.decode rd = some id := by
  intro id hid rd h
  by_cases e : id = 10
  · subst e
    have := h 0 (by simp [recFmt])
    simp [recFmt] at this ⊢
    simp [this]
  · have := h 0 (by simp [recFmt, e])
    simp [recFmt, e] at this ⊢
    have h2 : ¬ (1 + id = 100) := by omega
    have h3 : 1 + id < 100 := by omega
    simp [this, h2, h3]
example : (R.run ⟨fun id => [id, 7], fun rd => some (rd 0)⟩ stdHeap counterEnv 5 0).ticks.map (·.execd.length)
    = [0, 1, 1, 1, 1] := by decide +kernel


/-! ## Non-vacuity -/

/-- `counterEnv` (one self-rescheduling closure, like the fixtures) is slot consistent; `f17Env` is not (slot 0 gets
function 0 from `t2` and function 1 from `t3`). -/
example : counterEnv.SlotConsistent (fun _ => 0) :=
  ⟨by intro id now s j hj; simp [counterEnv] at hj ⊢, by intro now s j hj; simp [counterEnv] at hj⟩
example : ¬ ∃ slot, f17Env.SlotConsistent slot := by
  rintro ⟨slot, h⟩
  have h2 := h.task 2 0 () 0 (by simp [f17Env])
  have h3 := h.task 3 0 () 0 (by simp [f17Env])
  simp [f17Env] at h2 h3
  omega


/-- `counterEnv` = `scheduler_global_recursion.mmm`: premise holds, the chain theorem applies. -/
example : counterEnv.Future :=
  ⟨by intro s x hx; simp [counterEnv] at hx; subst hx; simp,
   by intro id now s x hx; simp [counterEnv] at hx; subst hx; simp,
   by intro now s x hx; simp [counterEnv] at hx⟩

example : (Vm.run counterEnv (fun _ => 0) 5 0).ticks.map (·.execd.length) = [0, 1, 1, 1, 1] := by decide +kernel
example : (W.run counterEnv (fun _ => 0) 5 0).ticks.map (·.execd.length) = [0, 1, 1, 1, 1] := by decide +kernel
/-- the premise matters: a request for the running sample reaches the panic branch on both sides (VM one sample later). -/
example : (Vm.run { counterEnv with task := fun _ now s => (s, [⟨now, 0⟩]) } (fun _ => 0) 5 0).final.isNone
    ∧ (Vm.run { counterEnv with task := fun _ now s => (s, [⟨now, 0⟩]) } (fun _ => 0) 5 0).ticks.length = 2
    ∧ (W.run { counterEnv with task := fun _ now s => (s, [⟨now, 0⟩]) } (fun _ => 0) 5 0).ticks.length = 1 := by
  decide +kernel

end Mimium.Sched
