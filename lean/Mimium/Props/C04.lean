import Mimium.Props.C13
import Mimium.Proofs.ParserLoops
import Mimium.Gen.ParserLoops
import Mimium.Proofs.Occurs
import Mimium.Proofs.OccursSeq
import Mimium.Proofs.TypeRecDetect
import Mimium.Gen.TypingFacts
import Mimium.Gen.ParentWriters
import Mimium.Proofs.LowerFront
import Mimium.Proofs.UnifyTermTop
import Mimium.Proofs.UnifyFuel
/-!
# C04 — front end and compile entry points are total on arbitrary text

Built on the C13 models (`Model/Lexer.lean`, `Model/Preparse.lean`, `Model/CstBuilder.lean`) plus `Model/ParserLoops.lean`.

PROVED here (all inputs, no bounds; axioms ⊆ {propext, Classical.choice, Quot.sound}):
* `C04_tokenizer_total` — for every text, every character classification and every token table with the decidable side
  condition `TablesOk` (re-decided on the tables re-extracted from `/repo`), the tokenizer loop needs at most one iteration
  per remaining character (any fuel ≥ length gives the same, complete token list) and every token span lies inside the
  text (`start ≤ stop ≤ len`) on character boundaries.
* `C04_bump_strictly_increases`, `C04_primitives_never_decrease_cursor` — `bump` is `+1`; no sequence of builder/parser
  primitives moves the cursor backwards, a sequence containing a `bump` moves it forwards.
* `C04_guarded_loop_terminates` — the loop of `Parser::parse`, `parse_module_decl`, `parse_block_expr`, `parse_match_expr`
  (`while guard && !at_end { before := cur; stmt; if cur == before && !at_end { bump }; post }`) with ANY statement parser and
  ANY trailer runs at most `len - cur` iterations (`len - cur + 1` evaluations of the condition) and is left by its own condition.
* `C04_consuming_loop_terminates`, `C04_separator_loop_terminates` — comma / `::` / `|` loops, the Pratt loops, the postfix
  loop and the parameter loops: every completed iteration consumes a token, so again ≤ `len - cur` iterations.
* `C04_lookahead_scan_terminates` — the look-ahead scans (`find_macro_expand_after_path`, `is_tuple_expr`) stop within
  `len - cur` steps without moving the cursor.
* `C04_loop_result_independent_of_fuel` — the fuel of the model is not observable.
* THE REAL GRAMMAR (`Model/CstGrammar.lean`: literal port of every grammar function and loop of `cst_parser.rs`, tied by exact
  comparison of tree + error list with the real `parse_cst`, bodies pinned by hash — `C13_grammar_functions_pinned`):
  `C04_grammar_recursion_terminates` — for EVERY grammar function `t`, EVERY parser state `s` and token list, a call of `t`
  nests at most `need t s = rankBound·(tokens left) + rank t (peek s) ≤ 22·(tokens left) + 21` calls: with that much fuel the run
  is complete and every larger fuel gives the same state (mutual recursion of the real grammar, not just the loop shapes; the
  measure is checked against all 73 bodies by a verified static analysis, `C04_grammar_analysis_accepts_every_body`);
  `C04_parser_terminates`, `C04_parser_fuel_irrelevant` — `Parser::parse` on ANY token list returns the same complete result for
  every fuel ≥ `fuelBound n = 22·(n+1)+1` (n syntax tokens); `C04_parser_error_indices_in_range` — every error it records carries
  `token_index = 0` or the raw index of a syntax token (`< tokens.len()`), which is what `C04_error_spans_inside` is fed.
* `C04_named_loops_are_guarded` — in the loop list re-extracted from `cst_parser.rs` on every run, the four functions the
  statement names carry a loop of the guarded shape (and `tools/extract.py` refuses any loop outside the proven shapes).
* `C04_error_spans_inside` — the span `parser_errors_to_reportable` gives to a parser error (`tokens[token_index]`, else the
  last token, else `0..0`) satisfies `start ≤ end ≤ len` on character boundaries, for EVERY `token_index`.
* Three pieces of the type checker, ported literally in `Model/Occurs.lean`, on which the statement FAILS for the pinned tree
  (each refuted on its concrete witness, with the part that does hold kept as a `…_partial` theorem; the witnesses are
  replayed on the real code by every check run, findings T11, T13, T19 of `known_findings.jsonl`):
  `C04_occur_check_total_partial` (on every store without parent cycles `occur_check` returns) vs
  `C04_occur_check_counterexample` (the `&&` in the function-type arm lets `a := (a) -> b` through, the store becomes cyclic,
  and then `occur_check` never returns — the real type checker overflows its stack in `occur_check` on `fn f(x){ x(x) }`);
  `C04_tuple_projection_partial` / `_counterexample` (`t.2` on a pair reaches `vec[2]`: the range check is off by one);
  `C04_stage_counter_partial` / `_counterexample` (255 nested quotes overflow the `u8` stage counter).
  The occurs-check model is tied to `typing/unification.rs` by correspondence: `drv_c04 occurs 2` renders every type `t` of
  depth ≤ 2 over `?0`, `?1` as a program that makes the real checker unify `?0` with `t`; the model (with the quirk) predicts
  `Circular …` diagnostic vs binding, the harness observes it (and that every cyclic binding let through ends in a stack overflow).

* The REPAIRED occurs check (`cls(arg) || cls(ret)`, /repo fa2b0e3; `Model/OccursSeq.lean`, `Proofs/Occurs{Sound,Bound,Seq}.lean`):
  `C04_occur_check_sound` (on every store, an answer `false`/`true` of the `||` form means `v` is unreachable/reachable from `t`
  through `vars` and parent pointers), `C04_bind_preserves_acyclic` / `C04_bindVar_preserves_acyclic` (a binding that passed the
  check never creates a cycle: ranking argument), `C04_occur_check_fuel_bound` (explicit bound: ≤ `size t + total σ` nested
  calls on an acyclic store; `get_root` ≤ one per entry), and over ALL histories `C04_occurs_check_terminates`: for every list
  of requests — calls of `unify_types` / `unify_types_args` on arbitrary types (bound variables are replaced by their roots, as
  `get_root` does; variable-variable links included) and `extend_record_with_field`, i.e. all 13 statements of /repo that assign
  a `parent` (`C04_parent_writers_pinned`, re-counted from the source by the translator) — processed from the empty store, no
  `get_root`/`occur_check` runs out of fuel `fuelBound reqs = (n+1)(m+2n)+1`, and every intermediate store is acyclic;
  `C04_run_independent_of_fuel`; `C04_occur_check_total_on_reachable_stores` (the statement that
  `C04_occur_check_counterexample` refutes for `&&` holds for `||`).
* `Model/TypeRec.lean`: `C04_substitute_type_terminates` (returns within `size t + total σ` calls on acyclic stores, hence on all
  stores built with `||`), `C04_substitute_type_diverges_on_cycle`, `C04_substitute_type_counterexample` (cause of finding T05:
  `fn{a` = `fn a(){ a }` binds `?0 := () -> ?0` under `&&`; closed by fa2b0e3); `C04_resolve_type_alias_total_partial`
  (returns within `t.size + atotal env` calls if the alias graph THROUGH the name fallback is acyclic),
  `C04_resolve_type_alias_counterexample` (finding T21, open: `type alias A = A` is flagged by the cycle detector but stays
  registered; `mod m { type alias A = A }` is not even flagged, the detector ignores the fallback; any use of `A` diverges),
  `C04_alias_detector_complete` (the detector terminates and is complete for the graph it looks at: dropping the flagged
  aliases would make `resolve_type_alias` total when names are looked up as written).
  These two models are hand ports tied to the code only by their witnesses (replayed by every check run: `corpus/C04/seeds.txt`).

* LOWERING (`Model/Lower.lean`, port of `lower.rs` tied by the exact AST + span correspondence of C16): `C04_lower_total` — the port
  is ONE structural recursion over the green tree (`attr`: every attribute function of `lower.rs` is evaluated once per node:
  `(attr t).size = t.size`), so it is total by construction and needs no fuel; `C04_front_end_total` — text → tokens → CST → AST
  returns for every text with the parser's fuel bound (`oof = false`); `C04_lower_spans_in_range` — every span the lowering can
  attach (a term over the token leaves) evaluates to offsets inside the text, both ends on token (hence character) boundaries.

NOT proved (decided by the correspondence run of `tools/props/c04.py`): that the request sequences of `Model/OccursSeq.lean`
are all the type checker does to the store beyond the pinned inventory of `parent` writers (the structural arms of
`unify_types` are read off the source, not modelled); that the Rust grammar functions terminate as a whole
(mutual recursion between the grammar functions is not modelled; each loop is proved to terminate GIVEN that the calls in its
body return), absence of panics (the Rust `lower.rs` indexes only behind `get`/`len` checks; its panics are exercised, not modelled), type inference, MIR generation and both back ends.  Those are exercised under
`catch_unwind` + wall clock + bounded stack in child processes on exhaustive token sequences and mutated corpus texts.
-/
namespace Mimium.Props.C04
open Mimium.Gen (Kind)
open Mimium.Lexer Mimium.Cst Mimium.Loops

/-! ## Tokenizer -/

/-- Tokenizing terminates on every text (the loop consumes ≥ 1 character per iteration, so `length` iterations suffice and
any larger fuel gives the same list, which covers the whole input), and every token span lies inside the text on character
boundaries. -/
theorem C04_tokenizer_total (C : Classes) (T : Tables) (ok : TablesOk T = true) (s : List Char) :
    (∀ fuel, s.length ≤ fuel → lexLoop C T fuel s = lex C T s) ∧
    (lex C T s).flatMap (·.text) = s ∧
    ∀ t ∈ tokenize C T s, t.start ≤ t.stop ∧ t.stop ≤ utf8Len s ∧ IsBoundary s t.start ∧ IsBoundary s t.stop := by
  refine ⟨fun fuel h => (C13.C13_loop_total C T ok s fuel h).1, (C13.C13_loop_total C T ok s s.length (Nat.le_refl _)).2, ?_⟩
  intro t ht
  have ⟨b1, b2⟩ := C13.C13_tokens_on_char_boundaries C T ok s t ht
  exact ⟨by simp [Token.stop], b2.le_len, b1, b2⟩

/-! ## Parser cursor and loops -/

/-- `bump` strictly increases the cursor (by exactly one), whatever the token under it. -/
theorem C04_bump_strictly_increases (E : Env) (st : PState) :
    (exec E st .bump).current = st.current + 1 ∧ st.current < (exec E st .bump).current := by
  rw [exec_bump_current]; exact ⟨rfl, Nat.lt_succ_self _⟩

/-- No sequence of builder/parser primitives moves the cursor backwards; it advances by the number of `bump`s. -/
theorem C04_primitives_never_decrease_cursor (E : Env) (st : PState) (ops : List Op) :
    (run E st ops).current = st.current + ops.count .bump ∧ st.current ≤ (run E st ops).current ∧
    (Op.bump ∈ ops → st.current < (run E st ops).current) :=
  ⟨run_current E ops st, run_current_le E ops st, run_current_lt_of_bump E ops st⟩

/-- The guarded loop (`Parser::parse`, `parse_module_decl`, `parse_block_expr`, `parse_match_expr`): for ANY extra guard, ANY
statement parser and ANY trailer (arbitrary functions from the parser state to sequences of primitives), started at cursor
`cur` with `len` syntax tokens, the loop completes at most `len - cur` iterations — i.e. its condition is evaluated at most
`len - cur + 1` times — and it is left because its own condition became false (not because the model ran out of fuel). -/
theorem C04_guarded_loop_terminates (E : Env) (guard : PState → Bool) (stmt post : PState → List Op) (st : PState)
    (fuel : Nat) (hf : len E - st.current + 1 ≤ fuel) :
    ∃ r n, iterate (guardedBody E guard stmt post) fuel st = some (r, n) ∧
      n ≤ len E - st.current ∧ n + 1 ≤ len E - st.current + 1 ∧
      (guard r && !atEnd E r) = false ∧ st.current ≤ r.current := by
  have ⟨r, n, e, hn, s0, hx⟩ := iterate_total PState.current (len E) _ (guardedBody_progress E guard stmt post) fuel st (by omega)
  refine ⟨r, n, e, hn, by omega, ?_, ?_⟩
  · have ⟨e1, e2⟩ := guardedBody_exit E guard stmt post s0 r hx
    rw [e1]; exact e2
  · refine iterate_pos_le PState.current _ ?_ fuel st r n e
    intro s s' h
    rcases h with h | h
    · exact Nat.le_of_lt (guardedBody_progress E guard stmt post s s' h).2
    · rw [(guardedBody_exit E guard stmt post s s' h).1]; exact Nat.le_refl _

/-- Every loop whose completed iterations are entered with a token under the cursor and issue at least one `bump`
(separator loops, Pratt loops, the postfix loop, the parameter loops) completes at most `len - cur` iterations. -/
theorem C04_consuming_loop_terminates (E : Env) (arm : PState → Option (List Op × Bool)) (hc : Consumes E arm)
    (st : PState) (fuel : Nat) (hf : len E - st.current + 1 ≤ fuel) :
    ∃ r n, iterate (consumingBody E arm) fuel st = some (r, n) ∧ n ≤ len E - st.current :=
  have ⟨r, n, e, hn, _⟩ := iterate_total PState.current (len E) _ (consumingBody_progress E arm hc) fuel st (by omega)
  ⟨r, n, e, hn⟩

/-- Separator loops `while check(sep) { bump(); rest }` (comma, `::`, `|`): one token per iteration, for ANY separator
predicate and ANY rest of the body (which may also `break`). -/
theorem C04_separator_loop_terminates (E : Env) (isSep : PState → Bool) (rest : PState → List Op × Bool)
    (st : PState) (fuel : Nat) (hf : len E - st.current + 1 ≤ fuel) :
    ∃ r n, iterate (consumingBody E (separatorArm E isSep rest)) fuel st = some (r, n) ∧ n ≤ len E - st.current :=
  C04_consuming_loop_terminates E _ (separatorArm_consumes E isSep rest) st fuel hf

/-- Look-ahead scans: the cursor stays, the offset grows, and the scan stops at the latest when `peek_ahead` runs off the
token list — at most `len - cur` steps from offset 0. -/
theorem C04_lookahead_scan_terminates (E : Env) (st : PState) (cont : Nat → Option Nat) (off fuel : Nat)
    (hf : len E - (st.current + off) + 1 ≤ fuel) :
    ∃ r n, iterate (scanBody E st cont) fuel off = some (r, n) ∧ n ≤ len E - (st.current + off) :=
  have ⟨r, n, e, hn, _⟩ := iterate_total (fun o => st.current + o) (len E) _ (scanBody_progress E st cont) fuel off (by omega)
  ⟨r, n, e, hn⟩

/-- The fuel parameter of the loop model is not observable: once a loop has been left, more fuel gives the same result. -/
theorem C04_loop_result_independent_of_fuel {σ : Type} (body : σ → Step σ) (fuel k : Nat) (s : σ) (x : σ × Nat)
    (h : iterate body fuel s = some x) : iterate body (fuel + k) s = some x :=
  iterate_fuel_mono body fuel s x h k

/-- The translator's loop list (regenerated from `cst_parser.rs` on every run) contains a guarded loop in each of the four
functions named by the statement. -/
theorem C04_named_loops_are_guarded :
    ∀ f ∈ ["parse", "parse_block_expr", "parse_module_decl", "parse_match_expr"],
      ∃ l ∈ Mimium.Gen.parserLoops, l.fn = f ∧ l.shape = .guarded := by decide

/-! ## Span of a parser error -/

/-- `parser_errors_to_reportable`: for EVERY `token_index` (in range or not) the span lies within `[0, len]`, is ordered,
and both ends are character boundaries of the text. -/
theorem C04_error_spans_inside (C : Classes) (T : Tables) (ok : TablesOk T = true) (s : List Char) (tokenIndex : Nat) :
    (errorSpan (tokenize C T s) tokenIndex).1 ≤ (errorSpan (tokenize C T s) tokenIndex).2 ∧
    (errorSpan (tokenize C T s) tokenIndex).2 ≤ utf8Len s ∧
    IsBoundary s (errorSpan (tokenize C T s) tokenIndex).1 ∧ IsBoundary s (errorSpan (tokenize C T s) tokenIndex).2 := by
  have key : ∀ t ∈ tokenize C T s, t.start ≤ t.stop ∧ t.stop ≤ utf8Len s ∧ IsBoundary s t.start ∧ IsBoundary s t.stop :=
    (C04_tokenizer_total C T ok s).2.2
  unfold errorSpan
  split
  · rename_i t ht
    exact key t (List.mem_of_getElem? ht)
  · split
    · rename_i t ht
      exact key t (List.mem_of_getLast? ht)
    · exact ⟨Nat.le_refl _, Nat.zero_le _, ⟨[], List.nil_prefix, rfl⟩, ⟨[], List.nil_prefix, rfl⟩⟩

/-! ## Where the statement failed on the pinned tree: three pieces of the type checker (findings T11 and T13: repaired in /repo
fa2b0e3 and 29dd9f5, the theorems about the old forms are kept next to the ones about the repaired forms; T19: open) -/

open Mimium.Occurs in
/-- PARTIAL (what holds): on every store whose parent pointers have no cycle, `occur_check` returns — for each variable and
type there is a fuel bound above which the model answers, with or without the `&&` quirk. -/
theorem C04_occur_check_total_partial (σ : Store) (h : Acyclic σ) (andQuirk : Bool) (id1 : Nat) (t : Ty) :
    ∃ F b, ∀ fuel, F ≤ fuel → occ σ andQuirk id1 fuel t = some b :=
  answers_of_acyclic σ andQuirk id1 h t

open Mimium.Occurs in
/-- NEGATION on the concrete witness `fn f(x){ x(x) }` (x : ?0, result : ?1, so `?0` is unified with `(?0) -> ?1`):
the occurs check as written (`cls(arg) && cls(ret)`) answers `false`, the binding step installs `?0 := (?0) -> ?1`, the store
is cyclic, and from then on the occurs check of any other variable against `?0` does not return for ANY amount of fuel
(the real code recurses until the stack overflows: finding T11).  With `||` the binding is refused (`CircularType`).
Hence "type checking terminates on every text" is false for the pinned tree. -/
theorem C04_occur_check_counterexample :
    bindVar [] true 8 0 (.fn (.var 0) (.var 1)) = some (some cyclicStore) ∧
    bindVar [] false 8 0 (.fn (.var 0) (.var 1)) = some none ∧
    ¬ Acyclic cyclicStore ∧
    (∀ fuel, occ cyclicStore true 2 fuel (.var 0) = none) ∧
    ¬ (∀ (σ : Store) (id1 : Nat) (t : Ty), ∃ F b, ∀ fuel, F ≤ fuel → occ σ true id1 fuel t = some b) := by
  refine ⟨by decide, by decide, ?_, fun fuel => (occ_diverges 2 (by decide) fuel).1, ?_⟩
  · rintro ⟨rk, hrk⟩
    have := hrk 0 (.fn (.var 0) (.var 1)) (by decide) 0 (by decide)
    exact Nat.lt_irrefl _ this
  · intro h
    obtain ⟨F, b, hF⟩ := h cyclicStore 2 (.var 0)
    have := hF F (Nat.le_refl _)
    rw [(occ_diverges 2 (by decide) F).1] at this
    cases this

/-! ## The repaired (`||`) occurs check: sound, keeps the store acyclic, and therefore never diverges on a store the checker
built itself — for ALL sequences of requests (`Model/OccursSeq.lean`: every place of /repo that writes a `parent` pointer) -/

open Mimium.Occurs in
/-- the `||` occurs check decides reachability, on EVERY store (cyclic or not), whenever it returns: `false` ⇒ `v` cannot be
reached from `t` through `vars` and parent pointers, `true` ⇒ it can. (For the `&&` form the first half is false:
`C04_occur_check_counterexample`.) -/
theorem C04_occur_check_sound (σ : Store) (v fuel : Nat) (t : Ty) :
    (occ σ false v fuel t = some false → ¬ Reach σ v t) ∧ (occ σ false v fuel t = some true → Reach σ v t) :=
  ⟨occ_sound_reach σ v fuel t, occ_complete σ v fuel t⟩

open Mimium.Occurs in
/-- a binding that passed the `||` occurs check never creates a cycle. (The statement asked for also assumes
`parent σ v = none`, which `get_root` guarantees in `unify_types`; it is not needed: an older binding of `v` is shadowed.) -/
theorem C04_bind_preserves_acyclic (σ : Store) (v fuel : Nat) (t : Ty) (h : Acyclic σ)
    (hocc : occ σ false v fuel t = some false) : Acyclic ((v, t) :: σ) :=
  acyclic_cons σ v t h (occ_sound σ v fuel t hocc)

open Mimium.Occurs in
/-- the same for the binding step as a whole: whatever `bindVar · false` answers on an acyclic store, the store it leaves is acyclic -/
theorem C04_bindVar_preserves_acyclic (σ σ' : Store) (v fuel : Nat) (t : Ty) (h : Acyclic σ)
    (hb : bindVar σ false fuel v t = some (some σ')) : Acyclic σ' := by
  unfold bindVar at hb
  cases ho : occ σ false v fuel t with
  | none => simp [ho] at hb
  | some b =>
    cases b with
    | true => simp [ho] at hb
    | false =>
      simp only [ho, Option.some.injEq] at hb
      subst hb
      exact C04_bind_preserves_acyclic σ v fuel t h ho

open Mimium.Occurs in
/-- EXPLICIT fuel bound (strengthens `C04_occur_check_total_partial`): on an acyclic store `occur_check(id1, t)` nests at most
`size t + total σ` calls (constructors of `t` plus constructors of all parents), with either operator; `get_root` follows at
most one pointer per entry. -/
theorem C04_occur_check_fuel_bound (σ : Store) (h : Acyclic σ) (andQuirk : Bool) (id1 : Nat) (t : Ty) (fuel : Nat) :
    (size t + total σ ≤ fuel → ∃ b, occ σ andQuirk id1 fuel t = some b) ∧
    (σ.length + 1 ≤ fuel → ∃ r, root σ fuel t = some r) :=
  ⟨occ_total_bound σ h andQuirk id1 t fuel, root_total_bound σ h t fuel⟩

open Mimium.Occurs in
/-- TERMINATION over all histories. For EVERY list of requests (calls of `unify_types` / `unify_types_args` with arbitrary
types — an already-bound variable is replaced by its root first, as `get_root` does — and `extend_record_with_field`),
processed from the empty store with the `||` occurs check and any fuel ≥ `fuelBound reqs`
(`= (n + 1) * (m + 2 n) + 1` for `n` requests over types of ≤ `m` constructors):
no `get_root` and no `occur_check` runs out of fuel (the run returns the list of all intermediate stores), and every
intermediate store is acyclic, has at most `n` entries of at most `m + 2 n` constructors, so that every further
`occur_check(id1, t)` on it returns within `size t + total σ ≤ size t + n * (m + 2 n)` nested calls. -/
theorem C04_occurs_check_terminates (reqs : List Req) (fuel : Nat) (hf : fuelBound reqs ≤ fuel) :
    ∃ trace, run fuel [] reqs = some trace ∧ trace.length = reqs.length ∧
      ∀ σ ∈ trace, Acyclic σ ∧ σ.length ≤ reqs.length ∧ total σ ≤ reqs.length * (maxReq reqs + 2 * reqs.length) ∧
        ∀ (id1 : Nat) (t : Ty) (f : Nat), size t + total σ ≤ f → ∃ b, occ σ false id1 f t = some b := by
  obtain ⟨tr, hrun, hlen, hall⟩ := run_total reqs fuel hf
  refine ⟨tr, hrun, hlen, fun σ hσ => ?_⟩
  have hinv := hall σ hσ
  exact ⟨hinv.1, hinv.2.1, hinv.total_le, fun id1 t f hfl => occ_total_bound σ hinv.1 false id1 t f hfl⟩

open Mimium.Occurs in
/-- the fuel of the model is not observable: every fuel ≥ `fuelBound reqs` gives the same list of stores -/
theorem C04_run_independent_of_fuel (reqs : List Req) (fuel : Nat) (hf : fuelBound reqs ≤ fuel) :
    run fuel [] reqs = run (fuelBound reqs) [] reqs := by
  obtain ⟨tr, hrun, _⟩ := run_total reqs (fuelBound reqs) (Nat.le_refl _)
  rw [hrun]
  exact run_fuel_le _ _ hf reqs [] tr hrun

open Mimium.Occurs in
/-- CONCLUSION (the statement that `C04_occur_check_counterexample` refutes for the `&&` form): on every store the checker
can build with the `||` form, `occur_check` answers for every variable and every type. -/
theorem C04_occur_check_total_on_reachable_stores (reqs : List Req) (fuel : Nat) (trace : List Store)
    (h : run fuel [] reqs = some trace) (σ : Store) (hσ : σ ∈ trace) (id1 : Nat) (t : Ty) :
    ∃ F b, ∀ f, F ≤ f → occ σ false id1 f t = some b := by
  have hmax : run (max fuel (fuelBound reqs)) [] reqs = some trace := run_fuel_le _ _ (Nat.le_max_left _ _) reqs [] trace h
  obtain ⟨tr, hrun, _, hall⟩ := C04_occurs_check_terminates reqs (max fuel (fuelBound reqs)) (Nat.le_max_right _ _)
  rw [hmax] at hrun
  cases hrun
  exact answers_of_acyclic σ false id1 (hall σ hσ).1 t

open Mimium.Occurs in
/-- non-vacuity of `C04_bind_preserves_acyclic` / `C04_occur_check_sound`: `?1 := [?0]` on the store `?0 := (?2) -> number`
passes the check and is bound; `?2 := (?1, number)` is then refused (`?2` is reachable: `?1 → ?0 → ?2`). -/
example : bindVar [(0, .fn (.var 2) .other)] false 9 1 (.unary (.var 0)) = some (some [(1, .unary (.var 0)), (0, .fn (.var 2) .other)]) ∧
    bindVar [(1, .unary (.var 0)), (0, .fn (.var 2) .other)] false 9 2 (.anyOf (.var 1) .other) = some none := by decide

open Mimium.Occurs in
/-- non-vacuity of the `Acyclic` hypotheses: the two-entry store of the example above is acyclic — by the theorem itself,
applied twice from the empty store -/
example : Acyclic [(1, .unary (.var 0)), (0, .fn (.var 2) .other)] :=
  C04_bind_preserves_acyclic _ 1 9 _ (C04_bind_preserves_acyclic [] 0 9 (.fn (.var 2) .other) acyclic_nil (by decide)) (by decide)

open Mimium.Occurs in
/-- non-vacuity of `C04_occurs_check_terminates`: six requests (a binding, a refused circular binding through an already-bound
variable, a variable-variable link, a request on two variables with the same root, a record extension, a binding of the
extension's variable); `fuelBound = 106`; the run with fuel 3 runs out, fuel 4 already gives the final answer. -/
example :
    let reqs : List Req := [.unify (.var 0) (.fn (.var 1) .other), .unify (.anyOf (.var 0) .other) (.var 1),
      .unify (.var 2) (.var 1), .unify (.var 1) (.var 0), .extend 0 3, .unify (.var 3) (.unary (.var 2))]
    fuelBound reqs = 106 ∧ run 3 [] reqs = none ∧ run 4 [] reqs = run 106 [] reqs ∧
    (run 106 [] reqs).map (fun tr => tr.map List.length) = some [1, 1, 2, 2, 3, 4] ∧
    (run 106 [] reqs).bind List.getLast? = some [(3, .unary (.var 2)), (0, .anyOf (.fn (.var 1) .other) (.var 3)),
      (1, .var 2), (0, .fn (.var 1) .other)] := by decide +kernel

/-! ## Two more unbounded recursions of the type checker (`Model/TypeRec.lean`): `substitute_type` (finding T05, closed by
/repo fa2b0e3) and `resolve_type_alias` (finding T21, open) -/

open Mimium.Occurs Mimium.TypeRec in
/-- `InferContext::substitute_type` (follows every parent pointer, no cycle check) returns on every acyclic store within
`size t + total σ` nested calls — in particular on every store the checker builds with the `||` occurs check, for ALL
request sequences. -/
theorem C04_substitute_type_terminates :
    (∀ (σ : Store), Acyclic σ → ∀ (t : Ty) (fuel : Nat), size t + total σ ≤ fuel → ∃ r, subst σ fuel t = some r) ∧
    (∀ (reqs : List Req) (fuel : Nat) (trace : List Store), run fuel [] reqs = some trace → ∀ σ ∈ trace,
      ∀ (t : Ty) (f : Nat), size t + total σ ≤ f → ∃ r, subst σ f t = some r) := by
  refine ⟨fun σ h t fuel hf => subst_total_bound σ h t fuel hf, ?_⟩
  intro reqs fuel trace h σ hσ t f hf
  have hmax : run (max fuel (fuelBound reqs)) [] reqs = some trace := run_fuel_le _ _ (Nat.le_max_left _ _) reqs [] trace h
  obtain ⟨tr, hrun, _, hall⟩ := C04_occurs_check_terminates reqs (max fuel (fuelBound reqs)) (Nat.le_max_right _ _)
  rw [hmax] at hrun
  cases hrun
  exact subst_total_bound σ (hall σ hσ).1 t f hf

open Mimium.Occurs Mimium.TypeRec in
/-- conversely `substitute_type(t)` never returns when a variable that lies on a cycle can be reached from `t` -/
theorem C04_substitute_type_diverges_on_cycle (σ : Store) (t p : Ty) (v : Nat) (hreach : Reach σ v t)
    (hp : parent σ v = some p) (hcyc : Reach σ v p) : ∀ fuel, subst σ fuel t = none := by
  intro fuel
  obtain ⟨w, hw, hr⟩ := hreach
  refine subst_none_of_cycle σ fuel t w v hw hr ?_ (by simp [hp])
  intro p' hp'
  rw [hp] at hp'
  cases hp'
  exact hcyc

open Mimium.Occurs Mimium.TypeRec in
/-- the CAUSE of finding T05 (`fn{a`, recovered by the parser as the well-formed `fn a(){ a }`; both overflow the stack on
/repo 1281f69 and neither does from fa2b0e3 on): `letrec a = || a` asks for `?0 := () -> ?0`; the `&&` occurs check
answers `cls(()) && cls(?0) = false`, the binding is made, and `substitute_type(?0)` then returns for NO fuel; with `||`
the binding is refused. -/
theorem C04_substitute_type_counterexample :
    bindVar [] true 8 0 (.fn .other (.var 0)) = some (some [(0, .fn .other (.var 0))]) ∧
    bindVar [] false 8 0 (.fn .other (.var 0)) = some none ∧
    (∀ fuel, subst [(0, .fn .other (.var 0))] fuel (.var 0) = none) ∧
    ¬ (∀ (σ : Store) (t : Ty), ∃ F r, ∀ fuel, F ≤ fuel → subst σ fuel t = some r) := by
  have hdiv : ∀ fuel, subst [(0, .fn .other (.var 0))] fuel (.var 0) = none :=
    C04_substitute_type_diverges_on_cycle [(0, .fn .other (.var 0))] (.var 0) (.fn .other (.var 0)) 0
      ⟨0, by simp [vars], .refl 0⟩ (by simp [parent]) ⟨0, by simp [vars], .refl 0⟩
  refine ⟨by decide, by decide, hdiv, ?_⟩
  intro h
  obtain ⟨F, r, hF⟩ := h [(0, .fn .other (.var 0))] (.var 0)
  have := hF F (Nat.le_refl _)
  rw [hdiv F] at this
  cases this

open Mimium.TypeRec in
/-- PARTIAL (what holds of `resolve_type_alias`; the full statement `∀ fb env t, ∃ F r, ∀ fuel ≥ F, resolve fb env fuel t =
some r` is refuted below): if the alias graph — an alias points to the keys under which the names of its target are looked
up, i.e. AFTER `resolve_type_alias_symbol_fallback` — has no cycle, `resolve_type_alias(t)` returns within
`t.size + atotal env` nested calls. -/
theorem C04_resolve_type_alias_total_partial (fb : Nat → Nat) (env : AEnv) (h : AcyclicA fb env) (t : ATy) (fuel : Nat)
    (hf : t.size + atotal env ≤ fuel) : ∃ r, resolve fb env fuel t = some r :=
  resolve_total_bound fb env h t fuel hf

open Mimium.TypeRec in
/-- NEGATION on two witnesses (finding T21; `type alias=Gain fn(f:Gain{` is recovered as `type alias Gain = Gain` plus a use
of `Gain`). (1) `type alias A = A`: the detector of `register_type_aliases` FLAGS the alias (diagnostic `Recursive type
alias 'A'`) but leaves it registered, and `resolve_type_alias` of any use of `A` returns for no fuel (`fn dsp(x:A){x}` overflows
the stack). (2) `mod m { type alias A = A }`: the key is `m$A` (10), the target names `A` (0) and the fallback maps `A` to the
only key ending in `$A`; the detector, which looks names up WITHOUT the fallback, flags nothing — no diagnostic at all — and
`resolve_type_alias` diverges all the same. -/
theorem C04_resolve_type_alias_counterexample :
    flagged [(0, .alias 0)] 2 = [0] ∧ (∀ fuel, resolve id [(0, .alias 0)] fuel (.alias 0) = none) ∧
    (∀ F, flagged [(10, .alias 0)] (F + 2) = []) ∧
    (∀ fuel, resolve (fun n => if n = 0 then 10 else n) [(10, .alias 0)] fuel (.alias 0) = none) ∧
    ¬ (∀ (fb : Nat → Nat) (env : AEnv) (t : ATy), ∃ F r, ∀ fuel, F ≤ fuel → resolve fb env fuel t = some r) := by
  refine ⟨by decide, resolve_diverges_self, ?_, resolve_diverges_mangled, ?_⟩
  · intro F
    simp [flagged, detect_succ, lookup, aliasesOf, findMap]
  · intro h
    obtain ⟨F, r, hF⟩ := h id [(0, .alias 0)] (.alias 0)
    have := hF F (Nat.le_refl _)
    rw [resolve_diverges_self F] at this
    cases this

open Mimium.TypeRec in
/-- the detector itself is total (`env.length + 1` nested calls) and COMPLETE for the graph it looks at: if every name in a
target is looked up under itself, then after DROPPING the flagged aliases — the repair; /repo only reports them —
`resolve_type_alias` returns on every type. -/
theorem C04_alias_detector_complete (fb : Nat → Nat) (env : AEnv) (F : Nat) (hF : env.length + 1 ≤ F)
    (hfb : ∀ k t, lookup env k = some t → ∀ n ∈ aliasesOf t, fb n = n) :
    (∀ k, detect env F k [] ≠ none) ∧ AcyclicA fb (prune (flagged env F) env) ∧
    ∀ (t : ATy) (fuel : Nat), t.size + atotal (prune (flagged env F) env) ≤ fuel →
      ∃ r, resolve fb (prune (flagged env F) env) fuel t = some r := by
  have hac : AcyclicA fb (prune (flagged env F) env) := by
    apply prune_acyclic fb env F (flagged env F) _ hfb
    intro k a hl hnb
    have hne := detect_total env F k hF
    cases hd : detect env F k [] with
    | none => exact absurd hd hne
    | some o =>
      cases o with
      | none => rfl
      | some c =>
        exfalso
        apply hnb
        simp only [flagged, List.mem_filter]
        exact ⟨mem_keys_of_lookup env k (by simp [hl]), by simp [hd]⟩
  exact ⟨fun k => detect_total env F k hF, hac, fun t fuel hf => resolve_total_bound fb _ hac t fuel hf⟩

open Mimium.TypeRec in
/-- non-vacuity of `C04_resolve_type_alias_total_partial` and `C04_alias_detector_complete`: `A = (B, B)`, `B = [C]`, `C = C`,
`D = (float) -> A`: the detector flags all four (a cycle can be reached from each; `A -> B -> C` reports the cycle `[C]`);
with `C = float` instead nothing is flagged and `D` resolves to `(float) -> ([float], [float])`. -/
example :
    flagged [(0, .pair (.alias 1) (.alias 1)), (1, .unary (.alias 2)), (2, .alias 2), (3, .pair .leaf (.alias 0))] 5 = [0, 1, 2, 3] ∧
    detect [(0, .pair (.alias 1) (.alias 1)), (1, .unary (.alias 2)), (2, .alias 2)] 5 0 [] = some (some [2]) ∧
    flagged [(0, .pair (.alias 1) (.alias 1)), (1, .unary (.alias 2)), (2, .leaf), (3, .pair .leaf (.alias 0))] 5 = [] ∧
    resolve id [(0, .pair (.alias 1) (.alias 1)), (1, .unary (.alias 2)), (2, .leaf), (3, .pair .leaf (.alias 0))] 9 (.alias 3)
      = some (.pair .leaf (.pair (.unary .leaf) (.unary .leaf))) := by decide

open Mimium.Occurs in
/-- PARTIAL: the range check of tuple projection is right for every index except `idx = len`: below it yields the element,
above it the `IndexOutOfRange` diagnostic; the out-of-bounds access happens exactly at `idx = len`. -/
theorem C04_tuple_projection_partial {α : Type} (vec : List α) (idx : Nat) :
    (idx < vec.length → ∃ x, projCheck vec idx = .ok (some x)) ∧
    (vec.length < idx → projCheck vec idx = .error ()) ∧
    (projCheck vec idx = .ok none ↔ idx = vec.length) := by
  unfold projCheck
  refine ⟨fun h => ⟨vec[idx], by simp [Nat.not_lt.mpr (Nat.le_of_lt h), List.getElem?_eq_getElem h]⟩,
          fun h => by simp [h], ?_⟩
  constructor
  · intro h
    split at h
    · cases h
    · rename_i hn
      injection h with h
      have := List.getElem?_eq_none_iff.mp h
      omega
  · intro h
    subst h
    simp

open Mimium.Occurs in
/-- NEGATION on the witness `fn dsp(){ let t = (1.0, 2.0)\n t.2 }`: index 2 on a pair passes the range check and reaches
`vec[2]` — Rust's index panic inside `infer_type` (finding T13); index 3 is diagnosed. -/
theorem C04_tuple_projection_counterexample :
    projCheck [1, 2] 2 = .ok none ∧ projCheck [1, 2] 3 = .error () ∧ projCheck [1, 2] 1 = .ok (some 2) :=
  ⟨rfl, rfl, rfl⟩

open Mimium.Occurs in
/-- the REPAIRED range check (/repo 29dd9f5, `vec.len() <= idx`): for every tuple and every index it yields the element or
the diagnostic — Rust's index panic (`.ok none`) is unreachable. -/
theorem C04_tuple_projection_total {α : Type} (vec : List α) (idx : Nat) :
    (idx < vec.length → ∃ x, projCheckLe vec idx = .ok (some x)) ∧
    (vec.length ≤ idx → projCheckLe vec idx = .error ()) ∧
    projCheckLe vec idx ≠ .ok none := by
  unfold projCheckLe
  refine ⟨fun h => ⟨vec[idx], by simp [Nat.not_le.mpr h, List.getElem?_eq_getElem h]⟩, fun h => by simp [h], ?_⟩
  split
  · intro h; cases h
  · rename_i hn
    intro h
    injection h with h
    have := List.getElem?_eq_none_iff.mp h
    omega

/-- translator facts, pinned: /repo's type checker uses the repaired forms — the occurs check looks into both sides of a
function type (`||`, so `occ σ false` is the model of the code as written and `C04_occur_check_counterexample` describes
the OLD code), and the projection check rejects `idx = len` (`projCheckLe`). Reverting either breaks this theorem; the
search then replays the old witnesses (`fn f(x){ x(x) }`, `t.2` on a pair). -/
theorem C04_typing_facts_pinned :
    Mimium.Gen.occursFnArmIsOr = true ∧ Mimium.Gen.projCheckRejectsLen = true ∧
    Mimium.Gen.stageIncrementSaturates = true := by decide

open Mimium.Occurs in
/-- the REPAIRED stage counter (/repo c4d9327): for EVERY nesting depth it is defined (no overflow), exact up to 255 and
255 beyond. -/
theorem C04_stage_counter_saturates (k : Nat) : nestQuotesSat k 0 = min k 255 := by
  have gen : ∀ k s, s ≤ 255 → nestQuotesSat k s = min (s + k) 255 := by
    intro k
    induction k with
    | zero => intro s hs; simp [nestQuotesSat]; omega
    | succ k ih =>
      intro s hs
      simp only [nestQuotesSat, incrementStageSat]
      rw [ih (min (s + 1) 255) (by omega)]
      omega
  simpa using gen k 0 (by omega)

open Mimium.TypeRec in
/-- non-vacuity of the hypotheses `AcyclicA` / `fb n = n` / `env.length + 1 ≤ F`: the second environment of the example above
is acyclic — by `C04_alias_detector_complete` itself (nothing is flagged, so nothing is dropped) -/
example : AcyclicA id [(0, .pair (.alias 1) (.alias 1)), (1, .unary (.alias 2)), (2, .leaf), (3, .pair .leaf (.alias 0))] := by
  have h := (C04_alias_detector_complete id
    [(0, .pair (.alias 1) (.alias 1)), (1, .unary (.alias 2)), (2, .leaf), (3, .pair .leaf (.alias 0))] 5 (by decide)
    (fun _ _ _ _ _ => rfl)).2.1
  have e : flagged [(0, ATy.pair (.alias 1) (.alias 1)), (1, .unary (.alias 2)), (2, .leaf), (3, .pair .leaf (.alias 0))] 5 = [] := by decide
  rw [e] at h
  exact h

/-- translator facts, pinned: the statements of /repo/crates that assign `parent = Some(…)` outside test modules are the 12 of
`typing/unification.rs` (per function: four in the variable-variable arm — two of them behind `parent ≠ None` patterns that a
root never matches —, one in each of the other two variable arms) and the one of `extend_record_with_field` in `typing.rs`;
both unification functions take `get_root()` of both arguments and match on the roots. `Model/OccursSeq.lean` models
exactly these; a new writer breaks this theorem (and with it the coverage claim of `C04_occurs_check_terminates`). -/
theorem C04_parent_writers_pinned :
    Mimium.Gen.parentWriteSites =
      [("lib/mimium-lang/src/compiler/typing.rs", 1), ("lib/mimium-lang/src/compiler/typing/unification.rs", 12)] ∧
    Mimium.Gen.unifyMatchesOnRoots = 2 := by decide

open Mimium.Occurs in
/-- PARTIAL: up to 255 nested quote levels the stage counter is exact. -/
theorem C04_stage_counter_partial (k : Nat) (h : k ≤ 255) : nestQuotes k 0 = some k := by
  have gen : ∀ k s, s + k ≤ 255 → nestQuotes k s = some (s + k) := by
    intro k
    induction k with
    | zero => intro s _; simp [nestQuotes]
    | succ k ih =>
      intro s hs
      have h1 : s + 1 ≤ 255 := by omega
      simp only [nestQuotes, incrementStage, h1, if_true]
      rw [ih (s + 1) (by omega)]
      congr 1; omega
  simpa using gen k 0 (by omega)

open Mimium.Occurs in
/-- NEGATION on the witness of 255 back quotes followed by `1` (a well-formed program; `wrap_to_staged_expr` adds one more
level): the 256th increment of the `u8` counter overflows (finding T19), although the nesting depth is below the bound 256. -/
theorem C04_stage_counter_counterexample : nestQuotes (255 + 1) 0 = none ∧ nestQuotes (254 + 1) 0 = some 255 := by
  decide +kernel

/-- non-vacuity: `(a,` — a guarded loop on a three-token input whose statement parser makes no progress on the first token
is left after three iterations by the recovery `bump`s alone. -/
example : (iterate (guardedBody ⟨[1, 1, 1], [0, 1, 2]⟩ (fun _ => true) (fun _ => []) (fun _ => [])) 4 ⟨[⟨0, []⟩], 0, none⟩).map
    (fun r => (r.1.current, r.2)) = some (3, 3) := by decide +kernel

/-! ## Termination of the real grammar (`Model/CstGrammar.lean`) -/

/-- The static termination analysis (`Proofs/CstGrammarRank.lean`: abstract interpretation of a body over "a token was
consumed since entry" / "still at the entry cursor with `peek ∈ pk`", refined at every test of the token under the cursor)
accepts the body of EVERY grammar function and loop of the port: each call either follows a consumed token or goes to a tag of
strictly smaller `rank` for every token that can still be under the cursor.  Evaluated by the kernel on the 73 bodies. -/
theorem C04_grammar_analysis_accepts_every_body : ∀ t : Grammar.Tag, Grammar.tagOk t = true := Grammar.all_tags_ok

/-- TERMINATION of the mutual recursion of the real grammar: for every environment (token list), every grammar function /
loop `t` and every parser state `s`, fuel above `need t s = rankBound · (#syntax tokens − cursor) + rank t (peek s)` makes the
run complete — no call below it runs out of fuel — and every larger fuel computes the same state.  `need ≤ 22·(tokens left) + 21`. -/
theorem C04_grammar_recursion_terminates (E : Grammar.Env) (t : Grammar.Tag) (s : Grammar.St) (n : Nat)
    (h : Grammar.need E t s < n) :
    (∀ m, n ≤ m → Grammar.go E m t s = Grammar.go E n t s) ∧ (Grammar.go E n t s).oof = s.oof ∧
    Grammar.need E t s ≤ 22 * (Grammar.len E - s.b.current) + 21 := by
  obtain ⟨a, b, _⟩ := Grammar.go_complete E n t s h
  refine ⟨a, b, ?_⟩
  have := Grammar.hi_le t; have := Grammar.lo_le t
  unfold Grammar.need Grammar.rankBound Grammar.rank
  cases Grammar.peek E s with
  | none => simp only; omega
  | some k => simp only; split <;> omega

/-- `Parser::parse` TERMINATES on every token list: with `n` syntax tokens, any fuel ≥ `fuelBound n = 22·(n+1)+1` gives a
complete run (the ghost flag `oof` — "some call ran out of fuel" — stays false). -/
theorem C04_parser_terminates (ks : List Kind) (widths : List Nat) (fuel : Nat)
    (hf : Grammar.fuelBound (Preparse.preparse ks).tokenIndices.length ≤ fuel) :
    (Grammar.parse (Grammar.mkEnv ks widths (Preparse.preparse ks)) fuel ks.toArray).oof = false := by
  have hlen : Grammar.len (Grammar.mkEnv ks widths (Preparse.preparse ks)) = (Preparse.preparse ks).tokenIndices.length := by
    simp [Grammar.len, Grammar.mkEnv]
  exact (Grammar.parse_fuel _ ks.toArray fuel (by rw [hlen]; exact hf)).2

/-- … and the fuel is not observable: any two fuels above the bound give the same tree, error list, cursor, token kinds. -/
theorem C04_parser_fuel_irrelevant (ks : List Kind) (widths : List Nat) (fuel fuel' : Nat)
    (hf : Grammar.fuelBound (Preparse.preparse ks).tokenIndices.length ≤ fuel)
    (hf' : Grammar.fuelBound (Preparse.preparse ks).tokenIndices.length ≤ fuel') :
    Grammar.parse (Grammar.mkEnv ks widths (Preparse.preparse ks)) fuel ks.toArray =
      Grammar.parse (Grammar.mkEnv ks widths (Preparse.preparse ks)) fuel' ks.toArray := by
  have hlen : Grammar.len (Grammar.mkEnv ks widths (Preparse.preparse ks)) = (Preparse.preparse ks).tokenIndices.length := by
    simp [Grammar.len, Grammar.mkEnv]
  rw [(Grammar.parse_fuel _ ks.toArray fuel (by rw [hlen]; exact hf)).1,
      (Grammar.parse_fuel _ ks.toArray fuel' (by rw [hlen]; exact hf')).1]

/-- Every error the parser records (any fuel) carries `token_index = 0` (`current_token_index()`'s `unwrap_or(0)` past the last
token) or the raw index of a syntax token — in particular an index `< tokens.len()` whenever there is a token at all, so
`parser_errors_to_reportable` never needs its fallback for it; `C04_error_spans_inside` covers every index anyway. -/
theorem C04_parser_error_indices_in_range (ks : List Kind) (widths : List Nat) (hw : widths.length = ks.length) (fuel : Nat) :
    ∀ e ∈ (Grammar.parse (Grammar.mkEnv ks widths (Preparse.preparse ks)) fuel ks.toArray).errs,
      (e.tokenIndex = 0 ∨ (e.tokenIndex < ks.length ∧ Preparse.isSyntax (ks.getD e.tokenIndex Kind.Eof) = true)) ∧
      e.tokenIndex ≤ ks.length := by
  intro e he
  obtain ⟨_, _, _, _, _, h⟩ := Grammar.parse_tokens_spec ks widths hw fuel
  have := h e he
  refine ⟨this, ?_⟩
  rcases this with h0 | h1
  · omega
  · omega

/-- non-vacuity: `fn{a` (the witness of T05) parses completely with the fuel of the bound, reports its three errors at raw
indices inside the token list, and one unit of fuel is not enough -/
example :
    let ks : List Kind := [.Function, .BlockBegin, .Ident, .Eof]
    let E := Grammar.mkEnv ks [2, 1, 1, 0] (Preparse.preparse ks)
    (Grammar.parse E (Grammar.fuelBound 3) ks.toArray).oof = false ∧
    (Grammar.parse E (Grammar.fuelBound 3) ks.toArray).errs.map (·.tokenIndex) = [0, 1, 1] ∧
    (Grammar.parse E 1 ks.toArray).oof = true := by decide +kernel

/-- non-vacuity: an out-of-range `token_index` falls back to the `Eof` token at `(len, len)` -/
example : errorSpan (tokenize ⟨fun c => c == 'a', fun c => c == 'a'⟩ Mimium.Lexer.genTables "(é".toList) 7 = (3, 3) := by
  decide +kernel

/-! ## Lowering (`Model/Lower.lean`) -/

open Mimium.Lower in
/-- TOTALITY OF THE LOWERING.  The port of `lower.rs` is a single structural recursion over the (resolved) green tree — no fuel:
`attr` of a leaf / of a node is `mkA` (all attribute functions: `node_span`, `walk_tokens`, `lower_expr`, `lower_statement`,
`lower_pattern`, `lower_type`, `lower_match_pattern`, …, each a non-recursive function of the children's attributes) applied to the
attributed children, and it evaluates `mkA` exactly once per node of the tree: the work is linear in the tree size. -/
theorem C04_lower_total :
    (∀ l : Leaf, attr (.leaf l) = mkA none (some l) []) ∧
    (∀ (k : Nat) (cs : List T), attr (.node k cs) = mkA (some ((Mimium.Gen.SK.ofNat? k).getD .Error)) none (cs.map attr)) ∧
    (∀ t : T, (attr t).size = t.size) :=
  ⟨fun _ => by simp [attr], fun k cs => by simp [attr, attrL_eq_map], attr_size⟩

open Mimium.Lower in
/-- THE WHOLE FRONT END RETURNS on every text: `tokenize` (fuel = length), `preparse`, the ported `Parser::parse` with the fuel
`fuelBound` (complete: `oof = false`, `C04_parser_terminates`) and the structurally recursive lowering. -/
theorem C04_front_end_total (C : Classes) (T : Tables) (s : List Char) :
    (frontEnd C T s).parse = Grammar.parseTokens ((tokenize C T s).map Token.kind) ((tokenize C T s).map Token.len) ∧
    (frontEnd C T s).parse.oof = false := by
  have h : (frontEnd C T s).parse = Grammar.parseTokens ((tokenize C T s).map Token.kind) ((tokenize C T s).map Token.len) := by
    simp only [frontEnd]; split <;> rfl
  exact ⟨h, by rw [h]; exact C04_parser_terminates _ _ _ (Nat.le_refl _)⟩

open Mimium.Lower in
/-- SPANS OF THE AST ARE INSIDE THE TEXT.  Every span `lower.rs` attaches is a term `sp : Sp` over the token leaves (`0..0`, the span
of a leaf, `merge_spans`, `a.start..b.end`); for every such term, every text and every assignment `leaves` of raw token indices to
the leaves (in or out of range), its byte offsets `sp.eval (leafOffsets tokens leaves)` — what `drv_c16` prints and the
correspondence compares with the real spans — are `≤ len` and character boundaries of the text (each end is `0` or an end of a
token).  Feeds the same facts as `C04_error_spans_inside` for diagnostics that carry AST spans. -/
theorem C04_lower_spans_in_range (C : Classes) (T : Tables) (ok : TablesOk T = true) (s : List Char) (leaves : Array Nat) (sp : Sp) :
    (sp.eval (leafOffsets (tokenize C T s).toArray leaves)).1 ≤ utf8Len s ∧
    (sp.eval (leafOffsets (tokenize C T s).toArray leaves)).2 ≤ utf8Len s ∧
    IsBoundary s (sp.eval (leafOffsets (tokenize C T s).toArray leaves)).1 ∧
    IsBoundary s (sp.eval (leafOffsets (tokenize C T s).toArray leaves)).2 := by
  have key : ∀ t ∈ tokenize C T s, t.start ≤ t.stop ∧ t.stop ≤ utf8Len s ∧ IsBoundary s t.start ∧ IsBoundary s t.stop :=
    (C04_tokenizer_total C T ok s).2.2
  have h0 : (fun n => n ≤ utf8Len s ∧ IsBoundary s n) 0 := ⟨Nat.zero_le _, ⟨[], List.nil_prefix, rfl⟩⟩
  have hl : ∀ j, (fun n => n ≤ utf8Len s ∧ IsBoundary s n) (leafOffsets (tokenize C T s).toArray leaves j).1 ∧
      (fun n => n ≤ utf8Len s ∧ IsBoundary s n) (leafOffsets (tokenize C T s).toArray leaves j).2 := by
    intro j
    unfold leafOffsets
    split
    · split
      · rename_i t ht
        have hm : t ∈ tokenize C T s := List.mem_of_getElem? (by simpa using ht)
        obtain ⟨k1, k2, k3, k4⟩ := key t hm
        exact ⟨⟨Nat.le_trans k1 k2, k3⟩, ⟨k2, k4⟩⟩
      · exact ⟨h0, h0⟩
    · exact ⟨h0, h0⟩
  obtain ⟨⟨a1, a2⟩, ⟨b1, b2⟩⟩ := Sp.eval_closed (fun n => n ≤ utf8Len s ∧ IsBoundary s n) _ h0 hl sp
  exact ⟨a1, b1, a2, b2⟩
/-! ## the WHOLE of unification (`Model/Unify.lean` = `unify_types` + `unify_types_args`, every structural arm) -/

open Mimium.Unify in
/-- Whatever `unify_types` (`args = false`) / `unify_types_args` (`args = true`) answer — `Ok` or `Err`, with ANY fuel — on an
acyclic store, the store they leave is acyclic and every variable that was bound keeps its parent (only unbound variables are
bound): the structural arms issue nothing but further calls, failed attempts of the union arms and the four passes of the
record arm included.  Stores: ALL; types: ALL. -/
theorem C04_unify_preserves_acyclic (g f : Nat) (args : Bool) (σ σ' : Unify.Store) (t1 t2 : Unify.Ty) (r : Res)
    (hσ : Occurs.Acyclic (absS σ)) (h : go g f args σ t1 t2 = some (σ', r)) :
    Occurs.Acyclic (absS σ') ∧ ∀ v p, Occurs.parent σ v = some p → Occurs.parent σ' v = some p :=
  go_good g f args σ t1 t2 hσ σ' r h

open Mimium.Unify in
/-- … hence every store a SEQUENCE of unification requests builds from the empty store is acyclic, and `occur_check` and
`get_root` on it return within the explicit bounds of `C04_occur_check_fuel_bound` -/
theorem C04_unify_sequence_acyclic (g f : Nat) (reqs : List (Bool × Unify.Ty × Unify.Ty)) (σ : Unify.Store)
    (h : runSeq g f [] reqs = some σ) :
    Occurs.Acyclic (absS σ) ∧
    (∀ v t fuel, Occurs.size (abs t) + Occurs.total (absS σ) ≤ fuel → ∃ b, occurs fuel σ v t = some b) := by
  have gen : ∀ (reqs : List (Bool × Unify.Ty × Unify.Ty)) (σ0 σ : Unify.Store), Occurs.Acyclic (absS σ0) →
      runSeq g f σ0 reqs = some σ → Occurs.Acyclic (absS σ) := by
    intro reqs
    induction reqs with
    | nil => intro σ0 σ h0 h; simp only [runSeq, Option.some.injEq] at h; subst h; exact h0
    | cons q qs ih =>
      intro σ0 σ h0 h
      obtain ⟨k, a, b⟩ := q
      simp only [runSeq] at h
      cases hc : go g f k σ0 a b with
      | none => simp [hc] at h
      | some o =>
        obtain ⟨σ1, r⟩ := o
        simp only [hc] at h
        exact ih σ1 σ (go_good g f k σ0 a b h0 σ1 r hc).1 h
  have hac := gen reqs [] σ Occurs.acyclic_nil h
  exact ⟨hac, fun v t fuel hf => Occurs.occ_total_bound (absS σ) hac false v (abs t) fuel hf⟩

open Mimium.Unify in
/-- **Termination of the WHOLE of unification, with an explicit bound.**  On every acyclic store, for ALL types, `unify_types`
(`args = false`) / `unify_types_args` (`args = true`) return as soon as the fuel for `get_root` / `occur_check` reaches
`fuelG σ t1 t2` and the fuel for the nesting of unification calls reaches `fuelF σ t1 t2` — with `s` = constructors of the two types
and of all parents (as `occur_check` sees them), `n = σ.length + s` (no reachable store has more entries), `h = s + n·s` (no type
gets higher in any reachable store): `fuelG = h + n + 1`, `fuelF = 4 (2h² + 2h) + 4`.  (The nesting is NOT bounded by the sum of
the two heights: the record arm unifies a defaulted field with itself, so the measure is (max, sum) of the heights,
lexicographically, times the four re-dispatches of `unify_types_args`.) -/
theorem C04_unify_terminates (σ : Unify.Store) (t1 t2 : Unify.Ty) (hσ : Occurs.Acyclic (absS σ)) (args : Bool) (g f : Nat)
    (hg : fuelG σ t1 t2 ≤ g) (hf : fuelF σ t1 t2 ≤ f) : ∃ σ' r, go g f args σ t1 t2 = some (σ', r) :=
  go_terminates σ t1 t2 hσ args g f hg hf

open Mimium.Unify in
/-- … and every request of every SEQUENCE of requests from the empty store returns with the fuel of the bound taken at its own
store (what `drv_c03u` runs) -/
theorem C04_unify_sequence_terminates (g f : Nat) (reqs : List (Bool × Unify.Ty × Unify.Ty)) (σ : Unify.Store)
    (h : runSeq g f [] reqs = some σ) (k : Bool) (a b : Unify.Ty) :
    ∃ σ' r, go (fuelG σ a b) (fuelF σ a b) k σ a b = some (σ', r) :=
  go_terminates σ a b (C04_unify_sequence_acyclic g f reqs σ h).1 k _ _ (Nat.le_refl _) (Nat.le_refl _)

open Mimium.Unify in
/-- The fuel is not observable: an answer given with fuels `(g, f)` is given with all larger fuels … -/
theorem C04_unify_fuel_monotone (g g' f f' : Nat) (hg : g ≤ g') (hf : f ≤ f') (args : Bool) (σ : Unify.Store) (t1 t2 : Unify.Ty)
    (o : Unify.Store × Res) (h : go g f args σ t1 t2 = some o) : go g' f' args σ t1 t2 = some o :=
  go_mono hg f f' hf args σ t1 t2 o h

open Mimium.Unify in
/-- … so above the bound of `C04_unify_terminates` every pair of fuels gives the SAME store and answer: on acyclic stores the ported
`unify_types` / `unify_types_args` are total functions of (store, types). -/
theorem C04_unify_fuel_irrelevant (σ : Unify.Store) (t1 t2 : Unify.Ty) (hσ : Occurs.Acyclic (absS σ)) (args : Bool) (g f g' f' : Nat)
    (hg : fuelG σ t1 t2 ≤ g) (hf : fuelF σ t1 t2 ≤ f) (hg' : fuelG σ t1 t2 ≤ g') (hf' : fuelF σ t1 t2 ≤ f') :
    go g f args σ t1 t2 = go g' f' args σ t1 t2 := by
  obtain ⟨σ', r, h⟩ := go_terminates σ t1 t2 hσ args _ _ (Nat.le_refl _) (Nat.le_refl _)
  rw [go_mono hg _ f hf args σ t1 t2 _ h, go_mono hg' _ f' hf' args σ t1 t2 _ h]

/-- non-vacuity: the bound on a request with a binding and a one-sided descent; and fuel 1 is not enough -/
example : Unify.fuelG [] (.fn (.var 0) (.prim .num)) (.fn (.tuple [.prim .num]) (.var 1)) = 81 ∧
    Unify.fuelF [] (.fn (.var 0) (.prim .num)) (.fn (.tuple [.prim .num]) (.var 1)) = 42052 ∧
    Unify.verdict (Unify.go 81 42052 false [] (.fn (.var 0) (.prim .num)) (.fn (.tuple [.prim .num]) (.var 1))) = some (.ok .ident) ∧
    Unify.verdict (Unify.go 81 1 false [] (.fn (.var 0) (.prim .num)) (.fn (.tuple [.prim .num]) (.var 1))) = none := by
  decide +kernel

end Mimium.Props.C04
