import Mimium.Model.Core
import Mimium.Proofs.CoreRenameV
import Mimium.Proofs.CstGrammarTrivia
import Mimium.Proofs.LowerFront
/-!
# C16 — meaning is invariant under renaming, layout and agreeing annotations

In the reference semantics layout and annotations do not exist (the evaluator sees the AST only), so the property
reduces to renaming.  Proved here: the environment discipline that makes renaming harmless — looking a renamed
variable up in the renamed environment finds the same location, for every injective renaming; binding renamed
parameters gives the renamed environment and the same store.  `C16_eval_rename` is the invariance of the whole evaluator under every injective renaming. That the real compiler
behaves like the reference semantics here is decided by the correspondence: the real compiler is run on each generated
program and on 8 transformed renderings of it.
PARTIAL: the type checker/mirgen handling of names is exercised, not modelled.  The PARSER is modelled (`Model/CstGrammar.lean`, literal port
of `cst_parser.rs`, tied by C13): `C16_parse_ignores_trivia_kinds` proves that white space and comments reach the syntax tree only
through the line-break oracle (and one diagnostic through token adjacency).  LOWERING is modelled too (`Model/Lower.lean`, port of
`lower.rs` tied by the exact AST + span correspondence of this check): `C16_lower_ignores_trivia`, `C16_front_end_layout_invariant`
(text → tokens → CST → AST: the AST, spans as terms over the syntax tokens included, does not depend on trivia except through the
line-break oracle), `C16_lower_parens_transparent` (redundant parentheses leave no trace in the AST, not even in the spans).
-/
namespace Mimium.Core

def renameEnv (σ : String → String) (env : Env) : Env := env.map fun (x, l) => (σ x, l)

/-- lookup commutes with an injective renaming -/
theorem C16_lookup_rename (σ : String → String) (hσ : ∀ a b, σ a = σ b → a = b) (env : Env) (x : String) :
    (renameEnv σ env).lookup (σ x) = env.lookup x := by
  induction env with
  | nil => simp [renameEnv, List.lookup]
  | cons p rest ih =>
    obtain ⟨y, l⟩ := p
    simp only [renameEnv, List.map_cons, List.lookup] at ih ⊢
    by_cases h : x = y
    · subst h; simp
    · have h1 : (x == y) = false := by simpa using h
      have h2 : (σ x == σ y) = false := by
        simp only [beq_eq_false_iff_ne, ne_eq]
        intro e; exact h (hσ _ _ e)
      simp only [h1, h2]
      exact ih

/-- binding renamed names allocates the same locations and leaves the same store -/
theorem C16_bindAll_rename (σ : String → String) : ∀ (xs : List String) (vs : List Val) (env : Env) (st : Store),
    bindAll (renameEnv σ env) st (xs.map σ) vs = (renameEnv σ (bindAll env st xs vs).1, (bindAll env st xs vs).2)
  | [], vs, env, st => by simp [bindAll]
  | x :: xs, [], env, st => by simp [bindAll]
  | x :: xs, v :: vs, env, st => by
    simp only [List.map_cons, bindAll]
    have := C16_bindAll_rename σ xs vs ((x, st.length) :: env) (st ++ [v])
    simpa [renameEnv] using this

/-- variables: the renamed variable evaluates to the same value in the renamed environment -/
theorem C16_var_rename (σ : String → String) (hσ : ∀ a b, σ a = σ b → a = b)
    (fuel : Nat) (P : Prog) (rt : Rt) (env : Env) (x : String) (st : Store) (s : SNode) :
    (eval (fuel + 1) P rt (renameEnv σ env) (.var (σ x)) st s).toOption.map (·.1) =
    (eval (fuel + 1) P rt env (.var x) st s).toOption.map (·.1) := by
  simp only [eval, C16_lookup_rename σ hσ]
  cases env.lookup x with
  | none => simp [Except.toOption]
  | some l =>
    simp only
    cases hl : st[l]? <;> simp [Except.toOption]

/-- **Renaming invariance of the whole evaluator** (all 18 constructs, closures, assignment, state): evaluating the
`π`-renamed expression in the `π`-renamed program, environment, store and state gives the `π`-image of the original
result — identical numbers and tuples, the same store locations and state cells; only the binder names inside closure
values differ. Holds for every injective `π`, every program, every fuel. (Proved in `Proofs/CoreRenameV.lean`.) -/
theorem C16_eval_rename (P : Prog) (rt : Rt) (π : String → String) (hπ : ∀ a b, π a = π b → a = b)
    (fuel : Nat) (e : Expr) (env : Env) (σ : Store) (st : SNode) :
    RR (renR π) (eval fuel (renP π P) rt (renEnv π env) (renE π e) (renVL π σ) (renS π st)) (eval fuel P rt env e σ st) :=
  (equivariantV P rt π hπ fuel).1 e env σ st

/-- a renamed number is the same number: the audible part of a result does not see the renaming -/
theorem C16_numbers_unchanged (π : String → String) (b : UInt64) : renV π (.num b) = .num b := by
  simp [renV]

example : (renameEnv (fun s => "q_" ++ s) [("a", 0), ("b", 1)]).lookup "q_b" = some 1 := by decide

end Mimium.Core

namespace Mimium.Props.C16
open Mimium.Gen (Kind)
open Mimium.Preparse Mimium.Grammar

/-- LAYOUT INVARIANCE OF THE PARSER (real grammar: `Model/CstGrammar.lean`, the literal port of `cst_parser.rs` tied to the code by
C13).  Two token lists — e.g. the same program with different white space, comments and line breaks — that have the same
sequence of SYNTAX-token kinds (`view`), the same answers of `has_trailing_linebreak()` at every cursor position (`nl`: is there
a line break between the previous syntax token and this one) and the same raw adjacency of consecutive syntax tokens (`adjacent`:
read only by the "consecutive operators without whitespace" diagnostic) are parsed, for every fuel, into green trees of the same
SHAPE (same node kinds and structure; the leaves are raw token indices, which differ), with the same error details, the same
cursor, the same completeness flag and the same relabelled kinds.  So trivia cannot change the tree except through the line-break
oracle: white space and comments that add no line break between two syntax tokens, and line breaks where another one already is,
are invisible to the parser. -/
theorem C16_parse_ignores_trivia_kinds (ks ks' : List Kind) (widths widths' : List Nat)
    (hw : widths.length = ks.length) (hw' : widths'.length = ks'.length) (fuel : Nat)
    (hsize : (mkEnv ks widths (preparse ks)).idx.size = (mkEnv ks' widths' (preparse ks')).idx.size)
    (hview : ∀ i, view (mkEnv ks widths (preparse ks)) ks.toArray i = view (mkEnv ks' widths' (preparse ks')) ks'.toArray i)
    (hnl : ∀ i, (mkEnv ks widths (preparse ks)).nl i = (mkEnv ks' widths' (preparse ks')).nl i)
    (hadj : ∀ i, adjacent (mkEnv ks widths (preparse ks)) i = adjacent (mkEnv ks' widths' (preparse ks')) i) :
    let r := parse (mkEnv ks widths (preparse ks)) fuel ks.toArray
    let r' := parse (mkEnv ks' widths' (preparse ks')) fuel ks'.toArray
    r.b.root.map Cst.Green.shape = r'.b.root.map Cst.Green.shape ∧ r.b.current = r'.b.current ∧ r.oof = r'.oof ∧
    r.errs.map (·.detail) = r'.errs.map (·.detail) ∧
    (∀ i, view (mkEnv ks widths (preparse ks)) r.kinds i = view (mkEnv ks' widths' (preparse ks')) r'.kinds i) := by
  have inc : ∀ (k : List Kind) (w : List Nat), IdxInc (mkEnv k w (preparse k)) := by
    intro k w
    apply idxInc_of_pairwise
    have : (mkEnv k w (preparse k)).idx.toList = syntaxIndices 0 k := by simp [mkEnv, preparse_tokenIndices]
    rw [this]; exact syntaxIndices_pairwise k 0
  exact parse_trivia_independent _ _ (mkEnv_ok ks widths hw) (mkEnv_ok ks' widths' hw') (inc ks widths) (inc ks' widths')
    ks.toArray ks'.toArray fuel hsize hview hnl hadj

/-- non-vacuity: `a\n(b)` and `a (b)` have the same syntax kinds but different line-break oracles — and different trees (two
statements vs one call); `a  (b)` (more blanks) satisfies the hypotheses w.r.t. `a (b)` and has the same shape -/
example :
    let k1 : List Kind := [.Ident, .LineBreak, .ParenBegin, .Ident, .ParenEnd, .Eof]
    let k2 : List Kind := [.Ident, .Whitespace, .ParenBegin, .Ident, .ParenEnd, .Eof]
    let k3 : List Kind := [.Ident, .Whitespace, .Whitespace, .ParenBegin, .Ident, .ParenEnd, .Eof]
    ((parseTokens k1 [1, 1, 1, 1, 1, 0]).b.root.map (·.shape.code) ≠ (parseTokens k2 [1, 1, 1, 1, 1, 0]).b.root.map (·.shape.code)) ∧
    ((parseTokens k2 [1, 1, 1, 1, 1, 0]).b.root.map (·.shape.code) = (parseTokens k3 [1, 1, 1, 1, 1, 1, 0]).b.root.map (·.shape.code)) := by
  decide +kernel

end Mimium.Props.C16

/-! ## Lowering (`Model/Lower.lean`, port of `lower.rs`) -/

namespace Mimium.Props.C16
open Mimium.Gen (Kind SK)
open Mimium.Preparse Mimium.Grammar Mimium.Lower
open Mimium.Cst (Green)

/-- The port is a port of what is in `/repo` now: every function of `lower.rs` and `ast/statement.rs` has the body hash of the
reviewed list `tools/lower_pins.json`.  ANY edit of a lowering function breaks this `decide`. -/
theorem C16_lower_functions_pinned : Mimium.Gen.lowerFns = Mimium.Gen.lowerFnsPinned := by decide

/-- LOWERING IGNORES TRIVIA AND OFFSETS.  The lowered `Program` — every statement, expression, pattern, type, AND every span as a
term over the leaves (`Sp`: "span of the `j`-th leaf", `merge`, `0..0`) — is determined by the SHAPE of the green tree and by the
(relabelled) kind and the text of its token leaves, in order: two trees of the same shape (e.g. the trees of two layouts of one
program, `C16_parse_ignores_trivia_kinds`) whose leaves show the same kinds and texts lower to THE SAME program, whatever the raw
token indices, byte offsets, white space and comments are.  Offsets enter only when the span terms are evaluated
(`Sp.eval (leafOffsets …)`), so the programs of the two texts are equal modulo spans, and their spans are the same hulls of the
same syntax tokens. -/
theorem C16_lower_ignores_trivia (kinds kinds' : Array Kind) (texts texts' : Array Sym) (g g' : Green)
    (hshape : g.shape = g'.shape)
    (hleaves : g.leaves.map (tokInfo kinds texts) = g'.leaves.map (tokInfo kinds' texts')) :
    lowerGreen kinds texts g = lowerGreen kinds' texts' g' :=
  lowerGreen_congr kinds kinds' texts texts' g g' hshape hleaves

/-- LAYOUT CLAUSE OF C16 FOR THE WHOLE FRONT END (tokens → CST → AST; ported parser + ported lowering, every fuel).  Two token
lists — kinds `ks`/`ks'`, lengths, texts — that have the same number of syntax tokens with the same kinds (`view`) and the same
texts (`tview`), the same answer of `has_trailing_linebreak()` at every cursor position (`nl`) and the same raw adjacency of
consecutive syntax tokens (`adjacent`; read by one diagnostic only) yield the same `Program`: the same AST, and the same span
terms over the syntax tokens.  So white space, comments and line breaks can change the meaning of a program only through the
line-break oracle at the positions the grammar asks it. -/
theorem C16_front_end_layout_invariant (ks ks' : List Kind) (widths widths' : List Nat) (texts texts' : Array Sym)
    (hw : widths.length = ks.length) (hw' : widths'.length = ks'.length) (fuel : Nat)
    (hsize : (mkEnv ks widths (preparse ks)).idx.size = (mkEnv ks' widths' (preparse ks')).idx.size)
    (hview : ∀ i, view (mkEnv ks widths (preparse ks)) ks.toArray i = view (mkEnv ks' widths' (preparse ks')) ks'.toArray i)
    (htext : ∀ i, tview (mkEnv ks widths (preparse ks)) texts i = tview (mkEnv ks' widths' (preparse ks')) texts' i)
    (hnl : ∀ i, (mkEnv ks widths (preparse ks)).nl i = (mkEnv ks' widths' (preparse ks')).nl i)
    (hadj : ∀ i, adjacent (mkEnv ks widths (preparse ks)) i = adjacent (mkEnv ks' widths' (preparse ks')) i) :
    lowerParsed ks widths texts fuel = lowerParsed ks' widths' texts' fuel :=
  lowerParsed_layout ks ks' widths widths' texts texts' hw hw' fuel hsize hview hnl hadj htext

/-- `frontEnd` (what `drv_c16` runs and the correspondence compares with `parse_program`) is `lowerParsed` on the tokens of the text -/
theorem C16_front_end_is_lowerParsed (C : Lexer.Classes) (T : Lexer.Tables) (s : List Char) :
    (frontEnd C T s).prog =
      lowerParsed ((Lexer.tokenize C T s).map Lexer.Token.kind) ((Lexer.tokenize C T s).map Lexer.Token.len)
        ((Lexer.splitProj none (Lexer.lex C T s)).map Lexer.Lexeme.text ++ [[]]).toArray
        (fuelBound (preparse ((Lexer.tokenize C T s).map Lexer.Token.kind)).tokenIndices.length) := by
  simp only [frontEnd, lowerParsed, parseTokens]
  split <;> simp_all

/-- REDUNDANT PARENTHESES.  `lower.rs` does not build `Expr::Paren`: `lower_expr(ParenExpr)` is `lower_expr_sequence` of the
expression children.  For a `ParenExpr` node with exactly one expression child `e` (any children that are not expressions — the
two parenthesis tokens — around it) the lowered expression IS the lowered `e`, span included: the parentheses leave no trace in the
AST, not even in the span of the expression (they do in the span of the enclosing statement, `node_span`).  Parentheses therefore
reach the meaning only through the parse tree (grouping, and `a⏎(b)` vs `a (b)`). -/
theorem C16_lower_parens_transparent (cs : List A) (e : A) (k : SK) (hk : e.kind = some k) (hcs : childExprs cs = [e]) :
    (mkA (some .ParenExpr) none cs).attrs.expr = e.attrs.expr := by
  simp [mkA, A.attrs, lowerExpr, hcs, lowerExprSequence_singleton e k hk]

/-! ### Non-vacuity (kernel evaluation of the whole ported front end on program texts) -/

private def asciiClasses : Lexer.Classes := ⟨fun c => c.isAlpha, fun c => c.isAlphanum || c == '_'⟩
private def fe (s : String) : FrontEnd := frontEnd asciiClasses Lexer.genTables s.toList
private def offs (f : FrontEnd) : Nat → Nat × Nat := leafOffsets f.toks.toArray f.leaves.toArray

/-- `fn f(x){ x+1 }`: one function, parameter `x` of unknown type at its token, body `x + 1` -/
private def isFnPlus (f : FrontEnd) : Bool :=
  match f.prog with
  | [(.fnDef false name [(x, .unknown psp, none)] lsp none (.binOp (.var x' xsp) .sum osp (.lit (.float one) _) bsp), ssp)] =>
    name == "f".toList && x == "x".toList && x' == x && one == "1".toList &&
    psp.eval (offs f) == (5, 6) && lsp.eval (offs f) == (4, 7) && xsp.eval (offs f) == (9, 10) && osp.eval (offs f) == (10, 11) &&
    bsp.eval (offs f) == (9, 12) && ssp.eval (offs f) == (0, 14)
  | _ => false

example : isFnPlus (fe "fn f(x){ x+1 }") = true ∧ (fe "fn f(x){ x+1 }").parse.errs = [] := by decide +kernel

/-- `f(x)+1` in two layouts: the same AST with the same span TERMS (operator = leaf 4, call = `merge (leaf 0) (hull of leaves 0–3)`),
different byte offsets -/
private def isCallPlus (f : FrontEnd) (opSpan whole : Nat × Nat) : Bool :=
  match f.prog with
  | [(.global (.single (.binOp (.apply (.var fn _) [.var x (.tok 2)] csp) .sum (.tok 4) (.lit (.float one) (.tok 5)) bsp)), _)] =>
    fn == "f".toList && x == "x".toList && one == "1".toList &&
    (Sp.tok 4).eval (offs f) == opSpan && bsp.eval (offs f) == whole && bsp == .merge csp (.tok 5)
  | _ => false

example : isCallPlus (fe "f(x)+1") (4, 5) (0, 6) = true ∧ isCallPlus (fe "f( x ) /*c*/ + 1") (13, 14) (0, 16) = true := by decide +kernel

/-- error recovery: `let ( = ) )` still lowers (a `let` of the empty tuple pattern to `Expr::Error`), with four parser errors -/
example :
    (match (fe "let ( = ) )").prog with
     | [(.global (.let_ (.tuple []) (.unknown _) (.error .zero)), _)] => true
     | _ => false) = true ∧ (fe "let ( = ) )").parse.errs.length = 4 := by decide +kernel

/-- `(a)` lowers to the variable `a` with the span of `a` alone (1..2); the statement spans 0..3 -/
example :
    (match (fe "(a)").prog with
     | [(.global (.single (.var a sp)), ssp)] => a == "a".toList && sp.eval (offs (fe "(a)")) == (1, 2) && ssp.eval (offs (fe "(a)")) == (0, 3)
     | _ => false) = true := by decide +kernel

end Mimium.Props.C16
