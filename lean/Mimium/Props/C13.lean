import Mimium.Proofs.LexerTiling
import Mimium.Proofs.PreparseNeighbour
import Mimium.Proofs.CstBuilder
import Mimium.Proofs.CstGrammar
import Mimium.Proofs.CstGrammarTerm
/-!
# C13 — tokens and syntax tree are lossless over the source text

Models: `Model/Lexer.lean` (tokenizer loop incl. `split_projection_float_tokens`; text = `List Char`, positions = UTF-8 byte
offsets), `Model/Preparse.lean` (literal port of `preparse`, plus one ghost field), `Model/CstBuilder.lean` (builder stack,
`bump`, `Parser::parse`'s outer loop; grammar functions abstracted to sequences of primitives).

PROVED here, for every input text `s : List Char`, every character classification `C` (XID start/continue — external to the
model) and every token table `T` with the decidable side condition `TablesOk` (re-`decide`d on the tables re-extracted from
`/repo`: `C13_generated_tables_ok`):
* totality (`C13_step_consumes`, `C13_loop_total`, `C13_loop_is_recursion_on_remaining_input`);
* tiling (`C13_tokens_contiguous`, `C13_tokens_end_marker`, `C13_tokens_on_char_boundaries`, `C13_tokens_concat_is_source`),
  the splitter preserves it (`C13_split_preserves_tiling`);
* for every kind sequence: `token_indices` = the syntax tokens in order (`C13_token_indices_are_syntax_tokens`); each trivia token
  is attached exactly once unless it is in the class `dropped` (`C13_trivia_accounting`, `C13_trivia_partition_partial`), the class
  is exact (`C13_dropped_iff_unattached`), attachments go to the neighbouring syntax token (`C13_trivia_attached_to_neighbour`);
  the unrestricted trivia clause is REFUTED on the tokens of `" \na"` (`C13_trivia_attached_counterexample`, finding F7);
* for every bracketed sequence of builder primitives the tree's leaves are the bumped tokens in order, each once
  (`C13_cst_leaves_are_bumped_tokens`); with `Parser::parse`'s loop and any bracket-neutral `parse_statement`, all of
  `token_indices` (`C13_cst_has_every_syntax_token_once`, `C13_pipeline_cst_lossless`).

* for the REAL grammar — `Model/CstGrammar.lean`, a literal port of every grammar function of `cst_parser.rs` (73 bodies: 51
  functions + 22 loops, `body : Tag → Cmd`) — and every token list: each grammar function, run from any state, leaves the number of
  open nodes unchanged, keeps "leaves under construction = `token_indices[0..cursor)`" and never moves the cursor back
  (`C13_grammar_is_bracketed`); the tree the ported `parse` returns has as leaves ALL syntax tokens, each once, in source order
  (`C13_real_grammar_cst_lossless`, `C13_real_pipeline_cst_lossless` from the text on) — no "any bracket-neutral grammar"
  hypothesis left.  `C13_grammar_functions_pinned`: the bodies the port was made from are the bodies in `/repo` now (hash of every
  function of `cst_parser.rs`, `SyntaxKind`, `MAX_LOOKAHEAD`, re-extracted on every run).

NOT proved here (tied by the correspondence run and by `tools/extract.py`): that the Rust functions compute what the models
compute — the green tree (node kinds, raw token indices), the error list (index + message) and the relabelled token kinds of the
real `parse_cst` are compared EXACTLY with the port on every case of every stream.  `red.rs` (offsets without trivia) is not modelled.
-/
namespace Mimium.Props.C13
open Mimium.Gen (Kind)
open Mimium.Lexer Mimium.Preparse Mimium.Cst

/-- The side condition holds for the tables currently in `/repo` (regenerated on every run). -/
theorem C13_generated_tables_ok : TablesOk genTables = true := by decide

/-- Totality, step: on non-empty remaining input the loop body consumes at least one and at most all remaining
characters (every alternative of `token_parser`, or the one-character error token). -/
theorem C13_step_consumes (C : Classes) (T : Tables) (ok : TablesOk T = true) (cs : List Char) (h : cs ≠ []) :
    1 ≤ (lexStep C T cs).2 ∧ (lexStep C T cs).2 ≤ cs.length :=
  let ⟨a, b, _⟩ := lexStep_progress (tablesOk_iff T ok) C cs h
  ⟨a, b⟩

/-- Totality, loop: the number of iterations never exceeds the number of remaining characters — any fuel at least
that large gives the same token list, and that list covers the whole input. -/
theorem C13_loop_total (C : Classes) (T : Tables) (ok : TablesOk T = true) (cs : List Char) (fuel : Nat)
    (h : cs.length ≤ fuel) :
    lexLoop C T fuel cs = lex C T cs ∧ (lex C T cs).flatMap (·.text) = cs :=
  ⟨lexLoop_fuel (tablesOk_iff T ok) C fuel cs h cs.length (Nat.le_refl _),
   (lexLoop_spec (tablesOk_iff T ok) C cs.length cs (Nat.le_refl _)).1⟩

/-- Totality, as the statement asks for it: the loop written as plain recursion on the remaining input (`lexWF`) is accepted
by Lean's termination checker (measure: remaining length; decrease: `C13_step_consumes`), and the executable model
computes the same token list. -/
theorem C13_loop_is_recursion_on_remaining_input (C : Classes) (T : Tables) (ok : TablesOk T = true) (cs : List Char) :
    lexWF C T ok cs = lex C T cs :=
  lexWF_eq_lex C T ok cs.length cs (Nat.le_refl _)

/-- The splitter (`split_projection_float_tokens`) preserves tiling: for ANY lexeme list and any previous kind the
concatenation of texts is unchanged, and non-empty non-`Eof` pieces stay non-empty non-`Eof`. -/
theorem C13_split_preserves_tiling (ls : List Lexeme) (prev : Option Kind) :
    (splitProj prev ls).flatMap (·.text) = ls.flatMap (·.text) ∧
    ((∀ l ∈ ls, l.text ≠ [] ∧ l.kind ≠ Kind.Eof) → ∀ l ∈ splitProj prev ls, l.text ≠ [] ∧ l.kind ≠ Kind.Eof) :=
  ⟨splitProj_texts ls prev, splitProj_nonempty ls prev⟩

/-- TILING 1: tokens are contiguous from byte 0, in order, non-overlapping (each starts where the previous ends). -/
theorem C13_tokens_contiguous (C : Classes) (T : Tables) (ok : TablesOk T = true) (s : List Char) :
    Contig 0 (tokenize C T s) := by
  have ⟨a, _⟩ := lexemes_spec C T ok s
  unfold tokenize
  apply toTokens_contig
  rw [a]; simp [Contig]

/-- TILING 2: the last token is the end marker at `(len s, 0)`; every other token is not an end marker and is non-empty
(so starts are strictly increasing). -/
theorem C13_tokens_end_marker (C : Classes) (T : Tables) (ok : TablesOk T = true) (s : List Char) :
    (tokenize C T s).getLast? = some ⟨Kind.Eof, utf8Len s, 0⟩ ∧
    ∀ t ∈ (tokenize C T s).dropLast, t.kind ≠ Kind.Eof ∧ 0 < t.len := by
  have ⟨_, b⟩ := lexemes_spec C T ok s
  unfold tokenize
  refine ⟨by simp, ?_⟩
  intro t ht
  rw [List.dropLast_concat] at ht
  obtain ⟨l, hl, e1, e2⟩ := toTokens_mem _ _ t ht
  have ⟨n1, n2⟩ := b l hl
  exact ⟨by rw [e1]; exact n2, by rw [e2]; exact utf8Len_pos n1⟩

/-- TILING 3: every token starts and ends on a character boundary of `s`. -/
theorem C13_tokens_on_char_boundaries (C : Classes) (T : Tables) (ok : TablesOk T = true) (s : List Char) :
    ∀ t ∈ tokenize C T s, IsBoundary s t.start ∧ IsBoundary s t.stop := by
  have ⟨a, _⟩ := lexemes_spec C T ok s
  intro t ht
  unfold tokenize at ht
  rw [List.mem_append] at ht
  rcases ht with ht | ht
  · have := toTokens_boundary (splitProj none (lex C T s)) [] [] t (by simpa [utf8Len] using ht)
    simpa [a] using this
  · simp at ht; subst ht
    exact ⟨⟨s, List.prefix_refl s, rfl⟩, ⟨s, List.prefix_refl s, by simp [Token.stop]⟩⟩

/-- TILING 4 (lossless): concatenating `Token::text` of all tokens reproduces the input. -/
theorem C13_tokens_concat_is_source (C : Classes) (T : Tables) (ok : TablesOk T = true) (s : List Char) :
    ((tokenize C T s).map (·.text s)).flatten = s := by
  have ⟨a, _⟩ := lexemes_spec C T ok s
  unfold tokenize
  have h := toTokens_texts (splitProj none (lex C T s)) [] []
  simp only [utf8Len, List.nil_append, List.append_nil, a] at h
  rw [List.map_append, h]
  simp only [List.map_cons, List.map_nil, Token.text, takeBytes_zero, List.flatten_append]
  have : ((splitProj none (lex C T s)).map (·.text)).flatten = texts (splitProj none (lex C T s)) := by
    simp [texts, List.flatMap]
  rw [this, a]; simp


/-! ## Trivia attachment (`preparse`).  `preparse` reads only token kinds, so the theorems quantify over ALL kind lists. -/

/-- `token_indices` lists exactly the syntax tokens (neither trivia nor `Eof`), each once, in source order. -/
theorem C13_token_indices_are_syntax_tokens (ks : List Kind) :
    (preparse ks).tokenIndices.Pairwise (· < ·) ∧
    ∀ x, x ∈ (preparse ks).tokenIndices ↔ x < ks.length ∧ isSyntax (ks.getD x Kind.Eof) = true := by
  rw [preparse_tokenIndices]
  refine ⟨syntaxIndices_pairwise ks 0, fun x => ?_⟩
  rw [mem_syntaxIndices]; simp

/-- Accounting: a token index occurs in the two trivia maps together exactly once if it is a trivia token outside the
class `dropped`, and never otherwise (never twice, never a syntax token, never out of range). -/
theorem C13_trivia_accounting (ks : List Kind) (x : Nat) :
    (preparse ks).attachCount x + (if dropped ks x = true then 1 else 0) =
      if x < ks.length ∧ (ks.getD x Kind.Eof).isTrivia = true then 1 else 0 :=
  attach_count ks x

/-- PARTIAL form of the trivia clause (the part that holds): every trivia token outside `dropped` is attached exactly once. -/
theorem C13_trivia_partition_partial (ks : List Kind) (x : Nat) (hx : x < ks.length)
    (ht : (ks.getD x Kind.Eof).isTrivia = true) (hd : dropped ks x = false) :
    (preparse ks).attachCount x = 1 := by
  have := attach_count ks x
  simp only [hd, Bool.false_eq_true, if_false, hx, ht, and_self, if_true, Nat.add_zero] at this
  exact this

/-- The exception is characterised exactly, in both directions: a trivia token is attached to nothing iff it is in
`dropped` (no syntax token before it, and a line break — or the end of the token list — comes before the next syntax token). -/
theorem C13_dropped_iff_unattached (ks : List Kind) (x : Nat) (hx : x < ks.length)
    (ht : (ks.getD x Kind.Eof).isTrivia = true) :
    (preparse ks).attachCount x = 0 ↔ dropped ks x = true := by
  have := attach_count ks x
  simp only [hx, ht, and_self, if_true] at this
  by_cases hd : dropped ks x = true
  · simp only [hd, if_true] at this; simp [hd]; omega
  · simp only [hd, Bool.false_eq_true, if_false] at this; simp [hd]; omega

/-- Every attachment is to the neighbouring syntax token: a trailing entry `(k, x)` lies after the `k`-th syntax token with
no syntax token in between; a leading entry belongs to the first syntax token and precedes it with none in between. -/
theorem C13_trivia_attached_to_neighbour (ks : List Kind) :
    (∀ k x, (k, x) ∈ (preparse ks).trailing.pairs →
      ∃ t, (preparse ks).tokenIndices[k]? = some t ∧ t < x ∧ x < ks.length ∧
        ∀ j, t < j → j ≤ x → isSyntax (ks.getD j Kind.Eof) = false) ∧
    (∀ k x, (k, x) ∈ (preparse ks).leading.pairs →
      k = 0 ∧ ∃ t, (preparse ks).tokenIndices[0]? = some t ∧ x < t ∧
        ∀ j, x ≤ j → j < t → isSyntax (ks.getD j Kind.Eof) = false) :=
  ⟨trailing_no_syntax_between ks, leading_no_syntax_before ks⟩

/-- The full trivia clause of C13 is FALSE for the pinned code (finding F7): on the tokens of `" \na"`
(`Whitespace LineBreak Ident Eof`) the whitespace and the line break are attached to nothing although a syntax token follows. -/
theorem C13_trivia_attached_counterexample :
    (tokenize ⟨fun c => c == 'a', fun c => c == 'a'⟩ genTables " \na".toList).map Token.kind =
      [.Whitespace, .LineBreak, .Ident, .Eof] ∧
    (preparse [.Whitespace, .LineBreak, .Ident, .Eof]).attachCount 0 = 0 ∧
    (preparse [.Whitespace, .LineBreak, .Ident, .Eof]).attachCount 1 = 0 ∧
    ¬ (∀ (ks : List Kind) (x : Nat), x < ks.length → (ks.getD x Kind.Eof).isTrivia = true → (preparse ks).attachCount x = 1) := by
  refine ⟨by decide +kernel, by decide +kernel, by decide +kernel, ?_⟩
  intro h
  have := h [.Whitespace, .LineBreak, .Ident, .Eof] 0 (by decide) (by decide)
  revert this
  decide +kernel

/-! ## Concrete syntax tree: the builder discipline -/

/-- For EVERY sequence of builder/parser primitives that is bracketed (never closes the `Program` node, ends with only it
open), the tree returned by the final `finish_node` has as token leaves exactly `token_indices[0 .. current)`, in order,
each once, where `current` = number of `bump`s. -/
theorem C13_cst_leaves_are_bumped_tokens (E : Env) (hE : EnvOk E) (ops : List Op) (hb : bracketed 1 ops = some 1) :
    ∃ g, (exec E (run E ⟨[⟨0, []⟩], 0, none⟩ ops) .finishNode).root = some g ∧
      g.leaves = E.tokenIndices.take (ops.count .bump) ∧
      (exec E (run E ⟨[⟨0, []⟩], 0, none⟩ ops) .finishNode).stack = [] := by
  have h0 : Inv E ⟨[⟨0, []⟩], 0, none⟩ := by simp [Cst.Inv, stackLeaves, leavesL]
  have ⟨r1, _, r3, _, r5⟩ := run_spec E hE ops ⟨[⟨0, []⟩], 0, none⟩ 1 hb (by simp) h0
  generalize run E ⟨[⟨0, []⟩], 0, none⟩ ops = st at r1 r3 r5
  obtain ⟨stack, current, root⟩ := st
  match stack, r1 with
  | [f], _ =>
    refine ⟨.node f.kind f.children, by simp [exec], ?_, by simp [exec, pushChild]⟩
    simp only [Cst.Inv, stackLeaves, List.nil_append] at r3
    simp only [Nat.zero_add] at r5
    simp only [Green.leaves, r3, r5]

/-- `Parser::parse` with ANY bracket-neutral `parse_statement`: the loop terminates with the cursor at the end, and the
tree's token leaves are exactly `token_indices` — with `preparse`, every syntax token exactly once, in source order. -/
theorem C13_cst_has_every_syntax_token_once (ks : List Kind) (widths : List Nat) (hw : widths.length = ks.length)
    (stmt : PState → List Op) (hn : Neutral stmt) :
    ∃ g, (parse ⟨widths, (preparse ks).tokenIndices⟩ stmt).root = some g ∧ g.leaves = syntaxIndices 0 ks := by
  let E : Env := ⟨widths, (preparse ks).tokenIndices⟩
  have hE : EnvOk E := by
    intro ti hti
    have := (C13_token_indices_are_syntax_tokens ks).2 ti |>.mp hti
    show ti < widths.length
    omega
  have h0 : Inv E ⟨[⟨0, []⟩], 0, none⟩ := by simp [Cst.Inv, stackLeaves, leavesL]
  have ⟨r1, r2, r3⟩ := parseLoop_spec E hE stmt hn (E.tokenIndices.length + 1) ⟨[⟨0, []⟩], 0, none⟩ rfl h0 (by simp)
  show ∃ g, (exec E (parseLoop E stmt (E.tokenIndices.length + 1) ⟨[⟨0, []⟩], 0, none⟩) .finishNode).root = some g ∧ _
  generalize parseLoop E stmt (E.tokenIndices.length + 1) ⟨[⟨0, []⟩], 0, none⟩ = st at r1 r2 r3
  obtain ⟨stack, current, root⟩ := st
  match stack, r1 with
  | [f], _ =>
    refine ⟨.node f.kind f.children, by simp [exec], ?_⟩
    simp only [Cst.Inv, stackLeaves, List.nil_append] at r2
    simp only [atEnd, decide_eq_true_eq] at r3
    simp only [Green.leaves, r2]
    rw [List.take_of_length_le r3]
    exact preparse_tokenIndices ks

/-- End to end: for every text, the tree built from `tokenize` → `preparse` → `parse` (any bracket-neutral grammar) has as
token leaves exactly the non-trivia, non-`Eof` tokens of the text, each once, in source order. -/
theorem C13_pipeline_cst_lossless (C : Classes) (T : Tables) (s : List Char) (stmt : PState → List Op) (hn : Neutral stmt) :
    ∃ g, (parse ⟨(tokenize C T s).map Token.len, (preparse ((tokenize C T s).map Token.kind)).tokenIndices⟩ stmt).root = some g ∧
      g.leaves = syntaxIndices 0 ((tokenize C T s).map Token.kind) :=
  C13_cst_has_every_syntax_token_once _ _ (by simp) stmt hn

/-! ## The real grammar (`Model/CstGrammar.lean`) -/

open Mimium.Grammar in
/-- The port is a port of what is in `/repo` now: every function of `cst_parser.rs` has the body hash of the reviewed list
`tools/cst_grammar.json`, and `SyntaxKind` / `MAX_LOOKAHEAD` are unchanged.  ANY edit of a grammar function breaks this `decide`. -/
theorem C13_grammar_functions_pinned :
    Mimium.Gen.grammarFns = Mimium.Gen.grammarFnsPinned ∧ Mimium.Gen.syntaxKindsNow = Mimium.Gen.syntaxKindsPinned ∧
    Mimium.Gen.maxLookahead = Mimium.Gen.maxLookaheadPinned := by decide

open Mimium.Grammar in
/-- EVERY grammar function / loop of the port (`t : Tag`), with any fuel, from any parser state with at least one open node in
which the leaves under construction are the tokens bumped so far: the same number of nodes is open afterwards (every `start_node*`
has its `finish_node`, the enclosing node is never closed), the leaves under construction are again exactly
`token_indices[0 .. cursor)` — so the nodes it added have the leaves `token_indices[cursor_before .. cursor_after)` in order —, and
the cursor did not move back.  (`Env.Ok`: `token_indices` points inside the token array; true for `preparse`.) -/
theorem C13_grammar_is_bracketed (E : Grammar.Env) (hE : Grammar.Env.Ok E) (fuel : Nat) (t : Grammar.Tag) (s : Grammar.St)
    (h1 : 1 ≤ s.b.stack.length) (hinv : Cst.Inv E.cst s.b) :
    (go E fuel t s).b.stack.length = s.b.stack.length ∧ Cst.Inv E.cst (go E fuel t s).b ∧
    s.b.current ≤ (go E fuel t s).b.current :=
  let st := go_good hE fuel t s h1 hinv
  ⟨st.depth, st.inv, st.mono⟩

open Mimium.Grammar in
/-- LOSSLESS, real grammar: for EVERY token list (kinds `ks`, lengths `widths`) the tree returned by the ported `Parser::parse`
(any fuel ≥ `fuelBound (#syntax tokens)`, see `C04_parser_terminates`) has as token leaves exactly the syntax tokens of the list
— neither trivia nor `Eof` —, each once, in source order; and no node is left open. -/
theorem C13_real_grammar_cst_lossless (ks : List Kind) (widths : List Nat) (hw : widths.length = ks.length) (fuel : Nat)
    (hf : fuelBound (preparse ks).tokenIndices.length ≤ fuel) :
    ∃ g, (parse (mkEnv ks widths (preparse ks)) fuel ks.toArray).b.root = some g ∧
      (parse (mkEnv ks widths (preparse ks)) fuel ks.toArray).b.stack = [] ∧
      g.leaves = syntaxIndices 0 ks := by
  have hlen : len (mkEnv ks widths (preparse ks)) = (preparse ks).tokenIndices.length := by simp [len, mkEnv]
  have ⟨_, hoof⟩ := parse_fuel (mkEnv ks widths (preparse ks)) ks.toArray fuel (by rw [hlen]; exact hf)
  obtain ⟨g, h1, h2, _, h4, _⟩ := parse_tokens_spec ks widths hw fuel
  exact ⟨g, h1, h2, h4 hoof⟩

open Mimium.Grammar in
/-- End to end with the real grammar: for every text, `tokenize` → `preparse` → ported `parse` yields a tree whose token leaves
are exactly the non-trivia, non-`Eof` tokens of the text, each once, in source order. -/
theorem C13_real_pipeline_cst_lossless (C : Classes) (T : Tables) (s : List Char) :
    ∃ g, (parseTokens ((tokenize C T s).map Token.kind) ((tokenize C T s).map Token.len)).b.root = some g ∧
      g.leaves = syntaxIndices 0 ((tokenize C T s).map Token.kind) := by
  obtain ⟨g, h1, _, h3⟩ := C13_real_grammar_cst_lossless ((tokenize C T s).map Token.kind) ((tokenize C T s).map Token.len)
    (by simp) _ (Nat.le_refl _)
  exact ⟨g, h1, h3⟩

/-- non-vacuity, real grammar: `fn f(x){ x+1 }` (token kinds of the real tokenizer) — all ten syntax tokens are leaves, in
order, the run is complete and reports no error -/
example :
    let ks : List Kind := [.Function, .Whitespace, .Ident, .ParenBegin, .Ident, .ParenEnd, .BlockBegin, .Whitespace, .Ident, .OpSum,
      .Int, .Whitespace, .BlockEnd, .Eof]
    let r := Grammar.parseTokens ks [2, 1, 1, 1, 1, 1, 1, 1, 1, 1, 1, 1, 1, 0]
    (r.b.root.map Green.leaves = some [0, 2, 3, 4, 5, 6, 8, 9, 10, 12]) ∧ r.oof = false ∧ r.errs = [] ∧
      r.kinds[2]? = some .IdentFunction ∧ r.kinds[4]? = some .IdentParameter := by decide +kernel

/-- non-vacuity on a text with syntax errors, `let ( = ) )`: error recovery skips tokens, yet every syntax token is a leaf -/
example :
    let ks : List Kind := [.Let, .ParenBegin, .Assign, .ParenEnd, .ParenEnd]
    let r := Grammar.parseTokens ks [3, 1, 1, 1, 1]
    (r.b.root.map Green.leaves = some [0, 1, 2, 3, 4]) ∧ r.oof = false ∧ r.errs.length = 4 := by decide +kernel

/-- non-vacuity of the builder theorem: a Pratt-style `start_node_at` wrap keeps the leaves in order -/
example : ((exec ⟨[1, 1, 1], [0, 1, 2]⟩ (run ⟨[1, 1, 1], [0, 1, 2]⟩ ⟨[⟨0, []⟩], 0, none⟩
    [.startNode 1, .bump, .finishNode, .startNodeAt 0 2, .bump, .startNode 1, .bump, .finishNode, .finishNode]) .finishNode).root.map
      Green.leaves) = some [0, 1, 2] := by decide +kernel

/-- non-vacuity: the float-vs-projection split and an unterminated comment, on the generated tables -/
example : (tokenize ⟨fun c => c == 'a', fun c => c == 'a'⟩ genTables "a.0.1/*".toList).map (fun t => (t.kind, t.start, t.len)) =
    [(.Ident, 0, 1), (.Dot, 1, 1), (.Int, 2, 1), (.Dot, 3, 1), (.Int, 4, 1), (.OpDivide, 5, 1), (.OpProduct, 6, 1), (.Eof, 7, 0)] := by
  decide +kernel

end Mimium.Props.C13
