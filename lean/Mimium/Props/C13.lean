import Mimium.Proofs.LexerTiling
/-!
# C13 — tokens and syntax tree are lossless over the source text

Model: `Model/Lexer.lean` (tokenizer incl. `split_projection_float_tokens`), `Model/Preparse.lean`, `Model/CstBuilder.lean`.
All theorems quantify over every input text `s : List Char`, every character classification `C` (XID start/continue,
external to the model) and every token table `T` satisfying the decidable side condition `TablesOk`, which is `decide`d
for the tables re-extracted from `/repo` (`C13_generated_tables_ok`).
-/
namespace Mimium.Props.C13
open Mimium.Gen (Kind)
open Mimium.Lexer

/-- The side condition holds for the tables currently in `/repo` (regenerated on every run). -/
theorem C13_generated_tables_ok : TablesOk genTables = true := by decide

/-- Totality, step: on non-empty remaining input the loop body consumes at least one and at most all remaining
characters (every alternative of `token_parser`, or the one-character error token). -/
theorem C13_step_consumes (C : Classes) (T : Tables) (ok : TablesOk T = true) (cs : List Char) (h : cs ≠ []) :
    1 ≤ (lexStep C T cs).2 ∧ (lexStep C T cs).2 ≤ cs.length :=
  let ⟨a, b, _⟩ := lexStep_progress (tablesOk_iff T ok) C cs h
  ⟨a, b⟩

/-- Totality, loop: the number of iterations never exceeds the number of remaining characters — any fuel at least
that large gives the same token list, and that list covers the whole input. -/
theorem C13_loop_total (C : Classes) (T : Tables) (ok : TablesOk T = true) (cs : List Char) (fuel : Nat)
    (h : cs.length ≤ fuel) :
    lexLoop C T fuel cs = lex C T cs ∧ (lex C T cs).flatMap (·.text) = cs :=
  ⟨lexLoop_fuel (tablesOk_iff T ok) C fuel cs h cs.length (Nat.le_refl _),
   (lexLoop_spec (tablesOk_iff T ok) C cs.length cs (Nat.le_refl _)).1⟩

/-- The splitter (`split_projection_float_tokens`) preserves tiling: for ANY lexeme list and any previous kind the
concatenation of texts is unchanged, and non-empty non-`Eof` pieces stay non-empty non-`Eof`. -/
theorem C13_split_preserves_tiling (ls : List Lexeme) (prev : Option Kind) :
    (splitProj prev ls).flatMap (·.text) = ls.flatMap (·.text) ∧
    ((∀ l ∈ ls, l.text ≠ [] ∧ l.kind ≠ Kind.Eof) → ∀ l ∈ splitProj prev ls, l.text ≠ [] ∧ l.kind ≠ Kind.Eof) :=
  ⟨splitProj_texts ls prev, splitProj_nonempty ls prev⟩

/-- TILING 1: tokens are contiguous from byte 0, in order, non-overlapping (each starts where the previous ends). -/
theorem C13_tokens_contiguous (C : Classes) (T : Tables) (ok : TablesOk T = true) (s : List Char) :
    Contig 0 (tokenize C T s) := by
  have ⟨a, _⟩ := lexemes_spec C T ok s
  unfold tokenize
  apply toTokens_contig
  rw [a]; simp [Contig]

/-- TILING 2: the last token is the end marker at `(len s, 0)`; every other token is not an end marker and is non-empty
(so starts are strictly increasing). -/
theorem C13_tokens_end_marker (C : Classes) (T : Tables) (ok : TablesOk T = true) (s : List Char) :
    (tokenize C T s).getLast? = some ⟨Kind.Eof, utf8Len s, 0⟩ ∧
    ∀ t ∈ (tokenize C T s).dropLast, t.kind ≠ Kind.Eof ∧ 0 < t.len := by
  have ⟨_, b⟩ := lexemes_spec C T ok s
  unfold tokenize
  refine ⟨by simp, ?_⟩
  intro t ht
  rw [List.dropLast_concat] at ht
  obtain ⟨l, hl, e1, e2⟩ := toTokens_mem _ _ t ht
  have ⟨n1, n2⟩ := b l hl
  exact ⟨by rw [e1]; exact n2, by rw [e2]; exact utf8Len_pos n1⟩

/-- TILING 3: every token starts and ends on a character boundary of `s`. -/
theorem C13_tokens_on_char_boundaries (C : Classes) (T : Tables) (ok : TablesOk T = true) (s : List Char) :
    ∀ t ∈ tokenize C T s, IsBoundary s t.start ∧ IsBoundary s t.stop := by
  have ⟨a, _⟩ := lexemes_spec C T ok s
  intro t ht
  unfold tokenize at ht
  rw [List.mem_append] at ht
  rcases ht with ht | ht
  · have := toTokens_boundary (splitProj none (lex C T s)) [] [] t (by simpa [utf8Len] using ht)
    simpa [a] using this
  · simp at ht; subst ht
    exact ⟨⟨s, List.prefix_refl s, rfl⟩, ⟨s, List.prefix_refl s, by simp [Token.stop]⟩⟩

/-- TILING 4 (lossless): concatenating `Token::text` of all tokens reproduces the input. -/
theorem C13_tokens_concat_is_source (C : Classes) (T : Tables) (ok : TablesOk T = true) (s : List Char) :
    ((tokenize C T s).map (·.text s)).flatten = s := by
  have ⟨a, _⟩ := lexemes_spec C T ok s
  unfold tokenize
  have h := toTokens_texts (splitProj none (lex C T s)) [] []
  simp only [utf8Len, List.nil_append, List.append_nil, a] at h
  rw [List.map_append, h]
  simp only [List.map_cons, List.map_nil, Token.text, takeBytes_zero, List.flatten_append]
  have : ((splitProj none (lex C T s)).map (·.text)).flatten = texts (splitProj none (lex C T s)) := by
    simp [texts, List.flatMap]
  rw [this, a]; simp

/-- non-vacuity: the float-vs-projection split and an unterminated comment, on the generated tables -/
example : (tokenize ⟨fun c => c == 'a', fun c => c == 'a'⟩ genTables "a.0.1/*".toList).map (fun t => (t.kind, t.start, t.len)) =
    [(.Ident, 0, 1), (.Dot, 1, 1), (.Int, 2, 1), (.Dot, 3, 1), (.Int, 4, 1), (.OpDivide, 5, 1), (.OpProduct, 6, 1), (.Eof, 7, 0)] := by
  decide +kernel

end Mimium.Props.C13
