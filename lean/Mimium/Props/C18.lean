import Mimium.Proofs.RustGen
import Mimium.Proofs.MirExample
import Mimium.Proofs.MirLayout
import Mimium.Proofs.MirCfg
/-!
# C18 — generated Rust code behaves like the VM   (level: PARTIAL)

The statement "for every program of the supported subset the emitted Rust builds and prints the VM's samples; programs
outside are refused" is decided by the correspondence stage of the check (translation validation: real `emit_rust`,
real `rustc`, the binary's words against the VM and against the Lean reference evaluator of the core language).

What is a theorem here, for ALL inputs, is the logic the generated code rests on and that no per-fixture test fixes:

* `C18_dispatch_loop_eq_cfg` — for EVERY graph of basic blocks (`JmpIf`, `Jmp`, `Switch`, `Phi`, `PhiSwitch`, returns,
  any non-control instructions, well formed or not) that `RustGenerator` accepts, every abstract machine state and
  every number of steps, the emitted `loop { match bb { … } }` with its `pred_bb` bookkeeping, the dead code after
  terminators, the `_ => panic!` arms, the fall-through tails computed by the imperative range fill
  `collect_fallthrough_edges`, and the straight-line special case reach exactly the configuration (block, predecessor
  arm, state / returned value / panic) that small-step execution of the block graph reaches (`Model/RustGen.lean`:
  `encode`, `runBody`, `runCfg`).
* `C18_dispatch_loop_terminates` — without back edges (`forward`, checked on every real MIR function) the emitted loop
  returns or panics within `length + 1` iterations, whatever the instructions do.
* `C18_fallthrough_arm_is_innermost` — in the block layout mirgen produces (arms properly nested, outer branch
  visited before inner; the executable predicate `nested`, evaluated on the MIR of every generated program by the
  check) the arm that `runCfg` lets a terminator-less block fall out of is the innermost enclosing `if`/`match` arm.
* `C18_mirgen_layout_nested` — that premise is itself a theorem about the block numbering `mirgen.rs` gives to `if` and
  `match` expressions nested to any depth (`Model/MirLayout.lean`).
* `C18_embedded_state_eq_vm_state` — the `StateStorage` pasted into every generated program (template) computes, for
  every trace of state operations that stays inside the VM's storage, the VM's outputs and the VM's storage
  (`vmStep` of `Model/StateMachine.lean`), and never grows it; `C18_embedded_state_eq_wasm_host`: it is the WASM host's
  step function wherever the host's delay guards do not fire; `C18_zero_delay_grows_only_storage`: the one place
  where it differs from the VM inside bounds (a zero-length delay) changes no output and no cursor.

* `C18_cfg_run_is_mir_run` / `C18_fn_run_is_dispatch_loop` (added with the MIR semantics `Model/Mir.lean`) — `op k` need no
  longer be opaque: instantiating the abstract `Sem` with the MIR instruction semantics (`Mir.mirSem`: `op k` = instruction
  `k` of the function, calls run the callee, state instructions are `vmStep`), the emitted dispatch loop computes, for every
  function, every state and every fuel, exactly what the block-step MIR semantics (`Mir.runBlocksM`, the one that is run
  against the VM on every generated program) computes; and one call of a function in the MIR semantics (`Mir.runFn`) IS the
  dispatch loop of its control skeleton started in the entered frame.

NOT proved: rustgen's per-instruction lowering (that the TEXT emitted for instruction `k` means `Mir.stepIns`), the ABI
packing, closures, memory handles, rustc.
-/
namespace Mimium.RustGen
open Mimium.StateMachine

/-- fuel-indexed bisimulation: the emitted dispatch loop and the block graph reach the same configuration after every
number of block executions, from every machine state, under every interpretation of the non-control instructions -/
theorem C18_dispatch_loop_eq_cfg {σ ρ : Type} (S : Sem σ ρ) (bs : Cfg) (body : Body)
    (h : encode bs = some body) (n : Nat) (s : σ) :
    runBody S body n s = runCfg S bs n 0 0 s := by
  unfold encode at h
  split at h
  · simp at h
  · rename_i henc
    have hphi : allIdx (fun bi b => b.all (Ins.phiOk ((blockPreds bs).getD bi []))) 0 bs = true := by
      have henc' : encodable bs = true := by simpa using henc
      simp only [encodable, Bool.and_eq_true] at henc'
      exact henc'.2
    split at h
    · rename_i hs
      -- straight-line function: one block, no branch instruction
      split at h
      · rename_i b
        simp only [Option.some.injEq] at h
        subst h
        have hall : b.all (fun i => !i.isBranchy) = true := by simpa [isStraight] using hs
        have hok : ∀ i ∈ b, i.phiOk ((blockPreds [b]).getD 0 []) = true := by
          have := allIdx_getElem? _ [b] 0 0 b hphi rfl
          simpa using this
        cases n with
        | zero => rfl
        | succ n =>
          simp only [runBody, runCfg, List.getElem?_cons_zero, arms_straight b hall]
          rw [execBlock_eq_K, execArm_enc S _ 0 _ b hok]
          have hK : execBlockK S ((blockPreds [b]).getD 0 []) 0
                (fun p s' => execArm S (if canFall b = true then [RS.panic] else []) 0 p s') b 0 s
              = execBlockK S ((blockPreds [b]).getD 0 []) 0 (fun _ _ => Flow.panic) b 0 s := by
            by_cases hc : canFall b = true
            · simp [hc, execArm]
            · have hc' : canFall b = false := by simpa using hc
              exact execBlockK_irrel S _ 0 _ _ b hc' 0 s
          have hF : (fallOff [] 0 : Nat → σ → Flow σ ρ) = fun _ _ => Flow.panic := by
            funext p s'; simp [fallOff, lastContaining]
          rw [hK, hF]
          have hne := execBlockK_straight S ((blockPreds [b]).getD 0 []) 0 b hall 0 s
          cases hx : execBlockK S ((blockPreds [b]).getD 0 []) 0 (fun _ _ => Flow.panic) b 0 s with
          | next bb p s' => exact absurd hx (hne bb p s')
          | ret r => rfl
          | panic => rfl
      · simp at h
    · simp only [Option.some.injEq] at h
      subst h
      cases n with
      | zero => rfl
      | succ n =>
        simp only [runBody, Gen.rustLoopInitBb, Gen.rustLoopInitPred]
        exact runLoop_eq_runCfg S bs hphi (n + 1) 0 0 s

/-- MIR has no back edges (`forward`, evaluated on the MIR of every generated function by the check): the emitted `loop`
cannot spin — after at most `length + 1` iterations the generated function has returned or panicked -/
theorem C18_dispatch_loop_terminates {σ ρ : Type} (S : Sem σ ρ) (bs : Cfg) (body : Body)
    (h : encode bs = some body) (hf : forward bs = true) (s : σ) (bb p : Nat) (s' : σ) :
    runBody S body (bs.length + 1) s ≠ .more bb p s' := by
  rw [C18_dispatch_loop_eq_cfg S bs body h]
  exact runCfg_terminates S bs hf bs.length 0 (by omega) 0 s bb p s'

/-- in a properly nested layout the arm in force at a block (the last one the range fill visited) lies inside every
other arm that contains the block: it is the innermost enclosing arm -/
theorem C18_fallthrough_arm_is_innermost (bs : Cfg) (hn : nested bs = true) (b : Nat) (a : Arm)
    (h : lastContaining (arms bs) b = some a) :
    a ∈ arms bs ∧ a.contains b = true ∧ ∀ a' ∈ arms bs, a'.contains b = true → a.inside a' = true := by
  have key : ∀ (as : List Arm), nestedArms as = true → ∀ a, lastContaining as b = some a →
      a ∈ as ∧ a.contains b = true ∧ ∀ a' ∈ as, a'.contains b = true → a.inside a' = true := by
    intro as
    induction as with
    | nil => intro _ a h; simp [lastContaining] at h
    | cons x xs ih =>
      intro hn a h
      simp only [nestedArms, Bool.and_eq_true, List.all_eq_true] at hn
      simp only [lastContaining] at h
      cases hl : lastContaining xs b with
      | some y =>
        rw [hl] at h
        simp only [Option.some.injEq] at h
        subst h
        obtain ⟨hm, hc, hin⟩ := ih hn.2 y hl
        refine ⟨List.mem_cons_of_mem _ hm, hc, ?_⟩
        intro a' ha' hca'
        rcases List.mem_cons.mp ha' with rfl | ha'
        · -- the earlier arm x contains b, y (later) contains b: not disjoint, hence y inside x
          have := hn.1 y hm
          simp only [Bool.or_eq_true] at this
          rcases this with hd | hi
          · simp only [Arm.disjoint, Arm.contains, Bool.or_eq_true, Bool.and_eq_true, decide_eq_true_eq] at hd hc hca'
            omega
          · exact hi
        · exact hin a' ha' hca'
      | none =>
        simp only [hl] at h
        split at h
        · rename_i hc
          simp only [Option.some.injEq] at h
          subst h
          refine ⟨List.mem_cons_self .., hc, ?_⟩
          intro a' ha' hca'
          rcases List.mem_cons.mp ha' with rfl | ha'
          · simp [Arm.inside]
          · -- no later arm contains b
            exfalso
            have hnone : ∀ (ys : List Arm), lastContaining ys b = none → ∀ y ∈ ys, y.contains b = false := by
              intro ys
              induction ys with
              | nil => intro _ y hy; simp at hy
              | cons z zs ihz =>
                intro hz y hy
                simp only [lastContaining] at hz
                cases hzz : lastContaining zs b with
                | some w => rw [hzz] at hz; simp at hz
                | none =>
                  rw [hzz] at hz
                  rcases List.mem_cons.mp hy with rfl | hy
                  · cases hcy : y.contains b with
                    | true => simp [hcy] at hz
                    | false => rfl
                  · exact ihz hzz y hy
            have := hnone xs hl a' ha'
            rw [this] at hca'
            exact Bool.noConfusion hca'
        · simp at h
  exact key (arms bs) hn a h

/-- the premise is a theorem for the block numbering of `mirgen.rs`: every nesting of `if` and `match` expressions, to any
depth, evaluated from any block, yields properly nested arms in the order the generator visits them
(`Model/MirLayout.lean`; the check compares `lay` with the arms of the real MIR of every generated function) -/
theorem C18_mirgen_layout_nested (sh : Sh) (cur : Nat) : nestedArms (lay sh cur).arms = true :=
  (lay_ok sh cur).nest

/-- together: in every function whose arms are those of an `if`/`match` nesting numbered by mirgen, a block without
terminator falls out of the innermost arm that encloses it -/
theorem C18_mirgen_fallthrough_innermost (bs : Cfg) (sh : Sh) (hl : arms bs = (lay sh 0).arms) (b : Nat) (a : Arm)
    (h : lastContaining (arms bs) b = some a) :
    a ∈ arms bs ∧ a.contains b = true ∧ ∀ a' ∈ arms bs, a'.contains b = true → a.inside a' = true :=
  C18_fallthrough_arm_is_innermost bs (by simp [nested, hl, (lay_ok sh 0).nest]) b a h

/-- … all its arms are non-empty, lie after the block it starts in, end at or before the block it finishes in, and merge
at or after their end (the arm part of `forward`) -/
theorem C18_mirgen_layout_bounds (sh : Sh) (cur : Nat) :
    cur ≤ (lay sh cur).cur ∧
    ∀ a ∈ (lay sh cur).arms, cur < a.start ∧ a.start < a.stop ∧ a.stop ≤ a.merge ∧ a.stop ≤ (lay sh cur).cur :=
  ⟨(lay_ok sh cur).le, fun a ha =>
    ⟨((lay_ok sh cur).bnd a ha).1, ((lay_ok sh cur).fw a ha).1, ((lay_ok sh cur).fw a ha).2, ((lay_ok sh cur).bnd a ha).2⟩⟩

/-- the emitted fall-through tail of block `b` is exactly that arm: `pred_bb = arm.start; bb = arm.merge; continue` -/
theorem C18_fallthrough_edge_is_last_arm (bs : Cfg) (b : Nat) (hb : b < bs.length) :
    edgeAt (fallEdges bs) b = (lastContaining (arms bs) b).map (fun a => (a.merge, a.start)) :=
  edgeAt_fallEdges bs b hb

/-- the state scaffold embedded in generated Rust follows the VM's step function on every in-bounds trace -/
theorem C18_embedded_state_eq_vm_state (ops : List SOp) (s s' : St) (o : List UInt64)
    (hz : noZeroDelay ops = true) (h : vmRun s ops = some (s', o)) : rustRun s ops = (s', o) :=
  rust_run_agree ops s s' o hz h

/-- one operation -/
theorem C18_embedded_state_step (s s' : St) (op : SOp) (o : List UInt64) (hz : ∀ x t, op ≠ .delay 0 x t)
    (h : vmStep s op = some (s', o)) : rustStep s op = (s', o) :=
  rust_step_agree s s' op o hz h

/-- … and is the WASM host's step function wherever the host's delay guards do not fire -/
theorem C18_embedded_state_eq_wasm_host (s : St) (op : SOp)
    (hd : ∀ len x t, op = .delay len x t → len ≠ 0 ∧ len ≤ maxWasmDelay) : rustStep s op = wasmStep s op :=
  rust_step_eq_wasm s op hd

/-- a zero-length delay: the VM touches nothing, the template first grows the storage by the two index words;
output and cursor agree -/
theorem C18_zero_delay_grows_only_storage (s : St) (x t : UInt64) :
    vmStep s (.delay 0 x t) = some (s, [0]) ∧
    rustStep s (.delay 0 x t) = (⟨s.pos, grow s.data (s.pos + 2)⟩, [0]) := by
  simp [vmStep, rustStep, ensure, Gen.rustDelayExtraWords]

/-! non-vacuity -/

/-- `if c { if d {A} else {B} } else {C}` as mirgen lays it out: blocks 0..6, inner merge 4 falls to outer merge 6 -/
def exNested : Cfg :=
  [[.op 0, .jmpIf 1 1 5 6],
   [.op 1, .jmpIf 2 2 3 4],
   [.op 2],
   [.op 3],
   [.phi 10 11 12, .op 4],
   [.op 5],
   [.phi 20 10 13, .ret 20]]

example : nested exNested = true ∧ forward exNested = true ∧ (encode exNested).isSome = true ∧
    fallEdges exNested = [none, some (6, 1), some (4, 2), some (4, 3), some (6, 1), some (6, 5), none] ∧
    blockPreds exNested = [[], [0], [1], [1], [2, 3], [0], [1, 5]] := by
  decide +kernel

example : (lay (.ite .leaf (.ite .leaf .leaf .leaf) .leaf) 0).arms = arms exNested := by decide +kernel

/-- a concrete machine: the state is the trace of executed ops and moves; condition `c` is true iff `c` is odd -/
def exSem : Sem (List (Nat × Nat)) (List (Nat × Nat)) :=
  { op := fun k s => some (s ++ [(0, k)]), truthy := fun c _ => c % 2 == 1, scrut := fun c _ => c,
    move := fun d v s => s ++ [(d, v)], result := fun v s => s ++ [(99, v)] }

example :
    (encode exNested).map (fun b => runBody exSem b 10 []) =
      some (.ret [(0, 0), (0, 1), (0, 3), (10, 12), (0, 4), (20, 10), (99, 20)]) ∧
    runCfg exSem exNested 10 0 0 [] = .ret [(0, 0), (0, 1), (0, 3), (10, 12), (0, 4), (20, 10), (99, 20)] := by
  decide +kernel

/-- a `Switch` with three cases and a default, and a straight-line function -/
example :
    let sw : Cfg := [[.switch 5 [(0, 1), (1, 2)] (some 3) 4], [.op 1], [.op 2], [.op 3], [.phiSwitch 9 [1, 2, 3], .ret 9]]
    nested sw = true ∧
    fallEdges sw = [none, some (4, 1), some (4, 2), some (4, 3), none] ∧
    runCfg exSem sw 5 0 0 [] = .ret [(0, 3), (9, 3), (99, 9)] ∧
    (encode sw).map (fun b => runBody exSem b 5 []) = some (.ret [(0, 3), (9, 3), (99, 9)]) ∧
    encode [[.op 1, .ret 2]] = some (.straight [.op 1, .ret 2]) ∧
    encode [[.op 1]] = some (.straight [.op 1, .panic]) ∧
    encode [[.phi 1 2 3, .ret 1]] = none := by
  decide +kernel

/-- in-bounds trace through the template's scaffold -/
example :
    let ops := [SOp.get 2, .push 2, .mem 5, .push 1, .delay 3 9 0x3ff0000000000000, .pop 3, .set [4, 4]]
    noZeroDelay ops = true ∧ (vmRun ⟨0, List.replicate 8 0⟩ ops).isSome = true := by
  decide +kernel

/-! ### the abstract instruction semantics instantiated with the MIR semantics -/
section MirInstance
open Mimium.Mir

/-- The dispatch loop emitted for a function's control skeleton, run over the MIR instruction semantics, computes what the
block-step MIR semantics computes on the function's blocks: same returned words and machine state, an error of the MIR
run exactly where the loop panics, the same configuration when the fuel runs out — every program, function, state, fuel. -/
theorem C18_cfg_run_is_mir_run (callF : CallF) (P : Prog) (f : Fn) (hc : f.cacheOk) (body : Body)
    (h : encode f.cfg = some body) (n : Nat) (s : MSt) :
    runBody (mirSem callF P f) body n s = (runBlocksM callF P f n 0 0 s).toOut := by
  rw [C18_dispatch_loop_eq_cfg (mirSem callF P f) f.cfg body h n s, runBlocksM_eq_runCfg callF P f hc n 0 0 s]

/-- One call of function `fi` in the MIR semantics is the emitted dispatch loop of its skeleton, run from the entered frame
with the callee semantics of one unit less fuel; on return the still-open upvalue cells that point into the frame are closed
(`closeFrame` = `Machine::close_frame_upvalues`, /repo bdbbb70). -/
theorem C18_fn_run_is_dispatch_loop (P : Prog) (n fi : Nat) (f : Fn) (hf : P.fns[fi]? = some f) (hc : f.cacheOk) (body : Body)
    (h : encode f.cfg = some body) (ws : List UInt64) (clo : Option Nat) (g : Glob) (st : St) (tr : List Layout.Access) :
    runFn P (n + 1) fi ws clo g st tr =
      match runBody (mirSem (runFn P n) P f) body (f.blocks.length + 1)
          ⟨(enterFrame f fi clo g ws).1, (enterFrame f fi clo g ws).2, st, tr⟩ with
      | .ret (.ok (out, s)) => .ok (out, closeFrame g.mem.size s.g, s.st, s.tr)
      | .ret (.error e) => .error e
      | .panic => (match runBlocksM (runFn P n) P f (f.blocks.length + 1) 0 0
                      ⟨(enterFrame f fi clo g ws).1, (enterFrame f fi clo g ws).2, st, tr⟩ with
                    | .err e => .error e
                    | _ => .error .fuel)
      | .more _ _ _ => .error .fuel := by
  rw [C18_cfg_run_is_mir_run (runFn P n) P f hc body h]
  simp only [runFn, hf]
  cases runBlocksM (runFn P n) P f (f.blocks.length + 1) 0 0
      ⟨(enterFrame f fi clo g ws).1, (enterFrame f fi clo g ws).2, st, tr⟩ with
  | ret r => cases r with
    | ok v => rfl
    | error e => rfl
  | err e => rfl
  | more bb pred s => rfl

end MirInstance


/-! ### non-vacuity on a real dump (`Proofs/MirExample.lean`), kernel-evaluated -/
section MirExample
open Mimium.Mir

/-- the generator accepts the control skeleton (operand checks included) of every function of the example; all are forward and nested -/
example : (exProg.fns.map fun f => (encode f.cfg).isSome && forward f.cfg && nested f.cfg) = [true, true, true, true, true, true] := by
  decide +kernel

/-- so for its `dsp` (an `if` between two stateful calls, a closure call) the emitted dispatch loop IS the MIR run, whatever the callees do -/
example (callF : CallF) :
    exProg.fns[5]? = some exProg_dsp ∧
    ∃ body, encode exProg_dsp.cfg = some body ∧
      ∀ n s, runBody (mirSem callF exProg exProg_dsp) body n s = (runBlocksM callF exProg exProg_dsp n 0 0 s).toOut := by
  refine ⟨rfl, ?_⟩
  have henc : (encode exProg_dsp.cfg).isSome = true := by decide +kernel
  obtain ⟨body, hb⟩ := Option.isSome_iff_exists.mp henc
  exact ⟨body, hb, fun n s => C18_cfg_run_is_mir_run callF exProg _ (Fn.build_cacheOk _ _ _ _ _ _ _ _) body hb n s⟩

end MirExample
end Mimium.RustGen
