import Mimium.Proofs.ModResOrder
import Mimium.Proofs.ModResReexport
/-!
# C17 — Module privacy and name resolution

Property theorems only (helper lemmas live in `Proofs/ModRes.lean`).  Model: `Model/ModRes.lean`, a hand port of the
module flattening of `ast/program.rs` and of the resolution pre-pass `mirgen/convert_qualified_names.rs`, tied to
the compiler by the correspondence run of `./check C17`.

Quantifiers.  Every theorem ranges over **all** walk sequences `evs : List Ev` — a superset of the walks
`events p` of all inline module trees `p : List Item`, any depth, any number of members, any mix of
`fn` / `mod` / `use` / `use {..}` / `use *` / `pub use` / `let` / `pub let` —, over **every use-site position**, given as an arbitrary current
module path `cur` and an arbitrary stack `locals` of lexical scopes, over every set `known` of collected names, and
over **every reference form** `Ref` (plain identifier, qualified path with ≥ 2 segments; the parser lowers a
one-segment path to a plain identifier, `lower.rs`).

What is proved (state of /repo after c6822e4 + 3b64798, which repaired finding F12 — a `pub use` published a private
member —, and after the repair of F12-cycle — a re-export never replaces an existing visibility entry).
* `C17_no_private_route`: in a tree **without duplicate function declarations** — any number of `use` / `pub use` /
  wildcard statements re-exporting anything under any name —, a reference that resolution accepts (no
  `PrivateMemberAccess`) never names a private member of a module that does not enclose the use site.  Layers:
  `C17_no_private_route_vis_faithful` (any tree whose visibility map agrees with the declarations, `visFaithful`,
  decidable per tree), `C17_vis_is_last_declaration` (all trees: at a declared name the map holds the last declaration,
  whatever re-exports there are), `C17_vis_faithful_of_nodup`, `C17_no_private_route_consistent` (sharper: duplicates
  allowed unless a private function shares its name with a `pub` one).
* `C17_reexport_of_private_rejected`, `_self_rejected`, `_ident_rejected`, `_before_decl_rejected`, `_cycle_rejected`: the
  three witnesses of F12, the order-dependent case (re-export standing before the private function; closed by 3b64798
  only) and the witness of F12-cycle (two re-exports naming each other, the second exporting the private function's own
  name) are rejected; `C17_no_private_route_class_boundary`: they and fixture `module_pub_use.mmm` have distinct declared
  names, the witness below has not.
* The unrestricted statement is **still false of the code** (finding F12-dup): `C17_no_private_route_refuted_dup` is a
  machine-checked witness — a reopened module declares a private function's name again, `pub`; no `use` involved —,
  `C17_no_private_route_false` the negated universal statement.  So the hypothesis of `C17_no_private_route` cannot
  simply be dropped, and it is the only one.
* `C17_no_private_route_vismap` / `_vismap_target`: for *all* trees, what the resolver enforces is exactly privacy w.r.t.
  its visibility map — at the name a path denotes and, for every `ModuleInfo` the flattening can build, at the name it
  returns (invariant: a re-exported name is entered in the alias map and has an entry in the visibility map) —, which
  localises the remaining defect: a second *declaration* overwrites the entry of the first.
* `C17_resolves_to_denoted_*`: lookup order (absolute, then relative to the current module; innermost enclosing
  module first for plain identifiers), the flat mangled name space is the tree's path name space, uniqueness.
* `C17_local_shadows_import*`: a lexically bound name is never rewritten, whatever is imported.

* Programs with `let` items (second half of the file; helper lemmas in `Proofs/ModResLet.lean`, `ModResLetPriv.lean`,
  `ModResOrder.lean`).  The resolver walks ONE flattened chain of all items of all modules with a mutable module
  context; `C17_spine_context_is_top_level` / `C17_site_result_is_what_the_pass_computes`: the context is `[]` between
  items and every item is resolved on its own under the context of its own name.
  `C17_item_order_irrelevant_for_privacy` (top-level `let`, any right-hand side, across ANY items that do not bind its
  identifiers), `…_any_item` / `…_member` (functions and lets in any module, across items unrelated to the item's map
  key): same resolved body, same diagnostics, wherever the item stands.  The walk of the pinned tree before /repo
  8a25d9f and the walk of seeded change C17c are machine-checked counterexamples (`C17_item_order_relevant_*`).
  `C17_site_context_is_enclosing_module_*` + `C17_no_private_route_program`: in programs without duplicate
  functions and let-name clashes (`letNamesFresh`), no accepted reference occurrence inside any item names a private
  member of a module that does not enclose the item.  `C17_let_context_by_plain_name_refuted` (finding F12-letctx) and
  `C17_module_let_is_global*`, `C17_let_visibility_ignored` (finding F12-letglobal) say what the code does with
  module-level `let`s instead.

What is not proved here: that `typing.rs` then binds the returned name lexically (definitions are visible only
after their statement) and evaluation — both are only exercised by the correspondence (`Model/ModResIO.lean`).
-/
namespace Mimium.ModRes

/-- For **all** trees and every `ModuleInfo`: what resolution enforces is privacy with respect to its own visibility
map.  For identifiers, at the returned name.  For paths, at the name the path denotes *before* the alias chain is
followed and — since /repo 3b64798 — also at the returned name, whenever the chain moved and the denoted name has an
entry in the map. -/
theorem C17_no_private_route_vismap (info : Info) (known : Sym → Bool) (cur : List Name)
    (locals : List (List Sym)) (r : Ref) (sym : Sym) (hwf : r.wf = true)
    (hres : resolveRef ⟨info, known, cur, locals⟩ r = (sym, [])) :
    match r with
    | .ident _ => get? info.vis sym = some false → 2 ≤ sym.length → sym.dropLast <+: cur
    | .path segs =>
      let checked := (resolveQualifiedPath segs segs cur known).1
      sym = aliasChain info.alias checked ∧ (get? info.vis checked = some false → checked.dropLast <+: cur) ∧
      (sym ≠ checked → (get? info.vis checked).isSome → get? info.vis sym = some false → 2 ≤ sym.length →
        sym.dropLast <+: cur) := by
  cases r with
  | ident x => exact fun hv hl => convertVar_sound ⟨info, known, cur, locals⟩ x sym hres hv hl
  | path segs =>
    exact convertQVar_sound ⟨info, known, cur, locals⟩ segs sym (Ref.wf_path hwf) hres

/-- … and for the `ModuleInfo` of a walk the proviso "the denoted name has an entry" is always met when the chain moved
(a re-exported name is entered in the alias map and in the visibility map together, nothing removes entries): the
**returned** name is checked, for both reference forms, in every tree. -/
theorem C17_no_private_route_vismap_target (evs : List Ev) (known : Sym → Bool) (cur : List Name)
    (locals : List (List Sym)) (r : Ref) (sym : Sym) (hwf : r.wf = true)
    (hres : resolveRef ⟨lowerInfo evs, known, cur, locals⟩ r = (sym, []))
    (hv : get? (lowerInfo evs).vis sym = some false) (hl : 2 ≤ sym.length) : sym.dropLast <+: cur := by
  cases r with
  | ident x => exact convertVar_sound ⟨lowerInfo evs, known, cur, locals⟩ x sym hres hv hl
  | path segs =>
    exact convertQVar_sound_target ⟨lowerInfo evs, known, cur, locals⟩ (lowerInfo_aliasKeysVis evs) segs sym
      (Ref.wf_path hwf) hres hv hl

/-- **no private route**, for every tree whose visibility map is faithful to the declarations (`visFaithful`, a `Bool`
computed per tree) — with any number of re-exports, whatever they lead to.  (Before /repo 3b64798 this needed the second
hypothesis `reexportsPublic`: no re-exported name leads to something marked private.) -/
theorem C17_no_private_route_vis_faithful (evs : List Ev) (h : visFaithful evs = true) : NoPrivateRoute evs := by
  apply noPrivateRoute_of_private_faithful
  intro sym hpriv
  have := List.all_eq_true.mp h _ hpriv.1
  simpa using this

/-- what the visibility map holds, for **all** trees: at every declared function name, the **last declaration** of that
name — whatever `use` / `pub use` statements the tree contains and wherever they stand (a re-export never replaces an
entry, a declaration always does).  So the map is unfaithful only when two declarations share a mangled name. -/
theorem C17_vis_is_last_declaration (evs : List Ev) (s : Sym) (v : Bool)
    (h : get? (fnDecls evs).reverse s = some v) : get? (lowerInfo evs).vis s = some v :=
  lowerInfo_vis_last_decl evs s v h

theorem C17_vis_faithful_of_nodup (evs : List Ev) (hnd : ((fnDecls evs).map (·.1)).Nodup) :
    visFaithful evs = true :=
  visFaithful_of_nodup evs hnd

/-- **no private route**, for every tree **without duplicate function declarations** — any number of `use`, `pub use`,
wildcard imports and `let`s, re-exporting anything under any name —, every position, every reference form:
a reference that resolution accepts never names a private member of a module that does not enclose the use site. -/
theorem C17_no_private_route (evs : List Ev) (hnd : ((fnDecls evs).map (·.1)).Nodup) : NoPrivateRoute evs :=
  C17_no_private_route_vis_faithful evs (visFaithful_of_nodup evs hnd)

/-- … sharper: duplicate declarations are harmless as long as no private function shares its mangled name with a
`pub` function. -/
theorem C17_no_private_route_consistent (evs : List Ev)
    (hc : ∀ d ∈ fnDecls evs, d.2 = false → (d.1, true) ∉ fnDecls evs) : NoPrivateRoute evs := by
  apply noPrivateRoute_of_private_faithful
  intro sym hpriv
  exact vis_private_of_consistent evs sym hpriv.1 (hc _ hpriv.1 rfl)

/-! ### the re-exports of finding F12 are rejected now (/repo c6822e4 + 3b64798)

Names: `1 = a`, `2 = secret`, `3 = b`, `5 = x`, `0 = dsp`.  Each statement: what the reference resolves to and the
`PrivateMemberAccess` it draws, then the diagnostics of the whole program. -/

/-- `mod a { fn secret(){7.0} }  mod b { pub use a::secret }`: from the top level `b::secret` is rejected (the exported
name `b$secret` carries the visibility of its target) -/
theorem C17_reexport_of_private_rejected :
    resolveRef ⟨lowerInfo (events f12), knownOf (events f12), [], []⟩ (.path [3, 2]) = ([1, 2], [⟨[3], some 2⟩]) ∧
    (convertProgram (events f12) .unit).2 = [⟨[3], some 2⟩] ∧
    get? (lowerInfo (events f12)).vis [3, 2] = some false := by
  decide +kernel

/-- `mod a { fn secret(){7.0}  pub use a::secret }`: a module cannot publish its own private member -/
theorem C17_reexport_self_rejected :
    resolveRef ⟨lowerInfo (events f12self), knownOf (events f12self), [], []⟩ (.path [1, 2])
      = ([1, 2], [⟨[1], some 2⟩]) ∧
    (convertProgram (events f12self) .unit).2 = [⟨[1], some 2⟩] := by
  decide +kernel

/-- … nor through the plain identifier that the re-export registers as a global alias
(`… use a::*  mod b { pub fn p(){ secret() } }`) -/
theorem C17_reexport_ident_rejected :
    resolveRef ⟨lowerInfo (events f12wild), knownOf (events f12wild), [3], []⟩ (.ident 2)
      = ([1, 2], [⟨[1], some 2⟩]) ∧
    (convertProgram (events f12wild) .unit).2 = [⟨[1], some 2⟩] := by
  decide +kernel

/-- `mod a { mod x { pub use a::secret }  fn secret(){7.0} }`: the re-export stands before the private function, so
the exported name `a$x$secret` is recorded **public** (c6822e4 alone accepts `a::x::secret`); the reference is rejected
by the check of the member at the end of the alias chain (3b64798), which names the target's module. -/
theorem C17_reexport_before_decl_rejected :
    get? (lowerInfo (events f12order)).vis [1, 5, 2] = some true ∧
    resolveRef ⟨lowerInfo (events f12order), knownOf (events f12order), [], []⟩ (.path [1, 5, 2])
      = ([1, 2], [⟨[1], some 2⟩]) ∧
    (convertProgram (events f12order) .unit).2 = [⟨[1], some 2⟩] := by
  decide +kernel

/-- finding F12-cycle, repaired (`visibility_map.entry(exported).or_insert(..)`):
`mod a { mod x { pub use a::secret }  fn secret(){7.0}  pub use a::x::secret }`.  The second `pub use` exports the name of
the private function itself; it no longer replaces the function's visibility entry (the alias cycle
`a$secret → a$x$secret → a$secret` is still registered), so `a::secret` is rejected from the top level and from a
sibling module, and still accepted inside `a`. -/
theorem C17_reexport_cycle_rejected :
    get? (lowerInfo (events f12cycle)).vis [1, 2] = some false ∧
    get? (lowerInfo (events f12cycle)).alias [1, 2] = some [1, 5, 2] ∧
    get? (lowerInfo (events f12cycle)).alias [1, 5, 2] = some [1, 2] ∧
    resolveRef ⟨lowerInfo (events f12cycle), knownOf (events f12cycle), [], []⟩ (.path [1, 2])
      = ([1, 2], [⟨[1], some 2⟩]) ∧
    resolveRef ⟨lowerInfo (events f12cycle), knownOf (events f12cycle), [3], []⟩ (.path [1, 2])
      = ([1, 2], [⟨[1], some 2⟩]) ∧
    resolveRef ⟨lowerInfo (events f12cycle), knownOf (events f12cycle), [1], []⟩ (.path [1, 2]) = ([1, 2], []) ∧
    (convertProgram (events f12cycle) .unit).2 = [⟨[1], some 2⟩] := by
  decide +kernel

/-- all repaired fixtures have distinct declared names (so they lie inside the class of `C17_no_private_route`), as does
fixture `module_pub_use.mmm`, whose re-export of a public member is still accepted -/
theorem C17_no_private_route_class_boundary :
    ((fnDecls (events f12)).map (·.1)).Nodup ∧ ((fnDecls (events f12self)).map (·.1)).Nodup ∧
    ((fnDecls (events f12wild)).map (·.1)).Nodup ∧ ((fnDecls (events f12order)).map (·.1)).Nodup ∧
    ((fnDecls (events f12cycle)).map (·.1)).Nodup ∧ ((fnDecls (events pubUseFixture)).map (·.1)).Nodup ∧
    noPubUse (events pubUseFixture) = false ∧
    resolveRef ⟨lowerInfo (events pubUseFixture), knownOf (events pubUseFixture), [], []⟩ (.path [3, 2])
      = ([1, 2], []) ∧
    ¬ ((fnDecls (events f12dup)).map (·.1)).Nodup ∧ visFaithful (events f12dup) = false := by
  decide +kernel

/-! ### the unrestricted statement is still false of the code (finding F12-dup)

`mod a { fn f(){1.0} }  fn probe(){ a::f() }  mod a { pub fn f(){2.0} }  fn dsp(){ probe() }` (`4 = f`, `6 = probe`) -/

/-- F12-dup: a reopened module declares `a$f` a second time, `pub`; the visibility map keeps the last declaration, both
definitions are emitted, and the reference in `probe` — accepted, no diagnostics in the whole program — names `a$f`, which
the tree declares private (the definition in scope at `probe` is the private one: the compiled program returns 1).  No
`use` statement is involved: the hypothesis `Nodup` of `C17_no_private_route` is the only thing this tree violates. -/
theorem C17_no_private_route_refuted_dup :
    resolveRef ⟨lowerInfo (events f12dup), knownOf (events f12dup), [], []⟩ (.path [1, 4]) = ([1, 4], []) ∧
    ([1, 4], false) ∈ fnDecls (events f12dup) ∧ ¬ ([1, 4] : Sym).dropLast <+: [] ∧
    (convertProgram (events f12dup) .unit).2 = [] ∧
    ¬ ((fnDecls (events f12dup)).map (·.1)).Nodup ∧ noPubUse (events f12dup) = true ∧
    get? (lowerInfo (events f12dup)).vis [1, 4] = some true ∧
    fnDecls (events f12dup) = [([1, 4], false), ([6], false), ([1, 4], true), ([0], false)] := by
  decide +kernel

/-- the universal statement of clause 1 still does not hold for the resolution algorithm as it stands -/
theorem C17_no_private_route_false : ¬ ∀ evs : List Ev, NoPrivateRoute evs := by
  intro h
  have w := C17_no_private_route_refuted_dup
  exact w.2.2.1 (h (events f12dup) (knownOf (events f12dup)) [] [] (.path [1, 4]) [1, 4] rfl w.1 ⟨w.2.1, by decide⟩)

/-- the visibility written on a `mod` declaration has no effect on anything: flattening drops it
(`ModuleDefinition { visibility: _, .. }`), so a nested module that is not `pub` can be traversed from outside
its parent (finding F12-modvis) -/
theorem C17_module_visibility_ignored (pre : List Name) (p q : Bool) (x : Name) (sub : List Item) :
    (Item.mod p x sub).events pre = (Item.mod q x sub).events pre := rfl

theorem C17_module_visibility_ignored_witness :
    resolveRef ⟨lowerInfo (events modvis), knownOf (events modvis), [], []⟩ (.path [1, 2, 4]) = ([1, 2, 4], []) := by
  decide +kernel

/-! ### every accepted reference resolves to the definition its path denotes -/

/-- lookup order of a qualified path: the absolute path if it names something, else the path relative to the
*whole* current module, else the absolute path (left for the type checker to reject); then re-export aliases. -/
theorem C17_resolves_to_denoted_path (info : Info) (known : Sym → Bool) (cur : List Name)
    (locals : List (List Sym)) (segs : List Name) :
    (convertQVar ⟨info, known, cur, locals⟩ segs).1 =
      aliasChain info.alias
        (if known segs = true then segs
         else if cur ≠ [] ∧ known (cur ++ segs) = true then cur ++ segs else segs) := by
  simp only [convertQVar, resolveQualifiedPath]
  by_cases h1 : known segs = true
  · simp [h1]
  · by_cases h2 : cur = []
    · simp [h1, h2]
    · by_cases h3 : known (cur ++ segs) = true
      · simp [h1, h2, h3]
      · simp [h1, h2, h3]

/-- … and without re-exports the alias step is the identity on paths: the result *is* the denoted mangled name. -/
theorem C17_resolves_to_denoted_path_plain (evs : List Ev) (hre : noPubUse evs = true) (known : Sym → Bool)
    (cur : List Name) (locals : List (List Sym)) (segs : List Name) (h2 : 2 ≤ segs.length) :
    (convertQVar ⟨lowerInfo evs, known, cur, locals⟩ segs).1 =
      (if known segs = true then segs
       else if cur ≠ [] ∧ known (cur ++ segs) = true then cur ++ segs else segs) := by
  rw [C17_resolves_to_denoted_path]
  apply aliasChain_id_of_plain (lowerInfo_noPubUse evs hre).2
  split
  · exact h2
  · split
    · simp; omega
    · exact h2

/-- lookup order of a plain identifier that is not lexically bound: the innermost enclosing module that defines it
wins over every outer module, over every `use` alias and over every wildcard import. -/
theorem C17_resolves_to_denoted_ident_innermost (info : Info) (known : Sym → Bool) (cur : List Name)
    (locals : List (List Sym)) (x : Name) (k : Nat) (hk : k < cur.length)
    (hnl : (RCtx.mk info known cur locals).isLocallyBound [x] = false)
    (hdef : known (cur.take (k + 1) ++ [x]) = true)
    (hinner : ∀ j, k < j → j < cur.length → known (cur.take (j + 1) ++ [x]) = false) :
    convertVar ⟨info, known, cur, locals⟩ [x] = (cur.take (k + 1) ++ [x], []) := by
  unfold convertVar
  simp only [hnl, Bool.false_eq_true, ↓reduceIte]
  have hne : cur.isEmpty = false := by cases cur <;> simp at hk ⊢
  simp only [hne, Bool.false_eq_true, ↓reduceIte]
  have : (relativeCandidates cur [x]).find? known = some (cur.take (k + 1) ++ [x]) := by
    unfold relativeCandidates
    rw [List.find?_map]
    have hf : ∀ n, k < n → (∀ j, k < j → j < n → known (cur.take (j + 1) ++ [x]) = false) →
        (List.range n).reverse.find? (known ∘ fun k => List.take (k + 1) cur ++ [x]) = some k := by
      intro n
      induction n with
      | zero => intro h; omega
      | succ n ih =>
        intro hkn hin
        rw [List.range_succ, List.reverse_append, List.reverse_singleton, List.singleton_append, List.find?_cons]
        by_cases hkn' : k = n
        · subst hkn'; simp [hdef]
        · have : known (cur.take (n + 1) ++ [x]) = false := hin n (by omega) (by omega)
          simp only [Function.comp, this]
          exact ih (by omega) (fun j h1 h2 => hin j h1 (by omega))
    have hf := hf cur.length hk hinner
    simp [hf]
  simp [this]

/-- **flattening is faithful**: `LetRec pre$x` is emitted for a program exactly when walking the path `pre ++ [x]`
from the root of the module tree reaches a function `x` with that visibility, parameters and body. -/
theorem C17_resolves_to_denoted_flatten (p : List Item) (pre : List Name) (pub : Bool) (x : Name)
    (ps : List Name) (b : Expr) :
    Ev.fn pre pub x ps b ∈ events p ↔ Denotes p (pre ++ [x]) pub ps b := by
  unfold events
  rw [eventsL_fn_iff]
  constructor
  · rintro ⟨rest, h1, _, hd⟩
    simp only [List.nil_append] at h1
    rw [h1]; exact hd
  · intro hd
    exact ⟨pre ++ [x], by simp, by simp, hd⟩


/-- a name with a module part passes the resolver's `name_exists` test exactly when walking it as a path from the
root of the module tree reaches a function — so an accepted, existing qualified reference *is* a definition of
the tree, found at the place its path says. -/
theorem C17_resolves_to_denoted_known (p : List Item) (hp : bodiesPlain (events p) = true) (s : Sym)
    (hs : 2 ≤ s.length) :
    knownOf (events p) s = true ↔ ∃ pub ps b, Denotes p s pub ps b := by
  unfold knownOf
  rw [List.contains_iff_mem, known_multi_iff _ hp s hs, mem_fnDecls_iff]
  constructor
  · rintro ⟨pre, pub, x, ps, b, hm, rfl⟩
    exact ⟨pub, ps, b, (C17_resolves_to_denoted_flatten p pre pub x ps b).mp hm⟩
  · rintro ⟨pub, ps, b, hd⟩
    have hne := hd.ne_nil
    refine ⟨s.dropLast, pub, s.getLast hne, ps, b, ?_, List.dropLast_concat_getLast hne⟩
    rw [C17_resolves_to_denoted_flatten, List.dropLast_concat_getLast hne]
    exact hd

/-- uniqueness: if no mangled name is declared twice, a mangled name has one declaration (hence one visibility) -/
theorem C17_resolves_to_denoted_unique (evs : List Ev) (hnd : ((fnDecls evs).map (·.1)).Nodup) (sym : Sym)
    (b b' : Bool) (h : (sym, b) ∈ fnDecls evs) (h' : (sym, b') ∈ fnDecls evs) : b = b' := by
  have h1 := get?_of_mem_nodup hnd h
  have h2 := get?_of_mem_nodup hnd h'
  rw [h1] at h2
  exact Option.some.inj h2

/-! ### local bindings shadow imported names -/

/-- a lexically bound identifier is returned unchanged, whatever aliases, wildcards and modules exist -/
theorem C17_local_shadows_import_var (c : RCtx) (s : Sym) (h : c.isLocallyBound s = true) :
    convertVar c s = (s, []) := by
  simp [convertVar, h]

/-- **local bindings shadow imports**: an expression all of whose identifiers are lexically bound (by `let`,
`letrec`, lambda parameters, or the enclosing scopes) passes through resolution unchanged and without error —
for every `ModuleInfo` (every set of `use` aliases, wildcard imports, re-exports), every `known` set and every
module position. -/
theorem C17_local_shadows_import (info : Info) (known : Sym → Bool) (e : Expr) :
    ∀ (cur : List Name) (ls : List (List Sym)), closedUnder ls e = true →
      convertExpr info known cur ls e = (e, []) := by
  induction e with
  | unit => intros; rfl
  | lit k => intros; rfl
  | var s =>
    intro cur ls h
    have hb : (RCtx.mk info known cur ls).isLocallyBound s = true := h
    simp only [convertExpr, C17_local_shadows_import_var _ _ hb]
  | qvar segs => intro cur ls h; simp [closedUnder] at h
  | call f ih =>
    intro cur ls h
    simp only [closedUnder] at h
    simp [convertExpr, ih cur ls h]
  | letE x e t ihe iht =>
    intro cur ls h
    simp only [closedUnder, Bool.and_eq_true] at h
    simp [convertExpr, ihe _ ls h.1, iht _ _ h.2]
  | lam ps b ih =>
    intro cur ls h
    simp only [closedUnder] at h
    simp [convertExpr, ih cur _ h]
  | letrec f e t ihe iht =>
    intro cur ls h
    simp only [closedUnder, Bool.and_eq_true] at h
    simp [convertExpr, ihe _ _ h.1, iht _ _ h.2]

/-! ### adequacy of the model's loop bound -/

/-- `resolve_alias_chain` is a `while` loop over a visited set; the model runs it with fuel `|alias map| + 2`.
That bound is never the reason the loop stops: any larger fuel gives the same result. -/
theorem C17_model_alias_chain_fuel_enough (alias : List (Sym × Sym)) (s : Sym) (fuel : Nat)
    (h : alias.length + 2 ≤ fuel) : aliasChainGo alias fuel [] s = aliasChain alias s := by
  obtain ⟨d, rfl⟩ := Nat.exists_eq_add_of_le h
  exact aliasChainGo_add alias _ d [] s (by have := keysLeft_le alias []; omega)

/-! ### non-vacuity -/

/-- `C17_no_private_route` speaks about trees in which references *are* accepted and *are* rejected:
`mod a { fn s(){7.0}  pub fn t(){8.0} }  use a::t`: `a::t`, `t` accepted; `a::s` rejected from outside, accepted inside. -/
example :
    let p : List Item := [.mod false 1 [.fn false 2 [] (.lit 7), .fn true 4 [] (.lit 8)], .use false [1, 4] .single]
    let evs := events p
    noPubUse evs = true ∧ ((fnDecls evs).map (·.1)).Nodup ∧
    resolveRef ⟨lowerInfo evs, knownOf evs, [], []⟩ (.path [1, 4]) = ([1, 4], []) ∧
    resolveRef ⟨lowerInfo evs, knownOf evs, [], []⟩ (.ident 4) = ([1, 4], []) ∧
    resolveRef ⟨lowerInfo evs, knownOf evs, [], []⟩ (.path [1, 2]) = ([1, 2], [⟨[1], some 2⟩]) ∧
    resolveRef ⟨lowerInfo evs, knownOf evs, [1], []⟩ (.path [1, 2]) = ([1, 2], []) ∧
    resolveRef ⟨lowerInfo evs, knownOf evs, [1], []⟩ (.ident 2) = ([1, 2], []) := by
  decide +kernel

/-- … and about trees **with** re-exports in which references through them are accepted and rejected:
`mod a { fn s(){7.0}  pub fn t(){8.0} }  mod b { pub use a::t  pub use a::s }`: `b::t` accepted (resolves to `a$t`), `b::s`
rejected from outside `a`, and accepted from inside `a`, where it reaches `a$s` (the route the theorem allows). -/
example :
    let p : List Item := [.mod false 1 [.fn false 2 [] (.lit 7), .fn true 4 [] (.lit 8)],
      .mod false 3 [.use true [1, 4] .single, .use true [1, 2] .single]]
    let evs := events p
    ((fnDecls evs).map (·.1)).Nodup ∧ noPubUse evs = false ∧ visFaithful evs = true ∧
    resolveRef ⟨lowerInfo evs, knownOf evs, [], []⟩ (.path [3, 4]) = ([1, 4], []) ∧
    resolveRef ⟨lowerInfo evs, knownOf evs, [], []⟩ (.path [3, 2]) = ([1, 2], [⟨[3], some 2⟩]) ∧
    resolveRef ⟨lowerInfo evs, knownOf evs, [1], []⟩ (.path [3, 2]) = ([1, 2], [⟨[3], some 2⟩]) ∧
    resolveRef ⟨lowerInfo evs, knownOf evs, [1], []⟩ (.path [1, 2]) = ([1, 2], []) := by
  decide +kernel

/-- `C17_no_private_route_consistent`: a tree outside the class of `C17_no_private_route` (the private `a$s` is declared
twice; `pub use b::t` in `a` exports the name of the declared function `a$t`, whose entry it no longer replaces) satisfies
the hypothesis; `a::s` is rejected from outside; `a::t` is `a$t` by its entry and follows the alias to `b$t`. -/
example :
    let p : List Item := [.mod false 3 [.fn true 4 [] (.lit 9)],
      .mod false 1 [.fn false 2 [] (.lit 7), .fn false 2 [] (.lit 6), .fn true 4 [] (.lit 8), .use true [3, 4] .single]]
    let evs := events p
    (∀ d ∈ fnDecls evs, d.2 = false → (d.1, true) ∉ fnDecls evs) ∧
    ¬ ((fnDecls evs).map (·.1)).Nodup ∧
    resolveRef ⟨lowerInfo evs, knownOf evs, [], []⟩ (.path [1, 2]) = ([1, 2], [⟨[1], some 2⟩]) ∧
    resolveRef ⟨lowerInfo evs, knownOf evs, [], []⟩ (.path [1, 4]) = ([3, 4], []) := by
  decide +kernel

/-- `C17_no_private_route_vismap_target`: in `f12order` the reference `a::x::secret` is accepted from inside `a`; it
returns the private `a$secret` after the chain moved, and the conclusion is the non-trivial `[a] <+: [a]`. -/
example :
    resolveRef ⟨lowerInfo (events f12order), knownOf (events f12order), [1], []⟩ (.path [1, 5, 2]) = ([1, 2], []) ∧
    get? (lowerInfo (events f12order)).vis [1, 2] = some false ∧
    resolveRef ⟨lowerInfo (events f12order), knownOf (events f12order), [3], []⟩ (.path [1, 5, 2])
      = ([1, 2], [⟨[1], some 2⟩]) := by
  decide +kernel

/-! ## programs with `let` items

`Item.letD` / `Ev.letS`: `let x = e` at top level or inside a module (`pub let` is accepted by the grammar and the flag
dropped).  All theorems above quantify over walks that may contain such items (they were generalised in place: a `let`
touches neither the visibility map nor the alias map).  What is new with `let` items is that the *position* of a
reference — which module context the resolver has when it reaches it — is no longer that of a function body; the
theorems below are about that position: the resolver walks ONE flattened chain of all items of all modules.

Vocabulary (`Proofs/ModResLet.lean`, `Proofs/ModResLetPriv.lean`): `siteResult info known ls A ev` = what the pass
computes at item `ev` standing after the prefix `A` (resolved right-hand side, diagnostics); `siteCtx info key []` = the
module context `module_context_map` assigns to `key`; `occs` = the reference occurrences inside one item with the
context in force; `letNamesFresh P` (a `Bool`) = no module-level `let` shares its plain name with anything else. -/

/-- **the module context is `[]` between items**: the pass over the flattened program resolves every item on its own,
under the context that `module_context_map` assigns to the item's *own* name, and the continuation after the last item
at top level — whatever the items before it are.  (This is the statement that the pinned tree before /repo 8a25d9f and
seeded change C17c violate: `C17_item_order_relevant_before_8a25d9f`, `C17_item_order_relevant_under_seeded_C17c`.) -/
theorem C17_spine_context_is_top_level (evs : List Ev) (tail : Expr) :
    convertProgram evs tail = convertChain (lowerInfo evs) (knownOfT evs tail) tail [] evs :=
  convertProgram_eq_chain evs tail

/-- `siteResult` is what the whole-program pass computes at an item: the program's diagnostics are those of the items
before, then the item's, then those of the items after; and the item's resolved right-hand side is found at the
item's position on the spine of the output. -/
theorem C17_site_result_is_what_the_pass_computes (A : List Ev) (ev : Ev) (C : List Ev) (tail : Expr) :
    let P := A ++ ev :: C
    let info := lowerInfo P
    let known := knownOfT P tail
    (convertProgram P tail).2 =
      (convertChain info known .unit [] A).2 ++ (siteResult info known [] A ev).2 ++
        (convertChain info known tail (spineScopes [] (A ++ [ev])) C).2 ∧
    (ev.isBinder = true →
      rhsAt (binders A).length (convertProgram P tail).1 = some (siteResult info known [] A ev).1) := by
  intro P info known
  rw [convertProgram_eq_chain]
  exact convertChain_split info known tail A ev C []

/-- **item order is irrelevant for privacy** (walk form, most general).  Take any flattened program and a top-level
`let x = e` in it.  Whether the references in `e` are accepted, and what they resolve to, is the same when the `let`
stands after the prefix `A` and when it stands after the longer prefix `A ++ B` — for every `A`, `B`, `C` (whole
modules, parts of modules, functions, `use`s, other `let`s), every right-hand side `e`, provided only that `B` does
not itself *bind* an identifier occurring in `e` (lexical scoping of the flattened chain; no condition at all for
qualified paths). -/
theorem C17_item_order_irrelevant_for_privacy_walk (A B C : List Ev) (p : Bool) (x : Name) (e : Expr) (tail : Expr)
    (hB : ∀ s ∈ e.vars, s ∉ binders B) :
    siteResult (lowerInfo (A ++ .letS [] p x e :: (B ++ C))) (knownOfT (A ++ .letS [] p x e :: (B ++ C)) tail) []
        A (.letS [] p x e) =
      siteResult (lowerInfo (A ++ B ++ .letS [] p x e :: C)) (knownOfT (A ++ B ++ .letS [] p x e :: C) tail) []
        (A ++ B) (.letS [] p x e) :=
  siteResult_topLet_moved A B C p x e tail hB

/-- **item order is irrelevant for privacy** (module-tree form): a top-level `let x = e` may stand before or after
any list `I₂` of items — modules of any depth, with any members — that do not bind an identifier occurring in `e`:
same resolved right-hand side, same diagnostics. -/
theorem C17_item_order_irrelevant_for_privacy (I₁ I₂ I₃ : List Item) (p : Bool) (x : Name) (e : Expr) (tail : Expr)
    (hunrel : ∀ s ∈ e.vars, s ∉ binders (events I₂)) :
    siteResult (lowerInfo (events (I₁ ++ .letD p x e :: (I₂ ++ I₃))))
        (knownOfT (events (I₁ ++ .letD p x e :: (I₂ ++ I₃))) tail) [] (events I₁) (.letS [] p x e) =
      siteResult (lowerInfo (events (I₁ ++ I₂ ++ .letD p x e :: I₃)))
        (knownOfT (events (I₁ ++ I₂ ++ .letD p x e :: I₃)) tail) [] (events (I₁ ++ I₂)) (.letS [] p x e) := by
  have h := siteResult_topLet_moved (events I₁) (events I₂) (events I₃) p x e tail hunrel
  simpa only [events, eventsL_append, eventsL, Item.events, List.singleton_append, List.append_assoc] using h

/-- … in particular a reference by qualified path (called or not) needs no side condition. -/
theorem C17_item_order_irrelevant_for_privacy_path (I₁ I₂ I₃ : List Item) (p : Bool) (x : Name) (segs : List Name)
    (tail : Expr) :
    siteResult (lowerInfo (events (I₁ ++ .letD p x (.call (.qvar segs)) :: (I₂ ++ I₃))))
        (knownOfT (events (I₁ ++ .letD p x (.call (.qvar segs)) :: (I₂ ++ I₃))) tail) [] (events I₁)
        (.letS [] p x (.call (.qvar segs))) =
      siteResult (lowerInfo (events (I₁ ++ I₂ ++ .letD p x (.call (.qvar segs)) :: I₃)))
        (knownOfT (events (I₁ ++ I₂ ++ .letD p x (.call (.qvar segs)) :: I₃)) tail) [] (events (I₁ ++ I₂))
        (.letS [] p x (.call (.qvar segs))) :=
  C17_item_order_irrelevant_for_privacy I₁ I₂ I₃ p x _ tail (by intro s hs; simp [Expr.vars] at hs)

/-- the walk of the pinned tree before /repo 8a25d9f (`convertExprV true false`: the continuation of a `Let` converted
before the module context is restored) does depend on item order: the private `vault::secret` is accepted from a
top-level `let` that follows `mod vault { … let k = 1.0 }` and rejected from the same `let` placed before the module;
the walk as it stands rejects both. -/
theorem C17_item_order_relevant_before_8a25d9f :
    (convertProgramV true false (events letAfter) .unit).2 = [] ∧
    (convertProgramV true false (events letBefore) .unit).2 = [⟨[1], some 2⟩] ∧
    (convertProgram (events letAfter) .unit).2 = [⟨[1], some 2⟩] ∧
    (convertProgram (events letBefore) .unit).2 = [⟨[1], some 2⟩] := by
  decide +kernel

/-- the same for seeded change C17c (`convertExprV false true`: the continuation of a `LetRec` converted before the
context is restored), on a module whose last item is a function -/
theorem C17_item_order_relevant_under_seeded_C17c :
    (convertProgramV false true (events fnAfter) .unit).2 = [] ∧
    (convertProgramV false true (events fnBefore) .unit).2 = [⟨[1], some 2⟩] ∧
    (convertProgram (events fnAfter) .unit).2 = [⟨[1], some 2⟩] ∧
    (convertProgram (events fnBefore) .unit).2 = [⟨[1], some 2⟩] := by
  decide +kernel

/-- `convertExprV false false` is the model's walk (the two leaking walks differ from it in one line each) -/
theorem C17_model_variants_base (info : Info) (known : Sym → Bool) (e : Expr) (cur : List Name)
    (ls : List (List Sym)) : convertExprV false false info known cur ls e = convertExpr info known cur ls e :=
  convertExprV_ff info known e cur ls

/-- **item order is irrelevant, for every kind of item** (walk form): a function or a `let`, at top level or inside any
module, is resolved to the same right-hand side / body with the same diagnostics after the prefix `A` and after
`A ++ B` of the flattened program, for all `A`, `B`, `C`, provided `B` is unrelated to the item: no event of `B`
writes or reads the item's map key (`Ev.indep`: a binder with another key, a module opening, a `use` whose looked-up
paths and exported names differ from the key) and `B` binds no identifier occurring in the item's body.
`ModuleInfo` itself is *not* equal at the two places (its maps are reordered); it is indistinguishable for lookups
(`Info.Equiv`, `lowerInfo_moved`). -/
theorem C17_item_order_irrelevant_for_privacy_any_item (A B C : List Ev) (ev : Ev) (hb : ev.isBinder = true)
    (tail : Expr) (hB : ∀ b ∈ B, b.indep ev.key) (hvars : ∀ s ∈ ev.body.vars, s ∉ binders B) :
    siteResult (lowerInfo (A ++ ev :: (B ++ C))) (knownOfT (A ++ ev :: (B ++ C)) tail) [] A ev =
      siteResult (lowerInfo (A ++ B ++ ev :: C)) (knownOfT (A ++ B ++ ev :: C) tail) [] (A ++ B) ev :=
  siteResult_moved A B C ev hb tail hB hvars

/-- … module-tree form for the members of a module `m` (at top level, between any items `J₁`, `J₂`): a function or
`let` member may stand before or after sibling items `I₂` that are unrelated to it. -/
theorem C17_item_order_irrelevant_for_privacy_member (J₁ J₂ I₁ I₂ I₃ : List Item) (mp : Bool) (m : Name) (it : Item)
    (ev : Ev) (hit : it.events [m] = [ev]) (hb : ev.isBinder = true) (tail : Expr)
    (hB : ∀ b ∈ eventsL [m] I₂, b.indep ev.key) (hvars : ∀ s ∈ ev.body.vars, s ∉ binders (eventsL [m] I₂)) :
    let P₁ := events (J₁ ++ .mod mp m (I₁ ++ it :: (I₂ ++ I₃)) :: J₂)
    let P₂ := events (J₁ ++ .mod mp m (I₁ ++ I₂ ++ it :: I₃) :: J₂)
    let A := events J₁ ++ .modOpen [] m :: eventsL [m] I₁
    siteResult (lowerInfo P₁) (knownOfT P₁ tail) [] A ev =
      siteResult (lowerInfo P₂) (knownOfT P₂ tail) [] (A ++ eventsL [m] I₂) ev := by
  intro P₁ P₂ A
  have h := siteResult_moved A (eventsL [m] I₂) (eventsL [m] I₃ ++ events J₂) ev hb tail hB hvars
  have e1 : P₁ = A ++ ev :: (eventsL [m] I₂ ++ (eventsL [m] I₃ ++ events J₂)) := by
    simp only [P₁, A, events, eventsL_append, eventsL, Item.events, hit, List.nil_append, List.append_assoc,
      List.cons_append]
  have e2 : P₂ = A ++ eventsL [m] I₂ ++ ev :: (eventsL [m] I₃ ++ events J₂) := by
    simp only [P₂, A, events, eventsL_append, eventsL, Item.events, hit, List.nil_append, List.append_assoc,
      List.cons_append]
  rw [e1, e2]
  exact h

/-- the independence hypothesis is needed: moving `pub fn f` across a `use f` that looks its key up changes what the
alias `f` stands for (`mod a { pub fn f(){1.0}  use f }` vs `mod a { use f  pub fn f(){1.0} }`). -/
theorem C17_item_order_relevant_for_related_use :
    get? (lowerInfo (events [.mod false 1 [.fn true 4 [] (.lit 1), .use false [4] .single]])).alias [4] = some [1, 4] ∧
    get? (lowerInfo (events [.mod false 1 [.use false [4] .single, .fn true 4 [] (.lit 1)]])).alias [4] = some [4] ∧
    ¬ (Ev.use [1] false [4] .single).indep (Ev.fn [1] true 4 [] (.lit 1)).key := by
  refine ⟨by decide +kernel, by decide +kernel, ?_⟩
  simp [Ev.indep, Ev.key, useKeys]

/-! ### which module an item is resolved in -/

/-- a `let` item standing in module `pre` (top level: `[]`) is resolved under context `pre`, provided every
module-level `let` of the same plain name stands in that same module. -/
theorem C17_site_context_is_enclosing_module_let (P : List Ev) (pre : List Name) (pub : Bool) (x : Name) (e : Expr)
    (hin : Ev.letS pre pub x e ∈ P)
    (hsame : ∀ pre' p' e', Ev.letS pre' p' x e' ∈ P → pre' = [] ∨ pre' = pre) :
    siteCtx (lowerInfo P) [x] [] = pre :=
  siteCtx_letS P pre pub x e hin hsame

/-- a function standing in module `pre` is resolved under context `pre` — unconditionally inside a module (duplicate
declarations included), and at top level provided no module-level `let` carries its name. -/
theorem C17_site_context_is_enclosing_module_fn (P : List Ev) (pre : List Name) (pub : Bool) (x : Name)
    (ps : List Name) (b : Expr) (hin : Ev.fn pre pub x ps b ∈ P)
    (htop : pre = [] → ∀ pre' p' e', Ev.letS pre' p' x e' ∈ P → pre' = []) :
    siteCtx (lowerInfo P) (pre ++ [x]) [] = pre :=
  siteCtx_fn P pre pub x ps b hin htop

/-- both provisos are needed — finding **F12-letctx**: `module_context_map` is keyed by the *plain* name of a
module-level `let`, so a top-level `let k`, a local `let k` and a top-level `fn dsp` are resolved inside `vault` when
`vault` has a `let k` / `let dsp`; the private `vault::secret` is then accepted from outside (no diagnostics, the
reference resolves to `vault$secret`), while the same program with the probe named differently is rejected. -/
theorem C17_let_context_by_plain_name_refuted :
    convertProgram (events letCtxTop) .unit =
      (chain .unit (events [.mod false 1 [.fn false 2 [] (.lit 42), .letD false 7 (.lit 1)],
        .letD false 7 (.call (.var [1, 2])), .fn false 0 [] (.var [7])]), []) ∧
    (convertProgram (events letCtxLocal) .unit).2 = [] ∧
    (convertProgram (events letCtxFn) .unit).2 = [] ∧
    siteCtx (lowerInfo (events letCtxTop)) [7] [] = [1] ∧
    siteCtx (lowerInfo (events letCtxFn)) [0] [] = [1] ∧
    ([1, 2], false) ∈ fnDecls (events letCtxTop) ∧
    noPubUse (events letCtxTop) = true ∧ ((fnDecls (events letCtxTop)).map (·.1)).Nodup ∧
    letNamesFresh (events letCtxTop) = false ∧ letNamesFresh (events letCtxLocal) = false ∧
    letNamesFresh (events letCtxFn) = false ∧
    (convertProgram (events letAfter) .unit).2 = [⟨[1], some 2⟩] ∧ letNamesFresh (events letAfter) = true := by
  decide +kernel

/-- **no private route, for whole programs with `let` items.**  In a program (with any `use` / `pub use` statements)
without duplicate function declarations in which no module-level `let` shares its plain name with another binder
(`letNamesFresh`), take ANY item — function or `let`, at top level or in a module `pre`, at any position of the item
order — and ANY reference occurrence inside it (under local `let`s, lambdas, local `letrec`s), with the module context
and scopes the pass really has there (`occs`).  If the pass accepts the occurrence, the name it resolves to is not a
private member of a module that does not enclose `pre`.  (For every `known` set and every outer scope stack.) -/
theorem C17_no_private_route_program (P : List Ev)
    (hnd : ((fnDecls P).map (·.1)).Nodup) (hfresh : letNamesFresh P = true) (hpl : bodiesPlain P = true)
    (ev : Ev) (hev : ev ∈ P) (pre : List Name) (key : Sym) (rhs : Expr) (hs : ev.site = some (pre, key, rhs))
    (hwf : rhs.refsWf = true) (known : Sym → Bool) (ls : List (List Sym)) :
    ∀ o ∈ occs (lowerInfo P) (siteCtx (lowerInfo P) key []) ls rhs, ∀ sym,
      convertExpr (lowerInfo P) known o.1 o.2.1 o.2.2 = (.var sym, []) →
      PrivateMember P sym → sym.dropLast <+: pre := by
  intro o ho sym hres hpriv
  have hctx : siteCtx (lowerInfo P) key [] = pre := siteCtx_of_fresh hfresh hev hs
  have hb : ∀ k ∈ rhs.binderSyms, get? (lowerInfo P).ctxMap k = none := by
    have := local_binders_not_ctx_keys hfresh hpl hev
    cases ev with
    | fn pre' pub x ps b =>
      simp only [Ev.site, Option.some.injEq, Prod.mk.injEq] at hs
      obtain ⟨_, _, rfl⟩ := hs
      simpa [Ev.body, Expr.binderSyms] using this
    | letS pre' pub x e =>
      simp only [Ev.site, Option.some.injEq, Prod.mk.injEq] at hs
      obtain ⟨_, _, rfl⟩ := hs
      simpa [Ev.body] using this
    | modOpen => simp [Ev.site] at hs
    | use => simp [Ev.site] at hs
  rw [hctx] at ho
  have hcur := occs_ctx (lowerInfo P) rhs pre ls hb o ho
  have hwfo := occs_refsWf (lowerInfo P) rhs pre ls hwf o ho
  have key' : sym.dropLast <+: o.1 := by
    rcases occs_isRef (lowerInfo P) rhs pre ls o ho with ⟨s, hs'⟩ | ⟨segs, hs'⟩
    · rw [hs'] at hres hwfo
      simp only [Expr.refsWf, decide_eq_true_eq] at hwfo
      obtain ⟨y, rfl⟩ : ∃ y, s = [y] := by
        match s, hwfo with
        | [y], _ => exact ⟨y, rfl⟩
      simp only [convertExpr, Prod.mk.injEq, Expr.var.injEq] at hres
      have hr : resolveRef ⟨lowerInfo P, known, o.1, o.2.1⟩ (.ident y) = (sym, []) := by
        simp only [resolveRef]; exact Prod.ext hres.1 hres.2
      exact C17_no_private_route P hnd known o.1 o.2.1 (.ident y) sym rfl hr hpriv
    · rw [hs'] at hres hwfo
      simp only [Expr.refsWf, decide_eq_true_eq] at hwfo
      simp only [convertExpr, Prod.mk.injEq, Expr.var.injEq] at hres
      have hr : resolveRef ⟨lowerInfo P, known, o.1, o.2.1⟩ (.path segs) = (sym, []) := by
        simp only [resolveRef]; exact Prod.ext hres.1 hres.2
      exact C17_no_private_route P hnd known o.1 o.2.1 (.path segs) sym
        (by unfold Ref.wf; exact decide_eq_true hwfo) hr hpriv
  rcases hcur with h | h
  · rw [h] at key'; exact key'
  · rw [h] at key'
    have : sym.dropLast = [] := List.prefix_nil.mp key'
    rw [this]; exact List.nil_prefix

/-- … and the diagnostics of an item are exactly those of its occurrences: an item without diagnostics is one all of
whose reference occurrences were accepted. -/
theorem C17_item_diagnostics_are_its_occurrences (info : Info) (known : Sym → Bool) (cur : List Name)
    (ls : List (List Sym)) (e : Expr) :
    (convertExpr info known cur ls e).2 =
      (occs info cur ls e).flatMap (fun o => (convertExpr info known o.1 o.2.1 o.2.2).2) :=
  convertExpr_errs_eq_occs info known e cur ls

/-! ### what a `let` item declares -/

/-- the flattened program does not depend on the module a `let` stands in nor on its `pub` flag: the binder is the
**plain** name in every case (finding **F12-letglobal**: a module-level `let` is a global definition for everything
that follows, it is never reachable as `m::k`, `pub` has no effect) -/
theorem C17_module_let_is_global (A C : List Ev) (pre pre' : List Name) (p p' : Bool) (x : Name) (e tail : Expr) :
    chain tail (A ++ .letS pre p x e :: C) = chain tail (A ++ .letS pre' p' x e :: C) ∧
    binders (A ++ .letS pre p x e :: C) = binders A ++ [x] :: binders C := by
  constructor
  · induction A with
    | nil => rfl
    | cons a rest ih => cases a <;> simp only [List.cons_append, chain, ih]
  · rw [binders_append]; rfl

/-- the `pub` flag of a `let` changes neither `ModuleInfo` nor the flattened program -/
theorem C17_let_visibility_ignored (A C : List Ev) (pre : List Name) (p q : Bool) (x : Name) (e tail : Expr) :
    convertProgram (A ++ .letS pre p x e :: C) tail = convertProgram (A ++ .letS pre q x e :: C) tail := by
  have h1 : lowerInfo (A ++ .letS pre p x e :: C) = lowerInfo (A ++ .letS pre q x e :: C) := by
    simp only [lowerInfo, List.foldl_append, List.foldl_cons]; rfl
  have h2 := (C17_module_let_is_global A C pre pre p q x e tail).1
  unfold convertProgram
  rw [h1, h2]

/-- F12-letglobal on concrete programs: in `mod m { let k = 3.0 }  fn dsp(){ k }` the reference passes unchanged and
without diagnostics, and `k` is a binder of the spine before `dsp` (so the lexical lookup of the type checker finds it);
in `mod m { pub let k = 3.0 }  fn dsp(){ m::k }` the reference becomes the unknown name `m$k`, which nothing binds. -/
theorem C17_module_let_is_global_witness :
    convertProgram (events letGlobal) .unit = (chain .unit (events letGlobal), []) ∧
    binders (events letGlobal) = [[7], [0]] ∧
    convertProgram (events letByPath) .unit =
      (chain .unit (events [.mod false 1 [.letD true 7 (.lit 3)], .fn false 0 [] (.var [1, 7])]), []) ∧
    binders (events letByPath) = [[7], [0]] ∧
    knownOf (events letByPath) [1, 7] = false ∧ knownOf (events letByPath) [7] = true := by
  decide +kernel

/-- a later item that refers to an earlier item's plain binder (a top-level function, a `let` at top level **or in
any module**) is never rewritten by imports: the name is lexically bound on the spine. -/
theorem C17_item_binder_shadows_import (info : Info) (known : Sym → Bool) (cur : List Name) (ls : List (List Sym))
    (A : List Ev) (s : Sym) (h : s ∈ binders A) :
    convertVar ⟨info, known, cur, spineScopes ls A⟩ s = (s, []) := by
  apply C17_local_shadows_import_var
  have := boundIn_spineScopes A ls s
  simp only [h, decide_true, Bool.true_or] at this
  exact this

/-! ### non-vacuity of the `let` theorems -/

/-- `C17_item_order_irrelevant_for_privacy`: the hypothesis holds for the program of the repaired defect (the module
binds `vault$secret` and `k`, the right-hand side mentions no plain identifier), and both sides are a rejection. -/
example :
    let I₂ : List Item := [.mod false 1 [.fn false 2 [] (.lit 42), .letD false 7 (.lit 1)]]
    let e : Expr := .call (.qvar [1, 2])
    (∀ s ∈ e.vars, s ∉ binders (events I₂)) ∧
    siteResult (lowerInfo (events ([] ++ .letD false 8 e :: (I₂ ++ [.fn false 0 [] (.var [8])]))))
      (knownOfT (events ([] ++ .letD false 8 e :: (I₂ ++ [.fn false 0 [] (.var [8])]))) .unit) [] (events [])
      (.letS [] false 8 e) = (.call (.var [1, 2]), [⟨[1], some 2⟩]) := by
  decide +kernel

/-- … and with an identifier: `mod a { pub fn f(){1.0} }  use a::f` may be crossed by `let x = f()` in the sense of the
hypothesis only if the crossed items do not bind plain `f`; they do not (`a$f`), and the alias is followed at both
positions. -/
example :
    let I₂ : List Item := [.mod false 1 [.fn true 4 [] (.lit 1)], .use false [1, 4] .single]
    let e : Expr := .call (.var [4])
    (∀ s ∈ e.vars, s ∉ binders (events I₂)) ∧
    siteResult (lowerInfo (events ([] ++ .letD false 8 e :: (I₂ ++ []))))
      (knownOfT (events ([] ++ .letD false 8 e :: (I₂ ++ []))) .unit) [] (events []) (.letS [] false 8 e)
      = (.call (.var [1, 4]), []) := by
  decide +kernel

/-- `C17_no_private_route_program`: a program with a module-level `let`, a top-level `let` and a function satisfies
all hypotheses; inside the module the private member is accepted, from the top-level `let` it is rejected. -/
example :
    let P := events [.mod false 1 [.fn false 2 [] (.lit 42), .letD false 7 (.call (.var [2]))],
      .letD false 8 (.call (.qvar [1, 2])), .fn false 0 [] (.var [8])]
    ((fnDecls P).map (·.1)).Nodup ∧ letNamesFresh P = true ∧ bodiesPlain P = true ∧
    (∀ ev ∈ P, ev.body.refsWf = true) ∧
    siteResult (lowerInfo P) (knownOfT P .unit) [] (P.take 2) (.letS [1] false 7 (.call (.var [2])))
      = (.call (.var [1, 2]), []) ∧
    (convertProgram P .unit).2 = [⟨[1], some 2⟩] := by
  decide +kernel

/-- … and a program **with** a re-export satisfies them too: `mod a { fn secret(){42.0} }  mod b { pub use a::secret }
let y = b::secret()  fn dsp(){ y }` — the top-level `let` is rejected. -/
example :
    let P := events [.mod false 1 [.fn false 2 [] (.lit 42)], .mod false 3 [.use true [1, 2] .single],
      .letD false 8 (.call (.qvar [3, 2])), .fn false 0 [] (.var [8])]
    noPubUse P = false ∧ ((fnDecls P).map (·.1)).Nodup ∧ letNamesFresh P = true ∧
    bodiesPlain P = true ∧ (∀ ev ∈ P, ev.body.refsWf = true) ∧
    (convertProgram P .unit).2 = [⟨[3], some 2⟩] := by
  decide +kernel

/-- `C17_site_context_is_enclosing_module_*`: hypotheses hold and contexts are non-trivial in `letAfter` -/
example :
    Ev.letS [1] false 7 (.lit 1) ∈ events letAfter ∧
    (∀ pre' p' e', Ev.letS pre' p' 7 e' ∈ events letAfter → pre' = [] ∨ pre' = [1]) ∧
    siteCtx (lowerInfo (events letAfter)) [7] [] = [1] ∧ siteCtx (lowerInfo (events letAfter)) [8] [] = [] ∧
    siteCtx (lowerInfo (events letAfter)) [1, 2] [] = [1] := by
  refine ⟨by decide, ?_, by decide +kernel, by decide +kernel, by decide +kernel⟩
  intro pre' p' e' h
  simp [events, eventsL, Item.events, letAfter] at h
  exact Or.inr h.1

/-- `C17_item_order_irrelevant_for_privacy_any_item`: `mod vault { pub fn probe(){ secret() }  fn secret(){42.0} }` — the
member `probe` may cross its sibling `secret` (different key, binds `vault$secret`, not plain `secret`); at both
places the reference resolves to the private sibling and is accepted (same module). -/
example :
    let ev : Ev := .fn [1] true 9 [] (.call (.var [2]))
    let A : List Ev := [.modOpen [] 1]
    let B : List Ev := [.fn [1] false 2 [] (.lit 42)]
    ev.isBinder = true ∧ (∀ b ∈ B, b.indep ev.key) ∧ (∀ s ∈ ev.body.vars, s ∉ binders B) ∧
    siteResult (lowerInfo (A ++ ev :: (B ++ []))) (knownOfT (A ++ ev :: (B ++ [])) .unit) [] A ev
      = (.lam [] (.call (.var [1, 2])), []) ∧
    siteResult (lowerInfo (A ++ B ++ ev :: [])) (knownOfT (A ++ B ++ ev :: []) .unit) [] (A ++ B) ev
      = (.lam [] (.call (.var [1, 2])), []) := by
  refine ⟨rfl, ?_, by decide, by decide +kernel, by decide +kernel⟩
  intro b hb
  simp only [List.mem_singleton] at hb
  subst hb
  simp [Ev.indep, Ev.key]

end Mimium.ModRes
