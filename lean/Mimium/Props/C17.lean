import Mimium.Proofs.ModResSpec
/-!
# C17 — Module privacy and name resolution

Property theorems only (helper lemmas live in `Proofs/ModRes.lean`).  Model: `Model/ModRes.lean`, a hand port of the
module flattening of `ast/program.rs` and of the resolution pre-pass `mirgen/convert_qualified_names.rs`, tied to
the compiler by the correspondence run of `./check C17`.

Quantifiers.  Every theorem ranges over **all** walk sequences `evs : List Ev` — a superset of the walks
`events p` of all inline module trees `p : List Item`, any depth, any number of members, any mix of
`fn` / `mod` / `use` / `use {..}` / `use *` / `pub use` —, over **every use-site position**, given as an arbitrary current
module path `cur` and an arbitrary stack `locals` of lexical scopes, over every set `known` of collected names, and
over **every reference form** `Ref` (plain identifier, qualified path with ≥ 2 segments; the parser lowers a
one-segment path to a plain identifier, `lower.rs`).

What is proved.
* `C17_no_private_route_partial`: in a tree **without re-exports** (`pub use`) and without duplicate definitions, a
  reference that resolution accepts (no `PrivateMemberAccess`) never names a private member of a module that
  does not enclose the use site.
* The unrestricted statement is **false of the code** (finding F12): `C17_no_private_route_refuted_*` are
  machine-checked witnesses (re-export of a private member; a module re-exporting its own private member;
  the plain identifier that the re-export registers as a global alias); `C17_no_private_route_false` is the negated universal statement.
* `C17_no_private_route_vismap`: for *all* trees, what the resolver enforces is exactly privacy w.r.t. its
  visibility map, at the name it checks — which localises the defect: `pub use` writes `true` into that map
  without looking at the target, and `convert_qualified_var` checks the name *before* following the alias chain.
* `C17_resolves_to_denoted_*`: lookup order (absolute, then relative to the current module; innermost enclosing
  module first for plain identifiers), the flat mangled name space is the tree's path name space, uniqueness.
* `C17_local_shadows_import*`: a lexically bound name is never rewritten, whatever is imported.

What is not proved here: that `typing.rs` then binds the returned name lexically (definitions are visible only
after their statement) and evaluation — both are only exercised by the correspondence (`Model/ModResIO.lean`).
-/
namespace Mimium.ModRes

/-- **no private route**, for every tree without re-exports and without duplicate definitions, every position,
every reference form. -/
theorem C17_no_private_route_partial (evs : List Ev) (hre : noPubUse evs = true)
    (hnd : ((fnDecls evs).map (·.1)).Nodup) : NoPrivateRoute evs := by
  intro known cur locals r sym hwf hres ⟨hdecl, hlen⟩
  have hv := vis_of_decl evs hre hnd hdecl
  cases r with
  | ident x => exact convertVar_sound ⟨lowerInfo evs, known, cur, locals⟩ x sym hres hv hlen
  | path segs =>
    have h2 : 2 ≤ segs.length := Ref.wf_path hwf
    obtain ⟨hs, hp⟩ := convertQVar_sound ⟨lowerInfo evs, known, cur, locals⟩ segs sym h2 hres
    have hr2 : 2 ≤ (resolveQualifiedPath segs segs cur known).1.length := by
      have := resolveQualifiedPath_length segs cur known; omega
    rw [aliasChain_id_of_plain (lowerInfo_noPubUse evs hre).2 hr2] at hs
    subst hs
    exact hp hv

/-- For **all** trees: what resolution enforces is privacy with respect to its own visibility map, at the name it
checks.  For identifiers that is the returned name; for paths it is the name *before* the alias chain is followed. -/
theorem C17_no_private_route_vismap (info : Info) (known : Sym → Bool) (cur : List Name)
    (locals : List (List Sym)) (r : Ref) (sym : Sym) (hwf : r.wf = true)
    (hres : resolveRef ⟨info, known, cur, locals⟩ r = (sym, [])) :
    match r with
    | .ident _ => get? info.vis sym = some false → 2 ≤ sym.length → sym.dropLast <+: cur
    | .path segs =>
      let checked := (resolveQualifiedPath segs segs cur known).1
      sym = aliasChain info.alias checked ∧ (get? info.vis checked = some false → checked.dropLast <+: cur) := by
  cases r with
  | ident x => exact fun hv hl => convertVar_sound ⟨info, known, cur, locals⟩ x sym hres hv hl
  | path segs =>
    exact convertQVar_sound ⟨info, known, cur, locals⟩ segs sym (Ref.wf_path hwf) hres

/-! ### the unrestricted statement is false of the code (finding F12)

Names: `1 = a`, `2 = secret`, `3 = b`, `0 = dsp`. -/

/-- F12: from the top level, `b::secret` is accepted and resolves to the private `a$secret`. -/
theorem C17_no_private_route_refuted_reexport :
    resolveRef ⟨lowerInfo (events f12), knownOf (events f12), [], []⟩ (.path [3, 2]) = ([1, 2], []) ∧
    ([1, 2], false) ∈ fnDecls (events f12) ∧ ¬ ([1, 2] : Sym).dropLast <+: [] ∧
    noPubUse (events f12) = false ∧ ((fnDecls (events f12)).map (·.1)).Nodup := by
  decide +kernel

theorem C17_no_private_route_refuted_self_reexport :
    resolveRef ⟨lowerInfo (events f12self), knownOf (events f12self), [], []⟩ (.path [1, 2]) = ([1, 2], []) ∧
    ([1, 2], false) ∈ fnDecls (events f12self) ∧ ¬ ([1, 2] : Sym).dropLast <+: [] := by
  decide +kernel

theorem C17_no_private_route_refuted_ident :
    resolveRef ⟨lowerInfo (events f12wild), knownOf (events f12wild), [3], []⟩ (.ident 2) = ([1, 2], []) ∧
    ([1, 2], false) ∈ fnDecls (events f12wild) ∧ ¬ ([1, 2] : Sym).dropLast <+: [3] := by
  decide +kernel

/-- the universal statement of clause 1 does not hold for the resolution algorithm as it stands -/
theorem C17_no_private_route_false : ¬ ∀ evs : List Ev, NoPrivateRoute evs := by
  intro h
  have w := C17_no_private_route_refuted_reexport
  exact w.2.2.1 (h (events f12) (knownOf (events f12)) [] [] (.path [3, 2]) [1, 2] rfl w.1 ⟨w.2.1, by decide⟩)


/-- **no private route**, for every tree whose re-exports are harmless — a class decidable per tree
(`visFaithful`, `reexportsPublic` are `Bool`s): the visibility map agrees with the declarations, and no re-exported
name leads to something marked private.  `C17_no_private_route_partial` is the syntactic special case. -/
theorem C17_no_private_route_safe_reexports (evs : List Ev) (h1 : visFaithful evs = true)
    (h2 : reexportsPublic evs = true) : NoPrivateRoute evs := by
  intro known cur locals r sym hwf hres ⟨hdecl, hlen⟩
  have hv : get? (lowerInfo evs).vis sym = some false := by
    have := List.all_eq_true.mp h1 _ hdecl
    simpa using this
  cases r with
  | ident x => exact convertVar_sound ⟨lowerInfo evs, known, cur, locals⟩ x sym hres hv hlen
  | path segs =>
    have hs2 : 2 ≤ segs.length := Ref.wf_path hwf
    obtain ⟨hs, hp⟩ := convertQVar_sound ⟨lowerInfo evs, known, cur, locals⟩ segs sym hs2 hres
    have hr2 : 2 ≤ (resolveQualifiedPath segs segs cur known).1.length := by
      have := resolveQualifiedPath_length segs cur known; omega
    cases hg : get? (lowerInfo evs).alias (resolveQualifiedPath segs segs cur known).1 with
    | none =>
      rw [aliasChain_of_none _ _ hg] at hs
      subst hs
      exact hp hv
    | some t =>
      have := List.all_eq_true.mp h2 _ (get?_mem hg)
      simp only [Bool.or_eq_true, decide_eq_true_eq] at this
      rcases this with h | h
      · omega
      · rw [← hs] at h
        exact absurd hv h

/-- the class is not empty of re-exports (fixture `module_pub_use.mmm` is in it) and excludes the three witnesses -/
theorem C17_no_private_route_class_boundary :
    (visFaithful (events pubUseFixture) && reexportsPublic (events pubUseFixture)) = true ∧
    noPubUse (events pubUseFixture) = false ∧
    reexportsPublic (events f12) = false ∧ visFaithful (events f12self) = false ∧
    visFaithful (events f12wild) = false := by
  decide +kernel

/-- the visibility written on a `mod` declaration has no effect on anything: flattening drops it
(`ModuleDefinition { visibility: _, .. }`), so a nested module that is not `pub` can be traversed from outside
its parent (finding F12-modvis) -/
theorem C17_module_visibility_ignored (pre : List Name) (p q : Bool) (x : Name) (sub : List Item) :
    (Item.mod p x sub).events pre = (Item.mod q x sub).events pre := rfl

theorem C17_module_visibility_ignored_witness :
    resolveRef ⟨lowerInfo (events modvis), knownOf (events modvis), [], []⟩ (.path [1, 2, 4]) = ([1, 2, 4], []) := by
  decide +kernel

/-! ### every accepted reference resolves to the definition its path denotes -/

/-- lookup order of a qualified path: the absolute path if it names something, else the path relative to the
*whole* current module, else the absolute path (left for the type checker to reject); then re-export aliases. -/
theorem C17_resolves_to_denoted_path (info : Info) (known : Sym → Bool) (cur : List Name)
    (locals : List (List Sym)) (segs : List Name) :
    (convertQVar ⟨info, known, cur, locals⟩ segs).1 =
      aliasChain info.alias
        (if known segs = true then segs
         else if cur ≠ [] ∧ known (cur ++ segs) = true then cur ++ segs else segs) := by
  simp only [convertQVar, resolveQualifiedPath]
  by_cases h1 : known segs = true
  · simp [h1]
  · by_cases h2 : cur = []
    · simp [h1, h2]
    · by_cases h3 : known (cur ++ segs) = true
      · simp [h1, h2, h3]
      · simp [h1, h2, h3]

/-- … and without re-exports the alias step is the identity on paths: the result *is* the denoted mangled name. -/
theorem C17_resolves_to_denoted_path_plain (evs : List Ev) (hre : noPubUse evs = true) (known : Sym → Bool)
    (cur : List Name) (locals : List (List Sym)) (segs : List Name) (h2 : 2 ≤ segs.length) :
    (convertQVar ⟨lowerInfo evs, known, cur, locals⟩ segs).1 =
      (if known segs = true then segs
       else if cur ≠ [] ∧ known (cur ++ segs) = true then cur ++ segs else segs) := by
  rw [C17_resolves_to_denoted_path]
  apply aliasChain_id_of_plain (lowerInfo_noPubUse evs hre).2
  split
  · exact h2
  · split
    · simp; omega
    · exact h2

/-- lookup order of a plain identifier that is not lexically bound: the innermost enclosing module that defines it
wins over every outer module, over every `use` alias and over every wildcard import. -/
theorem C17_resolves_to_denoted_ident_innermost (info : Info) (known : Sym → Bool) (cur : List Name)
    (locals : List (List Sym)) (x : Name) (k : Nat) (hk : k < cur.length)
    (hnl : (RCtx.mk info known cur locals).isLocallyBound [x] = false)
    (hdef : known (cur.take (k + 1) ++ [x]) = true)
    (hinner : ∀ j, k < j → j < cur.length → known (cur.take (j + 1) ++ [x]) = false) :
    convertVar ⟨info, known, cur, locals⟩ [x] = (cur.take (k + 1) ++ [x], []) := by
  unfold convertVar
  simp only [hnl, Bool.false_eq_true, ↓reduceIte]
  have hne : cur.isEmpty = false := by cases cur <;> simp at hk ⊢
  simp only [hne, Bool.false_eq_true, ↓reduceIte]
  have : (relativeCandidates cur [x]).find? known = some (cur.take (k + 1) ++ [x]) := by
    unfold relativeCandidates
    rw [List.find?_map]
    have hf : ∀ n, k < n → (∀ j, k < j → j < n → known (cur.take (j + 1) ++ [x]) = false) →
        (List.range n).reverse.find? (known ∘ fun k => List.take (k + 1) cur ++ [x]) = some k := by
      intro n
      induction n with
      | zero => intro h; omega
      | succ n ih =>
        intro hkn hin
        rw [List.range_succ, List.reverse_append, List.reverse_singleton, List.singleton_append, List.find?_cons]
        by_cases hkn' : k = n
        · subst hkn'; simp [hdef]
        · have : known (cur.take (n + 1) ++ [x]) = false := hin n (by omega) (by omega)
          simp only [Function.comp, this]
          exact ih (by omega) (fun j h1 h2 => hin j h1 (by omega))
    have hf := hf cur.length hk hinner
    simp [hf]
  simp [this]

/-- **flattening is faithful**: `LetRec pre$x` is emitted for a program exactly when walking the path `pre ++ [x]`
from the root of the module tree reaches a function `x` with that visibility, parameters and body. -/
theorem C17_resolves_to_denoted_flatten (p : List Item) (pre : List Name) (pub : Bool) (x : Name)
    (ps : List Name) (b : Expr) :
    Ev.fn pre pub x ps b ∈ events p ↔ Denotes p (pre ++ [x]) pub ps b := by
  unfold events
  rw [eventsL_fn_iff]
  constructor
  · rintro ⟨rest, h1, _, hd⟩
    simp only [List.nil_append] at h1
    rw [h1]; exact hd
  · intro hd
    exact ⟨pre ++ [x], by simp, by simp, hd⟩


/-- a name with a module part passes the resolver's `name_exists` test exactly when walking it as a path from the
root of the module tree reaches a function — so an accepted, existing qualified reference *is* a definition of
the tree, found at the place its path says. -/
theorem C17_resolves_to_denoted_known (p : List Item) (hp : bodiesPlain (events p) = true) (s : Sym)
    (hs : 2 ≤ s.length) :
    knownOf (events p) s = true ↔ ∃ pub ps b, Denotes p s pub ps b := by
  unfold knownOf
  rw [List.contains_iff_mem, known_multi_iff _ hp s hs, mem_fnDecls_iff]
  constructor
  · rintro ⟨pre, pub, x, ps, b, hm, rfl⟩
    exact ⟨pub, ps, b, (C17_resolves_to_denoted_flatten p pre pub x ps b).mp hm⟩
  · rintro ⟨pub, ps, b, hd⟩
    have hne := hd.ne_nil
    refine ⟨s.dropLast, pub, s.getLast hne, ps, b, ?_, List.dropLast_concat_getLast hne⟩
    rw [C17_resolves_to_denoted_flatten, List.dropLast_concat_getLast hne]
    exact hd

/-- uniqueness: if no mangled name is declared twice, a mangled name has one declaration (hence one visibility) -/
theorem C17_resolves_to_denoted_unique (evs : List Ev) (hnd : ((fnDecls evs).map (·.1)).Nodup) (sym : Sym)
    (b b' : Bool) (h : (sym, b) ∈ fnDecls evs) (h' : (sym, b') ∈ fnDecls evs) : b = b' := by
  have h1 := get?_of_mem_nodup hnd h
  have h2 := get?_of_mem_nodup hnd h'
  rw [h1] at h2
  exact Option.some.inj h2

/-! ### local bindings shadow imported names -/

/-- a lexically bound identifier is returned unchanged, whatever aliases, wildcards and modules exist -/
theorem C17_local_shadows_import_var (c : RCtx) (s : Sym) (h : c.isLocallyBound s = true) :
    convertVar c s = (s, []) := by
  simp [convertVar, h]

/-- **local bindings shadow imports**: an expression all of whose identifiers are lexically bound (by `let`,
`letrec`, lambda parameters, or the enclosing scopes) passes through resolution unchanged and without error —
for every `ModuleInfo` (every set of `use` aliases, wildcard imports, re-exports), every `known` set and every
module position. -/
theorem C17_local_shadows_import (info : Info) (known : Sym → Bool) (e : Expr) :
    ∀ (cur : List Name) (ls : List (List Sym)), closedUnder ls e = true →
      convertExpr info known cur ls e = (e, []) := by
  induction e with
  | unit => intros; rfl
  | lit k => intros; rfl
  | var s =>
    intro cur ls h
    have hb : (RCtx.mk info known cur ls).isLocallyBound s = true := h
    simp only [convertExpr, C17_local_shadows_import_var _ _ hb]
  | qvar segs => intro cur ls h; simp [closedUnder] at h
  | call f ih =>
    intro cur ls h
    simp only [closedUnder] at h
    simp [convertExpr, ih cur ls h]
  | letE x e t ihe iht =>
    intro cur ls h
    simp only [closedUnder, Bool.and_eq_true] at h
    simp [convertExpr, ihe _ ls h.1, iht _ _ h.2]
  | lam ps b ih =>
    intro cur ls h
    simp only [closedUnder] at h
    simp [convertExpr, ih cur _ h]
  | letrec f e t ihe iht =>
    intro cur ls h
    simp only [closedUnder, Bool.and_eq_true] at h
    simp [convertExpr, ihe _ _ h.1, iht _ _ h.2]

/-! ### adequacy of the model's loop bound -/

/-- `resolve_alias_chain` is a `while` loop over a visited set; the model runs it with fuel `|alias map| + 2`.
That bound is never the reason the loop stops: any larger fuel gives the same result. -/
theorem C17_model_alias_chain_fuel_enough (alias : List (Sym × Sym)) (s : Sym) (fuel : Nat)
    (h : alias.length + 2 ≤ fuel) : aliasChainGo alias fuel [] s = aliasChain alias s := by
  obtain ⟨d, rfl⟩ := Nat.exists_eq_add_of_le h
  exact aliasChainGo_add alias _ d [] s (by have := keysLeft_le alias []; omega)

/-! ### non-vacuity -/

/-- the partial theorem speaks about trees in which references *are* accepted and *are* rejected:
`mod a { fn s(){7.0}  pub fn t(){8.0} }  use a::t`: `a::t`, `t` accepted; `a::s` rejected from outside, accepted inside. -/
example :
    let p : List Item := [.mod false 1 [.fn false 2 [] (.lit 7), .fn true 4 [] (.lit 8)], .use false [1, 4] .single]
    let evs := events p
    noPubUse evs = true ∧ ((fnDecls evs).map (·.1)).Nodup ∧
    resolveRef ⟨lowerInfo evs, knownOf evs, [], []⟩ (.path [1, 4]) = ([1, 4], []) ∧
    resolveRef ⟨lowerInfo evs, knownOf evs, [], []⟩ (.ident 4) = ([1, 4], []) ∧
    resolveRef ⟨lowerInfo evs, knownOf evs, [], []⟩ (.path [1, 2]) = ([1, 2], [⟨[1], some 2⟩]) ∧
    resolveRef ⟨lowerInfo evs, knownOf evs, [1], []⟩ (.path [1, 2]) = ([1, 2], []) ∧
    resolveRef ⟨lowerInfo evs, knownOf evs, [1], []⟩ (.ident 2) = ([1, 2], []) := by
  decide +kernel

end Mimium.ModRes
