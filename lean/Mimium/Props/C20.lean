import Mimium.Proofs.FfiConv
import Mimium.Proofs.FfiType
import Mimium.Proofs.FfiValueSerde
import Mimium.Proofs.FfiTrunc
/-!
# C20 — Values and types survive the plugin FFI encoding

Property theorems only (helpers in `Proofs/Ffi*.lean`).  Model: `Model/Ffi.lean`, a hand port of
`runtime/ffi_serde.rs` plus the slice of bincode 1.3.3 / serde derive / slotmap serde it runs through; variant
indices are re-extracted from the Rust source into `Gen/FfiVariants.lean` on every run.  The model is tied to the
real code byte-for-byte by `./check C20`.

All statements quantify over *every* value (any depth, any width, any string, any 64-bit pattern as number).  The
only hypotheses are facts about values that exist in a Rust process:
* `Rep`  — every `Vec`/`String` length is below 2^64 (bincode writes lengths as `u64`);
* `KeysValid` — every `ExprNodeId`/`TypeNodeId` is a key slotmap hands out (odd version, null key = (MAX,1));
  without it the exact result is still proved (`…_norm`: the key comes back normalised, as `KeyData::deserialize` does);
* `intern (resolve s) = s` — the interner returns the symbol it resolved.
-/
namespace Mimium.Ffi
open Mimium.Gen.Ffi

/-! ## byte level: `FfiValue` -/

/-- the derived decoder inverts the derived encoder on every value, consuming exactly the bytes produced -/
theorem C20_ffi_roundtrip (v : FfiValue) (hr : v.Rep) (hk : v.KeysValid) :
    decodeBytes (encode v) = some (v, []) := by
  have := decodeBytes_encode v [] hr
  rwa [List.append_nil, norm_of_keysValid v hk] at this

/-- prefix-freeness: whatever follows an encoding is left untouched and does not change what is decoded -/
theorem C20_ffi_prefix_free (v : FfiValue) (rest : Bytes) (hr : v.Rep) (hk : v.KeysValid) :
    decodeBytes (encode v ++ rest) = some (v, rest) := by
  rw [decodeBytes_encode v rest hr, norm_of_keysValid v hk]

/-- same without the assumption on keys: the only change is slotmap's key normalisation -/
theorem C20_ffi_roundtrip_norm (v : FfiValue) (rest : Bytes) (hr : v.Rep) :
    decodeBytes (encode v ++ rest) = some (v.norm, rest) := decodeBytes_encode v rest hr

/-- the result does not depend on the fuel of the model's decoder once it is at least the input length -/
theorem C20_ffi_fuel_irrelevant (v : FfiValue) (rest : Bytes) (hr : v.Rep) (f : Nat)
    (hf : (encode v ++ rest).length ≤ f) : decode f (encode v ++ rest) = decodeBytes (encode v ++ rest) := by
  rw [decodeBytes_encode v rest hr]
  exact decode_encode v f rest hr (by have := need_le_length v; simp at hf; omega)

/-- `bincode::deserialize` (trailing bytes allowed) returns the value that was serialised -/
theorem C20_ffi_deserialize_serialize (v : FfiValue) (rest : Bytes) (hr : v.Rep) (hk : v.KeysValid) :
    decodeTop (encode v ++ rest) = some v := by
  rw [decodeTop_encode v rest hr, norm_of_keysValid v hk]

/-- the variant index written for a constructor selects that constructor again (generated table, re-checked each run) -/
theorem C20_ffi_tags_roundtrip (c : FfiCtor) : FfiCtor.ofTag c.tag = some c := FfiCtor.ofTag_tag c

/-- distinct values never share an encoding -/
theorem C20_encode_injective (v w : FfiValue) (hv : v.Rep) (hw : w.Rep) (kv : v.KeysValid) (kw : w.KeysValid)
    (h : encode v = encode w) : v = w := by
  have a := C20_ffi_roundtrip v hv kv
  have b := C20_ffi_roundtrip w hw kw
  rw [h, b] at a
  simp at a
  exact a.symm

/-! ### malformed streams -/

/-- truncation: every strict prefix of a valid encoding is rejected (`Err`), at any depth -/
theorem C20_truncation_rejected (v : FfiValue) (hr : v.Rep) (k : Nat) (hk : k < (encode v).length) :
    decodeBytes ((encode v).take k) = none := decodeBytes_truncated v hr k hk

/-- whatever the decoder accepts (valid or not), it accepts identically when more bytes follow -/
theorem C20_decode_extension_stable (f : Nat) (bs x : Bytes) (v : FfiValue) (r : Bytes)
    (h : decode f bs = some (v, r)) : decode f (bs ++ x) = some (v, r ++ x) := (decode_ext_all f).1 bs v r x h

/-- the model's fuel is not observable: more fuel never changes an accepted result -/
theorem C20_decode_fuel_monotone (f g : Nat) (hfg : f ≤ g) (bs : Bytes) (p : FfiValue × Bytes)
    (h : decode f bs = some p) : decode g bs = some p := decode_fuel_le hfg h

/-! ## macro arguments `Vec<(FfiValue, TypeNodeId)>` -/

theorem C20_macro_args_roundtrip (as : List (FfiValue × Key)) (rest : Bytes) (hl : LenOk as.length)
    (hr : RepArgs as) : decodeArgs (encodeArgs as ++ rest) = some (normArgs as, rest) :=
  decodeArgs_encode as rest hl hr

/-! ## `Value ↔ FfiValue` -/
section conv
variable {σ : Type} (resolve : σ → String) (intern : String → σ)

/-- refusals: `to_ffi_value` returns `Err` exactly when a Closure / Fixpoint / ExternalFn / Store / ConstructorFn
occurs somewhere inside the value -/
theorem C20_refusal_iff (v : Value σ) : (∃ e, toFfi resolve v = .error e) ↔ v.HasOpaque :=
  toFfi_error_iff resolve v

/-- everything else crosses -/
theorem C20_crosses_iff (v : Value σ) : (∃ x, toFfi resolve v = .ok x) ↔ ¬ v.HasOpaque := by
  rw [← C20_refusal_iff resolve v]
  cases toFfi resolve v <;> simp

/-- representable fragment (no opaque variant, no `ErrorV`): `Value → FfiValue → Value` is the identity -/
theorem C20_value_ffi_roundtrip (hi : ∀ s, intern (resolve s) = s) (v : Value σ)
    (ho : ¬ v.HasOpaque) (he : ¬ v.HasErrorV) :
    ∃ x, toFfi resolve v = .ok x ∧ toValue intern x = v := by
  obtain ⟨x, hx⟩ := (C20_crosses_iff resolve v).2 ho
  exact ⟨x, hx, by rw [toValue_toFfi resolve intern hi v x hx, eraseErrors_eq v he]⟩

/-- PARTIAL form that holds for *every* value that crosses: it comes back with each `ErrorV` replaced by `Unit`
and nothing else changed -/
theorem C20_value_ffi_roundtrip_partial (hi : ∀ s, intern (resolve s) = s) (v : Value σ) (x : FfiValue)
    (h : toFfi resolve v = .ok x) : toValue intern x = v.eraseErrors :=
  toValue_toFfi resolve intern hi v x h

/-- the whole pipeline `deserialize_value (serialize_value v ++ anything)` on the representable fragment -/
theorem C20_serialize_deserialize (hi : ∀ s, intern (resolve s) = s) (v : Value σ) (x : FfiValue) (rest : Bytes)
    (h : toFfi resolve v = .ok x) (hr : x.Rep) (hk : x.KeysValid) (he : ¬ v.HasErrorV) :
    ∃ bs, serializeValue resolve v = .ok bs ∧ deserializeValue intern (bs ++ rest) = some v := by
  refine ⟨encode x, by simp [serializeValue, h], ?_⟩
  simp only [deserializeValue, C20_ffi_deserialize_serialize x rest hr hk]
  rw [toValue_toFfi resolve intern hi v x h, eraseErrors_eq v he]

/-- NEGATIVE (finding F9): `Value::ErrorV` is *not* refused; it crosses the boundary and comes back as `Unit` —
"refused with an error rather than silently altered" fails for this variant, for every key `e`. -/
theorem C20_errorV_silently_altered (e : Key) :
    serializeValue resolve (Value.errorV e : Value σ) = .ok (encode .errorV)
    ∧ deserializeValue intern (encode .errorV) = some (Value.unit : Value σ)
    ∧ (Value.errorV e : Value σ) ≠ Value.unit := by
  refine ⟨rfl, ?_, by intro h; cases h⟩
  have := C20_ffi_deserialize_serialize .errorV [] (by simp [FfiValue.Rep]) (by simp [FfiValue.KeysValid])
  rw [List.append_nil] at this
  simp [deserializeValue, this, toValue]

end conv

/-- the same on the concrete witness, by evaluation of the model (on the pinned tree the bytes are `00 00 00 00`) -/
theorem C20_errorV_witness :
    (serializeValue (σ := String) id (.errorV ⟨0, 1⟩)).toOption = some (encU32 FfiCtor.ErrorV.tag)
    ∧ (deserializeValue (σ := String) id (encU32 FfiCtor.ErrorV.tag)).map Value.ctor = some ValCtor.Unit := by
  decide +kernel

/-- the property's refusal clause, as it would have to hold, is false of the model (hence of the code the model
agrees with on this input): there is a value that is neither refused nor returned unchanged. -/
theorem C20_refused_or_unchanged_fails :
    ¬ ∀ v : Value String, (∃ e, serializeValue id v = .error e) ∨
        (∃ bs, serializeValue id v = .ok bs ∧ deserializeValue id bs = some v) := by
  intro h
  rcases h (.errorV ⟨0, 1⟩) with ⟨e, he⟩ | ⟨bs, hs, hd⟩
  · simp [serializeValue, toFfi] at he
  · have h1 := (C20_errorV_silently_altered (σ := String) id id ⟨0, 1⟩)
    rw [h1.1] at hs
    cases hs
    rw [h1.2.1] at hd
    cases hd

/-! ## hand-written `Serialize`/`Deserialize` tables of `Type` and `Value` (generated, re-checked each run) -/

/-- every index the hand-written `Serialize for Type` writes is mapped back to the same variant by `Deserialize` -/
theorem C20_type_tags_consistent (c : TyCtor) (t : UInt32) (h : c.serTag = some t) : TyCtor.ofTag t = some c := by
  cases c <;> simp [TyCtor.serTag] at h <;> subst h <;> rfl

/-- `Type` serialisation refuses exactly `Intermediate` and `TypeScheme` -/
theorem C20_type_refusals (c : TyCtor) : c.serTag = none ↔ (c = .Intermediate ∨ c = .TypeScheme) := by
  cases c <;> simp [TyCtor.serTag]

/-- fields are read back in the order they were written -/
theorem C20_type_fields_consistent (c : TyCtor) (h : c.serTag ≠ none) : c.deFields = some c.serFields := by
  cases c <;> simp [TyCtor.serTag] at h <;> rfl

theorem C20_value_tags_consistent (c : ValCtor) (t : UInt32) (h : c.serTag = some t) : ValCtor.ofTag t = some c := by
  cases c <;> simp [ValCtor.serTag] at h <;> subst h <;> rfl

theorem C20_value_fields_consistent (c : ValCtor) (h : c.serTag ≠ none) : c.deFields = some c.serFields := by
  cases c <;> simp [ValCtor.serTag] at h <;> rfl

/-- direct `Serialize for Value` refuses exactly Closure / ExternalFn / Store -/
theorem C20_value_serde_refusals (c : ValCtor) :
    c.serTag = none ↔ (c = .Closure ∨ c = .ExternalFn ∨ c = .Store) := by
  cases c <;> simp [ValCtor.serTag]

/-! ## `Type` under its hand-written serde impls (serialisable fragment) -/

/-- every type the serializer accepts decodes to itself, consuming exactly its bytes -/
theorem C20_type_roundtrip (t : Ty) (bs rest : Bytes) (hr : t.Rep) (hk : t.KeysValid) (h : encodeTy t = some bs) :
    decodeTy (bs ++ rest) = some (t, rest) := by
  rw [decodeTy_encodeTy t bs rest hr h, hk]

/-- without the assumption on keys: only slotmap's key normalisation is applied -/
theorem C20_type_roundtrip_norm (t : Ty) (bs rest : Bytes) (hr : t.Rep) (h : encodeTy t = some bs) :
    decodeTy (bs ++ rest) = some (t.norm, rest) := decodeTy_encodeTy t bs rest hr h

/-- `Type` serialisation errors exactly on `Intermediate` and `TypeScheme` -/
theorem C20_type_refusal_iff (t : Ty) : encodeTy t = none ↔ (t = .intermediate ∨ ∃ id, t = .typeScheme id) :=
  encodeTy_none_iff t

/-! ## `Value` under its own hand-written serde impls (direct encoding, symbols as raw ids) -/

theorem C20_value_serde_roundtrip (v : RawValue) (bs rest : Bytes) (hr : v.RepV) (h : encodeVal v = some bs) :
    decodeValBytes (bs ++ rest) = some (v.normKeys, rest) := decodeValBytes_encode v bs rest hr h

/-- the direct serializer fails exactly when a refused variant is reached -/
theorem C20_value_serde_refusal_iff (v : RawValue) : encodeVal v = none ↔ v.directOk = false := by
  unfold encodeVal; cases v.directOk <;> simp

/-! ## non-vacuity -/

example : (FfiValue.record [("é", .array [.number 0x7FF8000000000001, .taggedUnion 3 (.code ⟨7, 5⟩)]), ("", .tuple [])]).Rep := by
  simp [FfiValue.Rep, RepList, RepFields, LenOk, strBytes]
  decide

example : decodeBytes (encode (.array [.string "aé", .unit])) = some (.array [.string "aé", .unit], []) :=
  C20_ffi_roundtrip _ (by simp [FfiValue.Rep, RepList, LenOk, strBytes]; decide) (by simp [FfiValue.KeysValid, KeysValidList])

example : ∃ bs, encodeTy (.userSum 3 [(1, none), (2, some ⟨5, 7⟩)]) = some bs := ⟨_, rfl⟩
example : (Ty.record [⟨1, ⟨0, 1⟩, true⟩]).KeysValid := by unfold Ty.KeysValid; decide
example : ∃ bs, encodeVal (.taggedUnion 1 (.record [(4, .fixpoint 2 ⟨0, 1⟩)])) = some bs := ⟨_, rfl⟩

end Mimium.Ffi
