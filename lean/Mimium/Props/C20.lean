import Mimium.Proofs.FfiConv
import Mimium.Proofs.FfiType
import Mimium.Proofs.FfiValueSerde
import Mimium.Proofs.FfiTrunc
import Mimium.Proofs.FfiSound
import Mimium.Proofs.FfiTypeSound
import Mimium.Proofs.FfiValueSerdeSound
import Mimium.Proofs.FfiInjTypeValue
/-!
# C20 — Values and types survive the plugin FFI encoding

Property theorems only (helpers in `Proofs/Ffi*.lean`).  Model: `Model/Ffi.lean`, a hand port of
`runtime/ffi_serde.rs` plus the slice of bincode 1.3.3 / serde derive / slotmap serde it runs through; variant
indices are re-extracted from the Rust source into `Gen/FfiVariants.lean` on every run.  The model is tied to the
real code byte-for-byte by `./check C20`.

All statements quantify over *every* value (any depth, any width, any string, any 64-bit pattern as number).  The
only hypotheses are facts about values that exist in a Rust process:
* `Rep`  — every `Vec`/`String` length is below 2^64 (bincode writes lengths as `u64`);
* `KeysValid` — every `ExprNodeId`/`TypeNodeId` is a key slotmap hands out (odd version, null key = (MAX,1));
  without it the exact result is still proved (`…_norm`: the key comes back normalised, as `KeyData::deserialize` does);
* `intern (resolve s) = s` — the interner returns the symbol it resolved.

Refusal clause ("values that cannot cross the boundary are refused with an error rather than silently altered"), at
full strength since `to_ffi_value` refuses `Value::ErrorV` (former finding F9, repaired in /repo): `C20_refusal_iff`
(refused ⇔ a Closure / Fixpoint / ExternalFn / Store / ConstructorFn / ErrorV occurs at some depth),
`C20_value_ffi_roundtrip` (EVERY value that is let through comes back as itself), `C20_refused_or_unchanged`; the same
for macro-argument lists.  The wire variant `FfiValue::ErrorV` still exists and still decodes (to `Unit`):
`C20_errorV_wire_variant_kept`; it is never written (`C20_toFfi_never_errorV`, `C20_errorV_refused_inside`).

Soundness direction (second half of the file, `C20_*decode_sound`, `…_decode_wellformed`, `…_decode_reencode`,
`…_prefix_deterministic`, `…_truncation`, `…_extension`): for ALL byte strings, whatever one of the four decoders
(`FfiValue`, macro arguments, `Type`, direct `Value`) accepts is the encoder's output for a representable value `w`
followed by the unread rest, and the value returned is `w` with its slotmap keys normalised.  The decoders accept NO
other non-canonical input: lengths and integers are fixed width (no non-minimal form exists), `bool`/`Option` tags other
than 0/1 are rejected, invalid UTF-8 is rejected (never replaced), numbers are raw bit patterns (NaN payloads are kept),
a variant index is accepted only if the encoder writes it for that variant.  The one normalisation is
`KeyData::deserialize` (`Key.norm`), so `bs = encode v ++ rest` holds exactly when the keys on the wire were valid, and
in general `bs = encode w ++ rest ∧ v = w.norm`.
-/
namespace Mimium.Ffi
open Mimium.Gen.Ffi

/-! ## byte level: `FfiValue` -/

/-- the derived decoder inverts the derived encoder on every value, consuming exactly the bytes produced -/
theorem C20_ffi_roundtrip (v : FfiValue) (hr : v.Rep) (hk : v.KeysValid) :
    decodeBytes (encode v) = some (v, []) := by
  have := decodeBytes_encode v [] hr
  rwa [List.append_nil, norm_of_keysValid v hk] at this

/-- prefix-freeness: whatever follows an encoding is left untouched and does not change what is decoded -/
theorem C20_ffi_prefix_free (v : FfiValue) (rest : Bytes) (hr : v.Rep) (hk : v.KeysValid) :
    decodeBytes (encode v ++ rest) = some (v, rest) := by
  rw [decodeBytes_encode v rest hr, norm_of_keysValid v hk]

/-- same without the assumption on keys: the only change is slotmap's key normalisation -/
theorem C20_ffi_roundtrip_norm (v : FfiValue) (rest : Bytes) (hr : v.Rep) :
    decodeBytes (encode v ++ rest) = some (v.norm, rest) := decodeBytes_encode v rest hr

/-- the result does not depend on the fuel of the model's decoder once it is at least the input length -/
theorem C20_ffi_fuel_irrelevant (v : FfiValue) (rest : Bytes) (hr : v.Rep) (f : Nat)
    (hf : (encode v ++ rest).length ≤ f) : decode f (encode v ++ rest) = decodeBytes (encode v ++ rest) := by
  rw [decodeBytes_encode v rest hr]
  exact decode_encode v f rest hr (by have := need_le_length v; simp at hf; omega)

/-- `bincode::deserialize` (trailing bytes allowed) returns the value that was serialised -/
theorem C20_ffi_deserialize_serialize (v : FfiValue) (rest : Bytes) (hr : v.Rep) (hk : v.KeysValid) :
    decodeTop (encode v ++ rest) = some v := by
  rw [decodeTop_encode v rest hr, norm_of_keysValid v hk]

/-- the variant index written for a constructor selects that constructor again (generated table, re-checked each run) -/
theorem C20_ffi_tags_roundtrip (c : FfiCtor) : FfiCtor.ofTag c.tag = some c := FfiCtor.ofTag_tag c

/-- distinct values never share an encoding -/
theorem C20_encode_injective (v w : FfiValue) (hv : v.Rep) (hw : w.Rep) (kv : v.KeysValid) (kw : w.KeysValid)
    (h : encode v = encode w) : v = w := by
  have a := C20_ffi_roundtrip v hv kv
  have b := C20_ffi_roundtrip w hw kw
  rw [h, b] at a
  simp at a
  exact a.symm

/-! ### malformed streams -/

/-- truncation: every strict prefix of a valid encoding is rejected (`Err`), at any depth -/
theorem C20_truncation_rejected (v : FfiValue) (hr : v.Rep) (k : Nat) (hk : k < (encode v).length) :
    decodeBytes ((encode v).take k) = none := decodeBytes_truncated v hr k hk

/-- whatever the decoder accepts (valid or not), it accepts identically when more bytes follow -/
theorem C20_decode_extension_stable (f : Nat) (bs x : Bytes) (v : FfiValue) (r : Bytes)
    (h : decode f bs = some (v, r)) : decode f (bs ++ x) = some (v, r ++ x) := (decode_ext_all f).1 bs v r x h

/-- the model's fuel is not observable: more fuel never changes an accepted result -/
theorem C20_decode_fuel_monotone (f g : Nat) (hfg : f ≤ g) (bs : Bytes) (p : FfiValue × Bytes)
    (h : decode f bs = some p) : decode g bs = some p := decode_fuel_le hfg h

/-! ## macro arguments `Vec<(FfiValue, TypeNodeId)>` -/

theorem C20_macro_args_roundtrip (as : List (FfiValue × Key)) (rest : Bytes) (hl : LenOk as.length)
    (hr : RepArgs as) : decodeArgs (encodeArgs as ++ rest) = some (normArgs as, rest) :=
  decodeArgs_encode as rest hl hr

/-! ## `Value ↔ FfiValue` -/
section conv
variable {σ : Type} (resolve : σ → String) (intern : String → σ)

/-- refusals: `to_ffi_value` returns `Err` exactly when a Closure / Fixpoint / ExternalFn / Store / ConstructorFn or an
error value (`ErrorV`) occurs somewhere inside the value, at any depth -/
theorem C20_refusal_iff (v : Value σ) :
    (∃ e, toFfi resolve v = .error e) ↔ (v.HasOpaque ∨ v.HasErrorV) :=
  toFfi_error_iff resolve v

/-- everything else crosses -/
theorem C20_crosses_iff (v : Value σ) :
    (∃ x, toFfi resolve v = .ok x) ↔ (¬ v.HasOpaque ∧ ¬ v.HasErrorV) := by
  rw [← not_or, ← C20_refusal_iff resolve v]
  cases toFfi resolve v <;> simp

/-- FULL STRENGTH, every value, no exception class: whatever `to_ffi_value` lets through, `to_value` turns back into
exactly the value that went in -/
theorem C20_value_ffi_roundtrip (hi : ∀ s, intern (resolve s) = s) (v : Value σ) (x : FfiValue)
    (h : toFfi resolve v = .ok x) : toValue intern x = v :=
  toValue_toFfi resolve intern hi v x h

/-- existence form: a value without opaque variant and without error value does cross, and comes back unchanged -/
theorem C20_value_ffi_roundtrip_exists (hi : ∀ s, intern (resolve s) = s) (v : Value σ)
    (ho : ¬ v.HasOpaque) (he : ¬ v.HasErrorV) :
    ∃ x, toFfi resolve v = .ok x ∧ toValue intern x = v := by
  obtain ⟨x, hx⟩ := (C20_crosses_iff resolve v).2 ⟨ho, he⟩
  exact ⟨x, hx, C20_value_ffi_roundtrip resolve intern hi v x hx⟩

/-- the statement of the property through the bytes: for EVERY value `v`, if `to_ffi_value v = Ok f` then decoding the
encoding of `f` (with anything appended) and converting back gives `v` -/
theorem C20_value_bytes_roundtrip (hi : ∀ s, intern (resolve s) = s) (v : Value σ) (x : FfiValue) (rest : Bytes)
    (h : toFfi resolve v = .ok x) (hr : x.Rep) (hk : x.KeysValid) :
    (decodeTop (encode x ++ rest)).map (toValue intern) = some v := by
  rw [C20_ffi_deserialize_serialize x rest hr hk]
  simp [C20_value_ffi_roundtrip resolve intern hi v x h]

/-- the whole pipeline `deserialize_value (serialize_value v ++ anything)`, for every value that is serialised -/
theorem C20_serialize_deserialize (hi : ∀ s, intern (resolve s) = s) (v : Value σ) (x : FfiValue) (rest : Bytes)
    (h : toFfi resolve v = .ok x) (hr : x.Rep) (hk : x.KeysValid) :
    ∃ bs, serializeValue resolve v = .ok bs ∧ deserializeValue intern (bs ++ rest) = some v := by
  refine ⟨encode x, by simp [serializeValue, h], ?_⟩
  simp only [deserializeValue, C20_ffi_deserialize_serialize x rest hr hk]
  rw [toValue_toFfi resolve intern hi v x h]

/-- REPAIRED (former finding F9): `Value::ErrorV` is refused by `to_ffi_value` / `serialize_value`, for every key `e`,
with the source's message; nothing is written. -/
theorem C20_errorV_refused (e : Key) :
    toFfi resolve (Value.errorV e : Value σ) = .error "Error values cannot be serialized across FFI boundaries"
    ∧ serializeValue resolve (Value.errorV e : Value σ)
        = .error "Error values cannot be serialized across FFI boundaries" :=
  ⟨rfl, rfl⟩

/-- … and so is every value that contains one at any depth (and every value whose conversion yields the wire variant
`FfiValue::ErrorV` does not exist: `to_ffi_value` never produces it) -/
theorem C20_errorV_refused_inside (v : Value σ) (h : v.HasErrorV) :
    (∃ e, serializeValue resolve v = .error e) ∧ ∀ x, toFfi resolve v ≠ .ok x := by
  obtain ⟨e, he⟩ := (C20_refusal_iff resolve v).2 (.inr h)
  exact ⟨⟨e, by simp [serializeValue, he]⟩, fun x hx => by rw [he] at hx; cases hx⟩

/-- "refused with an error rather than silently altered", for EVERY value: either `serialize_value` returns `Err`, or
the bytes it returns (followed by anything) deserialise to the very same value.  Hypothesis `hw`: what is written is
representable in a Rust process (lengths < 2^64) and its `Code` keys are slotmap-issued. -/
theorem C20_refused_or_unchanged (hi : ∀ s, intern (resolve s) = s) (v : Value σ)
    (hw : ∀ x, toFfi resolve v = .ok x → x.Rep ∧ x.KeysValid) :
    (∃ e, serializeValue resolve v = .error e) ∨
      (∃ bs, serializeValue resolve v = .ok bs ∧ ∀ rest, deserializeValue intern (bs ++ rest) = some v) := by
  cases h : toFfi resolve v with
  | error e => exact .inl ⟨e, by simp [serializeValue, h]⟩
  | ok x =>
    obtain ⟨hr, hk⟩ := hw x h
    refine .inr ⟨encode x, by simp [serializeValue, h], fun rest => ?_⟩
    obtain ⟨bs, hs, hd⟩ := C20_serialize_deserialize resolve intern hi v x rest h hr hk
    simp only [serializeValue, h] at hs
    cases hs
    exact hd

/-! ### the same for macro-argument lists (`serialize_macro_args` / `deserialize_macro_args`) -/

/-- `serialize_macro_args` refuses exactly when some argument contains a variant that cannot cross -/
theorem C20_macro_args_refusal_iff (as : List (Value σ × Key)) :
    (∃ e, serializeMacroArgs resolve as = .error e) ↔ ArgsUncrossable as := by
  rw [← toFfiArgs_error_iff resolve as]
  unfold serializeMacroArgs
  cases toFfiArgs resolve as <;> simp

/-- every argument list that is converted comes back unchanged (values and type ids) -/
theorem C20_macro_args_value_roundtrip (hi : ∀ s, intern (resolve s) = s) (as : List (Value σ × Key))
    (xs : List (FfiValue × Key)) (h : toFfiArgs resolve as = .ok xs) : toValueArgs intern xs = as :=
  toValueArgs_toFfiArgs resolve intern hi as xs h

/-- whole pipeline for argument lists; `normArgs xs = xs` = every key on the wire is slotmap-issued -/
theorem C20_macro_args_serialize_deserialize (hi : ∀ s, intern (resolve s) = s) (as : List (Value σ × Key))
    (xs : List (FfiValue × Key)) (rest : Bytes) (h : toFfiArgs resolve as = .ok xs)
    (hl : LenOk xs.length) (hr : RepArgs xs) (hk : normArgs xs = xs) :
    ∃ bs, serializeMacroArgs resolve as = .ok bs ∧ deserializeMacroArgs intern (bs ++ rest) = some as := by
  refine ⟨encodeArgs xs, by simp [serializeMacroArgs, h], ?_⟩
  simp only [deserializeMacroArgs, decodeArgsTop, C20_macro_args_roundtrip xs rest hl hr, hk, Option.map]
  rw [toValueArgs_toFfiArgs resolve intern hi as xs h]

end conv

/-- the repaired behaviour on the former witnesses of F9, by evaluation of the model: the bare error value, one inside
an array and one under a record field / tagged union are all refused … -/
theorem C20_errorV_witness :
    (serializeValue (σ := String) id (.errorV ⟨0, 1⟩)).toOption = none
    ∧ (serializeValue (σ := String) id (.array [.errorV ⟨0, 1⟩, .unit])).toOption = none
    ∧ (serializeValue (σ := String) id (.record [("é", .taggedUnion 3 (.errorV ⟨0, 1⟩))])).toOption = none
    ∧ (serializeMacroArgs (σ := String) id [(.unit, ⟨0, 1⟩), (.tuple [.errorV ⟨0, 1⟩], ⟨0, 1⟩)]).toOption = none := by
  decide +kernel

/-- … while the wire format is unchanged: the variant index of `FfiValue::ErrorV` is still decoded (bytes written by
a plugin built against the old library), as `Unit` — such bytes are never written by `serialize_value` any more
(`C20_errorV_refused_inside`) -/
theorem C20_errorV_wire_variant_kept :
    (deserializeValue (σ := String) id (encU32 FfiCtor.ErrorV.tag)).map Value.ctor = some ValCtor.Unit := by
  decide +kernel

/-- no value is converted to the wire variant `ErrorV` (top level; inside aggregates: what crosses contains no error
value by `C20_crosses_iff` and comes back unchanged by `C20_value_ffi_roundtrip`, while `ErrorV` would come back `Unit`) -/
theorem C20_toFfi_never_errorV {σ : Type} (resolve : σ → String) (v : Value σ) :
    toFfi resolve v ≠ .ok .errorV := by
  cases v <;> simp only [toFfi] <;> (try simp) <;> split <;> simp

/-! ## hand-written `Serialize`/`Deserialize` tables of `Type` and `Value` (generated, re-checked each run) -/

/-- every index the hand-written `Serialize for Type` writes is mapped back to the same variant by `Deserialize` -/
theorem C20_type_tags_consistent (c : TyCtor) (t : UInt32) (h : c.serTag = some t) : TyCtor.ofTag t = some c := by
  cases c <;> simp [TyCtor.serTag] at h <;> subst h <;> rfl

/-- `Type` serialisation refuses exactly `Intermediate` and `TypeScheme` -/
theorem C20_type_refusals (c : TyCtor) : c.serTag = none ↔ (c = .Intermediate ∨ c = .TypeScheme) := by
  cases c <;> simp [TyCtor.serTag]

/-- fields are read back in the order they were written -/
theorem C20_type_fields_consistent (c : TyCtor) (h : c.serTag ≠ none) : c.deFields = some c.serFields := by
  cases c <;> simp [TyCtor.serTag] at h <;> rfl

theorem C20_value_tags_consistent (c : ValCtor) (t : UInt32) (h : c.serTag = some t) : ValCtor.ofTag t = some c := by
  cases c <;> simp [ValCtor.serTag] at h <;> subst h <;> rfl

theorem C20_value_fields_consistent (c : ValCtor) (h : c.serTag ≠ none) : c.deFields = some c.serFields := by
  cases c <;> simp [ValCtor.serTag] at h <;> rfl

/-- direct `Serialize for Value` refuses exactly Closure / ExternalFn / Store -/
theorem C20_value_serde_refusals (c : ValCtor) :
    c.serTag = none ↔ (c = .Closure ∨ c = .ExternalFn ∨ c = .Store) := by
  cases c <;> simp [ValCtor.serTag]

/-! ## `Type` under its hand-written serde impls (serialisable fragment) -/

/-- every type the serializer accepts decodes to itself, consuming exactly its bytes -/
theorem C20_type_roundtrip (t : Ty) (bs rest : Bytes) (hr : t.Rep) (hk : t.KeysValid) (h : encodeTy t = some bs) :
    decodeTy (bs ++ rest) = some (t, rest) := by
  rw [decodeTy_encodeTy t bs rest hr h, hk]

/-- without the assumption on keys: only slotmap's key normalisation is applied -/
theorem C20_type_roundtrip_norm (t : Ty) (bs rest : Bytes) (hr : t.Rep) (h : encodeTy t = some bs) :
    decodeTy (bs ++ rest) = some (t.norm, rest) := decodeTy_encodeTy t bs rest hr h

/-- `Type` serialisation errors exactly on `Intermediate` and `TypeScheme` -/
theorem C20_type_refusal_iff (t : Ty) : encodeTy t = none ↔ (t = .intermediate ∨ ∃ id, t = .typeScheme id) :=
  encodeTy_none_iff t

/-! ## `Value` under its own hand-written serde impls (direct encoding, symbols as raw ids) -/

theorem C20_value_serde_roundtrip (v : RawValue) (bs rest : Bytes) (hr : v.RepV) (h : encodeVal v = some bs) :
    decodeValBytes (bs ++ rest) = some (v.normKeys, rest) := decodeValBytes_encode v bs rest hr h

/-- the direct serializer fails exactly when a refused variant is reached -/
theorem C20_value_serde_refusal_iff (v : RawValue) : encodeVal v = none ↔ v.directOk = false := by
  unfold encodeVal; cases v.directOk <;> simp

/-! ## non-vacuity -/

example : (FfiValue.record [("é", .array [.number 0x7FF8000000000001, .taggedUnion 3 (.code ⟨7, 5⟩)]), ("", .tuple [])]).Rep := by
  simp [FfiValue.Rep, RepList, RepFields, LenOk, strBytes]
  decide

example : decodeBytes (encode (.array [.string "aé", .unit])) = some (.array [.string "aé", .unit], []) :=
  C20_ffi_roundtrip _ (by simp [FfiValue.Rep, RepList, LenOk, strBytes]; decide) (by simp [FfiValue.KeysValid, KeysValidList])

-- a value that crosses (hypotheses of `C20_value_bytes_roundtrip` / `C20_refused_or_unchanged` are satisfiable) …
example : ∃ x, toFfi (σ := String) id (.record [("é", .array [.number 1, .taggedUnion 3 (.code ⟨7, 5⟩)])]) = .ok x
    ∧ x.Rep ∧ x.KeysValid :=
  ⟨_, rfl, by simp [FfiValue.Rep, RepList, RepFields, LenOk, strBytes]; decide,
    by simp [FfiValue.KeysValid, KeysValidList, KeysValidFields]; decide⟩
-- … and both kinds of refusal
example : (Value.tuple [.unit, .taggedUnion 0 (.errorV ⟨0, 1⟩)] : Value String).HasErrorV := by
  simp [Value.HasErrorV, HasErrorVList]
example : (Value.array [.store .unit] : Value String).HasOpaque ∧ ¬ (Value.array [.store .unit] : Value String).HasErrorV := by
  simp [Value.HasOpaque, HasOpaqueList, Value.HasErrorV, HasErrorVList]
example : ArgsUncrossable [((.unit : Value String), (⟨0, 1⟩ : Key)), (.tuple [.errorV ⟨0, 1⟩], ⟨0, 1⟩)] := by
  simp [ArgsUncrossable, Value.HasErrorV, HasErrorVList]

example : ∃ bs, encodeTy (.userSum 3 [(1, none), (2, some ⟨5, 7⟩)]) = some bs := ⟨_, rfl⟩
example : (Ty.record [⟨1, ⟨0, 1⟩, true⟩]).KeysValid := by unfold Ty.KeysValid; decide
example : ∃ bs, encodeVal (.taggedUnion 1 (.record [(4, .fixpoint 2 ⟨0, 1⟩)])) = some bs := ⟨_, rfl⟩

/-! # Soundness direction: what the decoders accept, on ALL byte strings -/

/-! ## `FfiValue` -/

/-- SOUNDNESS, exact normal-form relation.  Whatever the decoder accepts (any fuel, any bytes) is the encoding of a
representable value `w` followed by exactly the unread rest, and the value returned is `w.norm` (`w` with every
`Code` key normalised as `KeyData::deserialize` does). -/
theorem C20_decode_sound (f : Nat) (bs rest : Bytes) (v : FfiValue) (h : decode f bs = some (v, rest)) :
    ∃ w : FfiValue, w.Rep ∧ bs = encode w ++ rest ∧ v = w.norm := decode_sound h

/-- complete characterisation of the decoder: soundness + round trip -/
theorem C20_decode_iff (bs rest : Bytes) (v : FfiValue) :
    decodeBytes bs = some (v, rest) ↔ ∃ w : FfiValue, w.Rep ∧ bs = encode w ++ rest ∧ v = w.norm :=
  decodeBytes_iff bs rest v

/-- a decoded value is well formed: representable, every key is one slotmap hands out, fixed by `norm` -/
theorem C20_decode_wellformed (f : Nat) (bs rest : Bytes) (v : FfiValue) (h : decode f bs = some (v, rest)) :
    v.Rep ∧ v.KeysValid ∧ v.norm = v := by
  obtain ⟨w, hw, -, rfl⟩ := decode_sound h
  exact ⟨FfiValue.rep_norm w hw, FfiValue.keysValid_norm w, FfiValue.norm_norm w⟩

/-- the canonical re-encoding of what was decoded: the input is `pre ++ rest` where `pre` has the length of
`encode v`; `encode v` decodes to `v` exactly (idempotence of decode∘encode on the image), with anything appended;
and so does the consumed prefix `pre` itself. -/
theorem C20_decode_reencode (f : Nat) (bs rest : Bytes) (v : FfiValue) (h : decode f bs = some (v, rest)) :
    ∃ pre, bs = pre ++ rest ∧ pre.length = (encode v).length ∧
      decodeBytes (encode v) = some (v, []) ∧
      (∀ x, decodeBytes (encode v ++ x) = some (v, x)) ∧ (∀ x, decodeBytes (pre ++ x) = some (v, x)) := by
  obtain ⟨hr, hk, -⟩ := C20_decode_wellformed f bs rest v h
  obtain ⟨w, hw, rfl, rfl⟩ := decode_sound h
  exact ⟨encode w, rfl, (encode_norm_length w).symm, C20_ffi_roundtrip _ hr hk,
    fun x => C20_ffi_prefix_free _ x hr hk, fun x => decodeBytes_encode w x hw⟩

/-- when the keys on the wire are valid the input *is* the canonical encoding of the result -/
theorem C20_decode_sound_canonical (f : Nat) (bs rest : Bytes) (v : FfiValue) (h : decode f bs = some (v, rest)) :
    ∃ w : FfiValue, bs = encode w ++ rest ∧ v = w.norm ∧ (w.KeysValid → bs = encode v ++ rest) := by
  obtain ⟨w, -, e, rfl⟩ := decode_sound h
  exact ⟨w, e, rfl, fun hk => by rw [norm_of_keysValid w hk]; exact e⟩

/-- the consumed prefix determines the value: two inputs that start with the same consumed prefix decode to the same
value (no two different values share an encoding, canonical or not) … -/
theorem C20_decode_prefix_deterministic (pre r₁ r₂ : Bytes) (v₁ v₂ : FfiValue)
    (h₁ : decodeBytes (pre ++ r₁) = some (v₁, r₁)) (h₂ : decodeBytes (pre ++ r₂) = some (v₂, r₂)) : v₁ = v₂ := by
  obtain ⟨w, hw, e, rfl⟩ := decode_sound h₁
  have := List.append_cancel_right e
  subst this
  rw [decodeBytes_encode w r₂ hw] at h₂
  simp at h₂; exact h₂

/-- … and the value determines how much is consumed: `(encode v).length` bytes, whatever follows -/
theorem C20_decode_consumed (f : Nat) (bs rest : Bytes) (v : FfiValue) (h : decode f bs = some (v, rest)) :
    bs.length = (encode v).length + rest.length := by
  obtain ⟨w, -, rfl, rfl⟩ := decode_sound h
  simp [encode_norm_length]

/-- the model's fuel is unobservable on EVERY input (accepted or rejected) once it reaches the input length, and a
success at any smaller fuel is already the final answer -/
theorem C20_decode_fuel_irrelevant_all (f : Nat) (bs : Bytes) :
    (bs.length ≤ f → decode f bs = decodeBytes bs) ∧ (∀ p, decode f bs = some p → decodeBytes bs = some p) :=
  ⟨decode_fuel_irrelevant f bs, fun _ h => decodeBytes_of_decode h⟩

/-- the derived `Deserialize` maps an index to a variant only if the derived `Serialize` writes that index for it
(generated table, re-checked each run; converse of `C20_ffi_tags_roundtrip`) -/
theorem C20_ffi_tags_sound (t : UInt32) (c : FfiCtor) (h : FfiCtor.ofTag t = some c) : c.tag = t :=
  FfiCtor.tag_of_ofTag h

/-! ## macro arguments -/

theorem C20_macro_args_decode_sound (bs rest : Bytes) (as : List (FfiValue × Key))
    (h : decodeArgs bs = some (as, rest)) :
    ∃ ws, LenOk ws.length ∧ RepArgs ws ∧ bs = encodeArgs ws ++ rest ∧ as = normArgs ws := decodeArgs_sound h

/-- decoded argument lists are well formed and their canonical re-encoding decodes to themselves -/
theorem C20_macro_args_decode_reencode (bs rest : Bytes) (as : List (FfiValue × Key))
    (h : decodeArgs bs = some (as, rest)) :
    LenOk as.length ∧ RepArgs as ∧ normArgs as = as ∧ ∀ x, decodeArgs (encodeArgs as ++ x) = some (as, x) := by
  obtain ⟨ws, hl, hws, -, rfl⟩ := decodeArgs_sound h
  have hl' : LenOk (normArgs ws).length := by rw [normArgs_length]; exact hl
  refine ⟨hl', repArgs_norm ws hws, normArgs_normArgs ws, fun x => ?_⟩
  rw [decodeArgs_encode _ x hl' (repArgs_norm ws hws), normArgs_normArgs]

/-! ## `Type` -/

/-- SOUNDNESS of the hand-written `Deserialize for Type`: whatever it accepts is the hand-written serializer's output
for a representable type `t0` (which the serializer therefore does not refuse) followed by the unread rest; the type
returned is `t0.norm`. -/
theorem C20_type_decode_sound (bs rest : Bytes) (t : Ty) (h : decodeTy bs = some (t, rest)) :
    ∃ (t0 : Ty) (enc : Bytes), t0.Rep ∧ encodeTy t0 = some enc ∧ bs = enc ++ rest ∧ t = t0.norm := decodeTy_sound h

theorem C20_type_decode_iff (bs rest : Bytes) (t : Ty) :
    decodeTy bs = some (t, rest) ↔
      ∃ (t0 : Ty) (enc : Bytes), t0.Rep ∧ encodeTy t0 = some enc ∧ bs = enc ++ rest ∧ t = t0.norm :=
  decodeTy_iff bs rest t

/-- a decoded type is well formed (representable, keys valid), the serializer accepts it, its canonical encoding has
the length that was consumed and decodes to the same type with anything appended -/
theorem C20_type_decode_encode (bs rest : Bytes) (t : Ty) (h : decodeTy bs = some (t, rest)) :
    t.Rep ∧ t.KeysValid ∧ ∃ enc, encodeTy t = some enc ∧ bs.length = enc.length + rest.length ∧
      ∀ xs, decodeTy (enc ++ xs) = some (t, xs) := by
  obtain ⟨t0, enc0, hr, he, rfl, rfl⟩ := decodeTy_sound h
  have hs := encodeTy_norm_isSome t0
  rw [he] at hs
  cases he' : encodeTy t0.norm with
  | none => simp [he'] at hs
  | some enc =>
    refine ⟨Ty.rep_norm t0 hr, Ty.norm_norm t0, enc, rfl, ?_, fun xs => ?_⟩
    · simp [encodeTy_norm_length t0 enc0 enc he he']
    · rw [decodeTy_encodeTy t0.norm enc xs (Ty.rep_norm t0 hr) he', Ty.norm_norm]

/-- the consumed prefix determines the type -/
theorem C20_type_prefix_deterministic (pre r₁ r₂ : Bytes) (t₁ t₂ : Ty)
    (h₁ : decodeTy (pre ++ r₁) = some (t₁, r₁)) (h₂ : decodeTy (pre ++ r₂) = some (t₂, r₂)) : t₁ = t₂ := by
  obtain ⟨t0, enc, hr, he, e, rfl⟩ := decodeTy_sound h₁
  have := List.append_cancel_right e
  subst this
  rw [decodeTy_encodeTy t0 _ r₂ hr he] at h₂
  simp at h₂; exact h₂

/-- truncation: every strict prefix of a `Type` encoding is rejected (`Err`) -/
theorem C20_type_truncation (t : Ty) (bs : Bytes) (hr : t.Rep) (he : encodeTy t = some bs) (k : Nat)
    (hk : k < bs.length) : decodeTy (bs.take k) = none := decodeTy_truncated t bs hr he k hk

/-- extension: whatever follows an encoding is left untouched and does not change what is decoded -/
theorem C20_type_extension (t : Ty) (bs xs : Bytes) (hr : t.Rep) (hk : t.KeysValid) (he : encodeTy t = some bs) :
    decodeTy (bs ++ xs) = some (t, xs) := C20_type_roundtrip t bs xs hr hk he

/-- extension for whatever the decoder accepts (valid or not) -/
theorem C20_type_decode_extension_stable (bs rest xs : Bytes) (t : Ty) (h : decodeTy bs = some (t, rest)) :
    decodeTy (bs ++ xs) = some (t, rest ++ xs) := decodeTy_ext xs h

/-- no two serialisable types share an encoding (keys valid), and none is a strict prefix of another's -/
theorem C20_type_encode_injective (t u : Ty) (a b xs : Bytes) (ht : t.Rep) (hu : u.Rep) (kt : t.KeysValid)
    (ku : u.KeysValid) (ha : encodeTy t = some a) (hb : encodeTy u = some b) (h : a ++ xs = b) : t = u ∧ xs = [] := by
  have h1 := C20_type_roundtrip t a xs ht kt ha
  have h2 := C20_type_roundtrip u b [] hu ku hb
  rw [List.append_nil, ← h, h1] at h2
  simp at h2; exact ⟨h2.1, h2.2⟩

/-- the hand-written `Deserialize for Type` maps an index to a variant only if `Serialize for Type` writes that
index for it (generated tables; converse of `C20_type_tags_consistent`) -/
theorem C20_type_tags_sound (t : UInt32) (c : TyCtor) (h : TyCtor.ofTag t = some c) : c.serTag = some t :=
  TyCtor.serTag_of_ofTag h

theorem C20_ptype_tags_sound (t : UInt32) (c : PTypeCtor) (h : PTypeCtor.ofTag t = some c) : c.tag = t :=
  PTypeCtor.tag_of_ofTag h

/-! ## direct `Value` -/

/-- SOUNDNESS of the hand-written `Deserialize for Value` (any fuel, any bytes) -/
theorem C20_dvalue_decode_sound (f : Nat) (bs rest : Bytes) (v : RawValue) (h : decodeVal f bs = some (v, rest)) :
    ∃ (w : RawValue) (enc : Bytes), w.RepV ∧ encodeVal w = some enc ∧ bs = enc ++ rest ∧ v = w.normKeys := by
  obtain ⟨w, hok, hr, e, hv⟩ := decodeVal_sound h
  exact ⟨w, encodeValRaw w, hr, by simp [encodeVal, hok], e, hv⟩

theorem C20_dvalue_decode_iff (bs rest : Bytes) (v : RawValue) :
    decodeValBytes bs = some (v, rest) ↔
      ∃ (w : RawValue) (enc : Bytes), w.RepV ∧ encodeVal w = some enc ∧ bs = enc ++ rest ∧ v = w.normKeys :=
  decodeValBytes_iff bs rest v

/-- a decoded value is well formed (representable, keys normal, no refused variant inside), its canonical encoding has
the length that was consumed and decodes to the same value with anything appended -/
theorem C20_dvalue_decode_encode (f : Nat) (bs rest : Bytes) (v : RawValue) (h : decodeVal f bs = some (v, rest)) :
    v.RepV ∧ v.normKeys = v ∧ ∃ enc, encodeVal v = some enc ∧ bs.length = enc.length + rest.length ∧
      ∀ xs, decodeValBytes (enc ++ xs) = some (v, xs) := by
  obtain ⟨w, hok, hr, rfl, rfl⟩ := decodeVal_sound h
  have hok' : w.normKeys.directOk = true := by rw [Value.directOk_normKeys]; exact hok
  have he : encodeVal w.normKeys = some (encodeValRaw w.normKeys) := by simp [encodeVal, hok']
  refine ⟨Value.repV_normKeys w hr, Value.normKeys_normKeys w, _, he, ?_, fun xs => ?_⟩
  · simp [encodeValRaw_normKeys_length]
  · rw [decodeValBytes_encode _ _ xs (Value.repV_normKeys w hr) he, Value.normKeys_normKeys]

/-- the consumed prefix determines the value -/
theorem C20_dvalue_prefix_deterministic (pre r₁ r₂ : Bytes) (v₁ v₂ : RawValue)
    (h₁ : decodeValBytes (pre ++ r₁) = some (v₁, r₁)) (h₂ : decodeValBytes (pre ++ r₂) = some (v₂, r₂)) :
    v₁ = v₂ := by
  obtain ⟨w, hok, hr, e, rfl⟩ := decodeVal_sound h₁
  have := List.append_cancel_right e
  subst this
  rw [decodeValBytes_encode w _ r₂ hr (by simp [encodeVal, hok])] at h₂
  simp at h₂; exact h₂

/-- truncation: every strict prefix of a direct `Value` encoding is rejected (`Err`), at any depth -/
theorem C20_dvalue_truncation (v : RawValue) (bs : Bytes) (hr : v.RepV) (he : encodeVal v = some bs) (k : Nat)
    (hk : k < bs.length) : decodeValBytes (bs.take k) = none := decodeValBytes_truncated v bs hr he k hk

/-- extension: whatever follows an encoding is left untouched and does not change what is decoded -/
theorem C20_dvalue_extension (v : RawValue) (bs xs : Bytes) (hr : v.RepV) (hk : v.normKeys = v)
    (he : encodeVal v = some bs) : decodeValBytes (bs ++ xs) = some (v, xs) := by
  rw [decodeValBytes_encode v bs xs hr he, hk]

/-- extension for whatever the decoder accepts (valid or not) -/
theorem C20_dvalue_decode_extension_stable (bs rest xs : Bytes) (v : RawValue)
    (h : decodeValBytes bs = some (v, rest)) : decodeValBytes (bs ++ xs) = some (v, rest ++ xs) :=
  decodeValBytes_ext xs h

/-- no two values share a direct encoding (keys normal), and none is a strict prefix of another's -/
theorem C20_dvalue_encode_injective (v u : RawValue) (a b xs : Bytes) (hv : v.RepV) (hu : u.RepV)
    (kv : v.normKeys = v) (ku : u.normKeys = u) (ha : encodeVal v = some a) (hb : encodeVal u = some b)
    (h : a ++ xs = b) : v = u ∧ xs = [] := by
  have h1 := C20_dvalue_extension v a xs hv kv ha
  have h2 := C20_dvalue_extension u b [] hu ku hb
  rw [List.append_nil, ← h, h1] at h2
  simp at h2; exact ⟨h2.1, h2.2⟩

/-- the model's fuel is unobservable on EVERY input once it reaches the input length, and a success at any smaller
fuel is already the final answer -/
theorem C20_dvalue_fuel_irrelevant (f : Nat) (bs : Bytes) :
    (bs.length ≤ f → decodeVal f bs = decodeValBytes bs) ∧
    (∀ p, decodeVal f bs = some p → decodeValBytes bs = some p) :=
  ⟨decodeVal_fuel_irrelevant f bs, fun _ h => decodeValBytes_of_decodeVal h⟩

/-- `Deserialize for Value` maps an index to a variant only if `Serialize for Value` writes that index for it -/
theorem C20_value_tags_sound (t : UInt32) (c : ValCtor) (h : ValCtor.ofTag t = some c) : c.serTag = some t :=
  ValCtor.serTag_of_ofTag h

/-! ## uniqueness of the value on the wire (no assumption on keys) -/

/-- the `FfiValue` encoder is injective and prefix-free on ALL representable values, valid keys or not -/
theorem C20_encode_injective_raw (v w : FfiValue) (x y : Bytes) (hv : v.Rep) (hw : w.Rep)
    (h : encode v ++ x = encode w ++ y) : v = w ∧ x = y := encode_cancel v w x y hv hw h

/-- hence the wire value `w` of `C20_decode_sound` is unique: an accepted input has exactly one reading -/
theorem C20_decode_sound_unique (f : Nat) (bs rest : Bytes) (v : FfiValue) (h : decode f bs = some (v, rest)) :
    ∃ w : FfiValue, (w.Rep ∧ bs = encode w ++ rest ∧ v = w.norm) ∧
      ∀ w' : FfiValue, w'.Rep → bs = encode w' ++ rest → w' = w := by
  obtain ⟨w, hw, rfl, rfl⟩ := decode_sound h
  exact ⟨w, ⟨hw, rfl, rfl⟩, fun w' hw' e => (encode_cancel w' w rest rest hw' hw e.symm).1⟩

theorem C20_type_encode_injective_raw (t u : Ty) (a b x y : Bytes) (ht : t.Rep) (hu : u.Rep)
    (ha : encodeTy t = some a) (hb : encodeTy u = some b) (h : a ++ x = b ++ y) : t = u ∧ x = y :=
  encodeTy_cancel t u a b x y ht hu ha hb h

theorem C20_type_decode_sound_unique (bs rest : Bytes) (t : Ty) (h : decodeTy bs = some (t, rest)) :
    ∃ t0 : Ty, (t0.Rep ∧ (∃ enc, encodeTy t0 = some enc ∧ bs = enc ++ rest) ∧ t = t0.norm) ∧
      ∀ t' : Ty, t'.Rep → (∃ enc, encodeTy t' = some enc ∧ bs = enc ++ rest) → t' = t0 := by
  obtain ⟨t0, enc, hr, he, rfl, rfl⟩ := decodeTy_sound h
  refine ⟨t0, ⟨hr, ⟨enc, he, rfl⟩, rfl⟩, ?_⟩
  rintro t' hr' ⟨enc', he', e⟩
  exact (encodeTy_cancel t' t0 enc' enc rest rest hr' hr he' he e.symm).1

theorem C20_dvalue_encode_injective_raw (v w : RawValue) (a b x y : Bytes) (hv : v.RepV) (hw : w.RepV)
    (ha : encodeVal v = some a) (hb : encodeVal w = some b) (h : a ++ x = b ++ y) : v = w ∧ x = y := by
  unfold encodeVal at ha hb
  split at ha
  · split at hb
    · cases ha; cases hb
      exact encodeValRaw_cancel v w x y (by assumption) (by assumption) hv hw h
    · cases hb
  · cases ha

theorem C20_dvalue_decode_sound_unique (f : Nat) (bs rest : Bytes) (v : RawValue)
    (h : decodeVal f bs = some (v, rest)) :
    ∃ w : RawValue, (w.RepV ∧ (∃ enc, encodeVal w = some enc ∧ bs = enc ++ rest) ∧ v = w.normKeys) ∧
      ∀ w' : RawValue, w'.RepV → (∃ enc, encodeVal w' = some enc ∧ bs = enc ++ rest) → w' = w := by
  obtain ⟨w, enc, hr, he, rfl, rfl⟩ := C20_dvalue_decode_sound f bs rest v h
  refine ⟨w, ⟨hr, ⟨enc, he, rfl⟩, rfl⟩, ?_⟩
  rintro w' hr' ⟨enc', he', e⟩
  exact (C20_dvalue_encode_injective_raw w' w enc' enc rest rest hr' hr he' he e.symm).1

/-! ## non-vacuity of the soundness theorems: non-canonical inputs that ARE accepted (even key versions), and the
canonical forms they come back as -/

-- `Code` key (idx 7, version 4) on the wire: accepted, comes back with version 5; re-encoding differs in one byte
example : decodeBytes (encode (.code ⟨7, 4⟩) ++ [9]) = some (.code ⟨7, 5⟩, [9]) :=
  C20_ffi_roundtrip_norm (.code ⟨7, 4⟩) [9] (by simp [FfiValue.Rep])
example : encode (.code ⟨7, 4⟩) ≠ encode (.code ⟨7, 5⟩) := by decide +kernel
example : ∃ f bs rest v, decode f bs = some (v, rest) ∧ bs ≠ encode v ++ rest :=
  ⟨_, encode (.code ⟨7, 4⟩) ++ [9], [9], .code ⟨7, 5⟩,
    C20_ffi_roundtrip_norm (.code ⟨7, 4⟩) [9] (by simp [FfiValue.Rep]), by decide +kernel⟩
example : decodeArgs (encodeArgs [(.unit, ⟨0xFFFFFFFF, 8⟩)]) = some ([(.unit, ⟨0xFFFFFFFF, 1⟩)], []) := by
  have := C20_macro_args_roundtrip [(.unit, ⟨0xFFFFFFFF, 8⟩)] [] (by simp [LenOk]) (by simp [RepArgs, FfiValue.Rep])
  rw [List.append_nil] at this
  rw [this]; rfl
example : ∃ bs, encodeTy (.function ⟨1, 2⟩ ⟨3, 3⟩) = some bs ∧ decodeTy (bs ++ [0]) = some (.function ⟨1, 3⟩ ⟨3, 3⟩, [0]) :=
  ⟨_, rfl, by decide +kernel⟩
example : ∃ bs, encodeVal (.array [.fixpoint 2 ⟨0, 0⟩]) = some bs ∧
    decodeValBytes bs = some (.array [.fixpoint 2 ⟨0, 1⟩], []) := by
  refine ⟨_, rfl, ?_⟩
  have := C20_value_serde_roundtrip (.array [.fixpoint 2 ⟨0, 0⟩]) _ [] (by simp [Value.RepV, RepVList, LenOk]) rfl
  rw [List.append_nil] at this
  rw [this]; rfl
-- hypotheses of the truncation / extension theorems are satisfiable
example : ∃ bs, encodeTy (.record [⟨1, ⟨0, 1⟩, true⟩]) = some bs ∧ 3 < bs.length ∧ (Ty.record [⟨1, ⟨0, 1⟩, true⟩]).Rep :=
  ⟨_, rfl, by decide +kernel, by simp [Ty.Rep, LenOk]⟩
example : ∃ bs, encodeVal (.tuple [.code ⟨0, 1⟩, .unit]) = some bs ∧ 3 < bs.length ∧
    (Value.tuple [.code ⟨0, 1⟩, .unit] : RawValue).RepV ∧
    (Value.tuple [.code ⟨0, 1⟩, .unit] : RawValue).normKeys = .tuple [.code ⟨0, 1⟩, .unit] :=
  ⟨_, rfl, by decide +kernel, by simp [Value.RepV, RepVList, LenOk], rfl⟩

end Mimium.Ffi
