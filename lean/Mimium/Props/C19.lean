import Mimium.Proofs.Interner
import Mimium.Proofs.SessionLock
import Mimium.Gen.HashSites
import Mimium.Gen.SharedState
import Mimium.Proofs.ReportCache
/-!
# C19 — Concurrent compilations do not interfere

What is proved here (level: **partial**): the *protocol* by which compiler threads share the process-global
interner and arenas (`interner.rs`).  Model `Model/Interner.lean`: every API call is one atomic step on the shared
tables (that is what `with_session_globals` provides), a schedule is ANY list of `(thread, op)` — so the theorems
quantify over every interleaving of every number of threads' programs, with any history already in the tables.

* `C19_interleave_noninterference` — thread `i`'s observations inside any schedule equal those of its solo run
  up to a renaming of ids that is injective on the ids it obtained; the strings it reads back are *equal*.
* `C19_reads_schedule_independent`, `C19_others_preserve_resolve` — what a thread resolves never depends on others.
* `C19_lock_per_op_no_deadlock` / `C19_reentrant_call_deadlocks` — one non-re-entrant mutex taken per call cannot
  deadlock as long as no closure re-enters the API; a re-entrant closure does (tie: translator lists such closures).
* `C19_env_guard_race` — `MacroFileEnvGuard` is NOT interference-free: schedule witness.

NOT proved: that the compiler's observable behaviour is a function of these observations up to renaming (it is
exercised: `./check C19` runs K∈{2,4,8,16} real compiler threads against single-threaded results), type-variable
cells (`Arc<RwLock<TypeVar>>`, per compilation), real schedulers.  The interner model does NOT cover memory: `Symbol::as_str`
slices dangle after a reallocation (finding F8, `C19_as_str_slice_dangles`), which is a genuine interference.
-/
namespace Mimium.Interner
variable {α : Type} [DecidableEq α]

/-- **interleave non-interference**: for EVERY schedule `l` (any interleaving, any number of threads), any
tables `s a` the process already holds and any tables `s' a'` of a process in which thread `i` would run alone,
thread `i` observes in `l` exactly what it observes alone, up to an injective renaming of the ids it obtained. -/
theorem C19_interleave_noninterference (l : List (Nat × Op α)) (i : Nat)
    (s s' : List α) (a a' : List Node) (hs : s.Nodup) (hs' : s'.Nodup) :
    Renamed ((run (init s' a') (solo i (proj i l))).ths i) ((run (init s a) l).ths i) := by
  have h1 := inv_run (solo i (proj i l)) (inv_init s' a' hs' i)
  have h2 := inv_run l (inv_init s a hs i)
  rw [proj_solo] at h1
  exact renamed_of_inv h1 h2

/-- the strings a thread reads back are a function of its own program only -/
theorem C19_reads_schedule_independent (l : List (Nat × Op α)) (i : Nat) (s : List α) (a : List Node)
    (hs : s.Nodup) : ((run (init s a) l).ths i).strs = specStrs [] (proj i l) := by
  simpa using (inv_run l (inv_init s a hs i)).strs

/-- no step of any thread changes what an issued symbol id resolves to, nor what an arena id holds -/
theorem C19_others_preserve_resolve (st : St α) (x : Nat × Op α) (id : Nat) (v : α)
    (h : resolve st.syms id = some v) : resolve (step st x).syms id = some v := by
  obtain ⟨j, op⟩ := x
  cases op with
  | intern s =>
    obtain ⟨r, hr⟩ := intern_prefix st.syms s
    simp only [step, hr, resolve] at h ⊢
    have : id < st.syms.length := by
      rcases Nat.lt_or_ge id st.syms.length with h' | h'
      · exact h'
      · rw [List.getElem?_eq_none h'] at h; cases h
    rw [List.getElem?_append_left this]; exact h
  | resolve k => exact h
  | alloc p ks => exact h
  | get k => exact h

theorem C19_others_preserve_get (st : St α) (x : Nat × Op α) (id : Nat) (v : Node)
    (h : get st.arena id = some v) : get (step st x).arena id = some v := by
  obtain ⟨j, op⟩ := x
  cases op with
  | alloc p ks =>
    simp only [step, alloc, get] at h ⊢
    have : id < st.arena.length := by
      rcases Nat.lt_or_ge id st.arena.length with h' | h'
      · exact h'
      · rw [List.getElem?_eq_none h'] at h; cases h
    rw [List.getElem?_append_left this]; exact h
  | intern s => exact h
  | resolve k => exact h
  | get k => exact h

end Mimium.Interner

namespace Mimium.SessionLock

/-- **no deadlock**: one non-re-entrant mutex, taken and released inside each API call, never blocks everybody:
in every reachable state in which some thread still has a call to make, some thread can take a step. -/
theorem C19_lock_per_op_no_deadlock (todo : Nat → Nat) (st : LSt) (r : Reach (start todo) st)
    (j : Nat) (hj : 0 < st.todo j) : ∃ st', Step st st' := by
  have g := good_reach (good_start todo) r
  cases hh : st.holder with
  | none =>
    have hid : st.phase j = .idle := by
      cases hp : st.phase j with
      | idle => rfl
      | inside => have := g.2.1 j hp; rw [hh] at this; cases this
      | nested => exact absurd hp (g.2.2 j)
    exact ⟨_, Step.acquire st j hh hid hj⟩
  | some k => exact ⟨_, Step.release st k hh (g.1 k hh)⟩

/-- every step that finishes a call consumes one: the protocol terminates after `2 * Σ todo` steps (progress measure) -/
theorem C19_release_consumes (a b : LSt) (j : Nat) (hh : a.holder = some j) (hin : a.phase j = .inside)
    (hb : b = { holder := none, phase := set a.phase j .idle, todo := set a.todo j (a.todo j - 1) })
    (hpos : 0 < a.todo j) : b.todo j < a.todo j := by
  subst hb; simp [set]; omega

/-- a closure passed to `with_session_globals` that calls the API again blocks on the mutex its own thread holds:
from such a state nothing ever moves (neither `acquire`, the mutex is taken, nor `release`, the holder is not
`inside` any more).  This is why the translator rejects re-entrant closures. -/
theorem C19_reentrant_call_deadlocks (st : LSt) (j : Nat) (hh : st.holder = some j) (hn : st.phase j = .nested) :
    ¬ ∃ st', Step st st' := by
  rintro ⟨st', s⟩
  cases s with
  | acquire k hnone _ _ => rw [hh] at hnone; cases hnone
  | release k hk hin =>
    rw [hh] at hk
    have := Option.some.inj hk; subst this
    rw [hn] at hin; cases hin

/-- translator fact, pinned: NO closure passed to `with_session_globals` in /repo re-enters the API (the one that did —
`impl<T: AsRef<str>> ToSymbol for T` called `self.as_ref()` under the lock, finding F21 — is repaired in /repo 813b30b).
Any re-entrant closure breaks this theorem; by `C19_reentrant_call_deadlocks` it would self-deadlock. -/
theorem C19_reentrant_closures_pinned : Mimium.Gen.reentrantClosures.length = 0 := by decide

/-- `MacroFileEnvGuard` interferes: thread 0 compiles file 10, thread 1 file 20; thread 0's macro reads 20. -/
theorem C19_env_guard_race :
    (grun [(0, .enter 10), (1, .enter 20), (0, .read), (0, .exit), (1, .exit)]).reads = [(0, some 20)] ∧
    (grun [(0, .enter 10), (1, .enter 20), (0, .read), (0, .exit), (1, .exit)]).env = some 10 ∧
    (grun [(0, .enter 10), (0, .read), (0, .exit)]).reads = [(0, some 10)] ∧
    (grun [(0, .enter 10), (0, .read), (0, .exit)]).env = none := by decide

/-- **finding F8 (repaired in /repo: the interner now uses `BucketBackend`, see below)** on the model of `Symbol::as_str`
over `StringBackend`: a slice taken by one thread is left dangling by ANY later interning
(of any thread) that makes the buffer grow; concrete schedule: A takes `as_str` of a 4-byte name in an 8-byte buffer,
B interns a 10-byte name, A's slice no longer points into the live allocation. (Exhibited on the real code by
`c19 asstr` and, once, as a garbled module name in a 16-thread compilation.) -/
theorem C19_as_str_slice_dangles :
    let b0 : Buf := ⟨0, 4, 8⟩
    let sl := b0.asStr 0 4
    sl.valid b0 ∧ ¬ sl.valid (b0.push 10) := by decide

/-- in general: whenever a push exceeds the capacity, every slice handed out before is invalid afterwards -/
theorem C19_growth_invalidates_all_slices (b : Buf) (n off k : Nat) (h : b.cap < b.len + n) :
    ¬ (b.asStr off k).valid (b.push n) := by
  unfold Buf.push Buf.asStr Slice.valid
  rw [if_neg (by omega)]
  simp

/-- **F8 repaired**: with the bucket backend one interning never invalidates a slice handed out before -/
theorem C19_bucket_push_keeps_slices (b : Buckets) (s : BSlice) (n : Nat) (h : s.valid b) : s.valid (b.push n) := by
  obtain ⟨l, hl, hle⟩ := h
  unfold Buckets.push
  split
  · -- fits into the head: only the head's length grows
    unfold Buckets.lenOf at hl
    split at hl
    · rename_i hi
      exact ⟨l, by simp only [Buckets.lenOf, hi, if_true]; exact hl, hle⟩
    · split at hl
      · rename_i hi
        exact ⟨b.headLen + n, by simp [Buckets.lenOf, hi], by simp at hl; omega⟩
      · cases hl
  · -- the head is retired as bucket `full.length` with its length unchanged
    unfold Buckets.lenOf at hl
    split at hl
    · rename_i hi
      refine ⟨l, ?_, hle⟩
      have : s.bucket < (b.full ++ [b.headLen]).length := by simp; omega
      simp only [Buckets.lenOf, this, if_true]
      rw [List.getElem?_append_left hi]; exact hl
    · split at hl
      · rename_i hi
        refine ⟨b.headLen, ?_, by simp at hl; omega⟩
        have : s.bucket < (b.full ++ [b.headLen]).length := by simp; omega
        simp only [Buckets.lenOf, this, if_true]
        rw [hi, List.getElem?_append_right (Nat.le_refl _)]; simp
      · cases hl

/-- … and so no sequence of internings by any threads does (the interner mutex serialises them into ONE list) -/
theorem C19_as_str_slices_stay_valid (b : Buckets) (s : BSlice) (ns : List Nat) (h : s.valid b) :
    s.valid (ns.foldl Buckets.push b) := by
  induction ns generalizing b with
  | nil => exact h
  | cons n ns ih => exact ih _ (C19_bucket_push_keeps_slices b s n h)

/-- the slice `as_str` hands out for a string that has just been interned is valid to begin with -/
theorem C19_as_str_slice_valid_when_taken (b : Buckets) (n : Nat) : ((b.push n).asStrLast n).valid (b.push n) := by
  unfold Buckets.asStrLast BSlice.valid Buckets.lenOf
  refine ⟨(b.push n).headLen, by simp, ?_⟩
  unfold Buckets.push; split <;> simp <;> omega

/-- non-vacuity: the schedule of `C19_as_str_slice_dangles` on the bucket backend — A's slice survives B's 10-byte name -/
example :
    let b0 : Buckets := (⟨[], 0, 8⟩ : Buckets).push 4
    let sl := b0.asStrLast 4
    sl.valid b0 ∧ sl.valid (b0.push 10) ∧ (b0.push 10).full = [4] := by
  refine ⟨⟨4, by decide, by decide⟩, ⟨4, by decide, by decide⟩, by decide⟩

/-- translator fact, pinned: /repo keeps the symbol texts in the bucket backend, the one the three theorems above are
about (with `StringBackend` the model is `Buf` and `C19_growth_invalidates_all_slices` applies instead). -/
theorem C19_interner_backend_pinned : Mimium.Gen.internerBackend = "BucketBackend" := by decide

/-- translator fact, pinned: the process-global state of lib/mimium-lang/src (every `static`, `thread_local!` item and write to
the process environment, re-extracted on every run and compared item by item — file, name, declaration text — with the
reviewed list tools/shared_state.json) consists of the kinds below only: the session globals and the macro file environment
are the two pieces of shared mutable state the theorems of this file are about; the other kinds are immutable, per thread,
a counter that only numbers things (raw id listings, class F20 of C15) or the cache of source files for diagnostics.
A NEW static, or a thread-local turned into a static, fails the translator: the interference theorems then no longer
cover everything compiling threads share. -/
theorem C19_shared_state_kinds :
    ∀ e ∈ Mimium.Gen.sharedState, e.2.2 ∈ ["session-globals", "session-globals-pointer", "macro-file-environment",
      "per-thread-counter", "per-thread-scratch", "numbering-only-counter", "immutable", "diagnostic-file-cache"] := by decide

end Mimium.SessionLock

/-! ### rendered diagnostics: the process-wide source cache of `utils::error::report` -/
namespace Mimium.ReportCache

/-- **every rendered diagnostic shows the reporting thread's own program**: for EVERY schedule of atomic `report`
critical sections — any number of threads, any texts, the same or different paths, any previous content of the cache —
each diagnostic is rendered from the text of the job that reports it. -/
theorem C19_report_renders_own_text (c : Cache) (l : List Step) (h : atomicOnly l = true) (sh : Shown)
    (hm : sh ∈ run c l) : sh.2 = some sh.1.text :=
  run_atomic_own l h c sh hm

/-- the critical section is needed: if `report` stored the text and rendered it under two acquisitions of the lock,
the schedule store(A) · store(B) · render(A) of two threads reporting different texts under one path renders A's
diagnostic from B's program (this is seeded change C19c) -/
theorem C19_report_split_protocol_interferes :
    let a : Job := ⟨0, 7, 100⟩
    let b : Job := ⟨1, 7, 200⟩
    splitWellFormed [] [.store a, .store b, .render a, .render b] = true ∧
    run [] [.store a, .store b, .render a, .render b] = [(a, some 200), (b, some 200)] := by
  decide

/-- … and only through a shared path: with different paths the same split schedule is harmless -/
theorem C19_report_split_distinct_paths_ok :
    let a : Job := ⟨0, 7, 100⟩
    let b : Job := ⟨1, 8, 200⟩
    run [] [.store a, .store b, .render a, .render b] = [(a, some 100), (b, some 200)] := by
  decide

/-- tie (translator, regenerated from `utils/error.rs` on every run): `report` takes the cache's mutex once and that
critical section both stores the text and renders from the cache -/
theorem C19_report_critical_section_pinned :
    Mimium.Gen.reportCacheLocks = 1 ∧ Mimium.Gen.reportStoresAndRendersUnderOneLock = true := by
  decide

/-- non-vacuity: three threads, two of them under one path, interleaved atomic reports -/
example :
    let l : List Step := [.report ⟨0, 7, 100⟩, .report ⟨1, 7, 200⟩, .report ⟨0, 7, 100⟩, .report ⟨2, 9, 300⟩, .report ⟨1, 7, 200⟩]
    atomicOnly l = true ∧ (run [(7, 999)] l).length = 5 := by
  decide

end Mimium.ReportCache

