import Mimium.Proofs.Heap
/-!
# C12 — long-running programs do not accumulate closures or heap objects

`Model/Heap.lean` is the reference-counted slot store the VM keeps twice (`Machine::closures`, `Machine::heap`) as a
state machine over the operations the hook `runtime::vm::verif::HeapOp` records (insert / refcount ± / remove /
dereference / close, each with slot index and generation).  `balanced` is the executable judge of one frame of
traffic (one dsp call).  Proved here, for EVERY store, trace and run length:

* `C12_no_use_after_free`, `C12_removed_handle_never_live_again`: in a trace the judge accepts, every operation other
  than an insertion touches a handle that was live before the frame or inserted earlier in it, and that has not been
  removed earlier in it; a removed handle is never live again however the slot is reused (generations only grow).
* `C12_no_release_below_zero`: every accepted refcount operation finds a count of at least one.
* `C12_live_count_accounting`: live objects after a legal trace = live before + insertions − removals (per slot map).
* `C12_trace_checker_sound`: what `balanced s t = true` means, read key by key and as plain counts of the trace.
* `C12_balanced_periodic`: if every frame from `N0` on is balanced, the numbers of live closures and heap objects
  after `N` and after `2N` frames are equal, for all `N ≥ N0`.
* `C12_refcount_accounting`, `C12_balanced_retains_matched`, `C12_refcount_drift_unbounded`: per object, refcount after =
  before + retains − releases; an accepted frame retains every surviving pre-existing object exactly as often as it
  releases it; a per-frame surplus of retains makes the refcount grow without bound although the counts stay equal.
* `C12_unbalanced_grows`: conversely a legal run whose frames each insert `d` more objects than they remove has
  `live(n) = live(0) + n·d` — with `d > 0` the counts after `N` and `2N` differ for every `N ≥ 1`.
* discipline (P1), for every store and all fresh keys: the traffic the VM produces for a closure that does not escape
  is balanced (`C12_discipline_local_closure_partial` — the part of the property that holds on the pinned tree), the
  traffic it produces for a `let`-bound capturing closure is legal but leaves the closure behind
  (`C12_discipline_let_closure_leaks`), so does a function-valued argument or result
  (`C12_discipline_fn_arg_and_result_leak`); `C12_witness_*`: the traces recorded from the real VM for the minimal
  witnesses of the open findings are not balanced (`decide +kernel`; the check compares them with the VM every run).

* `C12_walks_same_offsets_matched`, `C12_walks_matched_iff_same_offsets`, `C12_index_walk_correct_on_unit_sizes`,
  `C12_index_walk_breaks_multiword_payload`: the clone walk and the release walk over a variant payload retain and
  release every handle equally often iff they visit the same word offsets; the element index is the word offset only
  when all elements are one word wide.

NOT proved: that `mirgen`/`bytecodegen` emit these fragments for every program (the generated programs' real traffic
is judged instead, op by op, by the correspondence stage), reachability from roots (hand-over is accepted only when
count-neutral, see `balanced`).
-/
namespace Mimium.Heap

/-- No use after release, stated on the history of the frame: if the judge's state machine accepts the trace, then
whenever an operation other than an insertion touches key `k`, `k` was live at the start of the frame or inserted
earlier in the frame, and it was not removed earlier in the frame. -/
theorem C12_no_use_after_free (s s' : Store) (t : Trace) (h : run s t = some s')
    (pre post : Trace) (o : Op) (ht : t = pre ++ o :: post) (hk : o.kind ≠ .alloc) :
    (live s o.key = true ∨ (⟨.alloc, o.key⟩ : Op) ∈ pre) ∧ (⟨.free, o.key⟩ : Op) ∉ pre := by
  subst ht
  rw [run_append] at h
  split at h
  · rename_i s1 h1
    simp only [run] at h
    split at h
    · rename_i s2 h2
      have hl := step_nonalloc_live h2 hk
      refine ⟨run_live_origin h1 hl, ?_⟩
      intro hm
      have := retired_not_live (run_free_retired h1 hm)
      rw [hl] at this
      cases this
    · cases h
  · cases h

/-- Slot reuse cannot resurrect a handle: once `k` has been removed in a legal run it is not live at any later point. -/
theorem C12_removed_handle_never_live_again (s s1 s2 : Store) (pre post : Trace) (k : Key)
    (h1 : run s pre = some s1) (hm : (⟨.free, k⟩ : Op) ∈ pre) (h2 : run s1 post = some s2) :
    live s2 k = false :=
  retired_not_live (run_retired h2 (run_free_retired h1 hm))

/-- No release below zero (and no retain / dereference / close of an object whose count is already 0). -/
theorem C12_no_release_below_zero (s s' : Store) (t : Trace) (h : run s t = some s')
    (pre post : Trace) (o : Op) (ht : t = pre ++ o :: post) (hk : o.kind ≠ .alloc) (hf : o.kind ≠ .free) :
    ∃ s1 n, run s pre = some s1 ∧ rcOf s1 o.key = some (n + 1) := by
  subst ht
  rw [run_append] at h
  split at h
  · rename_i s1 h1
    simp only [run] at h
    split at h
    · rename_i s2 h2
      obtain ⟨n, hn⟩ := step_needs_positive h2 hk hf
      exact ⟨s1, n, h1, hn⟩
    · cases h
  · cases h

/-- live objects after a legal trace = live before + insertions − removals, in each slot map -/
theorem C12_live_count_accounting (sp : Space) (s s' : Store) (t : Trace) (h : run s t = some s') :
    liveCount sp s' + countKind .free sp t = liveCount sp s + countKind .alloc sp t :=
  liveCount_run sp h

/-- Soundness of the judge: an accepted frame is legal from start to end, leaves no object at count 0, gives every
surviving pre-existing object its old count back (every retain matched by a release), and removes exactly as many
closures and heap objects as it inserts — so the numbers of live closures and heap objects are unchanged. -/
theorem C12_trace_checker_sound (s : Store) (t : Trace) (h : balanced s t = true) :
    ∃ s', run s t = some s' ∧
      (∀ k, rcOf s' k ≠ some 0) ∧
      (∀ k n m, rcOf s k = some n → rcOf s' k = some m → n = m) ∧
      (∀ sp, countKind .alloc sp t = countKind .free sp t) ∧
      (∀ sp, liveCount sp s' = liveCount sp s) := by
  obtain ⟨s', hr, hz, hs, hc, hh⟩ := balanced_run h
  have hcount : ∀ sp, liveCount sp s' = liveCount sp s := by intro sp; cases sp <;> assumption
  refine ⟨s', hr, noZombie_sound hz, fun k n m hn hm => sameRc_sound hs k hn hm, ?_, hcount⟩
  intro sp
  have := liveCount_run sp hr
  have := hcount sp
  omega

/-- the strict judge additionally guarantees that everything inserted in the frame is removed in the frame -/
theorem C12_strictly_balanced_sound (s : Store) (t : Trace) (h : strictlyBalanced s t = true) :
    balanced s t = true ∧ ∀ k, (⟨.alloc, k⟩ : Op) ∈ t → (⟨.free, k⟩ : Op) ∈ t := by
  simp only [strictlyBalanced, Bool.and_eq_true, List.all_eq_true, Bool.or_eq_true, bne_iff_ne, ne_eq,
    List.contains_iff_mem] at h
  refine ⟨h.1, fun k hk => ?_⟩
  rcases h.2 _ hk with h1 | h1
  · exact absurd rfl h1
  · exact h1

/-- Periodicity. `fr i` is the traffic of frame `i`, `after s0 fr n` the store after `n` frames. If every frame from
`N0` up to `2N` is accepted by the judge then the numbers of live closures and of live heap objects after `N` frames
and after `2N` frames are equal — for every `N ≥ N0`, with no bound on `N`. -/
theorem C12_balanced_periodic (s0 : Store) (fr : Nat → Trace) (N0 N : Nat) (hN : N0 ≤ N)
    (sN : Store) (hsN : after s0 fr N = some sN)
    (hbal : ∀ i s, N0 ≤ i → i < 2 * N → after s0 fr i = some s → balanced s (fr i) = true) :
    ∃ s2N, after s0 fr (2 * N) = some s2N ∧ ∀ sp, liveCount sp s2N = liveCount sp sN := by
  have key : ∀ d, N + d ≤ 2 * N → ∃ s, after s0 fr (N + d) = some s ∧ ∀ sp, liveCount sp s = liveCount sp sN := by
    intro d
    induction d with
    | zero => intro _; exact ⟨sN, hsN, fun _ => rfl⟩
    | succ d ih =>
      intro hd
      obtain ⟨s, hs, hc⟩ := ih (by omega)
      have hb := hbal (N + d) s (by omega) (by omega) hs
      obtain ⟨s', hr, _, _, _, hl⟩ := C12_trace_checker_sound s _ hb
      refine ⟨s', ?_, fun sp => by rw [hl sp, hc sp]⟩
      show after s0 fr (N + d + 1) = some s'
      simp only [after, hs, hr]
  have := key N (by omega)
  have e : N + N = 2 * N := by omega
  rw [e] at this
  exact this

/-- The converse used for the findings: if every frame is legal and inserts `d` more objects into slot map `sp` than
it removes, the number of live objects after `n` frames is `live(0) + n·d`. -/
theorem C12_unbalanced_grows (sp : Space) (s0 : Store) (fr : Nat → Trace) (d : Nat)
    (hd : ∀ i, countKind .alloc sp (fr i) = countKind .free sp (fr i) + d) :
    ∀ n s, after s0 fr n = some s → liveCount sp s = liveCount sp s0 + n * d := by
  intro n
  induction n with
  | zero => intro s h; simp [after] at h; subst h; simp
  | succ n ih =>
    intro s h
    obtain ⟨s1, h1, hr⟩ := after_succ_some h
    have a := ih s1 h1
    have b := liveCount_run sp hr
    have c := hd n
    rw [Nat.succ_mul]
    omega

/-- … hence, with `d > 0`, the counts after `N` and after `2N` frames differ for every `N ≥ 1`: the property fails. -/
theorem C12_unbalanced_not_periodic (sp : Space) (s0 : Store) (fr : Nat → Trace) (d : Nat) (hpos : 0 < d)
    (hd : ∀ i, countKind .alloc sp (fr i) = countKind .free sp (fr i) + d)
    (N : Nat) (hN : 1 ≤ N) (sN s2N : Store) (h1 : after s0 fr N = some sN) (h2 : after s0 fr (2 * N) = some s2N) :
    liveCount sp sN ≠ liveCount sp s2N := by
  have a := C12_unbalanced_grows sp s0 fr d hd N sN h1
  have b := C12_unbalanced_grows sp s0 fr d hd (2 * N) s2N h2
  have : N * d < 2 * N * d := by
    have : N * d + N * d = 2 * N * d := by rw [Nat.mul_assoc, Nat.two_mul]
    have : 0 < N * d := Nat.mul_pos (by omega) hpos
    omega
  omega

/-- per-object accounting: over a legal trace that does not remove `k`,
refcount after + releases of `k` = refcount before + retains of `k` -/
theorem C12_refcount_accounting (s s' : Store) (t : Trace) (k : Key) (n : Nat) (h : run s t = some s')
    (hn : rcOf s k = some n) (hfree : (⟨.free, k⟩ : Op) ∉ t) :
    ∃ m, rcOf s' k = some m ∧ m + countOp .release k t = n + countOp .retain k t :=
  rcOf_run h hn hfree

/-- "every retain has a matching release": in a frame the judge accepts, every object that existed before the frame
and is not removed by it is retained exactly as often as it is released. -/
theorem C12_balanced_retains_matched (s : Store) (t : Trace) (h : balanced s t = true) (k : Key) (n : Nat)
    (hn : rcOf s k = some n) (hfree : (⟨.free, k⟩ : Op) ∉ t) :
    countOp .retain k t = countOp .release k t := by
  obtain ⟨s', hr, _, hs, _⟩ := balanced_run h
  obtain ⟨m, hm, e⟩ := rcOf_run hr hn hfree
  have := sameRc_sound hs k hn hm
  omega

/-- the leak that object counts do not show (finding C12-K6): if every frame is legal, never removes `k` and retains
it `d` times more often than it releases it, the refcount of `k` after `n` frames is `rc(0) + n·d` — unbounded. -/
theorem C12_refcount_drift_unbounded (s0 : Store) (fr : Nat → Trace) (k : Key) (d r0 : Nat)
    (h0 : rcOf s0 k = some r0)
    (hfree : ∀ i, (⟨.free, k⟩ : Op) ∉ fr i)
    (hd : ∀ i, countOp .retain k (fr i) = countOp .release k (fr i) + d) :
    ∀ n s, after s0 fr n = some s → rcOf s k = some (r0 + n * d) := by
  intro n
  induction n with
  | zero => intro s h; simp [after] at h; subst h; simpa using h0
  | succ n ih =>
    intro s h
    obtain ⟨s1, h1, hr⟩ := after_succ_some h
    obtain ⟨m, hm, e⟩ := rcOf_run hr (ih s1 h1) (hfree n)
    have := hd n
    rw [hm, Nat.succ_mul]
    congr 1
    omega

/-! ## discipline of single constructs (P1): the fragments the VM emits, for every store and all fresh keys -/

/-- PARTIAL (the part that holds): a closure that does not escape costs nothing. Whatever dereferences are
interleaved, if the VM's traffic for it (insert closure and wrapper … drop closure, release wrapper) is legal, the
numbers of live closures and heap objects are back where they were. -/
theorem C12_discipline_local_closure_partial (s s' : Store) (t : Trace) (c h : Key)
    (hc : c.space = .cls) (hh : h.space = .heap) (hsk : skeleton t = skLocalClosure c h)
    (hr : run s t = some s') : ∀ sp, liveCount sp s' = liveCount sp s := by
  intro sp
  have := liveCount_run sp hr
  rw [← countKind_skeleton .free sp t (by decide), ← countKind_skeleton .alloc sp t (by decide), hsk] at this
  cases sp <;> simp [skLocalClosure, countKind, hc, hh] at this <;> omega

/-- … and the traffic is legal from every store in which the two slots are vacant or new (so the lemma is not vacuous). -/
theorem C12_discipline_local_closure_legal (s : Store) (c h : Key) (uses : Nat)
    (hc : c.space = .cls) (hh : h.space = .heap) (fc : find s c = none) (fh : find s h = none) :
    ∃ s', run s (fragLocalClosure c h uses) = some s' := by
  have hns : ¬ SameSlot c h := by intro e; have := e.1; rw [hc, hh] at this; cases this
  have hne : h ≠ c := by intro e; subst e; rw [hc] at hh; cases hh
  -- after the two insertions
  let s2 : Store := ⟨h.space, h.slot, h.gen, some 1⟩ :: ⟨c.space, c.slot, c.gen, some 1⟩ :: s
  have hch : (⟨c.space, c.slot, c.gen, some 1⟩ : Cell).holds h = false := by
    simp only [Cell.holds, Bool.and_eq_false_iff, beq_eq_false_iff_ne, ne_eq]; left; rw [hc, hh]; decide
  have hhc : (⟨h.space, h.slot, h.gen, some 1⟩ : Cell).holds c = false := by
    simp only [Cell.holds, Bool.and_eq_false_iff, beq_eq_false_iff_ne, ne_eq]; left; rw [hc, hh]; decide
  have e1 : step s ⟨.alloc, c⟩ = some (⟨c.space, c.slot, c.gen, some 1⟩ :: s) := by simp [step, fc]
  have e2 : step (⟨c.space, c.slot, c.gen, some 1⟩ :: s) ⟨.alloc, h⟩ = some s2 := by
    simp [step, find, hch, fh, s2]
  have hcc : (⟨c.space, c.slot, c.gen, some 1⟩ : Cell).holds c = true := by simp [Cell.holds]
  have hhh : (⟨h.space, h.slot, h.gen, some 1⟩ : Cell).holds h = true := by simp [Cell.holds]
  have rc2 : rcOf s2 c = some 1 := by simp [s2, rcOf, find, hhc, hcc]
  have rh2 : rcOf s2 h = some 1 := by simp [s2, rcOf, find, hhh]
  have uses_ok : ∀ n, run s2 (List.replicate n ⟨.use, c⟩ ++ [⟨.release, c⟩, ⟨.free, c⟩, ⟨.release, h⟩, ⟨.free, h⟩])
      = run s2 [⟨.release, c⟩, ⟨.free, c⟩, ⟨.release, h⟩, ⟨.free, h⟩] := by
    intro n
    induction n with
    | zero => rfl
    | succ n ih => rw [List.replicate_succ, List.cons_append, run]; simp only [step, rc2]; exact ih
  obtain ⟨cc, fcc, gcc, _⟩ := rcOf_some_find rc2
  obtain ⟨ch, fch, gch, _⟩ := rcOf_some_find rh2
  -- release c, free c
  let s3 := upd s2 c (some 0)
  have e3 : step s2 ⟨.release, c⟩ = some s3 := by simp [step, rc2, s3]
  have rc3 : rcOf s3 c = some 0 := rcOf_upd_self fcc _
  have rh3 : rcOf s3 h = some 1 := by rw [rcOf_upd_other fcc gcc hne]; exact rh2
  let s4 := upd s3 c none
  have e4 : step s3 ⟨.free, c⟩ = some s4 := by simp [step, rc3, s4]
  obtain ⟨cc3, fcc3, gcc3, _⟩ := rcOf_some_find rc3
  have rh4 : rcOf s4 h = some 1 := by rw [rcOf_upd_other fcc3 gcc3 hne]; exact rh3
  obtain ⟨ch4, fch4, _, _⟩ := rcOf_some_find rh4
  let s5 := upd s4 h (some 0)
  have e5 : step s4 ⟨.release, h⟩ = some s5 := by simp [step, rh4, s5]
  have rh5 : rcOf s5 h = some 0 := rcOf_upd_self fch4 _
  have e6 : step s5 ⟨.free, h⟩ = some (upd s5 h none) := by simp [step, rh5]
  refine ⟨upd s5 h none, ?_⟩
  simp only [fragLocalClosure, List.cons_append, List.nil_append, run, e1, e2]
  rw [uses_ok]
  simp only [run, e3, e4, e5, e6]

/-- FINDING C12-K1 (general form): the traffic of a `let`-bound capturing closure, whenever legal and whatever
dereferences are interleaved, leaves exactly one more live closure behind, in every store. -/
theorem C12_discipline_let_closure_leaks (s s' : Store) (t : Trace) (c h : Key)
    (hc : c.space = .cls) (hh : h.space = .heap) (hsk : skeleton t = skLetClosure c h)
    (hr : run s t = some s') :
    liveCount .cls s' = liveCount .cls s + 1 ∧ liveCount .heap s' = liveCount .heap s := by
  have a := liveCount_run .cls hr
  have b := liveCount_run .heap hr
  rw [← countKind_skeleton .free _ t (by decide), ← countKind_skeleton .alloc _ t (by decide), hsk] at a b
  simp [skLetClosure, countKind, hc, hh] at a b
  omega

/-- FINDING C12-K2 / C12-K3 (general form): the traffic of a function-valued argument and of a function-valued
result, whenever legal, leaves one closure AND its heap wrapper behind, in every store. -/
theorem C12_discipline_fn_arg_and_result_leak (s s' : Store) (t : Trace) (c h : Key) (again : Nat)
    (hc : c.space = .cls) (hh : h.space = .heap)
    (hsk : skeleton t = skFnArg c h ∨ skeleton t = skFnRet c h again)
    (hr : run s t = some s') :
    liveCount .cls s' = liveCount .cls s + 1 ∧ liveCount .heap s' = liveCount .heap s + 1 := by
  have a := liveCount_run .cls hr
  have b := liveCount_run .heap hr
  rw [← countKind_skeleton .free _ t (by decide), ← countKind_skeleton .alloc _ t (by decide)] at a b
  rcases hsk with hsk | hsk
  · rw [hsk] at a b
    simp [skFnArg, countKind, hc, hh] at a b
    omega
  · rw [hsk] at a b
    simp only [skFnRet, countKind_append, countKind_replicate_close _ _ _ _ (by decide : Kind.alloc ≠ .close),
      countKind_replicate_close _ _ _ _ (by decide : Kind.free ≠ .close)] at a b
    simp [countKind, hc, hh] at a b
    omega

/-! ## payload walks of `CloneUserSum` / `ReleaseUserSum` must visit the same word offsets -/

/-- if the clone walk and the release walk of a payload visit the same offsets (in any order), every handle in the
payload is retained exactly as often as it is released — whatever the words contain -/
theorem C12_walks_same_offsets_matched (words : List (Option Key)) (o1 o2 : List Nat) (h : o1.Perm o2) (k : Key) :
    countOp .retain k (walk .retain words o1) = countOp .release k (walk .release words o2) := by
  rw [countOp_walk, countOp_walk]
  exact visits_perm h k

/-- … and ONLY then: when the visited words hold pairwise distinct handles, retains and releases match for every
handle iff the two walks visit the same offsets equally often. -/
theorem C12_walks_matched_iff_same_offsets (words : List (Option Key)) (o1 o2 : List Nat)
    (hinj : ∀ i j k, wordAt words i = some k → wordAt words j = some k → i = j)
    (hhit : ∀ o, o ∈ o1 ∨ o ∈ o2 → ∃ k, wordAt words o = some k) :
    (∀ k, countOp .retain k (walk .retain words o1) = countOp .release k (walk .release words o2)) ↔ o1.Perm o2 := by
  constructor
  · intro h
    rw [List.perm_iff_count]
    intro j
    cases hw : wordAt words j with
    | some k =>
      have := h k
      rw [countOp_walk, countOp_walk, visits_eq_count words o1 j k hw (fun i hi => hinj i j k hi hw),
        visits_eq_count words o2 j k hw (fun i hi => hinj i j k hi hw)] at this
      exact this
    | none =>
      have n1 : j ∉ o1 := fun hm => by obtain ⟨k, hk⟩ := hhit j (Or.inl hm); rw [hw] at hk; cases hk
      have n2 : j ∉ o2 := fun hm => by obtain ⟨k, hk⟩ := hhit j (Or.inr hm); rw [hw] at hk; cases hk
      rw [List.count_eq_zero_of_not_mem n1, List.count_eq_zero_of_not_mem n2]
  · intro h k
    exact C12_walks_same_offsets_matched words o1 o2 h k

/-- using the element index as word offset is right exactly as long as every element is one word wide
(all shipped recursive types: `Cons(float, List)`, `Node(Tree, float, Tree)` …) -/
theorem C12_index_walk_correct_on_unit_sizes (layout : List Elem) (h : ∀ e ∈ layout, e.size = 1) (i : Nat) :
    indexOffsets layout i = trueOffsets layout i := by
  induction layout generalizing i with
  | nil => rfl
  | cons e es ih =>
    have he : e.size = 1 := h e (List.mem_cons_self ..)
    simp only [indexOffsets, trueOffsets, he]
    rw [ih (fun e' he' => h e' (List.mem_cons_of_mem _ he'))]

/-- `type rec PList = PNil | PCons((float,float), PList)` (seeded change C12a): the index walk visits word 1 (a float)
instead of word 2 (the tail), the walks are not permutations of each other, and the traffic of
`let s = PCons(p, PNil)  { let l = PCons(q, s) }` — accepted with the true walk — is rejected by the judge with the
index walk: `s` is released below zero. -/
theorem C12_index_walk_breaks_multiword_payload :
    let layout : List Elem := [⟨2, false⟩, ⟨1, true⟩]
    let words : List (Option Key) := [none, none, some (h 1 1)]
    indexOffsets layout 0 = [1] ∧ trueOffsets layout 0 = [2] ∧
    strictlyBalanced [] (embedFrame (h 1 1) (h 2 1) words layout (trueOffsets layout 0)) = true ∧
    run [] (embedFrame (h 1 1) (h 2 1) words layout (indexOffsets layout 0)) = none := by
  decide +kernel

/-! ## the recorded witnesses of the open findings (traffic of one steady-state dsp call of the real VM) -/

/-- the three recorded frames are legal (nothing is used after release) but NOT balanced:
they end with 1 closure / 1 closure + 1 heap object / 1 heap object more than they started with -/
theorem C12_witness_let_closure_unbalanced :
    balanced [] witnessLetClosure = false ∧
    (run [] witnessLetClosure).map (fun s => (liveCount .cls s, liveCount .heap s)) = some (1, 0) := by
  decide +kernel

theorem C12_witness_fn_arg_unbalanced :
    balanced [] witnessFnArg = false ∧
    (run [] witnessFnArg).map (fun s => (liveCount .cls s, liveCount .heap s, weight .cls s, weight .heap s))
      = some (1, 1, 2, 1) := by
  decide +kernel

theorem C12_witness_fn_ret_unbalanced :
    balanced [] witnessFnRet = false ∧
    (run [] witnessFnRet).map (fun s => (liveCount .cls s, liveCount .heap s, weight .cls s, weight .heap s))
      = some (1, 1, 2, 1) := by
  decide +kernel

theorem C12_witness_box_unbalanced :
    balanced [] witnessBox = false ∧
    (run [] witnessBox).map (fun s => (liveCount .heap s, weight .heap s)) = some (1, 3) := by
  decide +kernel

/-! non-vacuity: the judge accepts the real traffic of a non-escaping closure, with slot reuse across two samples
(`fn dsp(){ let f = |x| { x*2.0 }  f(3.0) }`: `cA1.1 hA1.1 cU cU c-1.1 cF1.1 h-1.1 hF1.1`, then generation 3), and
rejects a dangling use of the first sample's handle in the second sample although the slot is occupied again. -/
example :
    let t1 := fragLocalClosure (c 1 1) (h 1 1) 2
    let t2 := fragLocalClosure (c 1 3) (h 1 3) 2
    strictlyBalanced [] t1 = true ∧
    (run [] t1).map (fun s => balanced s t2) = some true ∧
    (run [] t1).map (fun s => balanced s ([⟨.alloc, c 1 3⟩, ⟨.use, c 1 1⟩] ++ t2.drop 1)) = some false := by
  decide +kernel

/-! the general discipline lemmas above apply to the recorded witnesses: their skeletons are the modelled ones -/
example :
    skeleton witnessLetClosure = skLetClosure (c 1 1) (h 1 1) ∧
    skeleton witnessFnArg = skFnArg (c 1 1) (h 1 1) ∧
    skeleton witnessFnRet = skFnRet (c 1 1) (h 1 1) 0 ∧
    skeleton (fragLocalClosure (c 1 1) (h 1 1) 2) = skLocalClosure (c 1 1) (h 1 1) := by
  decide +kernel

end Mimium.Heap
