import Mimium.Model.StageWitness
/-!
# C10 — hygiene of macros

The staging pipeline (`Model/Stage.lean`) rebuilds variables and binders of quoted code **from their names**
(`code_var("y")`, `code_let("y", …)`), so nothing keeps a binder of a macro body apart from a variable of the same name
in spliced code. For the model of the current implementation the unrestricted property is therefore FALSE:

* `C10_capture_witness` — the macro `fn m(x){ `{ let y = 10.0; $x } }` used as `let y = 1.0; m!(`y)` returns 10; with
  the macro's binder renamed to `z` it returns 1 (finding F6; replayed on the real compiler by the check, where
  `$x + y` gives 20 / 11).
* `C10_generated_name_capture_witness` — a second route through a compiler-generated name: nested tuple patterns in
  quoted code are flattened with temporaries `__dt<n>`; a user variable called `__dt0` is captured by the temporary
  (finding S2; `fn dsp(){ let __dt0 = 5.0; let ((a,b),c) = ((1.0,2.0),3.0); __dt0 }` returns the tuple `(1,2)` as soon as
  the program uses the macro system, 5 otherwise / with another name).

What holds is the conditional property (`NoClash`): see the theorems below.
The check keeps searching the NoClash space on the real compiler (original vs binder-renamed macro must agree) and
reports the complement as the known class `¬NoClash`.
-/
namespace Mimium.Stage

/-- macros are not hygienic: the binder `y` of the macro body captures the `y` of the spliced code (10 instead of 1);
renaming the macro's binder changes the result -/
theorem C10_capture_witness :
    firstOut (expandToCore [] (captureSrc "y") 1000) = .num bits10 ∧
    firstOut (expandToCore [] (captureSrc "z") 1000) = .num bits1 := by decide +kernel

/-- capture through the generated temporary `__dt0` of a nested tuple pattern -/
theorem C10_generated_name_capture_witness :
    dtRun "zz" = .num bits5 ∧ dtRun "__dt0" = .tuple := by decide +kernel

end Mimium.Stage
