import Mimium.Model.StageWitness
import Mimium.Proofs.CoreRenameV
import Mimium.Proofs.StagePipe
/-!
# C10 — hygiene of macros

The staging pipeline (`Model/Stage.lean`) rebuilds variables and binders of quoted code **from their names**
(`code_var("y")`, `code_let("y", …)`), so nothing keeps a binder of a macro body apart from a variable of the same name
in spliced code. For the model of the current implementation the unrestricted property is therefore FALSE:

* `C10_capture_witness` — the macro `fn m(x){ `{ let y = 10.0; $x } }` used as `let y = 1.0; m!(`y)` returns 10; with
  the macro's binder renamed to `z` it returns 1 (finding F6; replayed on the real compiler by the check, where
  `$x + y` gives 20 / 11).
* `C10_generated_name_capture_witness` — a second route through a compiler-generated name: nested tuple patterns in
  quoted code are flattened with temporaries `__dt<n>`; a user variable called `__dt0` is captured by the temporary
  (finding S2; `fn dsp(){ let __dt0 = 5.0; let ((a,b),c) = ((1.0,2.0),3.0); __dt0 }` returns the tuple `(1,2)` as soon as
  the program uses the macro system, 5 otherwise / with another name).

What holds is the conditional property. Expansion is substitution of the argument code into the template by names
(C09: `C09_quote_fills_holes`, `C09_expand_sound`); at the level of the core language (`Proofs/CoreRename.lean`):

* `C10_equivariance` — the reference evaluator is equivariant under every injective renaming of variables
  (`eval (π•env) (π•e) = eval env e`: same value, same store, same state), for closure-free code, all fuel, all stores;
* `C10_rename_commutes_with_splicing` — renaming commutes with splicing when the spliced fragments do not mention the
  renamed names;
* `C10_hygienic_if_noclash` — hence: under the decidable premise `noClash y z frags env` (no spliced fragment mentions
  the old name `y` or the new name `z`; the use-site environment binds neither), the expansion of the macro whose
  binder `y` is consistently renamed to `z` (`swapN y z` applied to the template) evaluates exactly like the expansion
  of the original macro — for every template, every argument code, every store and state, every run length.

* `C10_equivariance_with_closures`, `C10_hygienic_if_noclash_closures` — the same with `lam`/`app` in templates and
  arguments: the renaming then also acts on the closures in values, store and state (the results are equal up to the
  renamed binder inside closures), and the rest of the program must not mention the two names.

PARTIAL: the step from trees of `Model/Stage.lean` to core expressions is the reader
`toCoreProg` (exercised, not verified); evaluation contexts around the expansion are not part of the statement (the
expansions evaluate identically in the environment of the hole, so the surrounding evaluation is the same function of it).
The check searches the NoClash space on the real compiler (original vs binder-renamed macro must agree) and reports the
complement as the known class `¬NoClash` (F6, S1).
-/
namespace Mimium.Stage

/-- macros are not hygienic: the binder `y` of the macro body captures the `y` of the spliced code (10 instead of 1);
renaming the macro's binder changes the result -/
theorem C10_capture_witness :
    firstOut (expandToCore [] (captureSrc "y") 1000) = .num bits10 ∧
    firstOut (expandToCore [] (captureSrc "z") 1000) = .num bits1 := by decide +kernel

/-- capture through the generated temporary `__dt0` of a nested tuple pattern -/
theorem C10_generated_name_capture_witness :
    dtRun "zz" = .num bits5 ∧ dtRun "__dt0" = .tuple := by decide +kernel

/-! ### the macro pipe `x ||> (|a| `{ … $a … })` (expanded by the front end: `convert_macro_pipe`, `substitute_macro_arg`)

`substitute_macro_arg` replaces splices by NAME. Nested pipes whose macro lambdas bind the same name are nevertheless
expanded correctly, because `convert_macro_pipe` converts the function part — expanding the pipes inside its body, whose
binders thereby disappear — BEFORE it inlines the argument. -/

/-- the pinned order: the piped argument is inlined into the already converted body -/
theorem C10_macro_pipe_order (a : String) (arg body : Ex) :
    convMacroPipe (.pipeM arg (.lam [a] (.bracket body))) = substMacroArg a (convMacroPipe arg) (convMacroPipe body) :=
  convMacroPipe_pipe a arg body

/-- **The macro pipe is hygienic in its binder.** Renaming the binder `a` of a piped macro lambda to `b`, its splices
renamed with it (`body'` converts to the renamed conversion of `body`), does not change the expansion, for every argument
and body, provided `$b` is not already spliced in the converted body. Applied to an inner pipe this is: the result does
not depend on the inner binder's name, whatever the enclosing pipes are called (the conversion is compositional). -/
theorem C10_macro_pipe_hygienic (a b : String) (arg body body' : Ex)
    (hren : convMacroPipe body' = renHole a b (convMacroPipe body)) (hb : holeFree b (convMacroPipe body) = true) :
    convMacroPipe (.pipeM arg (.lam [b] (.bracket body'))) = convMacroPipe (.pipeM arg (.lam [a] (.bracket body))) := by
  rw [convMacroPipe_pipe, convMacroPipe_pipe, hren]
  exact substMacroArg_renHole a b (convMacroPipe arg) (convMacroPipe body) hb

/-- nested pipes with EQUAL binder names, in the compiler's order: the inner pipe yields 10 whatever its binder is called … -/
theorem C10_macro_pipe_nested_same_name :
    firstOut (expandToCore [] (dspOnly (convMacroPipe (nestedPipe "a"))) 1000) = .num bits10 ∧
    firstOut (expandToCore [] (dspOnly (convMacroPipe (nestedPipe "b"))) 1000) = .num bits10 := by decide +kernel

/-- … whereas the other order (inline the outer argument first, expand nested pipes afterwards) lets the outer binder
capture the inner splice: 3 instead of 10, and renaming the inner binder changes the result -/
theorem C10_macro_pipe_top_down_captures :
    firstOut (expandToCore [] (dspOnly (convMacroPipeTD 100 (nestedPipe "a"))) 1000) = .num bits3 ∧
    firstOut (expandToCore [] (dspOnly (convMacroPipeTD 100 (nestedPipe "b"))) 1000) = .num bits10 := by decide +kernel

/-- finding S6: a macro lambda that is NOT the function of a pipe survives the bottom-up pass, and the substitution,
which does not know binders, enters it: `3.0 ||> (|a| `{ $((|a| `{ $a })(`2.0)) })` is 3, with the inner binder renamed 2 -/
theorem C10_macro_pipe_inner_lambda_capture_witness :
    firstOut (expandToCore [] (dspOnly (pipeOverLambda "a")) 1000) = .num bits3 ∧
    firstOut (expandToCore [] (dspOnly (pipeOverLambda "b")) 1000) = .num bits2 := by decide +kernel

/-- finding S5: the `_` sugar binds the generated name `__lambda_arg_<argument index>`; a user's macro parameter of that
name spliced next to the placeholder is captured: `fst($__lambda_arg_1, _)` piped with 3 is `fst(3, 3)` = 3, not 100 -/
theorem C10_macro_pipe_generated_binder_capture_witness :
    firstOut (expandToCore [] (sugarCapture "__lambda_arg_1") 1000) = .num bits3 ∧
    firstOut (expandToCore [] (sugarCapture "zz") 1000) = .num bits100 := by decide +kernel

end Mimium.Stage

namespace Mimium.Core

/-- the reference evaluator is equivariant under injective renamings of variables (closure-free code) -/
theorem C10_equivariance (P : Prog) (rt : Rt) (π : String → String) (hπ : ∀ a b, π a = π b → a = b) (fuel : Nat)
    (e : Expr) (hcf : closureFree e = true) (env : Env) (σ : Store) (st : SNode) :
    ResEq (eval fuel P rt (renEnv π env) (renE π e) σ st) (eval fuel P rt env e σ st) :=
  (equivariant P rt π hπ fuel).1 e hcf env σ st

/-- renaming a template and then splicing = splicing and then renaming, when the fragments are untouched by the renaming -/
theorem C10_rename_commutes_with_splicing (π : String → String) (hπ : ∀ a b, π a = π b → a = b)
    (frags : List (String × Expr)) (hs : FragsFixed π frags) (T : Expr) :
    substE frags (renE π T) = renE π (substE frags T) :=
  (renE_substE π hπ frags hs T).symm

/-- **Hygiene under NoClash.** `T` = macro template (holes = the variables bound in `frags`), `frags` = the argument code,
`env` = environment of the use site. If no fragment mentions `y` or `z` and `env` binds neither, then consistently
renaming `y` to `z` inside the macro body does not change what the expansion evaluates to (value, store and state). -/
theorem C10_hygienic_if_noclash (P : Prog) (rt : Rt) (y z : String) (T : Expr) (frags : List (String × Expr)) (env : Env)
    (hnc : noClash y z frags env = true) (hcf : closureFree (substE frags T) = true)
    (fuel : Nat) (σ : Store) (st : SNode) :
    ResEq (eval fuel P rt env (substE frags (renE (swapN y z) T)) σ st) (eval fuel P rt env (substE frags T) σ st) := by
  rw [C10_rename_commutes_with_splicing (swapN y z) (swapN_inj y z) frags (noClash_frags hnc) T]
  have h := C10_equivariance P rt (swapN y z) (swapN_inj y z) fuel (substE frags T) hcf env σ st
  rwa [noClash_env hnc] at h

/-- equivariance with closures, for whole programs: renaming ALL variables of a program injectively (expression,
program, environment, closures in store and state) renames the result and changes nothing else. (This is also the
renaming clause of C16.) -/
theorem C10_equivariance_with_closures (P : Prog) (rt : Rt) (π : String → String) (hπ : ∀ a b, π a = π b → a = b)
    (fuel : Nat) (e : Expr) (env : Env) (σ : Store) (st : SNode) :
    RR (renR π) (eval fuel (renP π P) rt (renEnv π env) (renE π e) (renVL π σ) (renS π st)) (eval fuel P rt env e σ st) :=
  (equivariantV P rt π hπ fuel).1 e env σ st

/-- **Hygiene under NoClash, closures included**: if moreover the rest of the program, the store and the state do not
mention the two names (`π = swapN y z` leaves them unchanged), the expansion of the renamed macro evaluates to the
`π`-image of what the original expansion evaluates to (identical numbers and tuples; closures created by the template
carry the renamed binder). -/
theorem C10_hygienic_if_noclash_closures (P : Prog) (rt : Rt) (y z : String) (T : Expr) (frags : List (String × Expr))
    (env : Env) (hnc : noClash y z frags env = true) (σ : Store) (st : SNode)
    (hP : renP (swapN y z) P = P) (hσ : renVL (swapN y z) σ = σ) (hst : renS (swapN y z) st = st) (fuel : Nat) :
    RR (renR (swapN y z)) (eval fuel P rt env (substE frags (renE (swapN y z) T)) σ st)
      (eval fuel P rt env (substE frags T) σ st) := by
  rw [C10_rename_commutes_with_splicing (swapN y z) (swapN_inj y z) frags (noClash_frags hnc) T]
  have h := C10_equivariance_with_closures P rt (swapN y z) (swapN_inj y z) fuel (substE frags T) env σ st
  rwa [noClash_env hnc, hP, hσ, hst] at h

/-- the premise is not vacuous, and it is violated by the capture witness (`frags = [x ↦ y]`, binder `y`) -/
example : noClash "y" "z" [("x", .var "w")] [("w", 0)] = true := by decide
example : noClash "y" "z" [("x", .var "y")] [("y", 0)] = false := by decide

end Mimium.Core
