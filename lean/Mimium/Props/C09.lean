import Mimium.Proofs.Stage
import Mimium.Gen.StageForms
/-!
# C09 — staged (macro) code means the same as the code it generates

Model: `Model/Stage.lean`, a literal port of the staging pipeline (`convert_macroexpand`, `convert_self`,
`translate_staging.rs`, the combinators of `codegen_combinators.rs`, a stage-0 evaluator standing for the VM run of
`compile_and_execute_stage0`). Variables and binders travel through the macro stage as *strings*, exactly as in the code.

Proved here, for ALL trees / environments (no bound):

* `C09_quote_splice_id` — quoting any stage-1 tree `e` (every form of the fragment, any nesting) and splicing it back
  yields exactly `e`: the per-form encode (`translate_code`) / decode (combinator) pairs compose to the identity;
  `C09_splice_of_quote_translates_like_e` is the syntactic half (`$(`e)` is translated exactly like `e`).
* `C09_quote_fills_holes` — the general law behind it: a quote evaluates to its template with every splice replaced by
  the code the splice content evaluates to (hole filling by plain substitution, nothing renamed); `C09_expand_sound`
  (macro call = substitution of the argument code for the parameters) and `C09_expand_sound_let` (let-bound code) are
  its instances; counted recursion that builds code is covered compositionally (the recursive call is a splice content).
  Expansion and manual expansion are the same *tree*; that they mean the same is then trivial. The substitution is by
  names: it is hygienic only under the NoClash premise, which is C10's theorem.
* `C09_macro_call_is_splice_of_call` — `f!(a…)` is, after the front end, the same tree as `$(f(a…))`.
* `C09_lift_exact` — a macro-stage number that is lifted appears in the generated code as the literal with the same
  64 bits, and that literal evaluates to that number in the reference semantics.
* `C09_translator_*` — the lists re-extracted from `/repo` on every run (`Gen/StageForms.lean`): every `Expr` variant
  and every combinator `translate_code` emits is classified by the model, every combinator the model implements is
  registered by the compiler, and (`C09_translator_emitted_registered`) every combinator `translate_code` emits has a
  decoder registered by `codegen_combinator_signatures` (false for `code_match` until the repair of finding S4; the
  former witness is a corpus pair of the check's real-only stream).

NOT modelled: `match`, records, array access and default parameters (`unmodelledForms` / `unmodelledCombinators`), and
the closing of an OPEN definition chain in a splice operand (`translate_escape_operand`: a file that ends in a
macro-stage section — `Ex` has no `let` without a continuation; on every tree of `Ex` whose chain of `let`/`then`
continuations does not END in an assignment the function is `translate_stage0`, which is what `trCode (.escape e)` uses). These are compared on the real compiler only
(staged source vs hand-written expansion: corpus pairs and every shipped source behind a macro-stage prefix).

NOT proved: that the bytecode VM executing the stage-0 program computes what `ev0` computes, type checking before and
after expansion, and the parser — these are exercised by the correspondence stage (`./check C09`), which compares the
expanded tree of the real compiler with `expand` of this model node for node, and the outputs of staged program, manual
expansion and model.
-/
namespace Mimium.Stage

/-- `$(`e)` is translated exactly like `e` itself, in every stage-1 position -/
theorem C09_splice_of_quote_translates_like_e (e : Ex) : trCode (.escape (.bracket e)) = trCode e := by
  rw [trCode, trStage0]

/-- quote-then-splice is the identity: for every stage-1 tree `e`, every macro-stage environment that does not rebind a
combinator, and all sufficient fuel, executing the stage-0 program generated for `$(`e)` (equally: for `` `e ``) builds `e` -/
theorem C09_quote_splice_id (env : Env0) (h : NoShadow env) (e : Ex) (he : Stage1 e) (fuel : Nat) (hf : 5 * e.size ≤ fuel) :
    ev0 fuel env (trCode (.escape (.bracket e))) = .ok (.code e) ∧
    ev0 fuel env (trStage0 (.bracket e)) = .ok (.code e) := by
  rw [C09_splice_of_quote_translates_like_e, trStage0]
  exact ⟨roundtrip env h e he fuel hf, roundtrip env h e he fuel hf⟩

/-- the same for a whole program that contains no macro at all but is sent through the staging pipeline: expansion
returns it unchanged -/
theorem C09_expand_identity_on_unstaged (e : Ex) (he : Stage1 e) (fuel : Nat) (hf : 5 * e.size ≤ fuel) :
    expandWith fuel e = .ok e := by
  unfold expandWith
  rw [trStage0, roundtrip [] NoShadow_nil e he fuel hf]

/-- `f!(a…)` and `$(f(a…))` are the same tree after `convert_macroexpand`, hence expand alike -/
theorem C09_macro_call_is_splice_of_call (f : Ex) (args : List Ex) :
    convMacro (.macroExpand f args) = convMacro (.escape (.app f args)) := by
  simp [convMacro]

/-- lifting a macro-stage number: the generated code is the literal with the same bits … -/
theorem C09_lift_exact (env : Env0) (h : NoShadow env) (m : Ex) (b : UInt64) (n : Nat)
    (hm : ev0 (n + 1) env m = .ok (.num b)) :
    ev0 (n + 3) env (.app (.var "lift_f") [m]) = .ok (.code (.flt b)) := by
  have := ev0_ap env h "lift_f" .liftF rfl [m] [.num b] (n + 1) (by simp only [ev0L_cons, hm, ev0L_nil])
  simpa [ap, applyExt] using this

/-- … and that literal denotes exactly that number in the reference semantics -/
theorem C09_lift_exact_value (fuel : Nat) (P : Core.Prog) (rt : Core.Rt) (env : Core.Env) (b : UInt64)
    (σ : Core.Store) (st : Core.SNode) :
    Core.eval (fuel + 1) P rt env (.lit b) σ st = .ok (.num b, σ, st) := by
  simp [Core.eval]

/-- **A quote is hole filling.** For every template `t` (all forms, splices anywhere), if `h` gives for each splice content
the code it evaluates to, then the stage-0 program generated for `` `t `` evaluates to `fillWith h t`: the template with
each splice replaced by that code — no name of the template or of the inserted code is changed. (`fillWith` is the
hand-written expansion; with no splice it is the identity: `C09_quote_splice_id`.) Covers nested quote/splice and
recursion that builds code: whatever a splice content — a variable, a call, a recursive call — evaluates to is inserted. -/
theorem C09_quote_fills_holes (env : Env0) (hns : NoShadow env) (h : Ex → Option Ex) (K : Nat)
    (hh : ∀ m c, h m = some c → ∀ fuel, K ≤ fuel → ev0 fuel env (trStage0 m) = .ok (.code c))
    (t r : Ex) (hr : fillWith h t = some r) (fuel : Nat) (hf : 5 * t.size + K ≤ fuel) :
    ev0 fuel env (trStage0 (.bracket t)) = .ok (.code r) := by
  rw [trStage0]; exact fills env hns h K hh t r hr fuel hf

/-- **Expansion is substitution (function application).** If `m` is the macro function `|h₁ … hₙ| `T` and the arguments
evaluate to the code fragments `cs`, the call `m(args)` — what `m!(args)` splices (`C09_macro_call_is_splice_of_call`) —
evaluates to `T` with every `$x` replaced by the code bound to `x` in the macro's environment extended by `hᵢ ↦ csᵢ`:
exactly the hand-written expansion, as a tree; hence with the same meaning under any semantics. -/
theorem C09_expand_sound (env cenv : Env0) (m : String) (hs : List String) (T : Ex)
    (hm : env.lookup m = some (.clo hs (trStage0 (.bracket T)) cenv none))
    (args cs : List Ex) (n : Nat) (hargs : ev0L (n + 1) env args = .ok (cs.map .code))
    (hlen : hs.length = cs.length) (hns : NoShadow (bindParams cenv hs (cs.map .code)))
    (R : Ex) (hR : fillWith (holeOracle (codeEnv (bindParams cenv hs (cs.map .code)))) T = some R)
    (hf : 5 * T.size + 1 ≤ n) :
    ev0 (n + 2) env (.app (.var m) args) = .ok (.code R) :=
  macro_call_substitutes env cenv m hs T hm args cs n hargs hlen hns R hR hf

/-- **Expansion is substitution (let-binding of code).** `let c = `T₁; `T₂` is `T₂` with `$c` replaced by the expansion of `T₁` -/
theorem C09_expand_sound_let (env : Env0) (c : String) (T1 T2 R1 R2 : Ex) (hc : c ≠ "_")
    (hns : NoShadow env) (hns' : NoShadow ((c, .code R1) :: env))
    (h1 : fillWith (holeOracle (codeEnv env)) T1 = some R1)
    (h2 : fillWith (holeOracle (codeEnv ((c, .code R1) :: env))) T2 = some R2)
    (n : Nat) (hf1 : 5 * T1.size + 1 ≤ n) (hf2 : 5 * T2.size + 1 ≤ n) :
    ev0 (n + 1) env (trStage0 (.letE c (.bracket T1) (.bracket T2))) = .ok (.code R2) :=
  let_code_substitutes env c T1 T2 R1 R2 hc hns hns' h1 h2 n hf1 hf2

/-! ### translator obligations (data re-extracted from /repo on every run) -/

/-- every `Expr` variant of `ast.rs` is either modelled or explicitly outside the fragment -/
theorem C09_translator_forms_classified :
    ∀ v ∈ Gen.exprVariants, v ∈ modelledForms ∨ v ∈ unmodelledForms := by decide

/-- every variant has an arm in `translate_code` and in `translate_stage0` -/
theorem C09_translator_every_form_has_an_arm :
    ∀ v ∈ Gen.exprVariants, v ∈ Gen.translateCodeArms ∧ v ∈ Gen.translateStage0Arms := by decide

/-- every combinator `translate_code` emits is either implemented by the model or explicitly outside the fragment -/
theorem C09_translator_emitted_classified :
    ∀ c ∈ Gen.emittedCombinators, c ∈ modelledCombinators ∨ c ∈ unmodelledCombinators := by decide

/-- every combinator the model implements is one the compiler registers (has a decoder) -/
theorem C09_translator_modelled_registered :
    ∀ c ∈ modelledCombinators, c ∈ Gen.registeredCombinators := by decide

/-- the literal of a code value is printed with `f64::to_string` (exact round trip through the text), and `lift_f` is
that same function — the source-level facts `C09_lift_exact` rests on -/
theorem C09_translator_literal_printing : Gen.litPrintedWithToString = true ∧ Gen.liftIsLit = true := by decide

/-- every combinator `translate_code` emits has a decoder: `codegen_combinator_signatures` registers it. (Until the
repair LIB-4 this held for all but `code_match` — finding S4, then stated as `C09_match_has_no_decoder`: any program
that used the macro system and had a `match` in its main stage was rejected.) -/
theorem C09_translator_emitted_registered :
    ∀ c ∈ Gen.emittedCombinators, c ∈ Gen.registeredCombinators := by decide

/-! ### non-vacuity -/
example : ev0 100 [] (trStage0 (.bracket (.letE "y" (.flt 7) (.app (.var "add") [.var "y", .now])))) =
    .ok (.code (.letE "y" (.flt 7) (.app (.var "add") [.var "y", .now]))) :=
  (C09_quote_splice_id [] NoShadow_nil _ (by simp [Stage1, beyond1, beyond1.anyBeyond]) 100 (by decide)).2

/-- `C09_expand_sound` on the macro of finding F6, `fn m(x){ `{ let y = 10.0; $x + y } }` called as `m!(`y)`: the expansion
is the template with `y` substituted for `$x` — by name, so the argument's `y` lands under the template's binder -/
example : ev0 102 [("m", .clo ["x"] (trStage0 (.bracket (.letE "y" (.flt 10) (.app (.var "add") [.escape (.var "x"), .var "y"])))) [] none)]
      (.app (.var "m") [trStage0 (.bracket (.var "y"))]) =
    .ok (.code (.letE "y" (.flt 10) (.app (.var "add") [.var "y", .var "y"]))) :=
  C09_expand_sound _ [] "m" ["x"] _ rfl [trStage0 (.bracket (.var "y"))] [.var "y"] 100 rfl rfl
    (NoShadow_single "x" _ (by decide)) _ rfl (by decide)

end Mimium.Stage
