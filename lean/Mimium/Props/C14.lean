import Mimium.Proofs.Pretty
import Mimium.Proofs.NewlineRule
import Mimium.Proofs.CstPrintRender
import Mimium.Proofs.CstPrintLeading
import Mimium.Model.CstGrammar
import Mimium.Proofs.LowerFront
import Mimium.Proofs.CstShapeMain
/-!
# C14 — The formatter never changes a program, loses no comment, and is idempotent

**Level: partial.**  The statement has three clauses (same AST, all comments in order, fixed point) about
`mimium-fmt`'s 2.4 kLoC of per-construct layout code, which is *not* modelled.  What is proved here is the part
of the argument that does not depend on the per-construct code: the layout engine (the `pretty` crate, modelled
in `Model/Pretty.lean` and tied to the crate by exact comparison on random documents in every check run).

* `C14_render_content` / `C14_render_content_invariant`: for **every** document and **all** widths the
  rendered output, after deleting what `line`/`softline`/`nest`/`hardline` introduce, is the document's sequence
  of text leaves — the token and comment content of the formatter's output cannot depend on the line width.
* `C14_render_content_indent_invariant`: nor on the indent size (any rewriting of the `nest` offsets).
* `C14_render_fits_or_breaks`: the best-layout law of `group`: a group is laid out flat (no newline inside,
  ending inside the page) exactly when `fits` holds, and it is broken only if its flat layout contains a
  hard line break, or does not fit, or what follows up to the next possible break does not fit.
* `C14_render_wide_flat`: on a wide enough page a group without hard breaks is one line.
* `C14_hardline_always_breaks`: a `hardline` produces a newline at every width (comments that end a line stay
  terminated).

* `C14_newline_rule` / `C14_safe_breaks_keep_structure` (token-level port of the expression core of
  `cst_parser.rs`, `Model/NewlineRule.lean`): the parse depends on line breaks only in front of `(`, `[` and `.`
  (the postfix openers); inserting line breaks anywhere else — after an infix operator, before one (`|>`),
  after a comma, inside brackets — never changes the tree.  `C14_linebreak_tests_vacuous`: the two
  `has_trailing_linebreak()` tests in `parse_expr_with_precedence` do nothing (it equals its `_no_linebreak` twin).

* The per-construct printer `cst_print.rs` IS modelled now (`Model/CstPrint.lean`, literal port of every `print_*` function; tie = the
  rendered text equals the real `pretty_print_cst` at 8 widths × 2 indents on every input of the run).  Section `Mimium.CstPrint` below:
  `C14_format_content` — on the decidable class `keepsAll` (no loop of the printer skips a child, overwrites a slot or appends out of
  order; `Model/CstPrintSpec.lean`) the text leaves of the document are, after `norm` (commas erased: the printer re-creates them; the
  `{` of a block is a literal; added spaces are layout), exactly the tokens of the tree in order, each between its leading and trailing
  comments.  `C14_format_rendered_content`, `C14_format_width_independent_content`: the rendered text has these leaves at every width and
  indent.  `C14_no_comment_lost`, `C14_comments_in_order`, `C14_token_sequence_preserved_partial` are the corollaries.  The
  witnesses of the three repaired findings of the printer are in the class now: `C14_one_tuple_comma_comment_kept`,
  `C14_paren_type_in_tuple_type_kept`, `C14_first_line_comment_once` (`decide +kernel` on the real token kinds; the same texts are in
  `corpus/C14/` and run first in every check).  `C14_file_leading_comments_are_the_unattached`: the comment block `pretty_print` writes
  in front of the document is, for every token list, exactly the set of comments `preparse` attaches to no token (nothing is printed
  twice, nothing is printed in neither place).
* `C14_parsed_trees_keep_all` (shape invariant of the ported PARSER, `Proofs/CstShape*.lean`): for every token list, if `parse_cst`
  records no error and the tree has none of the lenient shapes (`strictTree`), the tree is in `keepsAll` — all 52 node kinds.  Hence
  `C14_format_content_parsed`, `C14_no_comment_lost_parsed` (every comment attached to a token is in the document once, in order),
  `C14_token_sequence_preserved_parsed_partial`, without a class hypothesis.  `C14_lenient_shapes_lose_content`: the hypothesis
  `strictTree` is needed — for `fn f(a,, /* c */ b)`, `|a,, /* c */| a`, `if (x) y = 2.0`, `g!(x = 1.0)` the parser records no error
  and the printer drops a comment / tokens or adds a comma (open findings C14-stray-comma, -assign-in-if, -assign-in-macro-arg).
  NOT proved: the re-tokenisation of the output (no two printed tokens merge; the separator facts), the comma accounting (`norm`
  erases commas on both sides), idempotence — hence the remaining `_partial` names.
* `C14_same_tokens_same_ast` (real grammar `Model/CstGrammar.lean` + real lowering `Model/Lower.lean`, both literal ports tied by
  exact correspondence in C13 / C16): an output that keeps the syntax tokens (kinds and texts, in order), the answers of the
  line-break oracle and token adjacency parses and lowers to THE SAME `Program` (AST and span terms) as the input — so the "same
  AST" clause can only fail through a changed token, a moved line break in front of a position where the grammar asks the oracle,
  or two operators glued together; that `cst_print.rs` keeps these is what is NOT proved (exercised by the correspondence).

The three clauses of the statement themselves are decided by the correspondence stage with the real parser and
the real formatter (see `tools/props/c14.py`); the defects it finds are listed in `known_findings.jsonl`.
-/
namespace Mimium.Pretty

/-- content of the output = content of the document, for every document and every width -/
theorem C14_render_content (d : Doc) (w : Nat) : toks (renderP w d) = texts d := by
  unfold renderP
  rw [toks_best]
  simp [cmdTexts]

/-- *the output, after deleting the whitespace that `line`/`softline`/`nest` introduce, does not depend on the width* -/
theorem C14_render_content_invariant (d : Doc) (w w' : Nat) :
    stripLayout (renderP w d) = stripLayout (renderP w' d) := by
  unfold stripLayout
  rw [C14_render_content, C14_render_content]

/-- … nor on the indent size: rewriting every `nest` offset (e.g. indent 2 ↦ 4) leaves the content unchanged -/
theorem C14_render_content_indent_invariant (d : Doc) (f g : Int → Int) (w w' : Nat) :
    stripLayout (renderP w (mapNest f d)) = stripLayout (renderP w' (mapNest g d)) := by
  unfold stripLayout
  rw [C14_render_content, C14_render_content, texts_mapNest, texts_mapNest]

/-- the content is emitted in every intermediate state as well: any command stack, column, modes -/
theorem C14_best_content (w pos : Nat) (cmds : List Cmd) : toks (best w pos cmds) = cmdTexts cmds :=
  toks_best w pos cmds

/-- *best layout of `group`*: starting inside the page, a group in `Break` mode
* is laid out flat — its flat pieces, no newline among them, ending inside the page — when `fits` says yes;
* is laid out broken when `fits` says no, and `fits` says no only if the flat layout contains a hard line
  break, or overflows the page, or the text that follows (up to the next possible break) overflows it. -/
theorem C14_render_fits_or_breaks (w pos ind : Nat) (alt : Bool) (d : Doc) (rest : List Cmd) (hpos : pos ≤ w) :
    (fits w .flat pos [d] (rest.map (·.doc)) = true →
        best w pos (⟨ind, .brk, alt, .group d⟩ :: rest) = flatPieces alt d ++ best w (pos + flatLen d) rest
        ∧ pos + flatLen d ≤ w ∧ newlines (flatPieces alt d) = 0)
    ∧ (fits w .flat pos [d] (rest.map (·.doc)) = false →
        best w pos (⟨ind, .brk, alt, .group d⟩ :: rest) = best w pos (⟨ind, .brk, alt, d⟩ :: rest)
        ∧ (noHardFlat d = false ∨ w < pos + flatLen d
            ∨ fits w .flat (pos + flatLen d) [] (rest.map (·.doc)) = false)) := by
  constructor
  · intro hf
    have h := (fits_flat_cons w d pos [] _ hpos).1 hf
    refine ⟨?_, h.2.1, newlines_flatPieces _ _⟩
    rw [best]
    simp only [hf, Bool.and_true]
    simpa using best_flat w d pos ind alt rest h.1
  · intro hf
    refine ⟨?_, ?_⟩
    · rw [best]; simp [hf]
    · have h := fits_flat_cons w d pos [] (rest.map (·.doc)) hpos
      rw [hf] at h
      by_cases h1 : noHardFlat d = true
      · by_cases h2 : pos + flatLen d ≤ w
        · right; right
          cases h3 : fits w .flat (pos + flatLen d) [] (rest.map (·.doc)) with
          | false => rfl
          | true => exact absurd (h.2 ⟨h1, h2, h3⟩) (by simp)
        · right; left; omega
      · left; simpa using h1

/-- on a page at least as wide as its flat layout a group without hard breaks is rendered on one line -/
theorem C14_render_wide_flat (w : Nat) (d : Doc) (h : noHardFlat d = true) (hw : flatLen d ≤ w) :
    renderP w (.group d) = flatPieces false d ∧ newlines (renderP w (.group d)) = 0 := by
  have hf : fits w .flat 0 [d] [] = true := by
    rw [fits_flat_cons w d 0 [] [] (Nat.zero_le _)]
    refine ⟨h, by omega, ?_⟩
    rw [fits]
  have := (C14_render_fits_or_breaks w 0 0 false d [] (Nat.zero_le _)).1 (by simpa using hf)
  have hb : best w (0 + flatLen d) [] = [] := by rw [best]
  unfold renderP
  rw [this.1, hb]
  simp [newlines_flatPieces]

/-- a `hardline` (the formatter puts one after every `//` comment) yields a newline at every width and in
every mode, also inside a group that was judged to fit -/
theorem C14_hardline_always_breaks (w pos ind : Nat) (m : Mode) (alt : Bool) (rest : List Cmd) :
    ∃ k ps, best w pos (⟨ind, m, alt, .hardline⟩ :: rest) = .nl k :: ps := by
  cases rest with
  | nil => exact ⟨ind, [], by rw [best]⟩
  | cons n rest' => exact ⟨n.ind, best w n.ind (n :: rest'), by rw [best]⟩

/-! ### non-vacuity: the model distinguishes layouts -/

/-- `a + b` as the formatter builds a binary expression: `group (a ++ " " ++ "+" ++ nest 4 (line ++ b))` -/
def exBin : Doc :=
  .group (.append (.append (.append (.text 1 "a") Doc.space) (.text 1 "+")) (.nest 4 (.append Doc.line (.text 1 "b"))))

example : render 80 exBin = "a + b" := by decide +kernel
example : render 3 exBin = "a +\n    b" := by decide +kernel
example : stripLayout (renderP 3 exBin) = stripLayout (renderP 80 exBin) := C14_render_content_invariant _ _ _

end Mimium.Pretty

/-! ## P1 — the parser's newline rule (token level) -/
namespace Mimium.NewlineRule

/-- *newline rule*: two layouts of the same tokens whose line breaks agree in front of every `(`, `[`, `.`
parse to the same tree — for all token sequences, all line-break placements, every fuel. -/
theorem C14_newline_rule (ts : List TK) (nl nl' : Nat → Bool) (h : Agree ts nl nl') : parse ts nl = parse ts nl' := by
  unfold parse
  rw [stmts_congr ts nl nl' h]

/-- *breaks inserted only at safe positions never change the token-level statement structure*: adding line
breaks at any set `extra` of token gaps, none of them in front of a postfix opener, leaves the parse unchanged. -/
theorem C14_safe_breaks_keep_structure (ts : List TK) (nl extra : Nat → Bool)
    (safe : ∀ i, extra i = true → sensitive ts[i]? = false) :
    parse ts (fun i => nl i || extra i) = parse ts nl := by
  apply C14_newline_rule
  intro i hs
  cases he : extra i with
  | false => simp [he]
  | true => rw [safe i he] at hs; cases hs

/-- the line-break tests inside `parse_expr_with_precedence` are vacuous: it computes the same function as
`parse_expr_with_precedence_no_linebreak` (so a break *before* an infix operator such as `|>`, or after a
complete operand, is not what ends a statement; only the postfix rule is line-break sensitive) -/
theorem C14_linebreak_tests_vacuous (ts : List TK) (nl : Nat → Bool) (f mp i : Nat) :
    exprPrec ts nl f true mp i = exprPrec ts nl f false mp i := (stop_irrelevant ts nl f).1 mp i

/-- translator tie: the data the model fixes is what `cst_parser.rs` says today (re-extracted on every run into
`Gen/C14.lean`): the postfix openers are exactly `(`, `.`, `[`; there are five `has_trailing_linebreak()` call
sites (two in the Pratt loop and one in the postfix loop — modelled; one in the block loop and one in the match-arm
loop — both of the form "if line break then continue the loop" and not modelled); every infix precedence is
positive (`parse_expr_with_precedence(0)` terminates). A change of any of these breaks this obligation. -/
theorem C14_extracted_parser_data :
    Mimium.Gen.C14.postfixOpeners = ["ParenBegin", "Dot", "ArrayBegin"]
    ∧ Mimium.Gen.C14.linebreakSites = 5
    ∧ (∀ e ∈ Mimium.Gen.C14.infixPrecTable, 0 < e.2)
    ∧ Mimium.Gen.C14.infixPrecTable.lookup "OpSum" = some Mimium.Gen.C14.minusPrec := by
  decide

/-! non-vacuity: a break in front of `(` *does* change the parse: `f(x)` is one statement, `f⏎(x)` is two -/
def exCall : List TK := [.atom, .lparen, .atom, .rparen]
example : (stmts exCall (fun _ => false) 5 0).length = 1 := by decide +kernel
example : (stmts exCall (fun i => i == 1) 5 0).length = 2 := by decide +kernel
/-- `a +⏎ b` and `a⏎|> b` keep one statement -/
example : (stmts [.atom, .op 7, .atom] (fun i => i == 2) 4 0).length = 1 := by decide +kernel
example : (stmts [.atom, .op 2, .atom] (fun i => i == 1) 4 0).length = 1 := by decide +kernel

end Mimium.NewlineRule


/-! ## The printer (`cst_print.rs`, `Model/CstPrint.lean`) -/
namespace Mimium.CstPrint
open Mimium.Gen (Kind SK)
open Mimium.Cst (Green)
open Mimium.Pretty (renderP toks stripLayout)

/-- The port is a port of what is in `/repo` now: every function of `cst_print.rs` has the body hash of the reviewed list
`tools/cst_print.json`.  ANY edit of the printer breaks this `decide` (and the check falls through to the correspondence search). -/
theorem C14_printer_functions_pinned : Mimium.Gen.printFns = Mimium.Gen.printFnsPinned := by decide

/-- the `match kind` of `cst_to_doc`, re-extracted with forwarding functions resolved, is the model's `dispatch` -/
theorem C14_printer_dispatch :
    Mimium.Gen.allSK.map (fun k => (Mimium.Gen.skNames.getD k.toNat "", (dispatch k).rustName)) = Mimium.Gen.printDispatch ∧
    Mimium.Gen.allSK.map (fun k => Mimium.Gen.skOfNat k.toNat) = Mimium.Gen.allSK.map some := by decide +kernel

/-- CONTENT, every tree / token kinds / trivia maps: in the class `keepsAll` the normalised text leaves of the document `cst_to_doc`
builds are exactly: for every token leaf of the tree, in order, its leading comments, the token, its trailing comments. -/
theorem C14_format_content (c : Ctx) (g : Green) (h : keepsAll c g = true) : content c (cstToDoc c g) = expected c g :=
  format_content_aux c g h

/-- the same for the document `pretty_print` renders -/
theorem C14_format_content_doc (ks : List Kind) (pre : Preparse.Result) (g : Green) (h : keepsAll ⟨ks.toArray, pre⟩ g = true) :
    content ⟨ks.toArray, pre⟩ (formatS ks pre g) = expected ⟨ks.toArray, pre⟩ g :=
  format_content_aux _ g h

/-- what the layout engine writes, minus layout, is the leaf sequence of the printer's document — for every width and indent size,
EVERY tree (no class needed) -/
theorem C14_format_rendered_content (ks : List Kind) (pre : Preparse.Result) (g : Green) (ind : Nat) (txt : Nat → Nat × String) (w : Nat) :
    toks (renderP w (formatDoc ks pre g ind txt)) = (formatS ks pre g).leaves.map (leafText txt) := by
  rw [Mimium.Pretty.C14_render_content, formatDoc, texts_toDoc]

/-- the token and comment content of the formatted text does not depend on the line width nor on the indent size -/
theorem C14_format_width_independent_content (ks : List Kind) (pre : Preparse.Result) (g : Green) (txt : Nat → Nat × String)
    (ind ind' w w' : Nat) :
    stripLayout (renderP w (formatDoc ks pre g ind txt)) = stripLayout (renderP w' (formatDoc ks pre g ind' txt)) := by
  unfold stripLayout
  rw [C14_format_rendered_content, C14_format_rendered_content]

/-- NO COMMENT LOST: in the class, every comment attached (by the trivia maps) to a token of the tree is a text leaf of the output,
verbatim, at every width and indent size. -/
theorem C14_no_comment_lost (ks : List Kind) (pre : Preparse.Result) (g : Green) (h : keepsAll ⟨ks.toArray, pre⟩ g = true)
    (ti x : Nat) (hti : ti ∈ g.leaves)
    (hx : x ∈ leadingTrivia ⟨ks.toArray, pre⟩ ti ++ trailingTrivia ⟨ks.toArray, pre⟩ ti) (hc : isComment ⟨ks.toArray, pre⟩ x = true)
    (ind : Nat) (txt : Nat → Nat × String) (w : Nat) :
    (txt x).2 ∈ toks (renderP w (formatDoc ks pre g ind txt)) := by
  rw [C14_format_rendered_content]
  have hmem : NItem.idx x ∈ expected ⟨ks.toArray, pre⟩ g := by
    simp only [expected, List.mem_flatMap]
    refine ⟨ti, hti, ?_⟩
    simp only [tokItems, triviaItems, List.mem_append, List.mem_map, List.mem_filter]
    rcases List.mem_append.mp hx with h1 | h1
    · exact Or.inl (Or.inl ⟨x, ⟨h1, hc⟩, rfl⟩)
    · exact Or.inr ⟨x, ⟨h1, hc⟩, rfl⟩
  rw [← C14_format_content_doc ks pre g h] at hmem
  exact List.mem_map.mpr ⟨_, tok_leaf_of_content _ _ x hmem, rfl⟩

/-- … IN THE SAME ORDER: the comments among the output's leaves are, in order, the comments of the tokens of the tree in order
(leading before trailing).  (`hl`: the leaves of the tree are syntax tokens — true for every tree `parse_cst` builds.) -/
theorem C14_comments_in_order (c : Ctx) (g : Green) (h : keepsAll c g = true) (hl : ∀ ti ∈ g.leaves, isComment c ti = false) :
    (content c (cstToDoc c g)).filter (isCommentItem c) =
      g.leaves.flatMap (fun ti => triviaItems c (leadingTrivia c ti) ++ triviaItems c (trailingTrivia c ti)) := by
  rw [C14_format_content c g h, expected]
  exact flatMap_filter_congr _ _ _ _ (fun ti hti => tokItems_comments c ti (hl ti hti))

/-- TOKENS (partial): the syntax tokens among the output's leaves are the tokens of the tree in source order modulo `norm` (commas
erased, `{` as a literal).  Missing for the full clause: that re-tokenising the rendered text yields these tokens again (that no two
adjacent printed texts merge into one token) — decided by the correspondence run with the real parser. -/
theorem C14_token_sequence_preserved_partial (c : Ctx) (g : Green) (h : keepsAll c g = true)
    (hl : ∀ ti ∈ g.leaves, isComment c ti = false) :
    (content c (cstToDoc c g)).filter (fun it => !isCommentItem c it) = g.leaves.flatMap (fun ti => (norm c (.tok ti)).toList) := by
  rw [C14_format_content c g h, expected]
  exact flatMap_filter_congr _ _ _ _ (fun ti hti => tokItems_syntax c ti (hl ti hti))

/-- with the real grammar: for every token list, the tree of the ported `parse_cst` has the syntax tokens as leaves
(`C13_real_grammar_cst_lossless`), so in the class the output's comments are those of `syntaxIndices` in order -/
theorem C14_comments_in_order_parsed (ks : List Kind) (widths : List Nat) (g : Green)
    (hg : (Grammar.parseTokens ks widths).b.root = some g) (hleaves : g.leaves = Preparse.syntaxIndices 0 ks)
    (h : keepsAll ⟨ks.toArray, Preparse.preparse ks⟩ g = true)
    (hl : ∀ ti ∈ Preparse.syntaxIndices 0 ks, isComment ⟨ks.toArray, Preparse.preparse ks⟩ ti = false) :
    (content ⟨ks.toArray, Preparse.preparse ks⟩ (formatS ks (Preparse.preparse ks) g)).filter
        (isCommentItem ⟨ks.toArray, Preparse.preparse ks⟩) =
      (Preparse.syntaxIndices 0 ks).flatMap (fun ti =>
        triviaItems ⟨ks.toArray, Preparse.preparse ks⟩ (leadingTrivia ⟨ks.toArray, Preparse.preparse ks⟩ ti) ++
        triviaItems ⟨ks.toArray, Preparse.preparse ks⟩ (trailingTrivia ⟨ks.toArray, Preparse.preparse ks⟩ ti)) := by
  have := C14_comments_in_order ⟨ks.toArray, Preparse.preparse ks⟩ g h (by rw [hleaves]; exact hl)
  rw [hleaves] at this
  exact this

/-- THE FILE-LEADING BLOCK (every token list the tokenizer can produce: `body ++ [Eof]`, no other `Eof`): the comments that
`extract_file_leading_comments` writes in front of the rendered document are EXACTLY the comments that `preparse` attaches to no token
(attach count 0 in the two trivia maps: neither leading nor trailing trivia of anything, so `cst_to_doc` cannot print them).  Hence no
comment is printed both in the block and with a token (the former finding C14-first-line-comment, for every input), and — with
`C14_no_comment_lost` for the attached ones — none is printed in neither place. -/
theorem C14_file_leading_comments_are_the_unattached (body : List Kind) (h : Kind.Eof ∉ body) (x : Nat) :
    x ∈ fileLeadingComments 0 (body ++ [Kind.Eof]) ↔
      (x < (body ++ [Kind.Eof]).length ∧ isCommentKind ((body ++ [Kind.Eof]).getD x Kind.Eof) = true ∧
        (Preparse.preparse (body ++ [Kind.Eof])).attachCount x = 0) := by
  have hgo := fileLeadingGo_eq body 0 [] h
  have hmem : x ∈ fileLeadingComments 0 (body ++ [Kind.Eof]) ↔ x ∈ dropCom 0 (body ++ [Kind.Eof]) := by
    unfold fileLeadingComments; rw [hgo]; simp
  rw [hmem, mem_dropCom, Preparse.mem_dropIdx]
  simp only [Nat.zero_le, true_and, Nat.sub_zero]
  have hacc := Preparse.attach_count (body ++ [Kind.Eof]) x
  constructor
  · intro ⟨hd, hc⟩
    have hx : x < (body ++ [Kind.Eof]).length := by
      simp only [Preparse.dropped, Bool.and_eq_true, decide_eq_true_eq] at hd; exact hd.1.1.1
    have ht := (comment_facts hc).1
    simp only [hd, if_true, hx, ht, and_self] at hacc
    exact ⟨hx, hc, by omega⟩
  · intro ⟨hx, hc, h0⟩
    have ht := (comment_facts hc).1
    refine ⟨?_, hc⟩
    simp only [hx, ht, and_self, if_true, h0, Nat.zero_add] at hacc
    by_cases hd : Preparse.dropped (body ++ [Kind.Eof]) x = true
    · exact hd
    · simp only [hd, Bool.false_eq_true, if_false] at hacc; omega

/-! ### Non-vacuity and the witnesses of the repaired findings, on the token kinds of real program texts -/

/-- `fn f(x, y){ // c⏎ x + y /* k */ }` -/
def exKinds : List Kind := [.Function, .Whitespace, .Ident, .ParenBegin, .Ident, .Comma, .Whitespace, .Ident, .ParenEnd, .BlockBegin,
  .Whitespace, .SingleLineComment, .LineBreak, .Whitespace, .Ident, .Whitespace, .OpSum, .Whitespace, .Ident, .Whitespace,
  .MultiLineComment, .Whitespace, .BlockEnd, .Eof]
def exWidths : List Nat := [2, 1, 1, 1, 1, 1, 1, 1, 1, 1, 1, 4, 1, 1, 1, 1, 1, 1, 1, 1, 7, 1, 1, 0]

/-- what the model says about a token list: (#parser errors, in the class?, content of the document, expected content) -/
def observe (ks : List Kind) (ws : List Nat) : Nat × Bool × List NItem × List NItem :=
  let c : Ctx := ⟨ks.toArray, Preparse.preparse ks⟩
  match (Grammar.parseTokens ks ws).b.root with
  | some g => ((Grammar.parseTokens ks ws).errs.length, keepsAll c g, content c (formatS ks (Preparse.preparse ks) g), expected c g)
  | none => (0, false, [], [])

/-- the parsed tree is in the class, and the content is: `fn` `f` `(` `x` `y` `)` `{` `// c` `x` `+` `y` `/* k */` `}` (the comma erased) -/
example : observe exKinds exWidths =
    (0, true, [.idx 0, .idx 2, .idx 3, .idx 4, .idx 7, .idx 8, .brace, .idx 11, .idx 14, .idx 16, .idx 18, .idx 20, .idx 22],
              [.idx 0, .idx 2, .idx 3, .idx 4, .idx 7, .idx 8, .brace, .idx 11, .idx 14, .idx 16, .idx 18, .idx 20, .idx 22]) := by
  decide +kernel

/-- REPAIRED finding C14-one-tuple-comma-comment: `let t = (1, /* c */)` — the comment (token 10) hangs on the comma of a one-element
tuple.  `print_tuple_expr` now prints the comma token itself: the tree is in `keepsAll` and the comment is in the document. -/
theorem C14_one_tuple_comma_comment_kept :
    observe [.Let, .Whitespace, .Ident, .Whitespace, .Assign, .Whitespace, .ParenBegin, .Int, .Comma, .Whitespace, .MultiLineComment,
      .ParenEnd, .Eof] [3, 1, 1, 1, 1, 1, 1, 1, 1, 1, 7, 1, 0] =
    (0, true, [.idx 0, .idx 2, .idx 4, .idx 6, .idx 7, .idx 10, .idx 11], [.idx 0, .idx 2, .idx 4, .idx 6, .idx 7, .idx 10, .idx 11]) := by
  decide +kernel

/-- REPAIRED finding C14-paren-type-in-tuple-type: `let t:((float),float) = x` — the parentheses of a parenthesised type inside a
tuple type are direct children of the `TupleType` node; `print_grouped_list` now counts the brackets opened inside the list and keeps
them (tokens 5 and 7) in the item they enclose: the tree is in `keepsAll`, every token but the comma (erased by `norm`) is in the document. -/
theorem C14_paren_type_in_tuple_type_kept :
    observe [.Let, .Whitespace, .Ident, .Colon, .ParenBegin, .ParenBegin, .FloatType, .ParenEnd, .Comma, .FloatType, .ParenEnd,
      .Whitespace, .Assign, .Whitespace, .Ident, .Eof] [3, 1, 1, 1, 1, 1, 5, 1, 1, 5, 1, 1, 1, 1, 1, 0] =
    (0, true, [.idx 0, .idx 2, .idx 3, .idx 4, .idx 5, .idx 6, .idx 7, .idx 9, .idx 10, .idx 12, .idx 14],
              [.idx 0, .idx 2, .idx 3, .idx 4, .idx 5, .idx 6, .idx 7, .idx 9, .idx 10, .idx 12, .idx 14]) := by
  decide +kernel

/-- REPAIRED finding C14-first-line-comment: `/* c */ let x = 1` — the comment (token 0) is leading trivia of the first token and is
printed with it (it is in the document); `extract_file_leading_comments` no longer copies it.  `// a⏎/* b */ let x = 1`: the comment
of the first line (token 0, attached to no token by the preparser) is the file-leading block, `/* b */` (token 2) is in the document. -/
theorem C14_first_line_comment_once :
    (fileLeadingComments 0 [.MultiLineComment, .Whitespace, .Let, .Whitespace, .Ident, .Whitespace, .Assign, .Whitespace, .Int, .Eof] = [] ∧
     observe [.MultiLineComment, .Whitespace, .Let, .Whitespace, .Ident, .Whitespace, .Assign, .Whitespace, .Int, .Eof]
       [7, 1, 3, 1, 1, 1, 1, 1, 1, 0] =
     (0, true, [.idx 0, .idx 2, .idx 4, .idx 6, .idx 8], [.idx 0, .idx 2, .idx 4, .idx 6, .idx 8])) ∧
    (fileLeadingComments 0 [.SingleLineComment, .LineBreak, .MultiLineComment, .Whitespace, .Let, .Whitespace, .Ident, .Whitespace,
       .Assign, .Whitespace, .Int, .Eof] = [0] ∧
     observe [.SingleLineComment, .LineBreak, .MultiLineComment, .Whitespace, .Let, .Whitespace, .Ident, .Whitespace, .Assign,
       .Whitespace, .Int, .Eof] [4, 1, 7, 1, 3, 1, 1, 1, 1, 1, 1, 0] =
     (0, true, [.idx 2, .idx 4, .idx 6, .idx 8, .idx 10], [.idx 2, .idx 4, .idx 6, .idx 8, .idx 10])) := by
  decide +kernel

/-! ### Goal 1: every tree the ported PARSER builds for an error-free text is in the class (shape invariant of `Model/CstGrammar.lean`) -/

/-- `strictTree` of the tree the ported parser builds for a token list -/
def strictOf (ks : List Kind) (ws : List Nat) : Bool :=
  match (Grammar.parseTokens ks ws).b.root with
  | some g => strictTree ⟨ks.toArray, Preparse.preparse ks⟩ g
  | none => false

/-- PARSED TREES KEEP ALL.  For EVERY token list: if the ported `parse_cst` records no error and the tree `g` it returns has none of
the lenient shapes (`strictTree`, `Model/CstStrict.lean`: a comma that follows no parameter, an assignment as if-condition / then-branch /
macro argument — for these the statement is FALSE, `C14_lenient_shapes_lose_content`), then `g` is in the class `keepsAll`: at every
node, of every kind, the printer's loop passes its `ok` test at every child.  Proof: a shape invariant of the parser — for each of the
73 grammar functions what it appends to the open node when no error is recorded (`Grammar.Rs`: "`parse_expr`: one node, or two for an
assignment", "the comma loops: `(, item)* ,?`", "`parse_type`: a node, or `( T )` with the parentheses as children of the parent",
"the postfix / infix loops replace the last child by a node that starts at the marker", …) — proved ONCE over the command language of
`Model/CstGrammar.lean` (`Grammar.em_sound`, one induction over `Cmd` like `exec_good`; then one verification condition per function
body, `Grammar.vc_all`, and one obligation per `emit_node` of a kind with an `ok` test, `Grammar.nok_all`), then per printer loop
"shape ⇒ the tests hold" (`listShape_ok`, `blockShape_ok`, `letShape_ok`, `ifShape_ok`, `binShape_ok`, `lamShape_ok`, `recShape_ok`,
`macShape_ok`, `useShape_ok`, `umShape_ok`, `qpShape_ok`).  All 52 node kinds; all inputs; fuel = `fuelBound` (complete by C04). -/
theorem C14_parsed_trees_keep_all (ks : List Kind) (widths : List Nat) (hw : widths.length = ks.length) (g : Green)
    (herr : (Grammar.parseTokens ks widths).errs = []) (hg : (Grammar.parseTokens ks widths).b.root = some g)
    (hs : strictTree ⟨ks.toArray, Preparse.preparse ks⟩ g = true) :
    keepsAll ⟨ks.toArray, Preparse.preparse ks⟩ g = true := by
  have hoof := (Grammar.parse_fuel (Grammar.mkEnv ks widths (Preparse.preparse ks)) ks.toArray
    (Grammar.fuelBound (Preparse.preparse ks).tokenIndices.length) (by simp [Grammar.len, Grammar.mkEnv])).2
  obtain ⟨g', hg', hka⟩ := Grammar.parse_keeps (c := ⟨ks.toArray, Preparse.preparse ks⟩) ks.toArray _
    (Grammar.mkEnv_ok ks widths hw) (Grammar.mkEnv_kindsOk ks widths) rfl herr hoof
  have : g' = g := Option.some.inj (hg'.symm.trans hg)
  subst this
  rw [← keepsAllOn_all]
  exact hka hs

/-- … so the content theorem holds for parsed texts without a class hypothesis: the normalised text leaves of the document are the
tokens of the tree in order, each between its comments -/
theorem C14_format_content_parsed (ks : List Kind) (widths : List Nat) (hw : widths.length = ks.length) (g : Green)
    (herr : (Grammar.parseTokens ks widths).errs = []) (hg : (Grammar.parseTokens ks widths).b.root = some g)
    (hs : strictTree ⟨ks.toArray, Preparse.preparse ks⟩ g = true) :
    content ⟨ks.toArray, Preparse.preparse ks⟩ (formatS ks (Preparse.preparse ks) g) = expected ⟨ks.toArray, Preparse.preparse ks⟩ g :=
  C14_format_content_doc ks (Preparse.preparse ks) g (C14_parsed_trees_keep_all ks widths hw g herr hg hs)

/-- NO COMMENT LOST, for parsed texts: the comments among the leaves of the document the formatter builds for an error-free, strict
text are exactly the comments the trivia maps attach to its syntax tokens, each once, in token order — the class hypothesis of
`C14_comments_in_order_parsed` is discharged by the shape invariant.  With `C14_format_rendered_content` these are the comment texts
of the output at every width and indent; with `C14_file_leading_comments_are_the_unattached` the comments attached to no token are
exactly the block written in front of it (`C13_trivia_accounting`: every comment is attached once or is in that block). -/
theorem C14_no_comment_lost_parsed (ks : List Kind) (widths : List Nat) (hw : widths.length = ks.length) (g : Green)
    (herr : (Grammar.parseTokens ks widths).errs = []) (hg : (Grammar.parseTokens ks widths).b.root = some g)
    (hs : strictTree ⟨ks.toArray, Preparse.preparse ks⟩ g = true)
    (hl : ∀ ti ∈ Preparse.syntaxIndices 0 ks, isComment ⟨ks.toArray, Preparse.preparse ks⟩ ti = false) :
    (content ⟨ks.toArray, Preparse.preparse ks⟩ (formatS ks (Preparse.preparse ks) g)).filter
        (isCommentItem ⟨ks.toArray, Preparse.preparse ks⟩) =
      (Preparse.syntaxIndices 0 ks).flatMap (fun ti =>
        triviaItems ⟨ks.toArray, Preparse.preparse ks⟩ (leadingTrivia ⟨ks.toArray, Preparse.preparse ks⟩ ti) ++
        triviaItems ⟨ks.toArray, Preparse.preparse ks⟩ (trailingTrivia ⟨ks.toArray, Preparse.preparse ks⟩ ti)) := by
  have hoof := (Grammar.parse_fuel (Grammar.mkEnv ks widths (Preparse.preparse ks)) ks.toArray
    (Grammar.fuelBound (Preparse.preparse ks).tokenIndices.length) (by simp [Grammar.len, Grammar.mkEnv])).2
  obtain ⟨g', g1, _, _, g4, _⟩ := Grammar.parse_tokens_spec ks widths hw (Grammar.fuelBound (Preparse.preparse ks).tokenIndices.length)
  have : g' = g := Option.some.inj (g1.symm.trans hg)
  subst this
  exact C14_comments_in_order_parsed ks widths g' hg (g4 hoof)
    (C14_parsed_trees_keep_all ks widths hw g' herr hg hs) hl

/-- … and the syntax tokens among the leaves are the syntax tokens of the text in order modulo `norm` -/
theorem C14_token_sequence_preserved_parsed_partial (ks : List Kind) (widths : List Nat) (hw : widths.length = ks.length) (g : Green)
    (herr : (Grammar.parseTokens ks widths).errs = []) (hg : (Grammar.parseTokens ks widths).b.root = some g)
    (hs : strictTree ⟨ks.toArray, Preparse.preparse ks⟩ g = true)
    (hl : ∀ ti ∈ g.leaves, isComment ⟨ks.toArray, Preparse.preparse ks⟩ ti = false) :
    (content ⟨ks.toArray, Preparse.preparse ks⟩ (cstToDoc ⟨ks.toArray, Preparse.preparse ks⟩ g)).filter
        (fun it => !isCommentItem ⟨ks.toArray, Preparse.preparse ks⟩ it) =
      g.leaves.flatMap (fun ti => (norm ⟨ks.toArray, Preparse.preparse ks⟩ (.tok ti)).toList) :=
  C14_token_sequence_preserved_partial _ g (C14_parsed_trees_keep_all ks widths hw g herr hg hs) hl

/-- THE LENIENT SHAPES (why `strictTree` is needed; findings C14-stray-comma, C14-assign-in-if, C14-assign-in-macro-arg, replayed on
the real formatter by every check run).  The ported parser records NO error, the tree is not strict, not in `keepsAll`, and:
`fn f(a,, /* c */ b){ a }` — the comment (token 8) of the second comma is not in the document;
`let g = |a,, /* c */| a` — the comment (token 11) is not in the document;
`fn f(x){ if (x) y = 2.0 }` — `=` and `2.0` (tokens 16, 18) are not in the document (the output is `if(x) y`);
`fn f(x){ g!(x = 1.0) }` — every token is in the document, but the loop makes the `AssignExpr` child a second argument: the output
`g!(x,  = 1.0)` has a comma the input does not have (erased by `norm`) and does not parse. -/
theorem C14_lenient_shapes_lose_content :
    (strictOf [.Function, .Whitespace, .Ident, .ParenBegin, .Ident, .Comma, .Comma, .Whitespace, .MultiLineComment, .Whitespace, .Ident,
        .ParenEnd, .BlockBegin, .Whitespace, .Ident, .Whitespace, .BlockEnd, .Eof] [2, 1, 1, 1, 1, 1, 1, 1, 7, 1, 1, 1, 1, 1, 1, 1, 1, 0] = false ∧
     observe [.Function, .Whitespace, .Ident, .ParenBegin, .Ident, .Comma, .Comma, .Whitespace, .MultiLineComment, .Whitespace, .Ident,
        .ParenEnd, .BlockBegin, .Whitespace, .Ident, .Whitespace, .BlockEnd, .Eof] [2, 1, 1, 1, 1, 1, 1, 1, 7, 1, 1, 1, 1, 1, 1, 1, 1, 0] =
      (0, false, [.idx 0, .idx 2, .idx 3, .idx 4, .idx 10, .idx 11, .brace, .idx 14, .idx 16],
        [.idx 0, .idx 2, .idx 3, .idx 4, .idx 8, .idx 10, .idx 11, .brace, .idx 14, .idx 16])) ∧
    (strictOf [.Let, .Whitespace, .Ident, .Whitespace, .Assign, .Whitespace, .LambdaArgBeginEnd, .Ident, .Comma, .Comma, .Whitespace,
        .MultiLineComment, .LambdaArgBeginEnd, .Whitespace, .Ident, .Eof] [3, 1, 1, 1, 1, 1, 1, 1, 1, 1, 1, 7, 1, 1, 1, 0] = false ∧
     observe [.Let, .Whitespace, .Ident, .Whitespace, .Assign, .Whitespace, .LambdaArgBeginEnd, .Ident, .Comma, .Comma, .Whitespace,
        .MultiLineComment, .LambdaArgBeginEnd, .Whitespace, .Ident, .Eof] [3, 1, 1, 1, 1, 1, 1, 1, 1, 1, 1, 7, 1, 1, 1, 0] =
      (0, false, [.idx 0, .idx 2, .idx 4, .idx 6, .idx 7, .idx 12, .idx 14],
        [.idx 0, .idx 2, .idx 4, .idx 6, .idx 7, .idx 11, .idx 12, .idx 14])) ∧
    (strictOf [.Function, .Whitespace, .Ident, .ParenBegin, .Ident, .ParenEnd, .BlockBegin, .Whitespace, .If, .Whitespace, .ParenBegin,
        .Ident, .ParenEnd, .Whitespace, .Ident, .Whitespace, .Assign, .Whitespace, .Float, .Whitespace, .BlockEnd, .Eof]
        [2, 1, 1, 1, 1, 1, 1, 1, 2, 1, 1, 1, 1, 1, 1, 1, 1, 1, 3, 1, 1, 0] = false ∧
     observe [.Function, .Whitespace, .Ident, .ParenBegin, .Ident, .ParenEnd, .BlockBegin, .Whitespace, .If, .Whitespace, .ParenBegin,
        .Ident, .ParenEnd, .Whitespace, .Ident, .Whitespace, .Assign, .Whitespace, .Float, .Whitespace, .BlockEnd, .Eof]
        [2, 1, 1, 1, 1, 1, 1, 1, 2, 1, 1, 1, 1, 1, 1, 1, 1, 1, 3, 1, 1, 0] =
      (0, false, [.idx 0, .idx 2, .idx 3, .idx 4, .idx 5, .brace, .idx 8, .idx 10, .idx 11, .idx 12, .idx 14, .idx 20],
        [.idx 0, .idx 2, .idx 3, .idx 4, .idx 5, .brace, .idx 8, .idx 10, .idx 11, .idx 12, .idx 14, .idx 16, .idx 18, .idx 20])) ∧
    (strictOf [.Function, .Whitespace, .Ident, .ParenBegin, .Ident, .ParenEnd, .BlockBegin, .Whitespace, .Ident, .MacroExpand, .ParenBegin,
        .Ident, .Whitespace, .Assign, .Whitespace, .Float, .ParenEnd, .Whitespace, .BlockEnd, .Eof]
        [2, 1, 1, 1, 1, 1, 1, 1, 1, 1, 1, 1, 1, 1, 1, 3, 1, 1, 1, 0] = false ∧
     observe [.Function, .Whitespace, .Ident, .ParenBegin, .Ident, .ParenEnd, .BlockBegin, .Whitespace, .Ident, .MacroExpand, .ParenBegin,
        .Ident, .Whitespace, .Assign, .Whitespace, .Float, .ParenEnd, .Whitespace, .BlockEnd, .Eof]
        [2, 1, 1, 1, 1, 1, 1, 1, 1, 1, 1, 1, 1, 1, 1, 3, 1, 1, 1, 0] =
      (0, false, [.idx 0, .idx 2, .idx 3, .idx 4, .idx 5, .brace, .idx 8, .idx 9, .idx 10, .idx 11, .idx 13, .idx 15, .idx 16, .idx 18],
        [.idx 0, .idx 2, .idx 3, .idx 4, .idx 5, .brace, .idx 8, .idx 9, .idx 10, .idx 11, .idx 13, .idx 15, .idx 16, .idx 18])) := by
  decide +kernel

/-- … and the strict spelling of the first program is in the class (non-vacuity of `C14_parsed_trees_keep_all`):
`fn f(a, /* c */ b){ a }` -/
example : strictOf [.Function, .Whitespace, .Ident, .ParenBegin, .Ident, .Comma, .Whitespace, .MultiLineComment, .Whitespace, .Ident,
      .ParenEnd, .BlockBegin, .Whitespace, .Ident, .Whitespace, .BlockEnd, .Eof] [2, 1, 1, 1, 1, 1, 1, 7, 1, 1, 1, 1, 1, 1, 1, 1, 0] = true ∧ observe [.Function, .Whitespace, .Ident, .ParenBegin, .Ident, .Comma, .Whitespace, .MultiLineComment, .Whitespace, .Ident,
      .ParenEnd, .BlockBegin, .Whitespace, .Ident, .Whitespace, .BlockEnd, .Eof] [2, 1, 1, 1, 1, 1, 1, 7, 1, 1, 1, 1, 1, 1, 1, 1, 0] =
    (0, true, [.idx 0, .idx 2, .idx 3, .idx 4, .idx 7, .idx 9, .idx 10, .brace, .idx 13, .idx 15],
      [.idx 0, .idx 2, .idx 3, .idx 4, .idx 7, .idx 9, .idx 10, .brace, .idx 13, .idx 15]) := by decide +kernel

end Mimium.CstPrint
/-! ## "Same AST" reduced to "same syntax tokens and line-break oracle" (ported parser + ported lowering) -/

namespace Mimium.Props.C14
open Mimium.Gen (Kind)
open Mimium.Preparse Mimium.Grammar Mimium.Lower

/-- If the formatter's output (`ks'`, `widths'`, `texts'`) has the same syntax tokens as its input — the same number, kinds (`view`)
and texts (`tview`) —, the same `has_trailing_linebreak()` answer at every cursor position and the same raw adjacency of consecutive
syntax tokens, then parsing and lowering it gives the same `Program` as the input, for every fuel: same statements, expressions,
patterns, types, and the same spans as terms over the syntax tokens (`lowerParsed_layout`, the theorem behind
`C16_front_end_layout_invariant`). -/
theorem C14_same_tokens_same_ast (ks ks' : List Kind) (widths widths' : List Nat) (texts texts' : Array Sym)
    (hw : widths.length = ks.length) (hw' : widths'.length = ks'.length) (fuel : Nat)
    (hsize : (mkEnv ks widths (preparse ks)).idx.size = (mkEnv ks' widths' (preparse ks')).idx.size)
    (hview : ∀ i, view (mkEnv ks widths (preparse ks)) ks.toArray i = view (mkEnv ks' widths' (preparse ks')) ks'.toArray i)
    (htext : ∀ i, tview (mkEnv ks widths (preparse ks)) texts i = tview (mkEnv ks' widths' (preparse ks')) texts' i)
    (hnl : ∀ i, (mkEnv ks widths (preparse ks)).nl i = (mkEnv ks' widths' (preparse ks')).nl i)
    (hadj : ∀ i, adjacent (mkEnv ks widths (preparse ks)) i = adjacent (mkEnv ks' widths' (preparse ks')) i) :
    lowerParsed ks widths texts fuel = lowerParsed ks' widths' texts' fuel :=
  lowerParsed_layout ks ks' widths widths' texts texts' hw hw' fuel hsize hview hnl hadj htext

end Mimium.Props.C14
