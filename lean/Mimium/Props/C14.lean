import Mimium.Proofs.Pretty
import Mimium.Proofs.NewlineRule
import Mimium.Proofs.LowerFront
/-!
# C14 — The formatter never changes a program, loses no comment, and is idempotent

**Level: partial.**  The statement has three clauses (same AST, all comments in order, fixed point) about
`mimium-fmt`'s 2.4 kLoC of per-construct layout code, which is *not* modelled.  What is proved here is the part
of the argument that does not depend on the per-construct code: the layout engine (the `pretty` crate, modelled
in `Model/Pretty.lean` and tied to the crate by exact comparison on random documents in every check run).

* `C14_render_content` / `C14_render_content_invariant`: for **every** document and **all** widths the
  rendered output, after deleting what `line`/`softline`/`nest`/`hardline` introduce, is the document's sequence
  of text leaves — the token and comment content of the formatter's output cannot depend on the line width.
* `C14_render_content_indent_invariant`: nor on the indent size (any rewriting of the `nest` offsets).
* `C14_render_fits_or_breaks`: the best-layout law of `group`: a group is laid out flat (no newline inside,
  ending inside the page) exactly when `fits` holds, and it is broken only if its flat layout contains a
  hard line break, or does not fit, or what follows up to the next possible break does not fit.
* `C14_render_wide_flat`: on a wide enough page a group without hard breaks is one line.
* `C14_hardline_always_breaks`: a `hardline` produces a newline at every width (comments that end a line stay
  terminated).

* `C14_newline_rule` / `C14_safe_breaks_keep_structure` (token-level port of the expression core of
  `cst_parser.rs`, `Model/NewlineRule.lean`): the parse depends on line breaks only in front of `(`, `[` and `.`
  (the postfix openers); inserting line breaks anywhere else — after an infix operator, before one (`|>`),
  after a comma, inside brackets — never changes the tree.  `C14_linebreak_tests_vacuous`: the two
  `has_trailing_linebreak()` tests in `parse_expr_with_precedence` do nothing (it equals its `_no_linebreak` twin).

* `C14_same_tokens_same_ast` (real grammar `Model/CstGrammar.lean` + real lowering `Model/Lower.lean`, both literal ports tied by
  exact correspondence in C13 / C16): an output that keeps the syntax tokens (kinds and texts, in order), the answers of the
  line-break oracle and token adjacency parses and lowers to THE SAME `Program` (AST and span terms) as the input — so the "same
  AST" clause can only fail through a changed token, a moved line break in front of a position where the grammar asks the oracle,
  or two operators glued together; that `cst_print.rs` keeps these is what is NOT proved (exercised by the correspondence).

The three clauses of the statement themselves are decided by the correspondence stage with the real parser and
the real formatter (see `tools/props/c14.py`); the defects it finds are listed in `known_findings.jsonl`.
-/
namespace Mimium.Pretty

/-- content of the output = content of the document, for every document and every width -/
theorem C14_render_content (d : Doc) (w : Nat) : toks (renderP w d) = texts d := by
  unfold renderP
  rw [toks_best]
  simp [cmdTexts]

/-- *the output, after deleting the whitespace that `line`/`softline`/`nest` introduce, does not depend on the width* -/
theorem C14_render_content_invariant (d : Doc) (w w' : Nat) :
    stripLayout (renderP w d) = stripLayout (renderP w' d) := by
  unfold stripLayout
  rw [C14_render_content, C14_render_content]

/-- … nor on the indent size: rewriting every `nest` offset (e.g. indent 2 ↦ 4) leaves the content unchanged -/
theorem C14_render_content_indent_invariant (d : Doc) (f g : Int → Int) (w w' : Nat) :
    stripLayout (renderP w (mapNest f d)) = stripLayout (renderP w' (mapNest g d)) := by
  unfold stripLayout
  rw [C14_render_content, C14_render_content, texts_mapNest, texts_mapNest]

/-- the content is emitted in every intermediate state as well: any command stack, column, modes -/
theorem C14_best_content (w pos : Nat) (cmds : List Cmd) : toks (best w pos cmds) = cmdTexts cmds :=
  toks_best w pos cmds

/-- *best layout of `group`*: starting inside the page, a group in `Break` mode
* is laid out flat — its flat pieces, no newline among them, ending inside the page — when `fits` says yes;
* is laid out broken when `fits` says no, and `fits` says no only if the flat layout contains a hard line
  break, or overflows the page, or the text that follows (up to the next possible break) overflows it. -/
theorem C14_render_fits_or_breaks (w pos ind : Nat) (alt : Bool) (d : Doc) (rest : List Cmd) (hpos : pos ≤ w) :
    (fits w .flat pos [d] (rest.map (·.doc)) = true →
        best w pos (⟨ind, .brk, alt, .group d⟩ :: rest) = flatPieces alt d ++ best w (pos + flatLen d) rest
        ∧ pos + flatLen d ≤ w ∧ newlines (flatPieces alt d) = 0)
    ∧ (fits w .flat pos [d] (rest.map (·.doc)) = false →
        best w pos (⟨ind, .brk, alt, .group d⟩ :: rest) = best w pos (⟨ind, .brk, alt, d⟩ :: rest)
        ∧ (noHardFlat d = false ∨ w < pos + flatLen d
            ∨ fits w .flat (pos + flatLen d) [] (rest.map (·.doc)) = false)) := by
  constructor
  · intro hf
    have h := (fits_flat_cons w d pos [] _ hpos).1 hf
    refine ⟨?_, h.2.1, newlines_flatPieces _ _⟩
    rw [best]
    simp only [hf, Bool.and_true]
    simpa using best_flat w d pos ind alt rest h.1
  · intro hf
    refine ⟨?_, ?_⟩
    · rw [best]; simp [hf]
    · have h := fits_flat_cons w d pos [] (rest.map (·.doc)) hpos
      rw [hf] at h
      by_cases h1 : noHardFlat d = true
      · by_cases h2 : pos + flatLen d ≤ w
        · right; right
          cases h3 : fits w .flat (pos + flatLen d) [] (rest.map (·.doc)) with
          | false => rfl
          | true => exact absurd (h.2 ⟨h1, h2, h3⟩) (by simp)
        · right; left; omega
      · left; simpa using h1

/-- on a page at least as wide as its flat layout a group without hard breaks is rendered on one line -/
theorem C14_render_wide_flat (w : Nat) (d : Doc) (h : noHardFlat d = true) (hw : flatLen d ≤ w) :
    renderP w (.group d) = flatPieces false d ∧ newlines (renderP w (.group d)) = 0 := by
  have hf : fits w .flat 0 [d] [] = true := by
    rw [fits_flat_cons w d 0 [] [] (Nat.zero_le _)]
    refine ⟨h, by omega, ?_⟩
    rw [fits]
  have := (C14_render_fits_or_breaks w 0 0 false d [] (Nat.zero_le _)).1 (by simpa using hf)
  have hb : best w (0 + flatLen d) [] = [] := by rw [best]
  unfold renderP
  rw [this.1, hb]
  simp [newlines_flatPieces]

/-- a `hardline` (the formatter puts one after every `//` comment) yields a newline at every width and in
every mode, also inside a group that was judged to fit -/
theorem C14_hardline_always_breaks (w pos ind : Nat) (m : Mode) (alt : Bool) (rest : List Cmd) :
    ∃ k ps, best w pos (⟨ind, m, alt, .hardline⟩ :: rest) = .nl k :: ps := by
  cases rest with
  | nil => exact ⟨ind, [], by rw [best]⟩
  | cons n rest' => exact ⟨n.ind, best w n.ind (n :: rest'), by rw [best]⟩

/-! ### non-vacuity: the model distinguishes layouts -/

/-- `a + b` as the formatter builds a binary expression: `group (a ++ " " ++ "+" ++ nest 4 (line ++ b))` -/
def exBin : Doc :=
  .group (.append (.append (.append (.text 1 "a") Doc.space) (.text 1 "+")) (.nest 4 (.append Doc.line (.text 1 "b"))))

example : render 80 exBin = "a + b" := by decide +kernel
example : render 3 exBin = "a +\n    b" := by decide +kernel
example : stripLayout (renderP 3 exBin) = stripLayout (renderP 80 exBin) := C14_render_content_invariant _ _ _

end Mimium.Pretty

/-! ## P1 — the parser's newline rule (token level) -/
namespace Mimium.NewlineRule

/-- *newline rule*: two layouts of the same tokens whose line breaks agree in front of every `(`, `[`, `.`
parse to the same tree — for all token sequences, all line-break placements, every fuel. -/
theorem C14_newline_rule (ts : List TK) (nl nl' : Nat → Bool) (h : Agree ts nl nl') : parse ts nl = parse ts nl' := by
  unfold parse
  rw [stmts_congr ts nl nl' h]

/-- *breaks inserted only at safe positions never change the token-level statement structure*: adding line
breaks at any set `extra` of token gaps, none of them in front of a postfix opener, leaves the parse unchanged. -/
theorem C14_safe_breaks_keep_structure (ts : List TK) (nl extra : Nat → Bool)
    (safe : ∀ i, extra i = true → sensitive ts[i]? = false) :
    parse ts (fun i => nl i || extra i) = parse ts nl := by
  apply C14_newline_rule
  intro i hs
  cases he : extra i with
  | false => simp [he]
  | true => rw [safe i he] at hs; cases hs

/-- the line-break tests inside `parse_expr_with_precedence` are vacuous: it computes the same function as
`parse_expr_with_precedence_no_linebreak` (so a break *before* an infix operator such as `|>`, or after a
complete operand, is not what ends a statement; only the postfix rule is line-break sensitive) -/
theorem C14_linebreak_tests_vacuous (ts : List TK) (nl : Nat → Bool) (f mp i : Nat) :
    exprPrec ts nl f true mp i = exprPrec ts nl f false mp i := (stop_irrelevant ts nl f).1 mp i

/-- translator tie: the data the model fixes is what `cst_parser.rs` says today (re-extracted on every run into
`Gen/C14.lean`): the postfix openers are exactly `(`, `.`, `[`; there are five `has_trailing_linebreak()` call
sites (two in the Pratt loop and one in the postfix loop — modelled; one in the block loop and one in the match-arm
loop — both of the form "if line break then continue the loop" and not modelled); every infix precedence is
positive (`parse_expr_with_precedence(0)` terminates). A change of any of these breaks this obligation. -/
theorem C14_extracted_parser_data :
    Mimium.Gen.C14.postfixOpeners = ["ParenBegin", "Dot", "ArrayBegin"]
    ∧ Mimium.Gen.C14.linebreakSites = 5
    ∧ (∀ e ∈ Mimium.Gen.C14.infixPrecTable, 0 < e.2)
    ∧ Mimium.Gen.C14.infixPrecTable.lookup "OpSum" = some Mimium.Gen.C14.minusPrec := by
  decide

/-! non-vacuity: a break in front of `(` *does* change the parse: `f(x)` is one statement, `f⏎(x)` is two -/
def exCall : List TK := [.atom, .lparen, .atom, .rparen]
example : (stmts exCall (fun _ => false) 5 0).length = 1 := by decide +kernel
example : (stmts exCall (fun i => i == 1) 5 0).length = 2 := by decide +kernel
/-- `a +⏎ b` and `a⏎|> b` keep one statement -/
example : (stmts [.atom, .op 7, .atom] (fun i => i == 2) 4 0).length = 1 := by decide +kernel
example : (stmts [.atom, .op 2, .atom] (fun i => i == 1) 4 0).length = 1 := by decide +kernel

end Mimium.NewlineRule

/-! ## "Same AST" reduced to "same syntax tokens and line-break oracle" (ported parser + ported lowering) -/

namespace Mimium.Props.C14
open Mimium.Gen (Kind)
open Mimium.Preparse Mimium.Grammar Mimium.Lower

/-- If the formatter's output (`ks'`, `widths'`, `texts'`) has the same syntax tokens as its input — the same number, kinds (`view`)
and texts (`tview`) —, the same `has_trailing_linebreak()` answer at every cursor position and the same raw adjacency of consecutive
syntax tokens, then parsing and lowering it gives the same `Program` as the input, for every fuel: same statements, expressions,
patterns, types, and the same spans as terms over the syntax tokens (`lowerParsed_layout`, the theorem behind
`C16_front_end_layout_invariant`). -/
theorem C14_same_tokens_same_ast (ks ks' : List Kind) (widths widths' : List Nat) (texts texts' : Array Sym)
    (hw : widths.length = ks.length) (hw' : widths'.length = ks'.length) (fuel : Nat)
    (hsize : (mkEnv ks widths (preparse ks)).idx.size = (mkEnv ks' widths' (preparse ks')).idx.size)
    (hview : ∀ i, view (mkEnv ks widths (preparse ks)) ks.toArray i = view (mkEnv ks' widths' (preparse ks')) ks'.toArray i)
    (htext : ∀ i, tview (mkEnv ks widths (preparse ks)) texts i = tview (mkEnv ks' widths' (preparse ks')) texts' i)
    (hnl : ∀ i, (mkEnv ks widths (preparse ks)).nl i = (mkEnv ks' widths' (preparse ks')).nl i)
    (hadj : ∀ i, adjacent (mkEnv ks widths (preparse ks)) i = adjacent (mkEnv ks' widths' (preparse ks')) i) :
    lowerParsed ks widths texts fuel = lowerParsed ks' widths' texts' fuel :=
  lowerParsed_layout ks ks' widths widths' texts texts' hw hw' fuel hsize hview hnl hadj htext

end Mimium.Props.C14
