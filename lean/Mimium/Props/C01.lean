import Mimium.Proofs.StateMachine
/-!
# C01 — VM and WASM backends produce identical audio

What is a theorem here: the two runtimes implement one primitive contract for state access twice
(`Model/StateMachine.lean`: `vmStep` = raw-pointer `StateStorage` of the VM, `wasmStep` = the WASM host functions).
For EVERY trace of state operations and every initial storage: if the VM's accesses stay inside its storage
(which C05 establishes for compiled programs) the WASM host computes exactly the same outputs and the same
storage, and never grows it (`C01_prim_bisim`).  Outside that premise they really differ (`C01_prim_diverge_oob`):
C01 depends on C05.  The two code generators and wasmtime are NOT modelled: their agreement is decided by the
correspondence stage (generated programs on both backends, both compared with the reference semantics
`Model/Core.lean`, which makes agreement transitive — `C01_both_match_model_imp_equal`).
-/
namespace Mimium.StateMachine

/-- in-bounds traces: identical outputs, identical storage, no growth -/
theorem C01_prim_bisim (ops : List SOp) (s s' : St) (o : List UInt64) (hd : delaysOk ops = true)
    (h : vmRun s ops = some (s', o)) : wasmRun s ops = (s', o) :=
  run_agree ops s s' o hd h

/-- one operation -/
theorem C01_prim_step (s s' : St) (op : SOp) (o : List UInt64)
    (hd : ∀ len x t, op = .delay len x t → len ≤ maxWasmDelay)
    (h : vmStep s op = some (s', o)) : wasmStep s op = (s', o) :=
  step_agree s s' op o hd h

/-- outside the premise the implementations diverge: the VM reads outside its vector (undefined behaviour),
the WASM host silently grows the storage; popping below zero wraps on the VM and saturates on WASM. -/
theorem C01_prim_diverge_oob :
    vmRun ⟨0, [1, 2]⟩ [.push 2, .mem 7] = none ∧
    wasmRun ⟨0, [1, 2]⟩ [.push 2, .mem 7] = (⟨2, [1, 2, 7]⟩, [0]) ∧
    vmRun ⟨0, [1, 2]⟩ [.pop 1] = none ∧
    wasmRun ⟨0, [1, 2]⟩ [.pop 1] = (⟨0, [1, 2]⟩, []) := by
  decide +kernel

/-- the shape the check relies on: if each backend equals the (functional) reference semantics, they equal each other -/
theorem C01_both_match_model_imp_equal {α : Type} (model vm wasm : α) (h1 : vm = model) (h2 : wasm = model) :
    vm = wasm := by rw [h1, h2]

/-! non-vacuity: an in-bounds trace with nested pushes, a tuple-valued `self` (2 words), a mem and a delay -/
example :
    let ops := [SOp.get 2, .push 2, .mem 5, .push 1, .delay 3 9 0x3ff0000000000000, .pop 3, .set [4, 4]]
    delaysOk ops = true ∧ (vmRun ⟨0, List.replicate 8 0⟩ ops).isSome = true := by
  decide +kernel

end Mimium.StateMachine
