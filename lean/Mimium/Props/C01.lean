import Mimium.Proofs.StateMachine
import Mimium.Proofs.FlatRing
/-!
# C01 — VM and WASM backends produce identical audio

What is a theorem here: the two runtimes implement one primitive contract for state access twice
(`Model/StateMachine.lean`: `vmStep` = raw-pointer `StateStorage` of the VM, `wasmStep` = the WASM host functions).
For EVERY trace of state operations and every initial storage: if the VM's accesses stay inside its storage
(which C05 establishes for compiled programs) the WASM host computes exactly the same outputs and the same
storage, and never grows it (`C01_prim_bisim`).  Outside that premise they really differ (`C01_prim_diverge_oob`):
C01 depends on C05.  The two code generators and wasmtime are NOT modelled: their agreement is decided by the
correspondence stage (generated programs on both backends, both compared with the reference semantics
`Model/Core.lean`, which makes agreement transitive — `C01_both_match_model_imp_equal`).
`C01_delayFlat_eq_ring` / `C01_delay_both_eq_ring`: the flat ring-buffer update both runtimes perform on the words
`[rd, wr, data…]` IS `Ringbuffer::process` (`Cells.Ring.process`, the function `C02_delay_spec` is about) on the ring those
words encode — for every ring whose write index fits a machine word — and touches no other word.
-/
namespace Mimium.StateMachine

/-- in-bounds traces: identical outputs, identical storage, no growth -/
theorem C01_prim_bisim (ops : List SOp) (s s' : St) (o : List UInt64) (hd : delaysOk ops = true)
    (h : vmRun s ops = some (s', o)) : wasmRun s ops = (s', o) :=
  run_agree ops s s' o hd h

/-- one operation -/
theorem C01_prim_step (s s' : St) (op : SOp) (o : List UInt64)
    (hd : ∀ len x t, op = .delay len x t → len ≤ maxWasmDelay)
    (h : vmStep s op = some (s', o)) : wasmStep s op = (s', o) :=
  step_agree s s' op o hd h

/-- outside the premise the implementations diverge: the VM reads outside its vector (undefined behaviour),
the WASM host silently grows the storage; popping below zero wraps on the VM and saturates on WASM. -/
theorem C01_prim_diverge_oob :
    vmRun ⟨0, [1, 2]⟩ [.push 2, .mem 7] = none ∧
    wasmRun ⟨0, [1, 2]⟩ [.push 2, .mem 7] = (⟨2, [1, 2, 7]⟩, [0]) ∧
    vmRun ⟨0, [1, 2]⟩ [.pop 1] = none ∧
    wasmRun ⟨0, [1, 2]⟩ [.pop 1] = (⟨0, [1, 2]⟩, []) := by
  decide +kernel

/-- the shape the check relies on: if each backend equals the (functional) reference semantics, they equal each other -/
theorem C01_both_match_model_imp_equal {α : Type} (model vm wasm : α) (h1 : vm = model) (h2 : wasm = model) :
    vm = wasm := by rw [h1, h2]

/-- the shared flat ring-buffer update (`delayFlat`, text of `Machine::delay` / `state_delay_host`) on a storage that holds
the words of ring `r` at `pre.length` computes `Ringbuffer::process` and leaves the words of the updated ring -/
theorem C01_delayFlat_eq_ring (pre post : List UInt64) (r : Cells.Ring) (x t : UInt64)
    (hlen : 0 < r.data.length) (hwr : r.wr < 2 ^ 64) :
    delayFlat (pre ++ r.words ++ post) pre.length r.data.length x t =
      ((r.process x t).1, pre ++ (r.process x t).2.words ++ post) :=
  delayFlat_eq_ring pre post r x t hlen hwr

/-- both runtimes' `Delay` at a ring's words: same output, same storage, namely `Ringbuffer::process` of the ring
(including the degenerate length 0, where both return 0 and change nothing) -/
theorem C01_delay_both_eq_ring (pre post : List UInt64) (r : Cells.Ring) (x t : UInt64)
    (hwr : r.wr < 2 ^ 64) (hmax : r.data.length ≤ maxWasmDelay) :
    vmStep ⟨pre.length, pre ++ r.words ++ post⟩ (.delay r.data.length x t) =
      some (⟨pre.length, pre ++ (r.process x t).2.words ++ post⟩, [(r.process x t).1]) ∧
    wasmStep ⟨pre.length, pre ++ r.words ++ post⟩ (.delay r.data.length x t) =
      (⟨pre.length, pre ++ (r.process x t).2.words ++ post⟩, [(r.process x t).1]) := by
  have h := step_delay pre post r x t hwr
  refine ⟨h, step_agree _ _ _ _ ?_ h⟩
  intro len x' t' e
  cases e
  exact hmax

/-! non-vacuity of the two ring lemmas: a ring of length 3 in the middle of a storage -/
example :
    let r : Cells.Ring := ⟨1, 2, [7, 8, 9]⟩
    0 < r.data.length ∧ r.wr < 2 ^ 64 ∧ r.data.length ≤ maxWasmDelay ∧
    (vmStep ⟨1, [5] ++ r.words ++ [6]⟩ (.delay 3 4 0)).isSome = true := by
  decide +kernel

/-! non-vacuity: an in-bounds trace with nested pushes, a tuple-valued `self` (2 words), a mem and a delay -/
example :
    let ops := [SOp.get 2, .push 2, .mem 5, .push 1, .delay 3 9 0x3ff0000000000000, .pop 3, .set [4, 4]]
    delaysOk ops = true ∧ (vmRun ⟨0, List.replicate 8 0⟩ ops).isSome = true := by
  decide +kernel

end Mimium.StateMachine
