import Mimium.Model.Sched
/-!
# WASM side with the closure records in linear memory — the OLD discipline (finding F17 of C11, repaired)

**Role of this file since the repair of F17.** `M.run` / `R.run` below model the memory discipline the WASM back end had
until the repair (closure records freed together with the body that made them). The repaired back end hands the host a
record that is NOT rewound (`closure_retain` copies the record into a pool block below the allocator floor,
`closure_release` returns it after the task ran), so the implementation is now modelled by the plain queue model
(`W.run` / `W.runH stdHeap`) and must be `Ideal` on every program. The theorems about `M.run` / `R.run` stay: they are
the proof of WHY the old discipline failed (the two counterexamples) and of which programs it could not hurt (same
closure per slot). The correspondence still evaluates `M.run` / `R.run` on every generated program, but only to count how
many programs are sensitive to the lifetime of the records. The stdPush/stdPop port of `BinaryHeap` in this file is
still the model of the implementation's heap.

What follows describes the code BEFORE the repair.
On the WASM backend the closure handle given to `_mimium_schedule_at` is the *address* of a closure record
`[fn_table_idx : i64][upvalues…]` that `MakeClosure` bump-allocates at `__alloc_ptr` (`wasmgen.rs: emit_runtime_alloc`).
The bump pointer is rewound
* by `dsp` itself (entry function: saves `__alloc_ptr` on entry, restores it before returning),
* by the trampoline `_mimium_exec_closure_void` around every scheduled body,
* by `WasmDspRuntime::run_dsp` around the whole sample,
while the pending task keeps the address. So every closure created for an `@` inside a task body or inside dsp lives at
the same addresses `base, base+1, …` (records without upvalues are one 8-byte cell; `base` = pointer left by global
scope), and a later `@` overwrites the record a pending task still points to: when that task becomes due,
`call_indirect` runs whatever function index is stored there *now*.

This file extends the WASM model by that memory (`mem : address ↦ fn index`, cells of records without upvalues: `M.run`;
records `[fn][captured words…]` of any size: `R.run`, last section).
At the `Env` interface `Task.id` is the function a call names; in the heap `Task.id` is the record's address;
`TickRec.execd` records the function that was actually run.
-/
namespace Mimium.Sched

abbrev Mem := List (Nat × Nat)

def memGet (m : Mem) (a : Nat) : Nat :=
  match m.find? (fun p => p.1 == a) with
  | some p => p.2
  | none => 0

/-- The `MakeClosure`s of one body: the `j`-th call's record goes to `a + j`; the task carries the address. -/
def memSet (m : Mem) (a v : Nat) : Mem := (a, v) :: m.filter (fun p => p.1 != a)

def allocReqs : Nat → List Task → Mem → List Task × Mem
  | _, [], m => ([], m)
  | a, x :: xs, m =>
    let r := allocReqs (a + 1) xs (memSet m a x.id)
    (⟨x.when, a⟩ :: r.1, r.2)

/-- The priority queue as the memory model sees it: `push`, and `popDue now` = `peek`; if `when ≤ now` then `pop`.
Two instances: the abstract heap with a tie oracle (`oracleHeap`, used in the theorems) and a literal port of
`std::collections::BinaryHeap<Reverse<Task>>` (`stdHeap`, used by the driver: once records are overwritten the
*order* among equal times decides which function a task runs, so predicting the real output needs the real tie order). -/
structure HeapOps (H : Type) where
  empty : H
  push : Task → H → H
  popDue : Nat → H → Option (Task × H)
  size : H → Nat

def oracleHeap (ch : Nat → Nat) : HeapOps (List Task × Nat) where
  empty := ([], 0)
  push := fun x h => (x :: h.1, h.2)
  popDue := fun now h =>
    match popMin (ch h.2) h.1 with
    | some (x, r) => if x.when ≤ now then some (x, (r, h.2 + 1)) else none
    | none => none
  size := fun h => h.1.length

/-! ### literal port of `BinaryHeap<Reverse<Task>>` (library/alloc/src/collections/binary_heap) -/

/-- `Reverse(a) <= Reverse(b)` with `Ord for Task` comparing `when` only. -/
def rle (a b : Task) : Bool := decide (b.when ≤ a.when)

/-- `sift_up(start, pos)` (fuel: `pos`). -/
def siftUp (start : Nat) : Nat → Nat → Array Task → Array Task
  | 0, _, d => d
  | fuel + 1, pos, d =>
    if pos > start then
      let parent := (pos - 1) / 2
      if rle d[pos]! d[parent]! then d else siftUp start fuel parent (d.swapIfInBounds pos parent)
    else d

/-- the loop of `sift_down_to_bottom`; returns the final hole position (fuel: size). -/
def siftDownLoop (endv : Nat) : Nat → Nat → Array Task → Nat × Array Task
  | 0, pos, d => (pos, d)
  | fuel + 1, pos, d =>
    let child := 2 * pos + 1
    if child ≤ endv - 2 ∧ 2 ≤ endv then
      let child := if rle d[child]! d[child + 1]! then child + 1 else child
      siftDownLoop endv fuel child (d.swapIfInBounds pos child)
    else if child + 1 = endv then (child, d.swapIfInBounds pos child)
    else (pos, d)

def stdPush (x : Task) (d : Array Task) : Array Task :=
  let d' := d.push x
  siftUp 0 d'.size d.size d'

def stdPop (d : Array Task) : Option (Task × Array Task) :=
  if d.size = 0 then none else
  let last := d[d.size - 1]!
  let d1 := d.pop
  if d1.size = 0 then some (last, d1) else
  let root := d1[0]!
  let d2 := d1.set! 0 last
  let r := siftDownLoop d2.size d2.size 0 d2
  some (root, siftUp 0 d2.size r.1 r.2)

def stdHeap : HeapOps (Array Task) where
  empty := #[]
  push := stdPush
  popDue := fun now d =>
    if d.size = 0 then none else
    if d[0]!.when ≤ now then stdPop d else none
  size := fun d => d.size

/-! ### the WASM side with closure memory -/

structure MSt (σ H : Type) where
  currentTime : Nat
  heap : H
  user : σ
  mem : Mem
  allocPtr : Nat

def pushAllH {H : Type} (ops : HeapOps H) (cur : Nat) : List Task → H → Option H
  | [], h => some h
  | x :: xs, h => if x.when ≤ cur then none else pushAllH ops cur xs (ops.push x h)

def drainDueH {H : Type} (ops : HeapOps H) (now : Nat) : Nat → H → List Task × H
  | 0, h => ([], h)
  | n + 1, h =>
    match ops.popDue now h with
    | none => ([], h)
    | some (x, r) =>
      let res := drainDueH ops now n r
      (x :: res.1, res.2)

/-- Execute the drained closures: load the function index stored at the address, run that body with the bump pointer
at `base` (the trampoline restores it afterwards), push its calls. Returns (heap, user, mem, executed functions, calls). -/
def M.execAll {σ H : Type} (ops : HeapOps H) (env : Env σ) (now base : Nat) :
    List Task → H → σ → Mem → Option (H × σ × Mem × List Task × List Task)
  | [], h, u, m => some (h, u, m, [], [])
  | x :: xs, h, u, m =>
    let fn := memGet m x.id
    let b := env.task fn now u
    let a := allocReqs base b.2 m
    match pushAllH ops now a.1 h with
    | none => none
    | some h1 =>
      match M.execAll ops env now base xs h1 b.1 a.2 with
      | none => none
      | some (h2, u2, m2, ex, rq) => some (h2, u2, m2, ⟨x.when, fn⟩ :: ex, b.2 ++ rq)

def M.tick {σ H : Type} (ops : HeapOps H) (env : Env σ) (t : Nat) (st : MSt σ H) : Option (MSt σ H × TickRec) :=
  let d := drainDueH ops t (ops.size st.heap) st.heap
  match M.execAll ops env t st.allocPtr d.1 d.2 st.user st.mem with
  | none => none
  | some (h, u, m, ex, rq) =>
    let b := env.dsp t u
    let a := allocReqs st.allocPtr b.2 m
    match pushAllH ops t a.1 h with
    | none => none
    | some h' =>
      some ({ st with currentTime := t, heap := h', user := b.1, mem := a.2 }, { execd := ex, reqs := rq ++ b.2 })

/-- Global scope keeps its records (nothing rewinds `__alloc_ptr` after `main`). -/
def M.run {σ H : Type} (ops : HeapOps H) (env : Env σ) (n : Nat) (s0 : σ) : Run (MSt σ H) :=
  let g := env.global s0
  let a := allocReqs 0 g.2 []
  match pushAllH ops 0 a.1 ops.empty with
  | none => { greqs := g.2, ticks := [], final := none }
  | some h =>
    let r := runFrom (M.tick ops env) n 0
      { currentTime := 0, heap := h, user := g.1, mem := a.2, allocPtr := g.2.length }
    { greqs := g.2, ticks := r.1, final := r.2 }

/-! ### closure records with upvalues (records larger than one cell)

`MakeClosure` writes `[fn_table_idx : i64][upvalue_0 : i64] … [upvalue_{n-1} : i64]` at `__alloc_ptr` and advances it by
`1 + n` cells (`wasmgen.rs: I::MakeClosure`; a captured function argument is stored by value). When the task becomes due
`_mimium_exec_closure_void` loads the word at the task's address, wraps it to `i32` and `call_indirect`s it with type
`() -> ()`; the callee reads its upvalues at `address + 1 + i`. Because records of different sizes are laid out back to
back from the same `base` by every body, a pending task's address can by then hold another record's function word, or
one of another record's UPVALUE words (no function of that index/type in the table: the `call_indirect` traps,
`on_sample` logs the error and goes on — the task is dropped), and its upvalue cells can hold anything.

`RecFmt` abstracts the compiler-dependent part: which cells a closure's record consists of, and which closure (if any)
the trampoline ends up running for the cells it finds. `R.run fmt` is `M.run` with that layout; `M.run` is the instance
where every record is the single cell `[id]` (`unitFmt`, theorem `R.run_unitFmt`). -/

structure RecFmt where
  /-- the cells `MakeClosure` writes for closure `id`: function word, then the captured words -/
  cells : Nat → List Nat
  /-- what the trampoline runs for a record; `rd k` = the cell at `address + k`. `none`: `call_indirect` traps. -/
  decode : (Nat → Nat) → Option Nat

def unitFmt : RecFmt := ⟨fun id => [id], fun rd => some (rd 0)⟩

def writeCells (m : Mem) (a : Nat) : List Nat → Mem
  | [] => m
  | c :: cs => writeCells (memSet m a c) (a + 1) cs

/-- The `MakeClosure`s of one body with record sizes: each record goes right behind the previous one. -/
def allocRecs (fmt : RecFmt) : Nat → List Task → Mem → List Task × Mem
  | _, [], m => ([], m)
  | a, x :: xs, m =>
    let r := allocRecs fmt (a + (fmt.cells x.id).length) xs (writeCells m a (fmt.cells x.id))
    (⟨x.when, a⟩ :: r.1, r.2)

/-- number of cells the records of a list of calls occupy -/
def recsSize (fmt : RecFmt) : List Task → Nat
  | [] => 0
  | x :: xs => (fmt.cells x.id).length + recsSize fmt xs

def R.execAll {σ H : Type} (fmt : RecFmt) (ops : HeapOps H) (env : Env σ) (now base : Nat) :
    List Task → H → σ → Mem → Option (H × σ × Mem × List Task × List Task)
  | [], h, u, m => some (h, u, m, [], [])
  | x :: xs, h, u, m =>
    match fmt.decode (fun k => memGet m (x.id + k)) with
    | none => R.execAll fmt ops env now base xs h u m   -- trap inside the trampoline: error logged, next task
    | some fn =>
      let b := env.task fn now u
      let a := allocRecs fmt base b.2 m
      match pushAllH ops now a.1 h with
      | none => none
      | some h1 =>
        match R.execAll fmt ops env now base xs h1 b.1 a.2 with
        | none => none
        | some (h2, u2, m2, ex, rq) => some (h2, u2, m2, ⟨x.when, fn⟩ :: ex, b.2 ++ rq)

def R.tick {σ H : Type} (fmt : RecFmt) (ops : HeapOps H) (env : Env σ) (t : Nat) (st : MSt σ H) :
    Option (MSt σ H × TickRec) :=
  let d := drainDueH ops t (ops.size st.heap) st.heap
  match R.execAll fmt ops env t st.allocPtr d.1 d.2 st.user st.mem with
  | none => none
  | some (h, u, m, ex, rq) =>
    let b := env.dsp t u
    let a := allocRecs fmt st.allocPtr b.2 m
    match pushAllH ops t a.1 h with
    | none => none
    | some h' =>
      some ({ st with currentTime := t, heap := h', user := b.1, mem := a.2 }, { execd := ex, reqs := rq ++ b.2 })

def R.run {σ H : Type} (fmt : RecFmt) (ops : HeapOps H) (env : Env σ) (n : Nat) (s0 : σ) : Run (MSt σ H) :=
  let g := env.global s0
  let a := allocRecs fmt 0 g.2 []
  match pushAllH ops 0 a.1 ops.empty with
  | none => { greqs := g.2, ticks := [], final := none }
  | some h =>
    let r := runFrom (R.tick fmt ops env) n 0
      { currentTime := 0, heap := h, user := g.1, mem := a.2, allocPtr := recsSize fmt g.2 }
    { greqs := g.2, ticks := r.1, final := r.2 }

/-- Witness program of F17: `t2@1`, `t3@2` from global scope; `t2` schedules `t0@(now+2)`, `t3` schedules `t1@(now+2)`;
`t0`, `t1` schedule nothing. -/
def f17Env : Env Unit where
  global := fun _ => ((), [⟨1, 2⟩, ⟨2, 3⟩])
  task := fun id now _ => ((), if id = 2 then [⟨now + 2, 0⟩] else if id = 3 then [⟨now + 2, 1⟩] else [])
  dsp := fun _ _ => ((), [])

/-- a program with records of two sizes: closure 10 captures a word (`cells 10 = [100, 999]`), the others are one cell.
`t3@1` (schedules `t0`, `t1` for `now+5`: records at `base`, `base+1`), `t2@2` (schedules closure 10 for `now+1`: record
at `base`, `base+1`). -/
def recEnv : Env Unit where
  global := fun _ => ((), [⟨1, 3⟩, ⟨2, 2⟩])
  task := fun id now _ => ((), if id = 3 then [⟨now + 5, 0⟩, ⟨now + 5, 1⟩] else if id = 2 then [⟨now + 1, 10⟩] else [])
  dsp := fun _ _ => ((), [])

def recFmt : RecFmt where
  cells := fun id => if id = 10 then [100, 999] else [1 + id]
  decode := fun rd => if rd 0 = 100 then some 10 else if 1 ≤ rd 0 ∧ rd 0 < 100 then some (rd 0 - 1) else none

/-- a self-rescheduling counter (`scheduler_global_recursion.mmm`): premise holds, the chain theorem applies. -/
def counterEnv : Env Nat where
  global := fun s => (s, [⟨1, 0⟩])
  task := fun _ now s => (s + 1, [⟨now + 1, 0⟩])
  dsp := fun _ s => (s, [])

end Mimium.Sched
