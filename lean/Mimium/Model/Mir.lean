import Mimium.Model.RustGen
import Mimium.Model.Layout
/-!
# M13 — a semantics of the MIR (`crates/lib/mimium-lang/src/mir.rs`), the hub of all three back ends

Data types mirror `mir::{Mir, Function, Block, Instruction, Value}` for the fragment `mirgen.rs` produces for core-language
programs; types are reduced to word sizes (what every back end reduces them to).  The meaning is the idealisation of the
discipline `bytecodegen.rs` implements on the VM's value stack:

* every register names a REGION `(addr, size)` of one flat word memory; an instruction that produces a value writes it to
  FRESH words (the VM re-uses stack slots once `find` has consumed a register; here nothing is ever re-used, so a value can
  never be clobbered by a later one), `Alloc` reserves zeroed words, `GetElement` is an ALIAS `(addr + offset, size)`,
  `Load` copies, `Store` writes through; arguments are regions like everything else (`Load arg(i)`).
* closures: a table of closure objects (function, shared upvalue cells, an own state storage); an upvalue cell is OPEN
  (it names the region of the enclosing frame's variable) until `CloseHeapClosure` copies the words into it;
  cells are shared per creating frame, keyed by the captured address (`LocalUpValueMap`).
* state: the CURRENT storage is a `StateMachine.St`; `PushStateOffset / PopStateOffset / GetState / ReturnFeed / Mem / Delay`
  ARE `vmStep` of `Model/StateMachine.lean` (the proved one), every access is appended to a trace of `Layout.Access`;
  a call of a named function runs in the caller's storage, a closure call runs in the closure's own storage (saved and
  restored by construction: the caller's storage and trace are untouched).
* control: blocks are executed exactly as `RustGen.execBlock` does (phi by predecessor, fall-through to the merge block of the
  innermost arm), which is also what the VM's structured emission does.

Outcomes: `ok words | unsupported what | undefReg r | badBlock b | stuck why | fuel`.  Floats appear only in `evalUn/evalBin/extCall`
(executable part); no theorem mentions them.
-/
namespace Mimium.Mir
open Mimium.StateMachine Mimium.Layout Mimium.StateTree Mimium.RustGen

inductive Err where
  | fuel
  | unsupported (what : String)
  | undefReg (r : Nat)
  | badBlock (b : Nat)
  | stuck (why : String)
deriving Repr, DecidableEq, Inhabited

/-- `mir::Value` as an operand -/
inductive Opd where
  | reg (r : Nat)
  | fn (i : Nat)
  | ext (name : String)
  | none
  | bad
  | up (i : Nat)            -- `Value::UpValue(i)` in a function's `upindexes`: upvalue `i` of the closure that CREATES the new one
deriving Repr, DecidableEq, Inhabited

inductive UnOp | negf | absf | sinf | cosf | logf | sqrtf | negi | absi | not | ftoi | itof | itob
deriving Repr, DecidableEq, Inhabited

inductive BinOp
  | addf | subf | mulf | divf | modf | powf | addi | subi | muli | divi | modi
  | eq | ne | gt | ge | lt | le | and | or
deriving Repr, DecidableEq, Inhabited

/-- `mir::Instruction`; `dst` is the (renumbered) destination register, sizes are words -/
inductive Ins where
  | const (dst : Nat) (w : UInt64)
  | alloc (dst n : Nat)
  | load (dst : Nat) (src : Opd) (n : Nat)
  | store (ptr src : Opd) (n : Nat)
  | storeFn (ptr : Opd) (fn : Nat)
  | getElem (dst : Nat) (src : Opd) (off n : Nat)
  | call (dst : Nat) (f : Opd) (args : List (Opd × Nat)) (nret : Nat)
  | callInd (dst : Nat) (f : Opd) (args : List (Opd × Nat)) (nret : Nat)
  | getGlobal (dst gid n : Nat)
  | setGlobal (gid : Nat) (src : Opd) (n : Nat)
  | setGlobalFn (gid fn : Nat)
  | mkClosure (dst : Nat) (f : Opd)
  | closeHeap (src : Opd)
  | cloneHeap (src : Opd)
  | closeUp (src : Opd) (offs : List Nat)
  | getUp (dst i n : Nat)
  | setUp (i : Nat) (src : Opd) (n : Nat)
  | push (k : Nat)
  | pop (k : Nat)
  | getState (dst n : Nat)
  | retFeed (src : Opd) (n : Nat)
  | mem (dst : Nat) (src : Opd)
  | delay (dst len : Nat) (src time : Opd)
  | jmpIf (c t e m : Nat)
  | jmp (off : Int)
  | phi (dst l r : Nat)
  | switch (s : Nat) (cases : List (Int × Nat)) (dflt : Option Nat) (m : Nat)
  | phiSwitch (dst : Nat) (ins : List Nat)
  | ret (src : Opd) (n : Nat)
  | un (op : UnOp) (dst : Nat) (a : Opd)
  | bin (op : BinOp) (dst : Nat) (a b : Opd)
  | unionWrap (dst tag : Nat) (src : Opd) (total payload : Nat)
  | unionTag (dst : Nat) (src : Opd)
  | unionVal (dst : Nat) (src : Opd) (n : Nat)
  | nop
  | uns (dst : Nat) (what : String)
deriving Repr, Inhabited

/-- control skeleton of instruction number `k` of its function: what `rustgen.rs` dispatches on.  `JmpIf` / `Switch` are
preceded by `op k`, the check that the operand they name is a defined register (in the emitted Rust: a declared variable) -/
def Ins.skel (k : Nat) : Ins → List RustGen.Ins
  | .phi d l r => [.phi d l r]
  | .phiSwitch d ins => [.phiSwitch d ins]
  | .jmpIf c t e m => [.op k, .jmpIf c t e m]
  | .jmp off => [.jmp off]
  | .switch s cs d m => [.op k, .switch s cs d m]
  | .ret _ _ => [.ret k]
  | .retFeed _ _ => [.ret k]
  | _ => [.op k]

def skelBlock : Nat → List Ins → List RustGen.Ins
  | _, [] => []
  | k, i :: is => i.skel k ++ skelBlock (k + 1) is

def skelBlocks : Nat → List (List Ins) → RustGen.Cfg
  | _, [] => []
  | k, b :: bs => skelBlock k b :: skelBlocks (k + b.length) bs

structure Fn where
  label : String
  upper : Option Nat
  args : List Nat
  ups : List Opd
  sk : Sk
  nregs : Nat
  nret : Nat
  blocks : List (List Ins)
  /-- `arms (cfg)` and `blockPreds (cfg)` of the control skeleton, computed once (`Fn.build`; `Fn.cacheOk`) -/
  arms : List Arm
  preds : List (List Nat)
deriving Repr, Inhabited

def Fn.cfg (f : Fn) : RustGen.Cfg := skelBlocks 0 f.blocks

def Fn.build (label : String) (upper : Option Nat) (args : List Nat) (ups : List Opd) (sk : Sk) (nregs nret : Nat)
    (blocks : List (List Ins)) : Fn :=
  { label, upper, args, ups, sk, nregs, nret, blocks,
    arms := RustGen.arms (skelBlocks 0 blocks), preds := blockPreds (skelBlocks 0 blocks) }

def Fn.cacheOk (f : Fn) : Prop := f.arms = RustGen.arms f.cfg ∧ f.preds = blockPreds f.cfg

structure Prog where
  globals : Nat
  fns : List Fn
deriving Repr, Inhabited

/-! ## machine state -/

structure Region where
  addr : Nat
  size : Nat
deriving Repr, DecidableEq, Inhabited

structure Frame where
  fn : Nat
  regs : Array (Option Region)
  upmap : List (Nat × Nat)          -- captured address ↦ upvalue cell (`LocalUpValueMap` of this execution)
  clo : Option Nat                  -- the closure whose code runs (`cls_i`)
deriving Repr, Inhabited

structure Clo where
  fn : Nat
  ups : List Nat
  st : St
deriving Repr, Inhabited

inductive UpCell where
  | opn (addr size : Nat)
  | closed (ws : List UInt64)
deriving Repr, Inhabited

structure Glob where
  mem : Array UInt64
  clos : Array Clo
  cells : Array UpCell
  globals : Array UInt64
  now : UInt64
  sr : UInt64
deriving Repr, Inhabited

/-- everything except the current state storage and its trace -/
structure RSt where
  fr : Frame
  g : Glob
deriving Repr, Inhabited

structure MSt where
  fr : Frame
  g : Glob
  st : St
  tr : List Access
deriving Repr, Inhabited

/-- fn index → argument words → closure under execution → globals, storage, trace → result words and the same three -/
abbrev CallF := Nat → List UInt64 → Option Nat → Glob → St → List Access → Except Err (List UInt64 × Glob × St × List Access)

/-! ## memory and registers -/

def readN (m : Array UInt64) (a n : Nat) : Except Err (List UInt64) :=
  if a + n ≤ m.size then .ok (m.extract a (a + n)).toList else .error (.stuck "read outside the value memory")

def writeN (m : Array UInt64) (a : Nat) (ws : List UInt64) : Except Err (Array UInt64) :=
  if a + ws.length ≤ m.size then
    .ok (ws.foldl (fun (p : Array UInt64 × Nat) w => (p.1.setIfInBounds p.2 w, p.2 + 1)) (m, a)).1
  else .error (.stuck "write outside the value memory")

def regOf (fr : Frame) : Opd → Except Err Region
  | .reg r => match fr.regs[r]? with
    | some (some rg) => .ok rg
    | _ => .error (.undefReg r)
  | .fn _ => .error (.unsupported "function value used as a plain operand")
  | .ext _ => .error (.unsupported "external function used as a plain operand")
  | .none => .error (.stuck "operand none")
  | .bad => .error (.unsupported "operand kind")
  | .up _ => .error (.unsupported "upvalue operand outside an upvalue list")

def readOpd (s : RSt) (o : Opd) (n : Nat) : Except Err (List UInt64) := do
  let rg ← regOf s.fr o
  readN s.g.mem rg.addr n

def readWord (s : RSt) (o : Opd) : Except Err UInt64 := do
  let ws ← readOpd s o 1
  .ok (ws.headD 0)

/-- a value goes to fresh words; `dst` names them -/
def bind (s : RSt) (dst : Nat) (ws : List UInt64) : RSt :=
  { fr := { s.fr with regs := s.fr.regs.setIfInBounds dst (some ⟨s.g.mem.size, ws.length⟩) },
    g := { s.g with mem := s.g.mem ++ ws.toArray } }

def readArgs (s : RSt) : List (Opd × Nat) → Except Err (List UInt64)
  | [] => .ok []
  | (o, n) :: rest =>
    if n = 0 ∨ o = .none then readArgs s rest
    else do
      let ws ← readOpd s o n
      let more ← readArgs s rest
      .ok (ws ++ more)

/-! ## arithmetic (executable only) -/

def fb (x : Float) : UInt64 := x.toBits
def bf (w : UInt64) : Float := Float.ofBits w
def boolW (b : Bool) : UInt64 := if b then fb 1.0 else fb 0.0
def truthyW (w : UInt64) : Bool := bf w > 0.0

/-- exponent field of a finite non-zero double -/
def expBits (x : Float) : Nat := ((x.toBits >>> 52) &&& 0x7ff).toNat

/-- halve `s` until it is at most `r` (at most 53 times for a subnormal divisor, once otherwise) -/
def halveTo : Nat → Float → Float → Float
  | 0, s, _ => s
  | n + 1, s, r => if s > r then halveTo n (s / 2.0) r else s

/-- double `s` while the double is still at most `r` (a subnormal divisor has a smaller exponent than its field says) -/
def doubleTo : Nat → Float → Float → Float
  | 0, s, _ => s
  | n + 1, s, r => if s * 2.0 ≤ r then doubleTo n (s * 2.0) r else s

/-- C `fmod` (Rust `%` on `f64`), exact: the remainder of the magnitudes by shift-and-subtract on the scaled divisor
(every intermediate `r - y·2^k` with `y·2^k ≤ r < y·2^(k+1)` is exact in binary floating point), sign of the dividend -/
def fmodF (x y : Float) : Float :=
  if x.isNaN || y.isNaN || x.isInf || y == 0.0 then (0.0 / 0.0 : Float)
  else if y.isInf then x
  else
    let ax := x.abs
    let ay := y.abs
    if ax < ay then x
    else
      let rec go (fuel : Nat) (r : Float) : Float :=
        match fuel with
        | 0 => r
        | fuel + 1 =>
          if r < ay then r
          else
            -- largest k with ay * 2^k ≤ r: start from the exponent difference
            let k := expBits r - expBits ay
            let p2 := fun (n : Nat) => Float.exp2 (Float.ofNat n)
            let s := ay * p2 (min k 1000) * p2 (min (k - 1000) 1000) * p2 (k - 2000)
            let s := doubleTo 64 (halveTo 64 s r) r
            go fuel (r - s)
      let r := go 2200 ax
      if x < 0.0 then -r else (if r == 0.0 && x.toBits >>> 63 == 1 then -r else r)

def evalUn (op : UnOp) (a : UInt64) : UInt64 :=
  match op with
  | .negf => fb (-(bf a))
  | .absf => fb (bf a).abs
  | .sinf => fb (bf a).sin
  | .cosf => fb (bf a).cos
  | .logf => fb (bf a).log
  | .sqrtf => fb (bf a).sqrt
  | .negi => (0 : UInt64) - a
  | .absi => (a.toInt64.abs).toUInt64
  | .not => boolW (!(truthyW a))
  | .ftoi => (bf a).toInt64.toUInt64
  | .itof => fb a.toInt64.toFloat
  | .itob => if a != 0 then 1 else 0

def evalBin (op : BinOp) (a b : UInt64) : Except Err UInt64 :=
  match op with
  | .addf => .ok (fb (bf a + bf b))
  | .subf => .ok (fb (bf a - bf b))
  | .mulf => .ok (fb (bf a * bf b))
  | .divf => .ok (fb (bf a / bf b))
  | .modf => .ok (fb (fmodF (bf a) (bf b)))
  | .powf => .ok (fb ((bf a).pow (bf b)))
  | .addi => .ok (a + b)
  | .subi => .ok (a - b)
  | .muli => .ok (a * b)
  | .divi => if b = 0 then .error (.stuck "integer division by zero") else .ok (a.toInt64 / b.toInt64).toUInt64
  | .modi => if b = 0 then .error (.stuck "integer division by zero") else .ok (a.toInt64 % b.toInt64).toUInt64
  | .eq => .ok (boolW (bf a == bf b))
  | .ne => .ok (boolW (bf a != bf b))
  | .gt => .ok (boolW (bf a > bf b))
  | .ge => .ok (boolW (bf a ≥ bf b))
  | .lt => .ok (boolW (bf a < bf b))
  | .le => .ok (boolW (bf a ≤ bf b))
  | .and => .ok (boolW (truthyW a && truthyW b))
  | .or => .ok (boolW (truthyW a || truthyW b))

def fmin (a b : Float) : Float := if a.isNaN then b else if b.isNaN then a else if a < b then a else b
def fmax (a b : Float) : Float := if a.isNaN then b else if b.isNaN then a else if a > b then a else b

/-- the builtin external functions the VM links (`plugin/builtin_functins.rs`) and the two runtime getters -/
def extCall (name : String) (args : List UInt64) (now sr : UInt64) : Except Err (List UInt64) :=
  let a := bf (args.getD 0 0)
  let b := bf (args.getD 1 0)
  match name with
  | "_mimium_getnow" => .ok [now]
  | "_mimium_getsamplerate" => .ok [sr]
  | "sin" => .ok [fb a.sin] | "cos" => .ok [fb a.cos] | "tan" => .ok [fb a.tan]
  | "sinh" => .ok [fb a.sinh] | "cosh" => .ok [fb a.cosh] | "tanh" => .ok [fb a.tanh]
  | "asin" => .ok [fb a.asin] | "acos" => .ok [fb a.acos] | "atan" => .ok [fb a.atan]
  | "sqrt" => .ok [fb a.sqrt] | "abs" => .ok [fb a.abs] | "neg" => .ok [fb (-a)]
  | "floor" => .ok [fb a.floor] | "ceil" => .ok [fb a.ceil] | "round" => .ok [fb a.round]
  | "not" => .ok [boolW (a == 0.0)]
  | "probe" => .ok [fb a] | "probeln" => .ok [fb a]
  | "atan2" => .ok [fb (Float.atan2 a b)] | "pow" => .ok [fb (a.pow b)]
  | "min" => .ok [fb (fmin a b)] | "max" => .ok [fb (fmax a b)]
  | "add" => .ok [fb (a + b)] | "sub" => .ok [fb (a - b)] | "mult" => .ok [fb (a * b)] | "div" => .ok [fb (a / b)]
  | "eq" => .ok [boolW (a == b)] | "ne" => .ok [boolW (a != b)]
  | "lt" => .ok [boolW (a < b)] | "le" => .ok [boolW (a ≤ b)] | "gt" => .ok [boolW (a > b)] | "ge" => .ok [boolW (a ≥ b)]
  | _ => .error (.unsupported s!"external function {name}")

/-! ## closures -/

/-- closure handles are tagged words (the VM's are slot-map keys; only their identity matters) -/
def cloTag : Nat := 2 ^ 62

def handleOf (i : Nat) : UInt64 := (cloTag + i).toUInt64

def cloOfHandle (g : Glob) (w : UInt64) : Option Nat :=
  if cloTag ≤ w.toNat ∧ w.toNat - cloTag < g.clos.size then some (w.toNat - cloTag) else none

/-- the shared cell for the captured region (one per address and creating frame) -/
def cellFor (s : RSt) (rg : Region) : RSt × Nat :=
  match s.fr.upmap.find? (fun p => p.1 == rg.addr) with
  | some p => (s, p.2)
  | none =>
    let id := s.g.cells.size
    ({ fr := { s.fr with upmap := s.fr.upmap ++ [(rg.addr, id)] },
       g := { s.g with cells := s.g.cells.push (.opn rg.addr rg.size) } }, id)

def curCell (s : RSt) (i : Nat) : Except Err Nat :=
  match s.fr.clo with
  | none => .error (.stuck "upvalue access outside a closure")
  | some c =>
    match (s.g.clos[c]?).bind (·.ups[i]?) with
    | some id => .ok id
    | none => .error (.stuck "upvalue index out of range")

def cellsFor (s : RSt) : List Opd → Except Err (RSt × List Nat)
  | [] => .ok (s, [])
  | .up i :: os => do
    -- the creator's own upvalue (`FuncProto::outer_upindexes`, /repo 89c075d): the new closure SHARES that cell
    let id ← curCell s i
    let (s2, ids) ← cellsFor s os
    .ok (s2, id :: ids)
  | o :: os => do
    let rg ← regOf s.fr o
    let (s1, id) := cellFor s rg
    let (s2, ids) ← cellsFor s1 os
    .ok (s2, id :: ids)

/-- `Closure::new`: upvalue cells from the function's `upindexes` (operands of the CURRENT frame), zeroed own storage -/
def newClosure (P : Prog) (s : RSt) (g : Nat) : Except Err (RSt × UInt64) :=
  match P.fns[g]? with
  | none => .error (.stuck "closure of an unknown function")
  | some f => do
    let (s1, ids) ← cellsFor s f.ups
    let idx := s1.g.clos.size
    let c : Clo := ⟨g, ids, ⟨0, List.replicate f.sk.size 0⟩⟩
    .ok ({ s1 with g := { s1.g with clos := s1.g.clos.push c } }, handleOf idx)

def closeCells (g : Glob) : List Nat → Except Err Glob
  | [] => .ok g
  | id :: ids =>
    match g.cells[id]? with
    | some (.opn a n) => do
      let ws ← readN g.mem a n
      -- since /repo bdbbb70 (`Close`/`CloseHeapClosure` only mark the closure as escaping; the VM closes the open cells of a
      -- frame when that frame RETURNS) the cell stays open here: the variable lives on in its frame and every closure that
      -- captured it keeps seeing assignments.  Regions of this model are never reused, so an open cell stays readable after
      -- its frame returned: closing it at the return would copy the same words (`ws` is read to keep the access check).
      let _ := ws
      closeCells { g with cells := g.cells.setIfInBounds id (.opn a n) } ids
    | _ => closeCells g ids

/-- `close_upvalues_by_idx` (a word that is no live closure handle is ignored, as `CloseHeapClosure` does) -/
def closeHandle (g : Glob) (w : UInt64) : Except Err Glob :=
  match cloOfHandle g w with
  | some c => closeCells g ((g.clos[c]?).map (·.ups) |>.getD [])
  | none => .ok g

def closeOffs (s : RSt) (rg : Region) : List Nat → Except Err RSt
  | [] => .ok s
  | off :: offs => do
    let ws ← readN s.g.mem (rg.addr + off) 1
    let g ← closeHandle s.g (ws.headD 0)
    closeOffs { s with g := g } rg offs

/-! ## one instruction -/

/-- the function a `MakeClosure` names: directly, or as the word in a register -/
def fnOfOpd (s : RSt) : Opd → Except Err Nat
  | .fn i => .ok i
  | o => do .ok (← readWord s o).toNat

/-- what an instruction does to the registers of its frame: nothing, fresh words named by `dst`, or an alias -/
inductive Eff where
  | none
  | val (dst : Nat) (ws : List UInt64)
  | alias (dst : Nat) (rg : Region)
deriving Repr, Inhabited

/-- the machine outside the frame's registers after an instruction, the frame's upvalue map, the register effect -/
abbrev CoreRes := Glob × List (Nat × Nat) × Eff

def res (s : RSt) (e : Eff) : CoreRes := (s.g, s.fr.upmap, e)

/-- registers change ONLY here: `val` binds fresh words, `alias` names an existing region -/
def applyEff (fr : Frame) (r : CoreRes) : RSt :=
  let fr' : Frame := { fr with upmap := r.2.1 }
  match r.2.2 with
  | .none => ⟨fr', r.1⟩
  | .val d ws => bind ⟨fr', r.1⟩ d ws
  | .alias d rg => ⟨{ fr' with regs := fr'.regs.setIfInBounds d (some rg) }, r.1⟩

/-- all instructions that leave the current state storage alone (closure calls run in the closure's own storage) -/
def stepCore (callF : CallF) (P : Prog) (i : Ins) (s : RSt) : Except Err CoreRes :=
  match i with
  | .const dst w => .ok (res s (.val dst [w]))
  | .alloc dst n => .ok (res s (.val dst (List.replicate n 0)))
  | .load dst src n => do .ok (res s (.val dst (← readOpd s src n)))
  | .store p src n => do
    let rp ← regOf s.fr p
    let ws ← readOpd s src n
    let m ← writeN s.g.mem rp.addr ws
    .ok (res { s with g := { s.g with mem := m } } .none)
  | .storeFn p g => do
    let rp ← regOf s.fr p
    let (s1, h) ← newClosure P s g
    let m ← writeN s1.g.mem rp.addr [h]
    .ok (res { s1 with g := { s1.g with mem := m } } .none)
  | .getElem dst src off n => do
    let rg ← regOf s.fr src
    .ok (res s (.alias dst ⟨rg.addr + off, n⟩))
  | .getGlobal dst gid n =>
    if gid + n ≤ s.g.globals.size then .ok (res s (.val dst (s.g.globals.extract gid (gid + n)).toList))
    else .error (.stuck "global read out of bounds")
  | .setGlobal gid src n => do
    let ws ← readOpd s src n
    match writeN s.g.globals gid ws with
    | .ok gl => .ok (res { s with g := { s.g with globals := gl } } .none)
    | .error _ => .error (.stuck "global write out of bounds")
  | .setGlobalFn gid g => do
    let (s1, h) ← newClosure P s g
    match writeN s1.g.globals gid [h] with
    | .ok gl => .ok (res { s1 with g := { s1.g with globals := gl } } .none)
    | .error _ => .error (.stuck "global write out of bounds")
  | .mkClosure dst fo => do
    let g ← fnOfOpd s fo
    let (s1, h) ← newClosure P s g
    .ok (res s1 (.val dst [h]))
  | .closeHeap src => do
    let w ← readWord s src
    .ok (res { s with g := ← closeHandle s.g w } .none)
  | .cloneHeap _ => .ok (res s .none)
  | .closeUp src offs => do
    let rg ← regOf s.fr src
    .ok (res (← closeOffs s rg offs) .none)
  | .getUp dst i _ => do
    let id ← curCell s i
    match s.g.cells[id]? with
    | some (.opn a n) => do .ok (res s (.val dst (← readN s.g.mem a n)))
    | some (.closed ws) => .ok (res s (.val dst ws))
    | none => .error (.stuck "dangling upvalue cell")
  | .setUp i src n => do
    let id ← curCell s i
    let ws ← readOpd s src n
    match s.g.cells[id]? with
    | some (.opn a _) => do
      let m ← writeN s.g.mem a ws
      .ok (res { s with g := { s.g with mem := m } } .none)
    | some (.closed _) => .ok (res { s with g := { s.g with cells := s.g.cells.setIfInBounds id (.closed ws) } } .none)
    | none => .error (.stuck "dangling upvalue cell")
  | .un op dst a => do .ok (res s (.val dst [evalUn op (← readWord s a)]))
  | .bin op dst a b => do
    let x ← readWord s a
    let y ← readWord s b
    .ok (res s (.val dst [← evalBin op x y]))
  | .unionWrap dst tag src total payload => do
    let pay ← if src = .none ∨ payload = 0 then pure [] else readOpd s src payload
    let body := (pay ++ List.replicate (total - 1 - pay.length) 0).take (total - 1)
    .ok (res s (.val dst (tag.toUInt64 :: body)))
  | .unionTag dst src => do
    let rg ← regOf s.fr src
    .ok (res s (.val dst (← readN s.g.mem rg.addr 1)))
  | .unionVal dst src n => do
    let rg ← regOf s.fr src
    .ok (res s (.val dst (← readN s.g.mem (rg.addr + 1) n)))
  | .call dst (.ext name) args nret => do
    let ws ← readArgs s args
    let out ← extCall name ws s.g.now s.g.sr
    if out.length < nret then .error (.stuck "external function returned too few words") else .ok (res s (.val dst (out.take nret)))
  | .call _ _ _ _ => .error (.unsupported "call of a non-register callee")
  | .callInd dst (.ext name) args nret => do
    let ws ← readArgs s args
    let out ← extCall name ws s.g.now s.g.sr
    if out.length < nret then .error (.stuck "external function returned too few words") else .ok (res s (.val dst (out.take nret)))
  | .callInd dst f args nret => do
    let ws ← readArgs s args
    let w ← readWord s f
    match cloOfHandle s.g w with
    | none => .error (.unsupported "indirect call of a word that is no closure handle")
    | some c =>
      match s.g.clos[c]? with
      | none => .error (.stuck "dangling closure handle")
      | some cl => do
        let (out, g', st', _) ← callF cl.fn ws (some c) s.g cl.st []
        let g'' := { g' with clos := g'.clos.modify c fun cl' => { cl' with st := st' } }
        if out.length < nret then .error (.stuck "callee returned too few words")
        else .ok (g'', s.fr.upmap, .val dst (out.take nret))
  | .jmpIf c _ _ _ => do let _ ← readWord s (.reg c); .ok (res s .none)
  | .switch c _ _ _ => do let _ ← readWord s (.reg c); .ok (res s .none)
  | .nop => .ok (res s .none)
  | .uns _ what => .error (.unsupported what)
  | _ => .ok (res s .none)   -- state instructions, `Call` through a register and the other control instructions: see `stepIns` / `execBlockM`

def stepRest (callF : CallF) (P : Prog) (i : Ins) (s : RSt) : Except Err RSt := do
  .ok (applyEff s.fr (← stepCore callF P i s))

def accessOf (st : St) : SOp → List Access
  | .get n => [⟨.get, st.pos, n⟩]
  | .set ws => [⟨.set, st.pos, ws.length⟩]
  | .mem _ => [⟨.mem, st.pos, 1⟩]
  | .delay len _ _ => [⟨.delay, st.pos, delayExtra + len⟩]
  | _ => []

/-- a state instruction IS `vmStep`; the access is recorded -/
def stateOp (s : MSt) (op : SOp) : Except Err (MSt × List UInt64) :=
  match vmStep s.st op with
  | none => .error (.stuck "state access outside the storage")
  | some (st', out) => .ok ({ s with st := st', tr := s.tr ++ accessOf s.st op }, out)

def MSt.rest (s : MSt) : RSt := ⟨s.fr, s.g⟩
def MSt.withRest (s : MSt) (r : RSt) : MSt := { s with fr := r.fr, g := r.g }

def stepIns (callF : CallF) (P : Prog) (i : Ins) (s : MSt) : Except Err MSt :=
  match i with
  | .push k => do .ok (← stateOp s (.push k)).1
  | .pop k => do .ok (← stateOp s (.pop k)).1
  | .getState dst n => do
    let (s1, ws) ← stateOp s (.get n)
    .ok (s1.withRest (bind s1.rest dst ws))
  | .mem dst src => do
    let x ← readWord s.rest src
    let (s1, ws) ← stateOp s (.mem x)
    .ok (s1.withRest (bind s1.rest dst ws))
  | .delay dst len src time => do
    let x ← readWord s.rest src
    let t ← readWord s.rest time
    let (s1, ws) ← stateOp s (.delay len x t)
    .ok (s1.withRest (bind s1.rest dst ws))
  | .call dst (.reg r) args nret => do
    let ws ← readArgs s.rest args
    let w ← readWord s.rest (.reg r)
    let (out, g', st', tr') ← callF w.toNat ws none s.g s.st s.tr
    if out.length < nret then .error (.stuck "callee returned too few words")
    else .ok (({ s with g := g', st := st', tr := tr' } : MSt).withRest (bind ⟨s.fr, g'⟩ dst (out.take nret)))
  | i => do .ok (s.withRest (← stepRest callF P i s.rest))

/-- `Phi`: the destination names a copy of the chosen operand's words; an undefined operand leaves it undefined -/
def moveM (d src : Nat) (s : MSt) : MSt :=
  match s.fr.regs[src]? with
  | some (some rg) =>
    match readN s.g.mem rg.addr rg.size with
    | .ok ws => s.withRest (bind s.rest d ws)
    | .error _ => { s with fr := { s.fr with regs := s.fr.regs.setIfInBounds d (some rg) } }
  | _ => { s with fr := { s.fr with regs := s.fr.regs.setIfInBounds d none } }

def truthyM (c : Nat) (s : MSt) : Bool :=
  match readWord s.rest (.reg c) with
  | .ok w => truthyW w
  | .error _ => false

def scrutM (c : Nat) (s : MSt) : Int :=
  match readWord s.rest (.reg c) with
  | .ok w => w.toInt64.toInt
  | .error _ => 0

/-- `Return` / `ReturnFeed` (`SetState` then `Return`) -/
def retM (i : Ins) (s : MSt) : Except Err (List UInt64 × MSt) :=
  match i with
  | .ret .none _ => .ok ([], s)
  | .ret src n => do .ok (← readOpd s.rest src n, s)
  | .retFeed src n => do
    let ws ← readOpd s.rest src n
    let (s1, _) ← stateOp s (.set ws)
    .ok (ws, s1)
  | _ => .error (.stuck "not a return instruction")

inductive FlowM where
  | next (bb pred : Nat) (s : MSt)
  | ret (r : Except Err (List UInt64 × MSt))
  | err (e : Err)

/-- one basic block `bi` entered from arm `pred` (the structure of `RustGen.execBlock`) -/
def execBlockM (callF : CallF) (P : Prog) (as : List Arm) (preds : List Nat) (bi : Nat) :
    List Ins → Nat → MSt → FlowM
  | [], _, s =>
    match lastContaining as bi with
    | some a => .next a.merge a.start s
    | none => .err (.stuck "a block without terminator outside every arm")
  | .phi d l r :: rest, pred, s =>
    match preds with
    | p0 :: p1 :: _ =>
      if pred = p0 then execBlockM callF P as preds bi rest pred (moveM d l s)
      else if pred = p1 then execBlockM callF P as preds bi rest pred (moveM d r s)
      else .err (.stuck "phi entered from a block that is no predecessor")
    | _ => .err (.stuck "phi in a block with fewer than two predecessors")
  | .phiSwitch d ins :: rest, pred, s =>
    match (preds.zip ins).find? (fun a => a.1 == pred) with
    | some a => execBlockM callF P as preds bi rest pred (moveM d a.2 s)
    | none => .err (.stuck "phiswitch entered from a block that is no predecessor")
  | .jmpIf c t e m :: _, _, s =>
    match stepIns callF P (.jmpIf c t e m) s with
    | .ok s' => .next (if truthyM c s' then t else e) bi s'
    | .error e => .err e
  | .jmp off :: _, _, s => .next (wrapUsize (bi + off)) bi s
  | .switch c cases d m :: _, _, s =>
    match stepIns callF P (.switch c cases d m) s with
    | .ok s' =>
      match switchTarget cases d (scrutM c s') with
      | some n => .next n bi s'
      | none => .err (.stuck "switch: no case and no default")
    | .error e => .err e
  | .ret src n :: _, _, s => .ret (retM (.ret src n) s)
  | .retFeed src n :: _, _, s => .ret (retM (.retFeed src n) s)
  | i :: rest, pred, s =>
    match stepIns callF P i s with
    | .ok s' => execBlockM callF P as preds bi rest pred s'
    | .error e => .err e

inductive OutM where
  | ret (r : Except Err (List UInt64 × MSt))
  | err (e : Err)
  | more (bb pred : Nat) (s : MSt)

/-- the blocks of one function: `fuel` blocks -/
def runBlocksM (callF : CallF) (P : Prog) (f : Fn) : Nat → Nat → Nat → MSt → OutM
  | 0, bb, pred, s => .more bb pred s
  | n + 1, bb, pred, s =>
    match f.blocks[bb]? with
    | none => .err (.badBlock bb)
    | some b =>
      match execBlockM callF P f.arms (f.preds.getD bb []) bb b pred s with
      | .next bb' pred' s' => runBlocksM callF P f n bb' pred' s'
      | .ret r => .ret r
      | .err e => .err e

/-- argument regions: parameter `i` takes the next `args[i]` words -/
def enterArgs (g : Glob) : List Nat → List UInt64 → Nat → Array (Option Region) → Glob × Array (Option Region)
  | [], _, _, regs => (g, regs)
  | n :: ns, ws, i, regs =>
    let mine := (ws.take n) ++ List.replicate (n - ws.length) 0
    enterArgs { g with mem := g.mem ++ mine.toArray } ns (ws.drop n) (i + 1) (regs.setIfInBounds i (some ⟨g.mem.size, n⟩))

/-- register `nregs` is the unit value (`phi none none`) -/
def enterFrame (f : Fn) (fi : Nat) (clo : Option Nat) (g : Glob) (ws : List UInt64) : Frame × Glob :=
  let regs0 := (Array.replicate (f.nregs + 1) (none : Option Region)).setIfInBounds f.nregs (some ⟨0, 0⟩)
  let (g1, regs) := enterArgs g f.args ws 0 regs0
  (⟨fi, regs, [], clo⟩, g1)

/-- `Machine::close_frame_upvalues` (/repo bdbbb70): when a frame returns, every still-open cell that points into the words it
allocated (addresses from `base` on) keeps the words the variable holds now -/
def closeFrame (base : Nat) (g : Glob) : Glob :=
  { g with cells := g.cells.map (fun c => match c with
      | .opn a n => if base ≤ a then (match readN g.mem a n with | .ok ws => .closed ws | .error _ => c) else c
      | c => c) }

def runFn (P : Prog) : Nat → CallF
  | 0, _, _, _, _, _, _ => .error .fuel
  | n + 1, fi, ws, clo, g, st, tr =>
    match P.fns[fi]? with
    | none => .error (.stuck "call of an unknown function")
    | some f =>
      let (fr, g1) := enterFrame f fi clo g ws
      match runBlocksM (runFn P n) P f (f.blocks.length + 1) 0 0 ⟨fr, g1, st, tr⟩ with
      | .ret (.ok (out, s)) => .ok (out, closeFrame g.mem.size s.g, s.st, s.tr)
      | .ret (.error e) => .error e
      | .err e => .error e
      | .more _ _ _ => .error .fuel

/-! ## the same blocks as an instance of `RustGen`'s abstract instruction semantics -/

/-- instruction number `k` of the function (blocks concatenated) -/
def Fn.look (f : Fn) (k : Nat) : Option Ins := f.blocks.flatten[k]?

abbrev RetM := Except Err (List UInt64 × MSt)

/-- `RustGen.Sem` instantiated with the MIR instruction semantics: `op k` is instruction `k` (`none` = any error),
`truthy` the VM's `> 0`, `scrut` the word as `i64`, `move` the phi copy, `result k` the return instruction `k` -/
def mirSem (callF : CallF) (P : Prog) (f : Fn) : Sem MSt RetM where
  op k s := match f.look k with
    | some i => (stepIns callF P i s).toOption
    | none => none
  truthy := truthyM
  scrut := scrutM
  move := moveM
  result k s := match f.look k with
    | some i => retM i s
    | none => .error (.stuck "no such instruction")

def FlowM.toFlow : FlowM → Flow MSt RetM
  | .next bb pred s => .next bb pred s
  | .ret r => .ret r
  | .err _ => .panic

def OutM.toOut : OutM → Out MSt RetM
  | .ret r => .ret r
  | .err _ => .panic
  | .more bb pred s => .more bb pred s

/-! ## whole programs -/

structure Machine where
  g : Glob
  st : St
deriving Repr, Inhabited

def findFn (P : Prog) (name : String) : Option Nat := P.fns.findIdx? (fun f => f.label == name)

/-- `Vec::resize(n, 0)` -/
def resizeWords (ws : List UInt64) (n : Nat) : List UInt64 := ws.take n ++ List.replicate (n - ws.length) 0

/-- `execute_main`: function 0 (`_mimium_global`) in a global storage sized from its own layout (it may call stateful
functions); `execute_idx(dsp)` then resizes the same storage to the size of `dsp`'s layout (the leading words survive) -/
def Machine.init (fuel : Nat) (P : Prog) (sr : UInt64) : Except Err Machine := do
  let g0 : Glob := ⟨#[], #[], #[], Array.replicate P.globals 0, 0, sr⟩
  let size0 := match P.fns[0]? with
    | some f => f.sk.size
    | none => 0
  let (_, g1, st1, _) ← runFn P fuel 0 [] none g0 ⟨0, List.replicate size0 0⟩ []
  let size := match (findFn P "dsp").bind (P.fns[·]?) with
    | some f => f.sk.size
    | none => 0
  .ok ⟨g1, ⟨st1.pos, resizeWords st1.data size⟩⟩

/-- one sample: `set_input`, `execute_idx(dsp)`; the value memory of the previous sample is dropped -/
def Machine.step (fuel : Nat) (P : Prog) (m : Machine) (now : UInt64) (inputs : List UInt64) :
    Except Err (List UInt64 × Machine × List Access) :=
  match findFn P "dsp" with
  | none => .error (.stuck "no dsp function")
  | some d => do
    let g := { m.g with mem := #[], now := now }
    let (out, g', st', tr) ← runFn P fuel d inputs none g m.st []
    .ok (out, ⟨g', st'⟩, tr)

end Mimium.Mir
