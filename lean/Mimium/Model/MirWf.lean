import Mimium.Model.Mir
/-!
# M13c — SSA well-formedness of one MIR function, decidable

`wfFn P f cert`: every register is defined before it is used on every path, the operand a `Phi` / `PhiSwitch` takes for the
predecessor it is entered from is defined there, and every branch target (and the merge block a block without terminator
falls through to) is a block of the function.  Like the state check the predicate is LOCAL: `cert` lists, for every entry
`(block, predecessor arm)` the semantics can produce, a set of registers that are certainly defined there; each entry is
checked on its own against the entries of its successors.  `inferWf` computes the certificate (one forward pass,
untrusted).  The upvalue operands of a closure are read when the closure is made: `MakeClosure` is accepted directly
after the `Uinteger` naming the function (what mirgen emits), and that function's `upindexes` must be defined.
Soundness: `Proofs/MirWf*.lean`, `Props/C03.lean: C03_mir_wf_no_stuck`.
-/
namespace Mimium.Mir
open Mimium.RustGen

def opdRegs : Opd → List Nat
  | .reg r => [r]
  | _ => []

/-- the registers an instruction reads (arguments that are skipped at run time are still listed) -/
def Ins.uses : Ins → List Nat
  | .load _ s _ => opdRegs s
  | .store p s _ => opdRegs p ++ opdRegs s
  | .storeFn p _ => opdRegs p
  | .getElem _ s _ _ => opdRegs s
  | .call _ f args _ => opdRegs f ++ args.flatMap (fun a => opdRegs a.1)
  | .callInd _ f args _ => opdRegs f ++ args.flatMap (fun a => opdRegs a.1)
  | .setGlobal _ s _ => opdRegs s
  | .mkClosure _ f => opdRegs f
  | .closeHeap s => opdRegs s
  | .closeUp s _ => opdRegs s
  | .setUp _ s _ => opdRegs s
  | .retFeed s _ => opdRegs s
  | .mem _ s => opdRegs s
  | .delay _ _ s t => opdRegs s ++ opdRegs t
  | .jmpIf c _ _ _ => [c]
  | .switch c _ _ _ => [c]
  | .ret s _ => opdRegs s
  | .un _ _ a => opdRegs a
  | .bin _ _ a b => opdRegs a ++ opdRegs b
  | .unionWrap _ _ s _ _ => opdRegs s
  | .unionTag _ s => opdRegs s
  | .unionVal _ s _ => opdRegs s
  | _ => []

/-- the register an instruction defines (`Phi` / `PhiSwitch` are handled by the block walk) -/
def Ins.dst : Ins → Option Nat
  | .const d _ | .alloc d _ | .load d _ _ | .getElem d _ _ _ | .call d _ _ _ | .callInd d _ _ _ | .getGlobal d _ _
  | .mkClosure d _ | .getUp d _ _ | .getState d _ | .mem d _ | .delay d _ _ _ | .un _ d _ | .bin _ d _ _
  | .unionWrap d _ _ _ _ | .unionTag d _ | .unionVal d _ _ | .uns d _ => some d
  | _ => none

def subsetB (xs ys : List Nat) : Bool := xs.all fun x => ys.contains x

/-- upvalue operands of function `g` (read in the frame that makes the closure) -/
def upsOf (P : Prog) (g : Nat) : List Nat :=
  match P.fns[g]? with
  | some f => f.ups.flatMap opdRegs
  | none => []

/-- certificate: `(block, predecessor arm, registers certainly defined at that entry)` -/
abbrev WCert := List (Nat × Nat × List Nat)

def wfind (c : WCert) (bb pred : Nat) : Option (List Nat) :=
  (c.find? fun e => e.1 == bb && e.2.1 == pred).map (·.2.2)

/-- the successor entry exists, is a block, and claims no more than is defined now -/
def succOk (nblocks : Nat) (c : WCert) (bb pred : Nat) (D : List Nat) : Bool :=
  decide (bb < nblocks) &&
  match wfind c bb pred with
  | some D' => subsetB D' D
  | none => false

def addDst (nregs : Nat) (D : List Nat) : Option Nat → List Nat
  | some d => if d ≤ nregs then d :: D else D
  | none => D

/-- a non-control instruction: operands defined; closures: the function is known and its upvalue operands are defined -/
def wfIns (P : Prog) (lc : Option (Nat × Nat)) (D : List Nat) : Ins → Bool
  | .mkClosure _ (.reg r) =>
    D.contains r &&
    match lc with
    | some (r', g) => r' == r && subsetB (upsOf P g) D
    | none => false
  | .mkClosure _ (.fn g) => subsetB (upsOf P g) D
  | .storeFn p g => subsetB (opdRegs p) D && subsetB (upsOf P g) D
  | .setGlobalFn _ g => subsetB (upsOf P g) D
  | i => subsetB i.uses D

def lcAfter : Ins → Option (Nat × Nat)
  | .const d w => some (d, w.toNat)
  | _ => none

def wfBlock (P : Prog) (nregs nblocks : Nat) (as : List Arm) (c : WCert) (preds : List Nat) (bi : Nat) :
    List Ins → Option (Nat × Nat) → Nat → List Nat → Bool
  | [], _, _, D =>
    match lastContaining as bi with
    | some a => succOk nblocks c a.merge a.start D
    | none => true
  | .phi d l r :: rest, _, pred, D =>
    match preds with
    | p0 :: p1 :: _ =>
      if pred = p0 then D.contains l && wfBlock P nregs nblocks as c preds bi rest none pred (addDst nregs D (some d))
      else if pred = p1 then D.contains r && wfBlock P nregs nblocks as c preds bi rest none pred (addDst nregs D (some d))
      else true
    | _ => true
  | .phiSwitch d ins :: rest, _, pred, D =>
    match (preds.zip ins).find? (fun a => a.1 == pred) with
    | some a => D.contains a.2 && wfBlock P nregs nblocks as c preds bi rest none pred (addDst nregs D (some d))
    | none => true
  | .jmpIf cnd t e _ :: _, _, _, D => D.contains cnd && succOk nblocks c t bi D && succOk nblocks c e bi D
  | .jmp off :: _, _, _, D => succOk nblocks c (wrapUsize (bi + off)) bi D
  | .switch cnd cases d _ :: _, _, _, D =>
    D.contains cnd && cases.all (fun cs => succOk nblocks c cs.2 bi D) && d.all (fun b => succOk nblocks c b bi D)
  | .ret s _ :: _, _, _, D => subsetB (opdRegs s) D
  | .retFeed s _ :: _, _, _, D => subsetB (opdRegs s) D
  | i :: rest, lc, pred, D =>
    wfIns P lc D i && wfBlock P nregs nblocks as c preds bi rest (lcAfter i) pred (addDst nregs D i.dst)

/-- registers defined when a frame is entered: the arguments and the unit register -/
def entryDefs (f : Fn) : List Nat := f.nregs :: List.range f.args.length

def wfFn (P : Prog) (f : Fn) (c : WCert) : Bool :=
  decide (0 < f.blocks.length) && decide (f.args.length ≤ f.nregs) &&
  (match wfind c 0 0 with
   | some D0 => subsetB D0 (entryDefs f)
   | none => false) &&
  c.all fun e =>
    match f.blocks[e.1]? with
    | some blk => wfBlock P f.nregs f.blocks.length f.arms c (f.preds.getD e.1 []) e.1 blk none e.2.1 e.2.2
    | none => false

/-! ## certificate inference (untrusted) -/

def interB (xs ys : List Nat) : List Nat := xs.filter fun x => ys.contains x

def wput (c : WCert) (bb pred : Nat) (D : List Nat) : WCert :=
  match wfind c bb pred with
  | some D' => c.map fun e => if e.1 == bb && e.2.1 == pred then (bb, pred, interB D' D) else e
  | none => c ++ [(bb, pred, D)]

/-- exits of a block entered with `D`: successor entries with the set defined at the terminator -/
def wfExits (nregs : Nat) (as : List Arm) (preds : List Nat) (bi : Nat) : List Ins → Nat → List Nat → List (Nat × Nat × List Nat)
  | [], _, D => (lastContaining as bi).toList.map fun a => (a.merge, a.start, D)
  | .phi d _ _ :: rest, pred, D => wfExits nregs as preds bi rest pred (addDst nregs D (some d))
  | .phiSwitch d _ :: rest, pred, D => wfExits nregs as preds bi rest pred (addDst nregs D (some d))
  | .jmpIf _ t e _ :: _, _, D => [(t, bi, D), (e, bi, D)]
  | .jmp off :: _, _, D => [(wrapUsize (bi + off), bi, D)]
  | .switch _ cases d _ :: _, _, D => (cases.map fun cs => (cs.2, bi, D)) ++ d.toList.map fun b => (b, bi, D)
  | .ret _ _ :: _, _, _ => []
  | .retFeed _ _ :: _, _, _ => []
  | i :: rest, pred, D => wfExits nregs as preds bi rest pred (addDst nregs D i.dst)

def inferWfGo (f : Fn) : Nat → List (List Ins) → WCert → WCert
  | _, [], c => c
  | bi, b :: bs, c =>
    let mine := c.filter fun e => e.1 == bi
    let c' := mine.foldl (fun c e =>
      (wfExits f.nregs f.arms (f.preds.getD bi []) bi b e.2.1 e.2.2).foldl (fun c x => wput c x.1 x.2.1 x.2.2) c) c
    inferWfGo f (bi + 1) bs c'

def inferWf (f : Fn) : WCert := inferWfGo f 0 f.blocks [(0, 0, entryDefs f)]

def wfProg (P : Prog) : Bool := P.fns.all fun f => wfFn P f (inferWf f)

end Mimium.Mir
