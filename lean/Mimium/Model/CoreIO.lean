import Mimium.Model.Core
/-! S-expression reader for core-language programs (protocol with `tools/gen/coregen.py`) and output printing. -/
namespace Mimium.Core

inductive SX | atom (s : String) | list (xs : List SX)
deriving Repr, Inhabited

def tokenize (s : String) : List String :=
  let rec go (cs : List Char) (cur : List Char) (acc : List String) : List String :=
    let flush := if cur.isEmpty then acc else String.ofList cur.reverse :: acc
    match cs with
    | [] => flush.reverse
    | '(' :: r => go r [] ("(" :: flush)
    | ')' :: r => go r [] (")" :: flush)
    | ' ' :: r => go r [] flush
    | c :: r => go r (c :: cur) acc
  go s.toList [] []

partial def parseSX : List String → Option (SX × List String)
  | "(" :: r =>
    let rec items (r : List String) (acc : List SX) : Option (SX × List String) :=
      match r with
      | ")" :: r' => some (.list acc.reverse, r')
      | [] => none
      | _ => match parseSX r with
        | some (x, r') => items r' (x :: acc)
        | none => none
    items r []
  | ")" :: _ => none
  | a :: r => some (.atom a, r)
  | [] => none

def hexVal (c : Char) : Nat :=
  if c.isDigit then c.toNat - 48 else if 'a' ≤ c ∧ c ≤ 'f' then c.toNat - 87 else 0

def parseHex (s : String) : UInt64 := (s.toList.foldl (fun a c => a * 16 + hexVal c) 0).toUInt64

def binOpOf : String → Option BinOp
  | "add" => some .add | "sub" => some .sub | "mul" => some .mul | "div" => some .div
  | "lt" => some .lt | "le" => some .le | "gt" => some .gt | "ge" => some .ge
  | "eq" => some .eq | "ne" => some .ne | "and" => some .and | "or" => some .or
  | _ => none

def unOpOf : String → Option UnOp
  | "neg" => some .neg | "sqrt" => some .sqrt | "abs" => some .abs | "not" => some .not
  | "floor" => some .floor | "ceil" => some .ceil | "round" => some .round
  | _ => none

def atoms (xs : List SX) : Option (List String) :=
  xs.mapM fun | .atom a => some a | _ => none

partial def toShape : SX → Option Shape
  | .atom "n" => some .num
  | .list (.atom "t" :: ss) => (ss.mapM toShape).map Shape.tup
  | _ => none

partial def toExpr : SX → Option Expr
  | .atom "self" => some .self
  | .atom "now" => some .now
  | .atom "sr" => some .samplerate
  | .list [.atom "lit", .atom h] => some (.lit (parseHex h))
  | .list [.atom "var", .atom x] => some (.var x)
  | .list [.atom "un", .atom op, a] => do some (.un (← unOpOf op) (← toExpr a))
  | .list [.atom "bin", .atom op, a, b] => do some (.bin (← binOpOf op) (← toExpr a) (← toExpr b))
  | .list [.atom "if", c, a, b] => do some (.ite (← toExpr c) (← toExpr a) (← toExpr b))
  | .list [.atom "let", .atom x, e, b] => do some (.letE x (← toExpr e) (← toExpr b))
  | .list [.atom "lett", .list xs, e, b] => do some (.letTup (← atoms xs) (← toExpr e) (← toExpr b))
  | .list (.atom "tup" :: es) => do some (.tup (← es.mapM toExpr))
  | .list [.atom "proj", e, .atom i] => do some (.proj (← toExpr e) (← i.toNat?))
  | .list (.atom "call" :: .atom f :: .atom site :: es) => do some (.call f (← es.mapM toExpr) (← site.toNat?))
  | .list (.atom "app" :: f :: es) => do some (.app (← toExpr f) (← es.mapM toExpr))
  | .list [.atom "lam", .list xs, b] => do some (.lam (← atoms xs) (← toExpr b))
  | .list [.atom "mem", .atom site, e] => do some (.mem (← toExpr e) (← site.toNat?))
  | .list [.atom "delay", .atom site, .atom n, e, t] => do
      some (.delay (← n.toNat?) (← toExpr e) (← toExpr t) (← site.toNat?))
  | .list [.atom "set", .atom x, e, r] => do some (.assign x (← toExpr e) (← toExpr r))
  | _ => none

def toSelfShape : SX → Option (Option Shape)
  | .atom "-" => some none
  | s => (toShape s).map some

def toFn : SX → Option FnDecl
  | .list [.atom "fn", .atom name, .list ps, sh, body] => do
      some ⟨name, ← atoms ps, ← toExpr body, ← toSelfShape sh⟩
  | _ => none

def toProg : SX → Option Prog
  | .list [.atom "prog", .list (.atom "globals" :: gs), .list (.atom "fns" :: fs), d] => do
      let gs ← gs.mapM fun
        | .list [.atom "g", .atom x, e] => do some (x, ← toExpr e)
        | _ => none
      let fs ← fs.mapM toFn
      let d ← toFn d
      some ⟨gs, fs, d⟩
  | _ => none

def parseProg (s : String) : Option Prog :=
  match parseSX (tokenize s) with
  | some (sx, []) => toProg sx
  | _ => none

def hexDigit (n : Nat) : Char := if n < 10 then Char.ofNat (48 + n) else Char.ofNat (87 + n)

def toHex16 (w : UInt64) : String :=
  String.ofList ((List.range 16).reverse.map fun i => hexDigit ((w.toNat >>> (4 * i)) % 16))

/-- canonical word text: every NaN prints as `nan` (the property says NaN matches NaN) -/
def showWord (w : UInt64) : String :=
  let f := Float.ofBits w
  if f.isNaN then "nan" else toHex16 w

def showErr : Err → String
  | .fuel => "fuel"
  | .unbound x => s!"unbound:{x}"
  | .type w => s!"type:{w}"
  | .nofn f => s!"nofn:{f}"

/-- run a program for `times` samples; `inputs` per sample. Result: `ok <nout> w,w,...` or `error <what>` -/
def runProg (P : Prog) (times : Nat) (inputs : List (List UInt64)) (fuel : Nat := 200000) : String :=
  let sr := (48000.0 : Float).toBits
  match Machine.init fuel P sr with
  | .error e => s!"error init:{showErr e}"
  | .ok m0 =>
    let rec go (k : Nat) (t : Nat) (m : Machine) (acc : List String) (nout : Nat) : String :=
      match k with
      | 0 => s!"ok {nout} " ++ ",".intercalate acc.reverse
      | k + 1 =>
        match Machine.step fuel P sr m (inputs.getD t []) with
        | .error e => s!"error t={t}:{showErr e}"
        | .ok (ws, m') => go k (t + 1) m' ((ws.map showWord).reverse ++ acc) ws.length
    go times 0 m0 [] 0

end Mimium.Core
