import Mimium.Model.StageCore
import Mimium.Model.CoreIO
/-!
Reader of staged programs (protocol with `tools/gen/stagegen.py`), canonical printer of trees (same text as
`harness/src/bin/c09.rs::canon`), and `toCore`: reading an expanded tree back into the core language of
`Model/Core.lean` so that the reference evaluator gives it a meaning.

The reader *is* the model of what the parser and `convert_operators` produce for the concrete syntax the generator
renders (operators as applications of `add`/`sub`/…, unary minus as `0.0 - e`, `{}` of `if` arms / lambda bodies /
quotes as `block`, function bodies without `block`); it is validated against the real front end by the check
(`front` comparison).
-/
namespace Mimium.Stage
open Mimium.Core (SX parseSX tokenize parseHex toHex16 atoms toShape Shape)

def binName : String → Option String
  | "add" => some "add" | "sub" => some "sub" | "mul" => some "mult" | "div" => some "div"
  | "lt" => some "lt" | "le" => some "le" | "gt" => some "gt" | "ge" => some "ge"
  | "eq" => some "eq" | "ne" => some "ne" | "and" => some "and" | "or" => some "or"
  | _ => none

mutual
/-- expression position -/
partial def toEx : SX → Option Ex
  | .atom "self" => some .selfL
  | .atom "now" => some .now
  | .atom "sr" => some .sr
  | .list [.atom "lit", .atom h] => some (.flt (parseHex h))
  | .list [.atom "var", .atom x] => some (.var x)
  | .list [.atom "un", .atom "neg", a] => do some (.app (.var "sub") [.flt (0.0 : Float).toBits, ← toEx a])
  | .list [.atom "un", .atom op, a] => do some (.app (.var op) [← toEx a])
  | .list [.atom "bin", .atom op, a, b] => do some (.app (.var (← binName op)) [← toEx a, ← toEx b])
  | .list [.atom "if", c, a, b] => do some (.ite (← toEx c) (.block (← toStmts a)) (.block (← toStmts b)))
  | .list (.atom "tup" :: es) => do some (.tup (← es.mapM toEx))
  | .list [.atom "proj", e, .atom i] => do some (.proj (← toEx e) (← i.toNat?))
  | .list (.atom "call" :: .atom f :: .atom _site :: es) => do some (.app (.var f) (← es.mapM toEx))
  | .list (.atom "app" :: f :: es) => do some (.app (← toEx f) (← es.mapM toEx))
  | .list [.atom "lam", .list xs, b] => do some (.lam (← atoms xs) (.block (← toStmts b)))
  | .list [.atom "mem", .atom _site, e] => do some (.app (.var "mem") [← toEx e])
  | .list [.atom "delay", .atom _site, .atom n, e, t] => do
      some (.app (.var "delay") [.flt (Float.ofNat (← n.toNat?)).toBits, ← toEx e, ← toEx t])
  -- staging
  | .list [.atom "quote", e] => do some (.bracket (.block (← toStmts e)))
  | .list [.atom "splice", m] => do some (.escape (← toEx m))
  | .list (.atom "mcall" :: f :: ms) => do some (.macroExpand (← toEx f) (← ms.mapM toEx))
  | .list [.atom "lift", m] => do some (.app (.var "lift_f") [← toEx m])
  -- macro pipe: `(pipem arg fn)`, macro lambda `(mlam (a) (quote body))` = `|a| `{ body }`, placeholder `(ph)`
  | .list [.atom "pipem", a, f] => do some (.pipeM (← toEx a) (← toEx f))
  | .list [.atom "mlam", .list xs, q] => do some (.lam (← atoms xs) (← toEx q))
  | .list [.atom "ph"] => some .placeholder
  -- a statement chain in expression position is rendered `({ … })`
  | s@(.list (.atom "let" :: _)) => do some (.block (← toStmts s))
  | s@(.list (.atom "lett" :: _)) => do some (.block (← toStmts s))
  | s@(.list (.atom "set" :: _)) => do some (.block (← toStmts s))
  | _ => none
/-- statement position (function body, `{}` of an `if` arm / lambda / quote) -/
partial def toStmts : SX → Option Ex
  | .list [.atom "let", .atom x, e, b] => do some (.letE x (← toEx e) (← toStmts b))
  | .list [.atom "lett", .list xs, e, b] => do some (.letT (← atoms xs) (← toEx e) (← toStmts b))
  | .list [.atom "set", .atom x, e, r] => do some (.thenE (.assign (.var x) (← toEx e)) (← toStmts r))
  | s => toEx s
end

/-- does `x` occur as a variable in `e` (the recursion check that turns `fn` into `letrec`) -/
partial def mentions (x : String) : Ex → Bool
  | .var y => x == y
  | .app f args => mentions x f || args.any (mentions x)
  | .lam _ b => mentions x b
  | .letE _ v b => mentions x v || mentions x b
  | .letT _ v b => mentions x v || mentions x b
  | .letrec _ v b => mentions x v || mentions x b
  | .ite c t e => mentions x c || mentions x t || mentions x e
  | .thenE a b => mentions x a || mentions x b
  | .assign l r => mentions x l || mentions x r
  | .tup es => es.any (mentions x)
  | .proj e _ => mentions x e
  | .arr es => es.any (mentions x)
  | .block e => mentions x e
  | .feed _ e => mentions x e
  | .bracket e => mentions x e
  | .escape e => mentions x e
  | .macroExpand f args => mentions x f || args.any (mentions x)
  | .pipeM a f => mentions x a || mentions x f
  | _ => false

/-- one top-level item: `(fn name (params) shape body)`, `(g x e)`, or a macro-stage function `(m (fn …))` -/
inductive Item where
  | fn (isMac : Bool) (name : String) (ps : List String) (shape : Option Shape) (body : Ex)
  | glob (x : String) (e : Ex)

def toItem : SX → Option Item
  | .list [.atom "m", .list [.atom "fn", .atom name, .list ps, _, body]] => do
      some (.fn true name (← atoms ps) none (← toStmts body))
  | .list [.atom "fn", .atom name, .list ps, sh, body] => do
      some (.fn false name (← atoms ps) (← Core.toSelfShape sh) (← toStmts body))
  | .list [.atom "g", .atom x, e] => do some (.glob x (← toEx e))
  | _ => none

def Item.isMacro : Item → Bool
  | .fn m .. => m
  | .glob .. => false

/-- `statement.rs::into_then_expr`: the statements become one nested `let` chain; a change of stage wraps the rest of
the chain (`#stage(macro)` after main code: `Escape`, `#stage(main)` after macro code: `Bracket`). `fn` is `letrec`
when the body mentions the function (`recursecheck`). `cur` = stage of the previous statement. -/
def toChain (cur : Bool) : List Item → Ex
  | [] => Ex.unit
  | it :: rest =>
    let tail := toChain it.isMacro rest
    let here := match it with
      | .fn _ name ps _ body =>
        let lam := Ex.lam ps body
        if mentions name body then Ex.letrec name lam tail else Ex.letE name lam tail
      | .glob x e => Ex.letE x e tail
    if it.isMacro == cur then here else if it.isMacro then .escape here else .bracket here

/-- a staged program: the tree the parser hands to the compiler (before `convert_pronoun`), and the self shapes of
its functions (type information the core evaluator needs and this model does not infer) -/
structure SProg where
  src : Ex
  shapes : List (String × Option Shape)
  staged : Bool
deriving Inhabited

def toSProg : SX → Option SProg
  | .list (.atom "sprog" :: items) => do
      let items ← items.mapM toItem
      let shapes := items.filterMap fun
        | .fn false name _ sh _ => some (name, sh)
        | _ => none
      let src := toChain false items
      some ⟨src, shapes, hasStaging src⟩
  | _ => none

def parseSProg (s : String) : Option SProg :=
  match parseSX (tokenize s) with
  | some (sx, []) => toSProg sx
  | _ => none

/-! ## canonical text of a tree (identical to the harness' `canon`) -/

def sp (xs : List String) : String := " ".intercalate xs

partial def canon : Ex → String
  | .flt b => s!"(flt {toHex16 b})"
  | .int i => s!"(int {i})"
  | .str s => s!"(str \"{s}\")"
  | .selfL => "self"
  | .now => "now"
  | .sr => "sr"
  | .var x => s!"(var {x})"
  | .app f args => "(" ++ sp ("app" :: canon f :: args.map canon) ++ ")"
  | .lam ps b => s!"(lam ({sp ps}) {canon b})"
  | .letE x v b => s!"(let {x} {canon v} {canon b})"
  | .letT xs v b => s!"(letp ({sp xs}) {canon v} {canon b})"
  | .letrec x v b => s!"(letrec {x} {canon v} {canon b})"
  | .ite c t e => s!"(if {canon c} {canon t} {canon e})"
  | .thenE a b => s!"(then {canon a} {canon b})"
  | .assign l r => s!"(assign {canon l} {canon r})"
  | .tup es => "(" ++ sp ("tup" :: es.map canon) ++ ")"
  | .proj e i => s!"(proj {canon e} {i})"
  | .arr es => "(" ++ sp ("arr" :: es.map canon) ++ ")"
  | .block e => s!"(block {canon e})"
  | .feed x e => s!"(feed {x} {canon e})"
  | .bracket e => s!"(bracket {canon e})"
  | .escape e => s!"(escape {canon e})"
  | .macroExpand f args => "(" ++ sp ("macro" :: canon f :: args.map canon) ++ ")"
  | .pipeM a f => s!"(pipem {canon a} {canon f})"
  | .placeholder => "placeholder"

/-- the whole model pipeline on one program: expanded tree (canonical text) and the outputs of its evaluation -/
def runStaged (p : SProg) (times : Nat) (inputs : List (List UInt64)) : String × String × String :=
  let front := match frontEnd p.src with
    | some e => e
    | none => .str "front-end-error"
  let expanded : R0 Ex := if p.staged then expand p.src else
    match frontEnd p.src with
    | some e => .ok e
    | none => .error "front end: self in global context"
  match expanded with
  | .error m => (canon front, s!"error {m}", "error expand")
  | .ok e =>
    match toCoreProg p.shapes e with
    | .error m => (canon front, canon e, s!"error tocore:{m}")
    | .ok P => (canon front, canon e, Core.runProg P times inputs)

end Mimium.Stage
