/-!
# Module flattening and name resolution — executable model (C17)

Hand port of
* `crates/lib/mimium-lang/src/ast/program.rs` — `stmts_from_program_with_prefix` (module flattening by
  `$`-mangling, `ModuleInfo` construction), `process_use_statement`, `resolve_qualified_path`;
* `crates/lib/mimium-lang/src/compiler/mirgen/convert_qualified_names.rs` — pass 1 `collect_defined_names`,
  pass 2 `convert_expr` / `convert_var` / `convert_qualified_var` / `resolve_alias_chain` /
  `resolve_through_wildcards` / `is_within_module_hierarchy`.

Representation choices (the tie to the code is the correspondence run of `./check C17`):
* identifiers are `Nat`s (`Name`);
* a `Symbol` that holds a `$`-mangled path is modelled as the **list of its segments** (`Sym`).  `a$b$f` is
  `[a,b,f]`, a plain identifier `x` is `[x]`, the empty string is `[]`.  `join("$")`/`split('$')` are then
  `List.append`/identity; this is faithful because identifier tokens never contain `$`.
* hash maps are association lists, `insert` = cons, `get` = first match (`get?`); the resolution code never
  iterates over a map, so no iteration order is involved.  `wildcard_imports` is a `Vec` and stays a list in
  push order.
* only the statement forms that matter for module resolution are modelled: `fn`, inline `mod`, `use`
  (single / multiple / wildcard, with or without `pub`) and `let` declarations with a single-name pattern, at top
  level and inside modules (`GlobalStatement(Statement::Let)`; the grammar accepts `pub let`, `lower_let_decl`
  drops the flag).  A module-level `let` is **not** mangled by the flattening: it binds its plain name and only
  leaves `module_context_map[name] = prefix` behind (ported literally; findings F12-letglobal / F12-letctx).
  Type declarations, external files, stage declarations, tuple / record patterns are not modelled.
* expressions: the constructors that bind names or refer to names (`Let`, `LetRec`, `Lambda`, `Var`,
  `QualifiedVar`) plus nullary `Apply`; every other constructor of `convert_expr` is a plain homomorphic
  traversal.  `LetRec`/`Let` with `then = None` is written with `then := .unit`.
-/
namespace Mimium.ModRes

abbrev Name := Nat
/-- a (possibly mangled) symbol as its list of `$`-separated segments -/
abbrev Sym := List Name

inductive Expr where
  | unit
  | lit (k : Nat)
  | var (s : Sym)
  | qvar (segs : List Name)
  | call (f : Expr)
  | letE (x : Name) (e : Expr) (body : Expr)
  | lam (ps : List Name) (body : Expr)
  | letrec (f : Sym) (e : Expr) (body : Expr)
deriving DecidableEq, Repr, Inhabited

inductive UseTarget where
  | single
  | multiple (names : List Name)
  | wildcard
deriving DecidableEq, Repr, Inhabited

/-- the module tree as written in the source (`ProgramStatement`) -/
inductive Item where
  | fn (pub : Bool) (name : Name) (params : List Name) (body : Expr)
  | mod (pub : Bool) (name : Name) (items : List Item)
  | use (pub : Bool) (path : List Name) (target : UseTarget)
  | letD (pub : Bool) (name : Name) (rhs : Expr)
deriving Repr, Inhabited

/-- one step of the depth-first walk of `stmts_from_program_with_prefix`, with the module prefix in force -/
inductive Ev where
  | fn (pre : List Name) (pub : Bool) (name : Name) (params : List Name) (body : Expr)
  | modOpen (pre : List Name) (name : Name)
  | use (pre : List Name) (pub : Bool) (path : List Name) (target : UseTarget)
  | letS (pre : List Name) (pub : Bool) (name : Name) (rhs : Expr)
deriving DecidableEq, Repr, Inhabited

mutual
/-- the walk order of `stmts_from_program_with_prefix`: statements in source order, module bodies inline -/
def Item.events (pre : List Name) : Item → List Ev
  | .fn p x ps b => [.fn pre p x ps b]
  | .mod _ x sub => .modOpen pre x :: eventsL (pre ++ [x]) sub
  | .use p path t => [.use pre p path t]
  | .letD p x e => [.letS pre p x e]
def eventsL (pre : List Name) : List Item → List Ev
  | [] => []
  | i :: is => i.events pre ++ eventsL pre is
end

/-- events of a whole program (empty prefix) -/
def events (p : List Item) : List Ev := eventsL [] p

/-! ### association lists -/

def get? {α : Type} : List (Sym × α) → Sym → Option α
  | [], _ => none
  | (k, v) :: rest, s => if k = s then some v else get? rest s

/-- `ModuleInfo` (fields used by name resolution) -/
structure Info where
  vis : List (Sym × Bool) := []
  alias : List (Sym × Sym) := []
  ctxMap : List (Sym × List Name) := []
  wild : List Sym := []
  loaded : List Sym := []
  /-- number of `use` statements whose base module was not loaded: the compiler then looks for `<base>.mmm` -/
  fileErrs : Nat := 0
deriving Repr, Inhabited

/-- `resolve_qualified_path`: absolute first, then relative to the *whole* current module context -/
def resolveQualifiedPath (segs : List Name) (abs : Sym) (cur : List Name) (ex : Sym → Bool) : Sym × List Name :=
  if ex abs then (abs, segs)
  else if !cur.isEmpty && ex (cur ++ segs) then (cur ++ segs, cur ++ segs)
  else (abs, segs)

/-- the `exists` closure of `process_use_statement` (type aliases / declarations are not modelled) -/
def Info.has (i : Info) (n : Sym) : Bool :=
  (get? i.vis n).isSome || (get? i.alias n).isSome || (get? i.ctxMap n).isSome

def resolveUseMangled (segs : List Name) (pre : List Name) (i : Info) : Sym :=
  (resolveQualifiedPath segs segs pre i.has).1

/-- `register_alias`.  Since /repo c6822e4 the exported name of a re-export is as visible as its target *at the
moment the `use` is processed* (a target without an entry counts as public); before, it was always public.
Since the repair of F12-cycle (`visibility_map.entry(exported).or_insert(..)`) a re-export never replaces an entry the
visibility map already has (a declared member or an earlier re-export); the alias map is written as before. -/
def registerAlias (i : Info) (pub : Bool) (pre : List Name) (a : Name) (m : Sym) : Info :=
  let i := { i with alias := ([a], m) :: i.alias }
  if pub then
    { i with vis := if (get? i.vis (pre ++ [a])).isSome then i.vis
                    else (pre ++ [a], (get? i.vis m).getD true) :: i.vis,
             alias := (pre ++ [a], m) :: i.alias }
  else i

/-- `process_use_statement` -/
def processUse (pub : Bool) (path : List Name) (t : UseTarget) (pre : List Name) (i : Info) : Info :=
  match t with
  | .single =>
    match path.getLast? with
    | some a => registerAlias i pub pre a (resolveUseMangled path pre i)
    | none => i
  | .multiple names =>
    names.foldl (fun i n => registerAlias i pub pre n (resolveUseMangled (path ++ [n]) pre i)) i
  | .wildcard => { i with wild := i.wild ++ [if path.isEmpty then pre else path] }

/-- the effect of one statement on `ModuleInfo` -/
def step (i : Info) : Ev → Info
  | .fn pre pub x _ _ =>
    { i with vis := (pre ++ [x], pub) :: i.vis,
             ctxMap := if pre.isEmpty then i.ctxMap else (pre ++ [x], pre) :: i.ctxMap }
  | .modOpen pre x => { i with loaded := (pre ++ [x]) :: i.loaded }
  | .use pre pub path t =>
    let i := match path.head? with
      | some base =>
        if i.loaded.contains (pre ++ [base]) || i.loaded.contains [base] then i
        else { i with loaded := [base] :: i.loaded, fileErrs := i.fileErrs + 1 }
      | none => i
    processUse pub path t pre i
  | .letS pre _ x _ =>
    -- `collect_statement_bindings`: the *plain* name gets the module prefix as its context; no visibility entry
    { i with ctxMap := if pre.isEmpty then i.ctxMap else ([x], pre) :: i.ctxMap }

def lowerInfo (evs : List Ev) : Info := evs.foldl step {}

/-- the flattened statement list: `LetRec(mangled, Lambda(params, body))` per function and `Let(name, rhs)` per
`let` declaration (name **not** mangled), in walk order, folded into one expression by `into_then_expr`; `tail`
stands for what follows the last statement -/
def chain (tail : Expr) : List Ev → Expr
  | [] => tail
  | .fn pre _ x ps b :: rest => .letrec (pre ++ [x]) (.lam ps b) (chain tail rest)
  | .letS _ _ x e :: rest => .letE x e (chain tail rest)
  | _ :: rest => chain tail rest

/-! ### pass 1: `collect_defined_names` (no scoping at all) -/

def collectDefined : Expr → List Sym
  | .unit | .lit _ | .var _ | .qvar _ => []
  | .call f => collectDefined f
  | .letE x e t => [x] :: (collectDefined e ++ collectDefined t)
  | .lam ps b => ps.map (fun p => [p]) ++ collectDefined b
  | .letrec f b t => f :: (collectDefined b ++ collectDefined t)

/-! ### pass 2 -/

/-- `Error::PrivateMemberAccess` -/
structure Err where
  modPath : List Name
  member : Option Name
deriving DecidableEq, Repr, Inhabited

/-- `ResolveContext` -/
structure RCtx where
  info : Info
  known : Sym → Bool
  cur : List Name
  locals : List (List Sym)

def RCtx.isLocallyBound (c : RCtx) (n : Sym) : Bool := c.locals.any (fun sc => sc.contains n)

/-- `is_within_module_hierarchy` -/
def isWithinHierarchy (cur : List Name) (p : List Name) : Bool :=
  if cur.isEmpty || p.length < 2 then false else p.dropLast.isPrefixOf cur

/-- `resolve_alias_chain`; `visited` is the hash set, `fuel` bounds the `while` loop -/
def aliasChainGo (alias : List (Sym × Sym)) : Nat → List Sym → Sym → Sym
  | 0, _, cur => cur
  | fuel + 1, visited, cur =>
    if visited.contains cur then cur
    else match get? alias cur with
      | some next => if next ≠ cur then aliasChainGo alias fuel (cur :: visited) next else cur
      | none => cur

def aliasChain (alias : List (Sym × Sym)) (s : Sym) : Sym := aliasChainGo alias (alias.length + 2) [] s

/-- `resolve_through_wildcards` -/
def resolveThroughWildcards (c : RCtx) (name : Sym) : Option Sym :=
  c.info.wild.findSome? (fun base =>
    let m := base ++ name
    if c.known m then
      match get? c.info.vis m with
      | some true => some m
      | some false => none
      | none => some m
    else none)

/-- the candidates of the relative lookup of `convert_var`, innermost module first -/
def relativeCandidates (cur : List Name) (name : Sym) : List Sym :=
  (List.range cur.length).reverse.map (fun k => cur.take (k + 1) ++ name)

def privErr (cur : List Name) (vis : List (Sym × Bool)) (key : Sym) (path : List Name) : List Err :=
  match get? vis key with
  | some false => if !isWithinHierarchy cur path then [⟨path.dropLast, path.getLast?⟩] else []
  | _ => []

/-- `convert_var` -/
def convertVar (c : RCtx) (name : Sym) : Sym × List Err :=
  if c.isLocallyBound name then (name, [])
  else
    match (if c.cur.isEmpty then none else (relativeCandidates c.cur name).find? c.known) with
    | some r => (r, [])
    | none =>
      if (get? c.info.alias name).isSome then
        let m := aliasChain c.info.alias name
        (m, privErr c.cur c.info.vis m m)
      else
        match resolveThroughWildcards c name with
        | some m => (m, [])
        | none => (name, [])

/-- `convert_qualified_var` (the operator-intrinsic marker namespace is not modelled).  The whole check sits inside
`if resolved_path.len() > 1 && let Some(is_public) = visibility_map.get(&resolved_name)`; `extract_path_from_mangled` is the
identity on segment lists. -/
def convertQVar (c : RCtx) (segs : List Name) : Sym × List Err :=
  let r := resolveQualifiedPath segs segs c.cur c.known
  let lookup := aliasChain c.info.alias r.1
  (lookup,
    if r.2.length > 1 then
      match get? c.info.vis r.1 with
      | none => []
      | some pub =>
        if !pub && !isWithinHierarchy c.cur r.2 then [⟨r.2.dropLast, r.2.getLast?⟩]
        else if lookup ≠ r.1 ∧ lookup.length > 1 then
          -- the path names a re-export: the member it leads to is checked as well (since /repo 3b64798)
          privErr c.cur c.info.vis lookup lookup
        else []
    else [])

/-- `convert_expr`: module context and scope stack are threaded as arguments -/
def convertExpr (info : Info) (known : Sym → Bool) : List Name → List (List Sym) → Expr → Expr × List Err
  | _, _, .unit => (.unit, [])
  | _, _, .lit k => (.lit k, [])
  | cur, ls, .var s => let r := convertVar ⟨info, known, cur, ls⟩ s; (.var r.1, r.2)
  | cur, ls, .qvar segs => let r := convertQVar ⟨info, known, cur, ls⟩ segs; (.var r.1, r.2)
  | cur, ls, .call f => let r := convertExpr info known cur ls f; (.call r.1, r.2)
  | cur, ls, .letE x e t =>
    -- `find_pattern_module_context`: the context of the pattern's name covers the right-hand side only
    -- (since /repo 8a25d9f; before, `then` was converted under `cur'` too)
    let cur' := match get? info.ctxMap [x] with | some c => c | none => cur
    let r1 := convertExpr info known cur' ls e
    let r2 := convertExpr info known cur ([[x]] :: ls) t
    (.letE x r1.1 r2.1, r1.2 ++ r2.2)
  | cur, ls, .lam ps b =>
    let r := convertExpr info known cur (ps.map (fun p => [p]) :: ls) b
    (.lam ps r.1, r.2)
  | cur, ls, .letrec f e t =>
    -- `mem::take` empties the context; it is only set again if `f` has a module context
    let cur' := match get? info.ctxMap f with | some c => c | none => []
    let r1 := convertExpr info known cur' ([f] :: ls) e
    let r2 := convertExpr info known cur ([f] :: ls) t
    (.letrec f r1.1 r2.1, r1.2 ++ r2.2)

/-- the whole pre-pass on a flattened program -/
def convertProgram (evs : List Ev) (tail : Expr) : Expr × List Err :=
  let e := chain tail evs
  let known := collectDefined e
  convertExpr (lowerInfo evs) (fun s => known.contains s) [] [] e

/-! ### what the tree *declares* (independent of `ModuleInfo`) -/

/-- mangled name and declared visibility of every function, in walk order -/
def fnDecls : List Ev → List (Sym × Bool)
  | [] => []
  | .fn pre pub x _ _ :: rest => (pre ++ [x], pub) :: fnDecls rest
  | _ :: rest => fnDecls rest

/-- no re-export anywhere (`pub use`) -/
def noPubUse : List Ev → Bool
  | [] => true
  | .use _ pub _ _ :: rest => !pub && noPubUse rest
  | _ :: rest => noPubUse rest

end Mimium.ModRes
