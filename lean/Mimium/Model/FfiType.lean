import Mimium.Model.Ffi
/-!
# Model of the hand-written `Serialize`/`Deserialize for Type` (`types/serde_impl.rs`) under bincode

`Type` is shallow: its children are `TypeNodeId` keys, symbols are raw interner ids (`usize`, written as `u64`).
Variant indices, and which variants are refused, come from the generated tables `TyCtor.serTag` / `TyCtor.ofTag`.
-/
namespace Mimium.Ffi
open Mimium.Gen.Ffi

/-! ## generic sequence codec: `u64` length, then the elements -/

def encSeqBody {α} (enc : α → Bytes) : List α → Bytes
  | [] => []
  | x :: xs => enc x ++ encSeqBody enc xs

def encSeq {α} (enc : α → Bytes) (xs : List α) : Bytes := encLen xs.length ++ encSeqBody enc xs

def readSeqBody {α} (rd : Bytes → Option (α × Bytes)) : Nat → Bytes → Option (List α × Bytes)
  | 0, bs => some ([], bs)
  | n+1, bs =>
    match rd bs with
    | none => none
    | some (x, bs) =>
      match readSeqBody rd n bs with
      | none => none
      | some (xs, bs) => some (x :: xs, bs)

def readSeq {α} (rd : Bytes → Option (α × Bytes)) (bs : Bytes) : Option (List α × Bytes) :=
  match readLen bs with
  | none => none
  | some (n, bs) => readSeqBody rd n bs

/-! ## scalars -/

def encBool (b : Bool) : Bytes := [if b then 1 else 0]

/-- bincode `deserialize_bool`: only 0 and 1 are accepted -/
def readBool : Bytes → Option (Bool × Bytes)
  | [] => none
  | b :: bs => if b = 0 then some (false, bs) else if b = 1 then some (true, bs) else none

def encOptKey : Option Key → Bytes
  | none => [0]
  | some k => 1 :: encKey k

/-- bincode `deserialize_option`: tag byte 0 / 1 -/
def readOptKey : Bytes → Option (Option Key × Bytes)
  | [] => none
  | b :: bs =>
    if b = 0 then some (none, bs)
    else if b = 1 then
      match readKey bs with
      | none => none
      | some (k, bs) => some (some k, bs)
    else none

/-- `struct RecordTypeField { key: Symbol, ty: TypeNodeId, has_default: bool }` (serde derive: fields in order) -/
structure RecordTypeField where
  key : UInt64
  ty : Key
  hasDefault : Bool
deriving DecidableEq, Repr, Inhabited

def encField (f : RecordTypeField) : Bytes := encU64 f.key ++ (encKey f.ty ++ encBool f.hasDefault)

def readField (bs : Bytes) : Option (RecordTypeField × Bytes) :=
  match readU64 bs with
  | none => none
  | some (k, bs) =>
    match readKey bs with
    | none => none
    | some (t, bs) =>
      match readBool bs with
      | none => none
      | some (d, bs) => some (⟨k, t, d⟩, bs)

def encVariant (v : UInt64 × Option Key) : Bytes := encU64 v.1 ++ encOptKey v.2

def readVariant (bs : Bytes) : Option ((UInt64 × Option Key) × Bytes) :=
  match readU64 bs with
  | none => none
  | some (s, bs) =>
    match readOptKey bs with
    | none => none
    | some (k, bs) => some ((s, k), bs)

/-! ## `Type` -/

/-- `enum Type` of `types.rs`, variants in the source's order (`Intermediate`'s `Arc<RwLock<TypeVar>>` is opaque) -/
inductive Ty where
  | primitive (p : PTypeCtor)
  | array (t : Key)
  | tuple (ts : List Key)
  | record (fs : List RecordTypeField)
  | function (arg ret : Key)
  | ref (t : Key)
  | code (t : Key)
  | union (ts : List Key)
  | userSum (name : UInt64) (variants : List (UInt64 × Option Key))
  | boxed (t : Key)
  | intermediate
  | typeScheme (id : UInt64)
  | typeAlias (s : UInt64)
  | any
  | failure
  | unknown
deriving DecidableEq, Repr, Inhabited

def Ty.ctor : Ty → TyCtor
  | .primitive _ => .Primitive
  | .array _ => .Array
  | .tuple _ => .Tuple
  | .record _ => .Record
  | .function _ _ => .Function
  | .ref _ => .Ref
  | .code _ => .Code
  | .union _ => .Union
  | .userSum _ _ => .UserSum
  | .boxed _ => .Boxed
  | .intermediate => .Intermediate
  | .typeScheme _ => .TypeScheme
  | .typeAlias _ => .TypeAlias
  | .any => .Any
  | .failure => .Failure
  | .unknown => .Unknown

/-- what follows the variant index -/
def Ty.payload : Ty → Bytes
  | .primitive p => encU32 p.tag
  | .array t => encKey t
  | .tuple ts => encSeq encKey ts
  | .record fs => encSeq encField fs
  | .function a r => encKey a ++ encKey r
  | .ref t => encKey t
  | .code t => encKey t
  | .union ts => encSeq encKey ts
  | .userSum n vs => encU64 n ++ encSeq encVariant vs
  | .boxed t => encKey t
  | .intermediate => []
  | .typeScheme _ => []
  | .typeAlias s => encU64 s
  | .any => []
  | .failure => []
  | .unknown => []

/-- `bincode::serialize(&Type)`; `none` = the hand-written serializer returned `Err` -/
def encodeTy (t : Ty) : Option Bytes :=
  match t.ctor.serTag with
  | none => none
  | some tag => some (encU32 tag ++ t.payload)

def readPType (bs : Bytes) : Option (PTypeCtor × Bytes) :=
  match readU32 bs with
  | none => none
  | some (t, bs) =>
    match PTypeCtor.ofTag t with
    | none => none
    | some p => some (p, bs)

/-- `bincode::deserialize::<Type>` front part: value and unread rest -/
def decodeTy (bs : Bytes) : Option (Ty × Bytes) :=
  match readU32 bs with
  | none => none
  | some (t, bs) =>
    match TyCtor.ofTag t with
    | none => none
    | some .Primitive => (readPType bs).map (fun (p, bs) => (.primitive p, bs))
    | some .Array => (readKey bs).map (fun (k, bs) => (.array k, bs))
    | some .Tuple => (readSeq readKey bs).map (fun (ks, bs) => (.tuple ks, bs))
    | some .Record => (readSeq readField bs).map (fun (fs, bs) => (.record fs, bs))
    | some .Function =>
      match readKey bs with
      | none => none
      | some (a, bs) => (readKey bs).map (fun (r, bs) => (.function a r, bs))
    | some .Ref => (readKey bs).map (fun (k, bs) => (.ref k, bs))
    | some .Code => (readKey bs).map (fun (k, bs) => (.code k, bs))
    | some .Union => (readSeq readKey bs).map (fun (ks, bs) => (.union ks, bs))
    | some .UserSum =>
      match readU64 bs with
      | none => none
      | some (n, bs) => (readSeq readVariant bs).map (fun (vs, bs) => (.userSum n vs, bs))
    | some .Boxed => (readKey bs).map (fun (k, bs) => (.boxed k, bs))
    | some .TypeAlias => (readU64 bs).map (fun (s, bs) => (.typeAlias s, bs))
    | some .Any => some (.any, bs)
    | some .Failure => some (.failure, bs)
    | some .Unknown => some (.unknown, bs)
    | some .Intermediate => none   -- no such arm in the visitor (and `ofTag` never yields it)
    | some .TypeScheme => none

def decodeTyTop (bs : Bytes) : Option Ty := (decodeTy bs).map (·.1)

def RecordTypeField.norm (f : RecordTypeField) : RecordTypeField := { f with ty := f.ty.norm }

def normVariant (v : UInt64 × Option Key) : UInt64 × Option Key := (v.1, v.2.map Key.norm)

/-- what comes back: keys normalised by `KeyData::deserialize` -/
def Ty.norm : Ty → Ty
  | .array t => .array t.norm
  | .tuple ts => .tuple (ts.map Key.norm)
  | .record fs => .record (fs.map RecordTypeField.norm)
  | .function a r => .function a.norm r.norm
  | .ref t => .ref t.norm
  | .code t => .code t.norm
  | .union ts => .union (ts.map Key.norm)
  | .userSum n vs => .userSum n (vs.map normVariant)
  | .boxed t => .boxed t.norm
  | t => t

/-- `Vec` lengths fit `u64` -/
def Ty.Rep : Ty → Prop
  | .tuple ts => LenOk ts.length
  | .record fs => LenOk fs.length
  | .union ts => LenOk ts.length
  | .userSum _ vs => LenOk vs.length
  | _ => True

def Ty.KeysValid (t : Ty) : Prop := t.norm = t

end Mimium.Ffi
