import Mimium.Model.Ffi
import Mimium.Model.FfiType
import Mimium.Model.FfiValueSerde
/-! Text codec of the C20 line protocol (same text form as `harness/src/bin/c20.rs`) and the executable judge. -/
namespace Mimium.Ffi
open Mimium.Gen.Ffi

def hexDigit (n : Nat) : Char := if n < 10 then Char.ofNat (48 + n) else Char.ofNat (87 + n)

def hexOfBytes (bs : Bytes) : String :=
  String.ofList (bs.foldr (fun b acc => hexDigit (b.toNat / 16) :: hexDigit (b.toNat % 16) :: acc) [])

def hexVal (c : Char) : Option Nat :=
  if '0' ≤ c ∧ c ≤ '9' then some (c.toNat - 48)
  else if 'a' ≤ c ∧ c ≤ 'f' then some (c.toNat - 87)
  else if 'A' ≤ c ∧ c ≤ 'F' then some (c.toNat - 55)
  else none

def bytesOfHexChars : List Char → Option Bytes
  | [] => some []
  | [_] => none
  | a :: b :: rest =>
    match hexVal a, hexVal b, bytesOfHexChars rest with
    | some x, some y, some bs => some (UInt8.ofNat (16 * x + y) :: bs)
    | _, _, _ => none

def bytesOfHex (s : String) : Option Bytes := bytesOfHexChars s.toList

def natOfHex (s : String) : Option Nat :=
  s.toList.foldl (fun acc c => match acc, hexVal c with
    | some a, some d => some (16 * a + d)
    | _, _ => none) (some 0)

def hex16 (n : Nat) : String :=
  String.ofList ((List.range 16).map (fun i => hexDigit (n / 16 ^ (15 - i) % 16)))

def keyOfNat (n : Nat) : Key := ⟨UInt32.ofNat (n % 2 ^ 32), UInt32.ofNat (n / 2 ^ 32 % 2 ^ 32)⟩
def natOfKey (k : Key) : Nat := k.version.toNat * 2 ^ 32 + k.idx.toNat

def keyOfHex (s : String) : Option Key := (natOfHex s).map keyOfNat
def hexOfKey (k : Key) : String := hex16 (natOfKey k)
def u64OfHex (s : String) : Option UInt64 := (natOfHex s).map UInt64.ofNat
def strOfHex (s : String) : Option String := (bytesOfHex s).bind ofBytes?
def hexOfStr (s : String) : String := hexOfBytes (strBytes s)

/-- symbols are printed through `sym` (string values, record keys) and `bare` (inside `F…`, `X…`, `K…`) -/
partial def showValueWith {σ} (sym bare : σ → String) : Value σ → String
  | .errorV e => "E" ++ hexOfKey e
  | .unit => "U"
  | .number b => "N" ++ hex16 b.toNat
  | .string s => sym s
  | .array vs => "(A" ++ String.join (vs.map (fun v => " " ++ showValueWith sym bare v)) ++ " )"
  | .tuple vs => "(T" ++ String.join (vs.map (fun v => " " ++ showValueWith sym bare v)) ++ " )"
  | .record fs => "(R" ++ String.join (fs.map (fun (k, v) => " " ++ sym k ++ " " ++ showValueWith sym bare v)) ++ " )"
  | .closure _ _ => "L"
  | .fixpoint s e => "F" ++ bare s ++ ":" ++ hexOfKey e
  | .code e => "C" ++ hexOfKey e
  | .externalFn s => "X" ++ bare s
  | .store v => "(O " ++ showValueWith sym bare v ++ " )"
  | .taggedUnion t v => "(G" ++ hex16 t.toNat ++ " " ++ showValueWith sym bare v ++ " )"
  | .constructorFn t s k => "K" ++ hex16 t.toNat ++ ":" ++ bare s ++ ":" ++ hexOfKey k

def showValue (sym : String → String) (v : Value String) : String := showValueWith sym hexOfStr v

def rawSym (s : UInt64) : String := "#" ++ hex16 s.toNat
def showRaw (v : RawValue) : String := showValueWith rawSym rawSym v

def symStr (s : String) : String := "S" ++ hexOfStr s

/-- token-list parser; `sym` reads a symbol from the text after the one-letter prefix -/
partial def parseValue {σ} [Inhabited σ] (pfx : Char) (sym : String → Option σ) :
    List String → Option (Value σ × List String)
  | [] => none
  | t :: ts =>
    let body := (t.drop 1).toString
    let rec many (ts : List String) (acc : List (Value σ)) : Option (List (Value σ) × List String) :=
      match ts with
      | [] => none
      | ")" :: rest => some (acc.reverse, rest)
      | _ => match parseValue pfx sym ts with
        | none => none
        | some (v, rest) => many rest (v :: acc)
    let rec fields (ts : List String) (acc : List (σ × Value σ)) : Option (List (σ × Value σ) × List String) :=
      match ts with
      | [] => none
      | ")" :: rest => some (acc.reverse, rest)
      | k :: rest =>
        if k.front != pfx then none else
        match sym (k.drop 1).toString, parseValue pfx sym rest with
        | some k, some (v, rest) => fields rest ((k, v) :: acc)
        | _, _ => none
    match t.front with
    | 'E' => (keyOfHex body).map (fun k => (.errorV k, ts))
    | 'U' => some (.unit, ts)
    | 'N' => (u64OfHex body).map (fun b => (.number b, ts))
    | 'C' => (keyOfHex body).map (fun k => (.code k, ts))
    | 'L' => some (.closure ⟨0, 1⟩ [], ts)
    | 'X' => match sym (if pfx == '#' then (body.drop 1).toString else body) with
      | some s => some (.externalFn s, ts)
      | none => if body.isEmpty then some (.externalFn default, ts) else none
    | 'F' => match body.splitOn ":" with
      | [a, b] => match sym (if pfx == '#' then (a.drop 1).toString else a), keyOfHex b with
        | some s, some k => some (.fixpoint s k, ts)
        | _, _ => none
      | _ => none
    | 'K' => match body.splitOn ":" with
      | [a, b, c] => match u64OfHex a, sym (if pfx == '#' then (b.drop 1).toString else b), keyOfHex c with
        | some t, some s, some k => some (.constructorFn t s k, ts)
        | _, _, _ => none
      | _ => none
    | '(' =>
      let kind := body.front
      let arg := (body.drop 1).toString
      if kind == 'R' then (fields ts []).map (fun (fs, rest) => (.record fs, rest))
      else match many ts [] with
        | none => none
        | some (vs, rest) =>
          match kind, vs with
          | 'A', _ => some (.array vs, rest)
          | 'T', _ => some (.tuple vs, rest)
          | 'O', [v] => some (.store v, rest)
          | 'O', [] => some (.store .unit, rest)
          | 'G', [v] => (u64OfHex arg).map (fun t => (.taggedUnion t v, rest))
          | _, _ => none
    | c => if c == pfx then (sym body).map (fun s => (.string s, ts)) else none

def tokens (s : String) : List String := (s.splitOn " ").filter (· ≠ "")

def parseValueStr (s : String) : Option (Value String) :=
  match parseValue 'S' strOfHex (tokens s) with
  | some (v, []) => some v
  | _ => none

partial def parseArgsToks : List String → Option (List (Value String × Key))
  | [] => some []
  | ts => match parseValue 'S' strOfHex ts with
    | some (v, k :: rest) =>
      if k.front != '@' then none else
      match keyOfHex (k.drop 1).toString, parseArgsToks rest with
      | some k, some as => some ((v, k) :: as)
      | _, _ => none
    | _ => none

def parseArgsStr (s : String) : Option (List (Value String × Key)) :=
  if s == "." then some [] else parseArgsToks (tokens s)

def showArgs (as : List (Value String × Key)) : String :=
  if as.isEmpty then "." else
  " ".intercalate (as.map (fun (v, k) => showValue symStr v ++ " @" ++ hexOfKey k))

def showSer (r : Except String Bytes) : String :=
  match r with
  | .ok bs => hexOfBytes bs
  | .error e => "ERR:" ++ e

/-- model side of a `V` case: (serialised, value that comes back) -/
def modelV (v : Value String) : String × String :=
  match serializeValue id v with
  | .error e => ("ERR:" ++ e, "-")
  | .ok bs => (hexOfBytes bs, match deserializeValue (σ := String) id bs with
    | some b => showValue symStr b
    | none => "ERR")

/-- verdict on the *implementation's* observation of a `V` case (the property itself):
refused ⇒ the value must contain a variant that cannot cross (`C20_refusal_iff`: an opaque variant or an `ErrorV`,
that is when the model refuses); otherwise what came back must print exactly like what went in.  An error value that
crosses and comes back as `Unit` (the behaviour before `to_ffi_value` refused `ErrorV`) is named `errorv-to-unit`. -/
def judgeV (v : Value String) (implSer implBack : String) : String :=
  if implSer == "PANIC" || implBack == "PANIC" then "PROPFAIL:panic"
  else if implSer.startsWith "ERR:" then
    match toFfi id v with
    | .error _ => "ok-refused"
    | .ok _ => "PROPFAIL:refused-representable"
  else
    match toFfi id v with
    | .error _ =>
      if showValue symStr v != showValue symStr v.eraseErrors && implBack == showValue symStr v.eraseErrors
      then "PROPFAIL:errorv-to-unit" else "PROPFAIL:opaque-not-refused"
    | .ok _ =>
      if implBack == showValue symStr v then "ok" else "PROPFAIL:altered"

def modelM (as : List (Value String × Key)) : String × String :=
  match serializeMacroArgs id as with
  | .error e => ("ERR:" ++ e, "-")
  | .ok bs => (hexOfBytes bs, match deserializeMacroArgs (σ := String) id bs with
    | some b => showArgs b
    | none => "ERR")

def judgeM (as : List (Value String × Key)) (implSer implBack : String) : String :=
  if implSer == "PANIC" || implBack == "PANIC" then "PROPFAIL:panic"
  else if implSer.startsWith "ERR:" then
    match toFfiArgs id as with
    | .error _ => "ok-refused"
    | .ok _ => "PROPFAIL:refused-representable"
  else
    match toFfiArgs id as with
    | .error _ =>
      let erased := showArgs (as.map (fun (v, k) => (v.eraseErrors, k)))
      if showArgs as != erased && implBack == erased then "PROPFAIL:errorv-to-unit" else "PROPFAIL:opaque-not-refused"
    | .ok _ =>
      if implBack == showArgs as then "ok" else "PROPFAIL:altered"


/-! ### raw form (symbols as `#id`) for the direct `Value` codec -/

def parseRawStr (s : String) : Option RawValue :=
  match parseValue '#' u64OfHex (tokens s) with
  | some (v, []) => some v
  | _ => none

def modelW (v : RawValue) : String × String :=
  match encodeVal v with
  | none => ("ERR", "-")
  | some bs => (hexOfBytes bs, match decodeValTop bs with
    | some b => showRaw b
    | none => "ERR")

def judgeW (v : RawValue) (implSer implBack : String) : String :=
  if implSer == "PANIC" || implBack == "PANIC" then "PROPFAIL:panic"
  else if implSer.startsWith "ERR:" then (if v.directOk then "PROPFAIL:refused-representable" else "ok-refused")
  else if !v.directOk then "PROPFAIL:opaque-not-refused"
  else if implBack == showRaw v then "ok" else "PROPFAIL:altered"

/-! ### types -/

def showKeys (ks : List Key) : String := "[ " ++ String.join (ks.map (fun k => hexOfKey k ++ " ")) ++ "]"

def showTy : Ty → String
  | .primitive p => s!"Primitive {p.tag.toNat}"
  | .array k => "Array " ++ hexOfKey k
  | .tuple ks => "Tuple " ++ showKeys ks
  | .record fs => "Record [ " ++ String.join (fs.map (fun f =>
      hex16 f.key.toNat ++ " " ++ hexOfKey f.ty ++ " " ++ (if f.hasDefault then "1" else "0") ++ " ")) ++ "]"
  | .function a r => "Function " ++ hexOfKey a ++ " " ++ hexOfKey r
  | .ref k => "Ref " ++ hexOfKey k
  | .code k => "Code " ++ hexOfKey k
  | .union ks => "Union " ++ showKeys ks
  | .userSum n vs => "UserSum " ++ hex16 n.toNat ++ " [ " ++ String.join (vs.map (fun (s, k) =>
      hex16 s.toNat ++ " " ++ (match k with | none => "-" | some k => hexOfKey k) ++ " ")) ++ "]"
  | .boxed k => "Boxed " ++ hexOfKey k
  | .intermediate => "Intermediate"
  | .typeScheme n => "TypeScheme " ++ hex16 n.toNat
  | .typeAlias s => "TypeAlias " ++ hex16 s.toNat
  | .any => "Any"
  | .failure => "Failure"
  | .unknown => "Unknown"

def listBody (ts : List String) : Option (List String) :=
  match ts with
  | "[" :: rest => if rest.getLast? == some "]" then some rest.dropLast else none
  | _ => none

def chunk3 : List String → Option (List (String × String × String))
  | [] => some []
  | a :: b :: c :: rest => (chunk3 rest).map (fun xs => (a, b, c) :: xs)
  | _ => none

def chunk2 : List String → Option (List (String × String))
  | [] => some []
  | a :: b :: rest => (chunk2 rest).map (fun xs => (a, b) :: xs)
  | _ => none

def parseTy (s : String) : Option Ty :=
  match tokens s with
  | ["Primitive", p] => (p.toNat?.bind (fun n => PTypeCtor.ofTag (UInt32.ofNat n))).map .primitive
  | ["Array", k] => (keyOfHex k).map .array
  | "Tuple" :: l => (listBody l).bind (fun l => (l.mapM keyOfHex).map .tuple)
  | "Union" :: l => (listBody l).bind (fun l => (l.mapM keyOfHex).map .union)
  | "Record" :: l => (listBody l).bind chunk3 |>.bind (fun l => (l.mapM (fun (a, b, c) =>
      match u64OfHex a, keyOfHex b with
      | some a, some b => some (RecordTypeField.mk a b (c == "1"))
      | _, _ => none)).map .record)
  | ["Function", a, r] => match keyOfHex a, keyOfHex r with
    | some a, some r => some (.function a r)
    | _, _ => none
  | ["Ref", k] => (keyOfHex k).map .ref
  | ["Code", k] => (keyOfHex k).map .code
  | "UserSum" :: n :: l => match u64OfHex n, (listBody l).bind chunk2 with
    | some n, some l => (l.mapM (fun (a, b) =>
        match u64OfHex a, (if b == "-" then some none else (keyOfHex b).map some) with
        | some a, some b => some (a, b)
        | _, _ => none)).map (.userSum n)
    | _, _ => none
  | ["Boxed", k] => (keyOfHex k).map .boxed
  | ["Intermediate"] => some .intermediate
  | ["TypeScheme", n] => (u64OfHex n).map .typeScheme
  | ["TypeAlias", n] => (u64OfHex n).map .typeAlias
  | ["Any"] => some .any
  | ["Failure"] => some .failure
  | ["Unknown"] => some .unknown
  | _ => none

def modelT (t : Ty) : String × String :=
  match encodeTy t with
  | none => ("ERR", "-")
  | some bs => (hexOfBytes bs, match decodeTyTop bs with
    | some b => showTy b
    | none => "ERR")

/-- refused ⇒ must be one of the two internal variants (`C20_type_refusal_iff`); else it must come back unchanged -/
def judgeT (t : Ty) (implSer implBack : String) : String :=
  if implSer == "PANIC" || implBack == "PANIC" then "PROPFAIL:panic"
  else if implSer.startsWith "ERR:" then (if (encodeTy t).isNone then "ok-refused" else "PROPFAIL:refused-representable")
  else if (encodeTy t).isNone then "PROPFAIL:opaque-not-refused"
  else if implBack == showTy t then "ok" else "PROPFAIL:altered"

end Mimium.Ffi
