import Mimium.Model.Ffi
/-! Text codec of the C20 line protocol (same text form as `harness/src/bin/c20.rs`) and the executable judge. -/
namespace Mimium.Ffi

def hexDigit (n : Nat) : Char := if n < 10 then Char.ofNat (48 + n) else Char.ofNat (87 + n)

def hexOfBytes (bs : Bytes) : String :=
  String.ofList (bs.foldr (fun b acc => hexDigit (b.toNat / 16) :: hexDigit (b.toNat % 16) :: acc) [])

def hexVal (c : Char) : Option Nat :=
  if '0' ≤ c ∧ c ≤ '9' then some (c.toNat - 48)
  else if 'a' ≤ c ∧ c ≤ 'f' then some (c.toNat - 87)
  else if 'A' ≤ c ∧ c ≤ 'F' then some (c.toNat - 55)
  else none

def bytesOfHexChars : List Char → Option Bytes
  | [] => some []
  | [_] => none
  | a :: b :: rest =>
    match hexVal a, hexVal b, bytesOfHexChars rest with
    | some x, some y, some bs => some (UInt8.ofNat (16 * x + y) :: bs)
    | _, _, _ => none

def bytesOfHex (s : String) : Option Bytes := bytesOfHexChars s.toList

def natOfHex (s : String) : Option Nat :=
  s.toList.foldl (fun acc c => match acc, hexVal c with
    | some a, some d => some (16 * a + d)
    | _, _ => none) (some 0)

def hex16 (n : Nat) : String :=
  String.ofList ((List.range 16).map (fun i => hexDigit (n / 16 ^ (15 - i) % 16)))

def keyOfNat (n : Nat) : Key := ⟨UInt32.ofNat (n % 2 ^ 32), UInt32.ofNat (n / 2 ^ 32 % 2 ^ 32)⟩
def natOfKey (k : Key) : Nat := k.version.toNat * 2 ^ 32 + k.idx.toNat

def keyOfHex (s : String) : Option Key := (natOfHex s).map keyOfNat
def hexOfKey (k : Key) : String := hex16 (natOfKey k)
def u64OfHex (s : String) : Option UInt64 := (natOfHex s).map UInt64.ofNat
def strOfHex (s : String) : Option String := (bytesOfHex s).bind ofBytes?
def hexOfStr (s : String) : String := hexOfBytes (strBytes s)

/-- symbols are printed through `sym` -/
partial def showValue {σ} (sym : σ → String) : Value σ → String
  | .errorV e => "E" ++ hexOfKey e
  | .unit => "U"
  | .number b => "N" ++ hex16 b.toNat
  | .string s => sym s
  | .array vs => "(A" ++ String.join (vs.map (fun v => " " ++ showValue sym v)) ++ " )"
  | .tuple vs => "(T" ++ String.join (vs.map (fun v => " " ++ showValue sym v)) ++ " )"
  | .record fs => "(R" ++ String.join (fs.map (fun (k, v) => " " ++ sym k ++ " " ++ showValue sym v)) ++ " )"
  | .closure _ _ => "L"
  | .fixpoint s e => "F" ++ (sym s).drop 1 ++ ":" ++ hexOfKey e
  | .code e => "C" ++ hexOfKey e
  | .externalFn s => "X" ++ (sym s).drop 1
  | .store v => "(O " ++ showValue sym v ++ " )"
  | .taggedUnion t v => "(G" ++ hex16 t.toNat ++ " " ++ showValue sym v ++ " )"
  | .constructorFn t s k => "K" ++ hex16 t.toNat ++ ":" ++ (sym s).drop 1 ++ ":" ++ hexOfKey k

def symStr (s : String) : String := "S" ++ hexOfStr s

/-- token-list parser; `sym` reads a symbol from the text after the one-letter prefix -/
partial def parseValue {σ} [Inhabited σ] (pfx : Char) (sym : String → Option σ) :
    List String → Option (Value σ × List String)
  | [] => none
  | t :: ts =>
    let body := (t.drop 1).toString
    let rec many (ts : List String) (acc : List (Value σ)) : Option (List (Value σ) × List String) :=
      match ts with
      | [] => none
      | ")" :: rest => some (acc.reverse, rest)
      | _ => match parseValue pfx sym ts with
        | none => none
        | some (v, rest) => many rest (v :: acc)
    let rec fields (ts : List String) (acc : List (σ × Value σ)) : Option (List (σ × Value σ) × List String) :=
      match ts with
      | [] => none
      | ")" :: rest => some (acc.reverse, rest)
      | k :: rest =>
        if k.front != pfx then none else
        match sym (k.drop 1).toString, parseValue pfx sym rest with
        | some k, some (v, rest) => fields rest ((k, v) :: acc)
        | _, _ => none
    match t.front with
    | 'E' => (keyOfHex body).map (fun k => (.errorV k, ts))
    | 'U' => some (.unit, ts)
    | 'N' => (u64OfHex body).map (fun b => (.number b, ts))
    | 'C' => (keyOfHex body).map (fun k => (.code k, ts))
    | 'L' => some (.closure ⟨0, 1⟩ [], ts)
    | 'X' => match sym (if pfx == '#' then (body.drop 1).toString else body) with
      | some s => some (.externalFn s, ts)
      | none => if body.isEmpty then some (.externalFn default, ts) else none
    | 'F' => match body.splitOn ":" with
      | [a, b] => match sym (if pfx == '#' then (a.drop 1).toString else a), keyOfHex b with
        | some s, some k => some (.fixpoint s k, ts)
        | _, _ => none
      | _ => none
    | 'K' => match body.splitOn ":" with
      | [a, b, c] => match u64OfHex a, sym (if pfx == '#' then (b.drop 1).toString else b), keyOfHex c with
        | some t, some s, some k => some (.constructorFn t s k, ts)
        | _, _, _ => none
      | _ => none
    | '(' =>
      let kind := body.front
      let arg := (body.drop 1).toString
      if kind == 'R' then (fields ts []).map (fun (fs, rest) => (.record fs, rest))
      else match many ts [] with
        | none => none
        | some (vs, rest) =>
          match kind, vs with
          | 'A', _ => some (.array vs, rest)
          | 'T', _ => some (.tuple vs, rest)
          | 'O', [v] => some (.store v, rest)
          | 'O', [] => some (.store .unit, rest)
          | 'G', [v] => (u64OfHex arg).map (fun t => (.taggedUnion t v, rest))
          | _, _ => none
    | c => if c == pfx then (sym body).map (fun s => (.string s, ts)) else none

def tokens (s : String) : List String := (s.splitOn " ").filter (· ≠ "")

def parseValueStr (s : String) : Option (Value String) :=
  match parseValue 'S' strOfHex (tokens s) with
  | some (v, []) => some v
  | _ => none

partial def parseArgsToks : List String → Option (List (Value String × Key))
  | [] => some []
  | ts => match parseValue 'S' strOfHex ts with
    | some (v, k :: rest) =>
      if k.front != '@' then none else
      match keyOfHex (k.drop 1).toString, parseArgsToks rest with
      | some k, some as => some ((v, k) :: as)
      | _, _ => none
    | _ => none

def parseArgsStr (s : String) : Option (List (Value String × Key)) :=
  if s == "." then some [] else parseArgsToks (tokens s)

def showArgs (as : List (Value String × Key)) : String :=
  if as.isEmpty then "." else
  " ".intercalate (as.map (fun (v, k) => showValue symStr v ++ " @" ++ hexOfKey k))

def showSer (r : Except String Bytes) : String :=
  match r with
  | .ok bs => hexOfBytes bs
  | .error e => "ERR:" ++ e

/-- model side of a `V` case: (serialised, value that comes back) -/
def modelV (v : Value String) : String × String :=
  match serializeValue id v with
  | .error e => ("ERR:" ++ e, "-")
  | .ok bs => (hexOfBytes bs, match deserializeValue (σ := String) id bs with
    | some b => showValue symStr b
    | none => "ERR")

/-- verdict on the *implementation's* observation of a `V` case (the property itself):
refused ⇒ the value must contain an opaque variant (`C20_refusal_iff`: that is when the model refuses);
otherwise what came back must print exactly like what went in. -/
def judgeV (v : Value String) (implSer implBack : String) : String :=
  if implSer == "PANIC" || implBack == "PANIC" then "PROPFAIL:panic"
  else if implSer.startsWith "ERR:" then
    match toFfi id v with
    | .error _ => "ok-refused"
    | .ok _ => "PROPFAIL:refused-representable"
  else
    match toFfi id v with
    | .error _ => "PROPFAIL:opaque-not-refused"
    | .ok _ =>
      if implBack == showValue symStr v then "ok"
      else if implBack == showValue symStr v.eraseErrors then "PROPFAIL:errorv-to-unit"
      else "PROPFAIL:altered"

def modelM (as : List (Value String × Key)) : String × String :=
  match serializeMacroArgs id as with
  | .error e => ("ERR:" ++ e, "-")
  | .ok bs => (hexOfBytes bs, match deserializeMacroArgs (σ := String) id bs with
    | some b => showArgs b
    | none => "ERR")

def judgeM (as : List (Value String × Key)) (implSer implBack : String) : String :=
  if implSer == "PANIC" || implBack == "PANIC" then "PROPFAIL:panic"
  else if implSer.startsWith "ERR:" then
    match toFfiArgs id as with
    | .error _ => "ok-refused"
    | .ok _ => "PROPFAIL:refused-representable"
  else
    match toFfiArgs id as with
    | .error _ => "PROPFAIL:opaque-not-refused"
    | .ok _ =>
      if implBack == showArgs as then "ok"
      else if implBack == showArgs (as.map (fun (v, k) => (v.eraseErrors, k))) then "PROPFAIL:errorv-to-unit"
      else "PROPFAIL:altered"

end Mimium.Ffi
