import Mimium.Model.CstBuilder
import Mimium.Model.Pretty
import Mimium.Gen.CstPrint
/-!
# Literal port of the formatter's printer `crates/bin/mimium-fmt/src/cst_print.rs`

`cst_to_doc` turns the green tree of `parse_cst` into a document of the `pretty` crate; `pretty_print` renders it.  The port keeps
the structure of the Rust file: one Lean function per `print_*` / helper function, every `for &child in children.iter()` loop is a
`foldl` of a `step` function over the children with the loop's mutable locals as a state record, the code after the loop is `finish`.

* A child is passed to a loop as the pair `(green node, document of the child)` (`Ch`): the Rust loops call `cst_to_doc(child, …)`
  — or, for a token child, `emit_token_with_trivia(token_index, …)`, which is what `cst_to_doc` does for a token — at most once per
  child and the call is pure, so the documents of the children are computed first (`docsL`) and handed in.
* Documents are built symbolically (`SDoc`): a text leaf is either `tok i` — `allocator.text(tokens[i].text(source))`, the text of raw
  token `i` (a syntax token or a comment) — or `lit s`, one of the fixed strings the printer writes itself (`" "`, `","`, `"{"`,
  `"/* error */"`).  `SDoc.toDoc` substitutes the texts and the indent size (`get_indent_size()`, every `nest` of the file uses it)
  and yields the `Doc` of `Model/Pretty.lean`; `formatDoc` is the composition.  Dead locals of the Rust loops (flags that are written
  and never read, e.g. `seen_pattern`) are left out; locals that are not reset in the Rust code are not reset here.
* The builder's smart constructors are modelled (`++` = `DocBuilder::append` drops a `Nil` operand, `grp`, `nst`): they matter, because
  the renderer indents after a `Hardline` by the indentation of the NEXT command on its stack, and a `Nil` command left by a plain
  `Append(x, Nil)` would be such a command.  `ctx.tokens[i]` with `i` out of range panics in Rust; the model reads `Eof`.

`tools/extract.py::gen_cst_print` pins the hash of every function body of `cst_print.rs` and re-extracts the dispatch table of
`cst_to_doc` (`C14_printer_functions_pinned`, `C14_printer_dispatch`); the correspondence run compares the rendered text with the real
`pretty_print_cst` at 8 widths × 2 indent sizes on every input of the C14 streams.
-/
namespace Mimium.CstPrint
open Mimium.Gen (Kind SK)
open Mimium.Cst (Green)

/-! ## Symbolic documents -/

inductive Leaf where
  | tok (i : Nat)       -- the source text of raw token `i`
  | lit (s : String)    -- a fixed string
deriving DecidableEq, Repr, Inhabited

inductive SDoc where
  | nil
  | hardline
  | line                          -- `allocator.line()`
  | leaf (l : Leaf)
  | append (a b : SDoc)
  | group (d : SDoc)
  | nest (d : SDoc)               -- `.nest(get_indent_size() as isize)`
deriving Repr, Inhabited


namespace SDoc
/-- `DocBuilder::append`: a `Nil` operand is dropped -/
def app : SDoc → SDoc → SDoc
  | nil, b => b
  | a, nil => a
  | a, b => append a b
instance : Append SDoc := ⟨app⟩
/-- `DocBuilder::group`: no group around a group, a text or `Nil` -/
def grp : SDoc → SDoc
  | nil => nil
  | leaf l => leaf l
  | group d => group d
  | d => group d
/-- `DocBuilder::nest(get_indent_size())`: `Nil` stays `Nil` -/
def nst : SDoc → SDoc
  | nil => nil
  | d => nest d
def tok (i : Nat) : SDoc := leaf (.tok i)
def txt (s : String) : SDoc := leaf (.lit s)
/-- `allocator.space()` -/
def sp : SDoc := txt " "
/-- `allocator.softline()` -/
def softline : SDoc := grp line
/-- `allocator.concat(docs)` -/
def concat (ds : List SDoc) : SDoc := ds.foldl (· ++ ·) nil
/-- `allocator.intersperse(docs, sep)` -/
def intersperse (ds : List SDoc) (sep : SDoc) : SDoc :=
  match ds with
  | [] => nil
  | d :: rest => rest.foldl (fun r x => r ++ sep ++ x) (nil ++ d)

/-- substitute the token texts (`txt i` = render length and text of raw token `i`) and the indent size -/
def toDoc (ind : Nat) (txt : Nat → Nat × String) : SDoc → Pretty.Doc
  | nil => .nil
  | hardline => .hardline
  | line => Pretty.Doc.line
  | leaf (.tok i) => .text (txt i).1 (txt i).2
  | leaf (.lit s) => .text s.length s
  | append a b => .append (toDoc ind txt a) (toDoc ind txt b)
  | group d => .group (toDoc ind txt d)
  | nest d => .nest (Int.ofNat ind) (toDoc ind txt d)

/-- the text leaves in document order (the `" "` of a flat `line` is layout, not a leaf) -/
def leaves : SDoc → List Leaf
  | nil => []
  | hardline => []
  | line => []
  | leaf l => [l]
  | append a b => leaves a ++ leaves b
  | group d => leaves d
  | nest d => leaves d
end SDoc
open SDoc

/-! ## Context (`PrintContext`) and trivia -/

structure Ctx where
  kinds : Array Kind            -- `ctx.tokens[i].kind`: the ORIGINAL kinds (`pretty_print` ignores the relabelled tokens of `parse_cst`)
  pre : Preparse.Result         -- `ctx.preparsed`

/-- `ctx.tokens[i].kind` -/
def Ctx.kind (c : Ctx) (i : Nat) : Kind := c.kinds.getD i .Eof

/-- `find_preparsed_index` -/
def findPreparsedIndex (c : Ctx) (ti : Nat) : Option Nat := c.pre.tokenIndices.findIdx? (· == ti)

/-- `preparsed.get_leading_trivia(idx, tokens)` for the token with raw index `ti` (nothing if it has no preparsed index) -/
def leadingTrivia (c : Ctx) (ti : Nat) : List Nat :=
  match findPreparsedIndex c ti with
  | some idx => Preparse.lookup c.pre.leading idx
  | none => []

def trailingTrivia (c : Ctx) (ti : Nat) : List Nat :=
  match findPreparsedIndex c ti with
  | some idx => Preparse.lookup c.pre.trailing idx
  | none => []

/-- `matches!(trivia.kind, SingleLineComment | MultiLineComment)` (false for an index outside the token array: `filter_map(tokens.get)`) -/
def isComment (c : Ctx) (i : Nat) : Bool :=
  match c.kinds[i]? with
  | some .SingleLineComment => true
  | some .MultiLineComment => true
  | _ => false

/-- `emit_trivia` -/
def emitTrivia (c : Ctx) (i : Nat) : SDoc :=
  match c.kinds[i]? with
  | some .SingleLineComment => sp ++ tok i ++ hardline
  | some .MultiLineComment => sp ++ tok i ++ sp
  | _ => nil

/-- `for trivia in … { doc = doc.append(emit_trivia(trivia)) }` -/
def emitAll (c : Ctx) (is : List Nat) (d : SDoc) : SDoc := is.foldl (fun d i => d ++ emitTrivia c i) d

/-- `emit_token_with_trivia` -/
def emitTokenWithTrivia (c : Ctx) (ti : Nat) : SDoc :=
  emitAll c (trailingTrivia c ti) (emitAll c (leadingTrivia c ti) nil ++ tok ti)

/-- `CommaComments`: comments before the comma, after it, whether the latter end the line, whether there is any comment -/
structure CC where
  lead : SDoc
  trail : SDoc
  endsLine : Bool
  any : Bool
deriving Repr, Inhabited

def CC.empty : CC := ⟨nil, nil, false, false⟩

/-- `emit_token_comments` -/
def emitTokenComments (c : Ctx) (ti : Nat) : CC :=
  let a := (leadingTrivia c ti).foldl (fun (a : SDoc × Bool) i => (a.1 ++ emitTrivia c i, a.2 || isComment c i)) (nil, false)
  let b := (trailingTrivia c ti).foldl (fun (b : SDoc × Bool × Bool) (i : Nat) =>
    match (c.kinds[i]? : Option Kind) with
    | some .SingleLineComment => (b.1 ++ emitTrivia c i, true, true)
    | some .MultiLineComment => (b.1 ++ emitTrivia c i, false, true)
    | _ => (b.1 ++ emitTrivia c i, b.2.1, b.2.2)) (nil, false, a.2)
  ⟨a.1, b.1, b.2.1, b.2.2⟩

/-- `join_list_items`; `seps.get(i)` for the i-th item is the head of the separators not yet used -/
def joinGo (gap : SDoc) : List SDoc → List CC → SDoc → SDoc
  | [], _, doc => doc
  | item :: rest, seps, doc =>
    let doc := doc ++ item
    let doc :=
      match seps.head?, rest.isEmpty with
      | some s, false => if s.endsLine then doc ++ s.lead ++ txt "," ++ s.trail else doc ++ s.lead ++ txt "," ++ s.trail ++ gap
      | none, false => doc ++ txt "," ++ gap
      | some s, true => if s.any then doc ++ s.lead ++ txt "," ++ s.trail else doc
      | none, true => doc
    joinGo gap rest seps.tail doc

def joinListItems (items : List SDoc) (seps : List CC) (gap : SDoc) : SDoc := joinGo gap items seps nil

/-- `push_comma_comments` -/
def pushCommaComments (c : Ctx) (seps : List CC) (nItems : Nat) (ti : Nat) : List CC :=
  let seps := seps ++ List.replicate (nItems - (seps.length + 1)) CC.empty
  if seps.length < nItems then seps ++ [emitTokenComments c ti] else seps

/-! ## Children -/

/-- a child of the node being printed and its document -/
abbrev Ch := Green × SDoc

/-- `child_token_kind` / `if let GreenNode::Token { token_index, .. } = node { ctx.tokens[*token_index].kind … }` -/
def tokKind (c : Ctx) : Green → Option Kind
  | .token i _ => some (c.kind i)
  | .node _ _ => none

def tokIndex : Green → Option Nat
  | .token i _ => some i
  | .node _ _ => none

/-- `if let GreenNode::Internal { kind, .. } = node` -/
def nodeKind : Green → Option Nat
  | .token _ _ => none
  | .node k _ => some k

def isNodeOf (g : Green) (ks : List SK) : Bool :=
  match nodeKind g with
  | some k => ks.any (fun s => s.toNat == k)
  | none => false

/-! ## Leaf-like nodes, `match`, type declarations -/

/-- `print_leaf_children` (also `print_expr_list`, `print_unary_expr`: the same `concat`) -/
def printLeafChildren (cs : List Ch) : SDoc := concat (cs.map (·.2))

/-- `print_comma_spaced_children` -/
def printCommaSpacedChildren (c : Ctx) (cs : List Ch) : SDoc :=
  cs.foldl (fun r ch => if tokKind c ch.1 == some .Comma then r ++ ch.2 ++ sp else r ++ ch.2) nil

/-- `print_type_decl` -/
def printTypeDecl (cs : List Ch) : SDoc := intersperse (cs.map (·.2)) sp

/-- `print_match_expr` -/
def printMatchExpr (c : Ctx) (cs : List Ch) : SDoc :=
  cs.foldl (fun r ch =>
    match tokKind c ch.1 with
    | some .Match => r ++ ch.2 ++ sp
    | some .BlockBegin => r ++ sp ++ ch.2
    | some .BlockEnd => r ++ hardline ++ ch.2
    | _ => r ++ ch.2) nil

/-- `print_match_arm_list` -/
def printMatchArmList (c : Ctx) (cs : List Ch) : SDoc :=
  nst (cs.foldl (fun r ch => if tokKind c ch.1 == some .Comma then r ++ ch.2 else r ++ hardline ++ ch.2) nil)

/-- `print_match_arm` -/
def printMatchArm (c : Ctx) (cs : List Ch) : SDoc :=
  cs.foldl (fun r ch => if tokKind c ch.1 == some .FatArrow then r ++ sp ++ ch.2 ++ sp else r ++ ch.2) nil

/-- `print_program` -/
def printProgram (cs : List Ch) : SDoc := intersperse (cs.map (·.2)) hardline

/-! ## Declarations -/

/-- `print_function_decl`: every branch of the loop appends the child's document (`emit_token_with_trivia` for the keyword, the name
and `->`, `cst_to_doc` for the rest); only the keyword — `fn`, or `macro` for a macro declaration — is followed by a space.
(`seen_fn` / `seen_name` select between branches that do the same.) -/
def printFunctionDecl (c : Ctx) (cs : List Ch) : SDoc :=
  cs.foldl (fun r ch => if tokKind c ch.1 == some .Function || tokKind c ch.1 == some .Macro then r ++ ch.2 ++ sp else r ++ ch.2) nil

/-- locals of `print_let_decl` / `print_letrec_decl` -/
structure LetSt where
  result : SDoc := nil
  seenLet : Bool := false
  seenEq : Bool := false
  rhs : List SDoc := []
deriving Inhabited

def letStep (c : Ctx) (kw : Kind) (st : LetSt) (ch : Ch) : LetSt :=
  let k := tokKind c ch.1
  if k == some kw then { st with result := st.result ++ ch.2 ++ sp, seenLet := true }
  else if k == some .Assign then { st with result := st.result ++ sp ++ ch.2 ++ sp, seenEq := true }
  else if st.seenLet && !st.seenEq then { st with result := st.result ++ ch.2 }
  else if st.seenEq then { st with rhs := st.rhs ++ [ch.2] }
  else st

def letFinish (st : LetSt) : SDoc :=
  if st.rhs.isEmpty then st.result else st.result ++ grp (concat st.rhs)

/-- `print_let_decl` (`kw = Let`), `print_letrec_decl` (`kw = LetRec`) -/
def printLetDecl (c : Ctx) (kw : Kind) (cs : List Ch) : SDoc := letFinish (cs.foldl (letStep c kw) {})

/-- `print_assign_expr` -/
def printAssignExpr (c : Ctx) (cs : List Ch) : SDoc :=
  cs.foldl (fun r ch => if tokKind c ch.1 == some .Assign then r ++ sp ++ ch.2 ++ sp else r ++ ch.2) nil

/-! ## Expressions -/

/-- the `is_operator` list of `print_binary_expr` -/
def isBinaryOperator : Kind → Bool
  | .OpSum | .OpMinus | .OpProduct | .OpDivide | .OpModulo | .OpExponent | .OpAnd | .OpOr | .OpEqual | .OpNotEqual
  | .OpLessThan | .OpGreaterThan | .OpLessEqual | .OpGreaterEqual | .OpAt | .OpPipe | .OpPipeMacro => true
  | _ => false

structure BinSt where
  lhs : SDoc := nil
  op : SDoc := nil
  rhs : SDoc := nil
  isPipe : Bool := false
  seenOp : Bool := false
deriving Inhabited

def binStep (c : Ctx) (st : BinSt) (ch : Ch) : BinSt :=
  match tokKind c ch.1 with
  | some k =>
    if isBinaryOperator k then { st with isPipe := k == .OpPipe || k == .OpPipeMacro, op := ch.2, seenOp := true }
    else if !st.seenOp then { st with lhs := st.lhs ++ ch.2 } else { st with rhs := st.rhs ++ ch.2 }
  | none => if !st.seenOp then { st with lhs := st.lhs ++ ch.2 } else { st with rhs := st.rhs ++ ch.2 }

def binFinish (st : BinSt) : SDoc :=
  if st.isPipe then grp (st.lhs ++ nst (line ++ st.op ++ sp ++ st.rhs))
  else grp (st.lhs ++ sp ++ st.op ++ nst (line ++ st.rhs))

/-- `print_binary_expr` -/
def printBinaryExpr (c : Ctx) (cs : List Ch) : SDoc := binFinish (cs.foldl (binStep c) {})

/-- `print_call_expr` (both branches of the loop append the child), `print_paren_expr` -/
def printGroupedConcat (cs : List Ch) : SDoc := grp (concat (cs.map (·.2)))

/-- the `is_type_node` list of `print_lambda_expr` -/
def lambdaTypeKinds : List SK :=
  [.PrimitiveType, .UnitType, .TypeIdent, .FunctionType, .TupleType, .RecordType, .ArrayType, .CodeType]

structure LamSt where
  result : SDoc := nil
  inParams : Bool := false
  params : List SDoc := []
  seps : List CC := []
  current : SDoc := nil
  hasParamContent : Bool := false
  afterParams : Bool := false
  afterArrow : Bool := false
  hasReturnType : Bool := false
  bodyStarted : Bool := false
deriving Inhabited

/-- the part of the loop body after the `match token.kind` -/
def lamOther (st : LamSt) (ch : Ch) : LamSt :=
  if st.inParams then { st with current := st.current ++ ch.2, hasParamContent := true }
  else if st.afterParams then
    if st.afterArrow && !st.hasReturnType && isNodeOf ch.1 lambdaTypeKinds then
      { st with result := st.result ++ ch.2, hasReturnType := true }
    else if !st.bodyStarted then { st with result := st.result ++ sp ++ ch.2, bodyStarted := true }
    else { st with result := st.result ++ ch.2 }
  else st

def lamStep (c : Ctx) (st : LamSt) (ch : Ch) : LamSt :=
  match ch.1 with
  | .token ti _ =>
    let k := c.kind ti
    if k == .LambdaArgBeginEnd then
      if !st.inParams && !st.afterParams then { st with result := st.result ++ ch.2, inParams := true }
      else if st.inParams then
        let params := if st.hasParamContent then st.params ++ [st.current] else st.params
        let combined := if params.isEmpty then sp else joinListItems params st.seps sp
        { st with result := st.result ++ combined ++ ch.2, inParams := false, afterParams := true, params := [], seps := [],
                  current := nil, hasParamContent := false }
      else st
    else if k == .Comma && st.inParams then
      let st := if st.hasParamContent then { st with params := st.params ++ [st.current], current := nil, hasParamContent := false } else st
      { st with seps := pushCommaComments c st.seps st.params.length ti }
    else if k == .Arrow && st.afterParams then { st with result := st.result ++ ch.2, afterArrow := true }
    else lamOther st ch
  | .node _ _ => lamOther st ch

/-- `print_lambda_expr` -/
def printLambdaExpr (c : Ctx) (cs : List Ch) : SDoc := grp (cs.foldl (lamStep c) {}).result

mutual
/-- `first_token_kind`: the kind of the first token of a subtree (the loop follows the FIRST child only) -/
def firstTokenKind (c : Ctx) : Green → Option Kind
  | .token i _ => some (c.kind i)
  | .node _ cs => firstTokenKindL c cs
def firstTokenKindL (c : Ctx) : List Green → Option Kind
  | [] => none
  | g :: _ => firstTokenKind c g
end

/-- `continues_condition` of `print_if_expr`: the branch starts with a token that the parser would read as a postfix operator of
the condition if it stood on the condition's line -/
def continuesCondition (c : Ctx) (g : Green) : Bool :=
  match firstTokenKind c g with
  | some .ParenBegin => true
  | some .ArrayBegin => true
  | some .Dot => true
  | _ => false

structure IfSt where
  result : SDoc := nil
  seenIf : Bool := false
  seenCond : Bool := false
  seenThen : Bool := false
  seenElse : Bool := false
deriving Inhabited

def ifStep (c : Ctx) (st : IfSt) (ch : Ch) : IfSt :=
  let k := tokKind c ch.1
  if k == some .If then { st with result := st.result ++ ch.2, seenIf := true }
  else if k == some .Else then { st with result := st.result ++ softline ++ ch.2, seenElse := true }
  else if !st.seenCond && st.seenIf then
    let r := if !(firstTokenKind c ch.1 == some .ParenBegin) then st.result ++ sp else st.result
    { st with result := r ++ grp ch.2, seenCond := true }
  else if !st.seenThen && st.seenCond then
    let separator := if continuesCondition c ch.1 then hardline else softline
    { st with result := st.result ++ separator ++ grp ch.2, seenThen := true }
  else if st.seenElse then { st with result := st.result ++ sp ++ grp ch.2 }
  else st

/-- `print_if_expr` -/
def printIfExpr (c : Ctx) (cs : List Ch) : SDoc := grp (cs.foldl (ifStep c) {}).result

structure BlockSt where
  result : SDoc := nil
  inBody : Bool := false
  body : List SDoc := []
  openTrivia : SDoc := nil
  hasOpenTrivia : Bool := false
deriving Inhabited

def blockStep (c : Ctx) (st : BlockSt) (ch : Ch) : BlockSt :=
  match ch.1 with
  | .token ti _ =>
    let k := c.kind ti
    if k == .BlockBegin then
      let t := (trailingTrivia c ti).foldl (fun (a : SDoc × Bool) i => (a.1 ++ emitTrivia c i, a.2 || isComment c i))
        (st.openTrivia, st.hasOpenTrivia)
      { st with result := emitAll c (leadingTrivia c ti) st.result ++ txt "{", openTrivia := t.1, hasOpenTrivia := t.2, inBody := true }
    else if k == .BlockEnd then
      let r :=
        if !st.body.isEmpty then
          let body := intersperse st.body hardline
          (if st.hasOpenTrivia then st.result ++ nst (st.openTrivia ++ body) else st.result ++ nst (hardline ++ body)) ++ hardline
        else if st.hasOpenTrivia then st.result ++ st.openTrivia
        else st.result
      { st with result := r ++ ch.2, inBody := false }
    else if st.inBody then { st with body := st.body ++ [ch.2] } else st
  | .node _ _ => if st.inBody then { st with body := st.body ++ [ch.2] } else st

/-- `print_block_expr` -/
def printBlockExpr (c : Ctx) (cs : List Ch) : SDoc := (cs.foldl (blockStep c) {}).result

structure ListSt where
  items : List SDoc := []
  seps : List CC := []
  current : Option SDoc := none
  openDoc : SDoc := nil
  closeDoc : SDoc := nil
  foundOpen : Bool := false
  depth : Nat := 0
deriving Inhabited

def isOpenDelim (k : Kind) : Bool := k == .ParenBegin || k == .BlockBegin || k == .ArrayBegin
def isCloseDelim (k : Kind) : Bool := k == .ParenEnd || k == .BlockEnd || k == .ArrayEnd

def listOther (st : ListSt) (ch : Ch) : ListSt :=
  if st.foundOpen then
    { st with current := some (match st.current with | some item => item ++ ch.2 | none => ch.2) }
  else st

def listStep (c : Ctx) (st : ListSt) (ch : Ch) : ListSt :=
  match ch.1 with
  | .token ti _ =>
    let k := c.kind ti
    if isOpenDelim k && st.foundOpen then listOther { st with depth := st.depth + 1 } ch
    else if isOpenDelim k then { st with openDoc := ch.2, foundOpen := true }
    else if isCloseDelim k && st.depth > 0 then listOther { st with depth := st.depth - 1 } ch
    else if isCloseDelim k then { st with closeDoc := ch.2 }
    else if k == .Comma && st.depth == 0 then
      let st := match st.current with
        | some item => { st with items := st.items ++ [item], current := none }
        | none => st
      { st with seps := pushCommaComments c st.seps st.items.length ti }
    else listOther st ch
  | .node _ _ => listOther st ch

def listFinish (st : ListSt) : SDoc :=
  let items := match st.current with | some item => st.items ++ [item] | none => st.items
  if items.isEmpty then st.openDoc ++ st.closeDoc
  else grp (st.openDoc ++ nst (joinListItems items st.seps softline) ++ st.closeDoc)

/-- `print_grouped_list` -/
def printGroupedList (c : Ctx) (cs : List Ch) : SDoc := listFinish (cs.foldl (listStep c) {})

/-- the counting loop of `print_tuple_expr`: (commas, elems) -/
def tupleCount (c : Ctx) (cs : List Ch) : Nat × Nat :=
  cs.foldl (fun (a : Nat × Nat) ch =>
    match tokKind c ch.1 with
    | some .Comma => (a.1 + 1, a.2)
    | some .ParenBegin => a
    | some .ParenEnd => a
    | _ => (a.1, a.2 + 1)) (0, 0)

/-- `print_tuple_expr` -/
def printTupleExpr (c : Ctx) (cs : List Ch) : SDoc :=
  if tupleCount c cs == (1, 1) then printLeafChildren cs
  else printGroupedList c cs

structure RecSt where
  fields : List SDoc := []
  seps : List CC := []
  current : SDoc := nil
  hasCurrent : Bool := false
  openDoc : SDoc := nil
  closeDoc : SDoc := nil
  inBody : Bool := false
deriving Inhabited

def recOther (st : RecSt) (ch : Ch) : RecSt :=
  if st.inBody then { st with current := st.current ++ ch.2, hasCurrent := true } else st

def recStep (c : Ctx) (st : RecSt) (ch : Ch) : RecSt :=
  match ch.1 with
  | .token ti _ =>
    let k := c.kind ti
    if k == .BlockBegin then { st with openDoc := ch.2, inBody := true }
    else if k == .BlockEnd then
      { st with fields := if st.hasCurrent then st.fields ++ [st.current] else st.fields, closeDoc := ch.2, inBody := false }
    else if k == .Comma && st.inBody then
      let st := if st.hasCurrent then { st with fields := st.fields ++ [st.current], current := nil, hasCurrent := false } else st
      { st with seps := pushCommaComments c st.seps st.fields.length ti }
    else if (k == .Assign || k == .LeftArrow) && st.inBody then
      { st with current := st.current ++ sp ++ ch.2 ++ sp, hasCurrent := true }
    else recOther st ch
  | .node _ _ => recOther st ch

def recFinish (st : RecSt) : SDoc :=
  if st.fields.isEmpty then st.openDoc ++ st.closeDoc
  else st.openDoc ++ grp (nst (joinListItems st.fields st.seps softline)) ++ st.closeDoc

/-- `print_record_expr` -/
def printRecordExpr (c : Ctx) (cs : List Ch) : SDoc := recFinish (cs.foldl (recStep c) {})

structure MacSt where
  result : SDoc := nil
  args : List SDoc := []
  seps : List CC := []
  inArgs : Bool := false
  openDoc : SDoc := nil
  closeDoc : SDoc := nil
deriving Inhabited

def macOther (st : MacSt) (ch : Ch) : MacSt :=
  if st.inArgs then { st with args := st.args ++ [ch.2] } else { st with result := st.result ++ ch.2 }

def macStep (c : Ctx) (st : MacSt) (ch : Ch) : MacSt :=
  match ch.1 with
  | .token ti _ =>
    let k := c.kind ti
    if (k == .Ident || k == .IdentFunction) && !st.inArgs then { st with result := st.result ++ ch.2 }
    else if k == .MacroExpand then { st with result := st.result ++ ch.2 }
    else if k == .ParenBegin then { st with openDoc := ch.2, inArgs := true }
    else if k == .ParenEnd then { st with closeDoc := ch.2, inArgs := false }
    else if k == .Comma && st.inArgs then { st with seps := pushCommaComments c st.seps st.args.length ti }
    else macOther st ch
  | .node _ _ => macOther st ch

def macFinish (st : MacSt) : SDoc :=
  if st.args.isEmpty then st.result ++ st.openDoc ++ st.closeDoc
  else st.result ++ st.openDoc ++ joinListItems st.args st.seps sp ++ st.closeDoc

/-- `print_macro_expansion` -/
def printMacroExpansion (c : Ctx) (cs : List Ch) : SDoc := macFinish (cs.foldl (macStep c) {})

/-! ## Module system -/

def isIdentLike (k : Kind) : Bool := k == .Ident || k == .IdentFunction || k == .IdentVariable

/-- `print_module_decl`: (result, seen_mod, seen_name); every branch appends the child -/
def modStep (c : Ctx) (st : SDoc × Bool × Bool) (ch : Ch) : SDoc × Bool × Bool :=
  match tokKind c ch.1 with
  | some k =>
    if k == .Mod then (st.1 ++ ch.2 ++ sp, true, st.2.2)
    else if isIdentLike k && st.2.1 && !st.2.2 then (st.1 ++ ch.2 ++ sp, st.2.1, true)
    else (st.1 ++ ch.2, st.2)
  | none => (st.1 ++ ch.2, st.2)

def printModuleDecl (c : Ctx) (cs : List Ch) : SDoc := (cs.foldl (modStep c) (nil, false, false)).1

/-- `print_use_stmt`: (result, seen_use) -/
def useStep (c : Ctx) (st : SDoc × Bool) (ch : Ch) : SDoc × Bool :=
  if tokKind c ch.1 == some .Use then (st.1 ++ ch.2 ++ sp, true)
  else if isNodeOf ch.1 [.QualifiedPath, .UseTargetMultiple, .UseTargetWildcard] then
    if st.2 then (st.1 ++ ch.2, st.2) else st
  else (st.1 ++ ch.2, st.2)

def printUseStmt (c : Ctx) (cs : List Ch) : SDoc := (cs.foldl (useStep c) (nil, false)).1

/-- `print_qualified_path` -/
def printQualifiedPath (c : Ctx) (cs : List Ch) : SDoc :=
  cs.foldl (fun r ch =>
    match tokKind c ch.1 with
    | some k => if isIdentLike k || k == .DoubleColon then r ++ ch.2 else r
    | none => r ++ ch.2) nil

structure UseSt where
  items : List SDoc := []
  seps : List CC := []
  foundOpen : Bool := false
  openDoc : SDoc := nil
  closeDoc : SDoc := nil
deriving Inhabited

def useMultiStep (c : Ctx) (st : UseSt) (ch : Ch) : UseSt :=
  match ch.1 with
  | .token ti _ =>
    let k := c.kind ti
    if k == .BlockBegin then { st with openDoc := ch.2, foundOpen := true }
    else if k == .BlockEnd then { st with closeDoc := ch.2 }
    else if k == .Comma then { st with seps := pushCommaComments c st.seps st.items.length ti }
    else if st.foundOpen then { st with items := st.items ++ [ch.2] } else st
  | .node _ _ => if st.foundOpen then { st with items := st.items ++ [ch.2] } else st

def useMultiFinish (st : UseSt) : SDoc :=
  if st.items.isEmpty then st.openDoc ++ st.closeDoc
  else st.openDoc ++ joinListItems st.items st.seps sp ++ st.closeDoc

/-- `print_use_target_multiple` -/
def printUseTargetMultiple (c : Ctx) (cs : List Ch) : SDoc := useMultiFinish (cs.foldl (useMultiStep c) {})

/-- `print_use_target_wildcard` -/
def printUseTargetWildcard (c : Ctx) (cs : List Ch) : SDoc :=
  cs.foldl (fun r ch =>
    match tokKind c ch.1 with
    | some k => if k == .DoubleColon || k == .OpProduct then r ++ ch.2 else r
    | none => r) nil

/-- `print_visibility_pub` -/
def printVisibilityPub (c : Ctx) (cs : List Ch) : SDoc :=
  cs.foldl (fun r ch => if tokKind c ch.1 == some .Pub then r ++ ch.2 ++ sp else r) nil

/-! ## `cst_to_doc` -/

/-- the functions of `cst_print.rs` that have a body of their own (the others only forward: `print_statement` is
`print_leaf_children`, `print_param_list` is `print_grouped_list`, …; the extractor resolves them) -/
inductive PF where
  | program | functionDecl | letDecl | letrecDecl | binaryExpr | unaryExpr | callExpr | lambdaExpr | ifExpr | blockExpr | tupleExpr
  | recordExpr | parenExpr | macroExpansion | assignExpr | exprList | moduleDecl | useStmt | qualifiedPath | useTargetMultiple
  | useTargetWildcard | visibilityPub | matchExpr | matchArmList | matchArm | typeDecl | commaSpacedChildren | leafChildren
  | groupedList | errorText
deriving DecidableEq, Repr

/-- name of the Rust function (or, for `Error`, the text written) -/
def PF.rustName : PF → String
  | .program => "print_program" | .functionDecl => "print_function_decl" | .letDecl => "print_let_decl"
  | .letrecDecl => "print_letrec_decl" | .binaryExpr => "print_binary_expr" | .unaryExpr => "print_unary_expr"
  | .callExpr => "print_call_expr" | .lambdaExpr => "print_lambda_expr" | .ifExpr => "print_if_expr"
  | .blockExpr => "print_block_expr" | .tupleExpr => "print_tuple_expr" | .recordExpr => "print_record_expr"
  | .parenExpr => "print_paren_expr" | .macroExpansion => "print_macro_expansion" | .assignExpr => "print_assign_expr"
  | .exprList => "print_expr_list" | .moduleDecl => "print_module_decl" | .useStmt => "print_use_stmt"
  | .qualifiedPath => "print_qualified_path" | .useTargetMultiple => "print_use_target_multiple"
  | .useTargetWildcard => "print_use_target_wildcard" | .visibilityPub => "print_visibility_pub"
  | .matchExpr => "print_match_expr" | .matchArmList => "print_match_arm_list" | .matchArm => "print_match_arm"
  | .typeDecl => "print_type_decl" | .commaSpacedChildren => "print_comma_spaced_children"
  | .leafChildren => "print_leaf_children" | .groupedList => "print_grouped_list" | .errorText => "text:/* error */"

/-- the `match kind` of `cst_to_doc` (compared with the extracted arms by `C14_printer_dispatch`) -/
def dispatch : SK → PF
  | .Program => .program
  | .FunctionDecl => .functionDecl
  | .LetDecl => .letDecl
  | .LetRecDecl => .letrecDecl
  | .BinaryExpr => .binaryExpr
  | .UnaryExpr => .unaryExpr
  | .CallExpr => .callExpr
  | .LambdaExpr => .lambdaExpr
  | .IfExpr => .ifExpr
  | .BlockExpr => .blockExpr
  | .TupleExpr => .tupleExpr
  | .RecordExpr => .recordExpr
  | .ParenExpr => .parenExpr
  | .MacroExpansion => .macroExpansion
  | .AssignExpr => .assignExpr
  | .ExprList => .exprList
  | .ModuleDecl => .moduleDecl
  | .UseStmt => .useStmt
  | .QualifiedPath => .qualifiedPath
  | .UseTargetMultiple => .useTargetMultiple
  | .UseTargetWildcard => .useTargetWildcard
  | .VisibilityPub => .visibilityPub
  | .MatchExpr => .matchExpr
  | .MatchArmList => .matchArmList
  | .MatchArm => .matchArm
  | .TypeDecl => .typeDecl
  | .MatchPattern | .ConstructorPattern | .VariantDef => .commaSpacedChildren
  | .ArrayExpr | .TupleType | .RecordType | .TuplePattern | .RecordPattern | .ParamList | .ArgList => .groupedList
  | .Error => .errorText
  | .Statement | .IncludeStmt | .StageDecl | .FieldAccess | .IndexExpr | .EscapeExpr | .BracketExpr | .TypeAnnotation
  | .FunctionType | .ArrayType | .CodeType | .UnionType | .Pattern | .SinglePattern | .ParamDefault
  | .IntLiteral | .FloatLiteral | .StringLiteral | .SelfLiteral | .NowLiteral | .SampleRateLiteral | .PlaceHolderLiteral
  | .Identifier | .PrimitiveType | .UnitType | .TypeIdent => .leafChildren

/-- the body of a print function on the children (with their documents) of the node -/
def printPF (c : Ctx) : PF → List Ch → SDoc
  | .program, cs => printProgram cs
  | .functionDecl, cs => printFunctionDecl c cs
  | .letDecl, cs => printLetDecl c .Let cs
  | .letrecDecl, cs => printLetDecl c .LetRec cs
  | .binaryExpr, cs => printBinaryExpr c cs
  | .unaryExpr, cs => printLeafChildren cs
  | .callExpr, cs => printGroupedConcat cs
  | .lambdaExpr, cs => printLambdaExpr c cs
  | .ifExpr, cs => printIfExpr c cs
  | .blockExpr, cs => printBlockExpr c cs
  | .tupleExpr, cs => printTupleExpr c cs
  | .recordExpr, cs => printRecordExpr c cs
  | .parenExpr, cs => printGroupedConcat cs
  | .macroExpansion, cs => printMacroExpansion c cs
  | .assignExpr, cs => printAssignExpr c cs
  | .exprList, cs => printLeafChildren cs
  | .moduleDecl, cs => printModuleDecl c cs
  | .useStmt, cs => printUseStmt c cs
  | .qualifiedPath, cs => printQualifiedPath c cs
  | .useTargetMultiple, cs => printUseTargetMultiple c cs
  | .useTargetWildcard, cs => printUseTargetWildcard c cs
  | .visibilityPub, cs => printVisibilityPub c cs
  | .matchExpr, cs => printMatchExpr c cs
  | .matchArmList, cs => printMatchArmList c cs
  | .matchArm, cs => printMatchArm c cs
  | .typeDecl, cs => printTypeDecl cs
  | .commaSpacedChildren, cs => printCommaSpacedChildren c cs
  | .leafChildren, cs => printLeafChildren cs
  | .groupedList, cs => printGroupedList c cs
  | .errorText, _ => txt "/* error */"

/-- `cst_to_doc` for an internal node, given the documents of its children (a kind tag outside `SyntaxKind` cannot occur) -/
def printNode (c : Ctx) (kind : Nat) (cs : List Ch) : SDoc :=
  match Gen.skOfNat kind with
  | some k => printPF c (dispatch k) cs
  | none => nil

mutual
/-- `cst_to_doc` -/
def cstToDoc (c : Ctx) : Green → SDoc
  | .token i _ => emitTokenWithTrivia c i
  | .node k cs => printNode c k (chL c cs)
/-- the children of a node with their documents -/
def chL (c : Ctx) : List Green → List Ch
  | [] => []
  | g :: gs => (g, cstToDoc c g) :: chL c gs
end

/-! ## `pretty_print` -/

/-- `extract_file_leading_comments`: indices of the comments it copies — the comments of the lines that END before the first
non-trivia token (`pend` = Rust's `line`, the comments collected since the last line break; a line break commits them, the first syntax token
discards them: they are leading trivia of that token and printed with it; `Eof` — a file without any token — commits them) -/
def fileLeadingGo : Nat → List Kind → List Nat → List Nat
  | _, [], _ => []
  | i, k :: ks, pend =>
    if k == .SingleLineComment || k == .MultiLineComment then fileLeadingGo (i + 1) ks (pend ++ [i])
    else if k == .LineBreak then pend ++ fileLeadingGo (i + 1) ks []
    else if k == .Eof then pend
    else if k.isTrivia then fileLeadingGo (i + 1) ks pend
    else []

def fileLeadingComments (i : Nat) (ks : List Kind) : List Nat := fileLeadingGo i ks []

/-- the document `pretty_print` renders, for the green tree `root` -/
def formatS (kinds : List Kind) (pre : Preparse.Result) (root : Green) : SDoc := cstToDoc ⟨kinds.toArray, pre⟩ root

/-- … as a document of `Model/Pretty.lean` -/
def formatDoc (kinds : List Kind) (pre : Preparse.Result) (root : Green) (ind : Nat) (txt : Nat → Nat × String) : Pretty.Doc :=
  (formatS kinds pre root).toDoc ind txt

/-- the text `pretty_print` returns: file-leading comments, the rendered document, a final newline if there is none -/
def formatText (kinds : List Kind) (pre : Preparse.Result) (root : Green) (ind : Nat) (txt : Nat → Nat × String) (width : Nat) : String :=
  let body := Pretty.render width (formatDoc kinds pre root ind txt)
  let body := if body.endsWith "\n" then body else body ++ "\n"
  let lead := (fileLeadingComments 0 kinds).foldl (fun s i => s ++ (txt i).2 ++ "\n") ""
  lead ++ body

end Mimium.CstPrint
