/-!
# Model of the `pretty` crate's layout engine (version 0.12.4), as used by `mimium-fmt`

Hand port of `pretty-0.12.4/src/render.rs`: `best` (the command-stack renderer) and `Best::fitting`.
Documents are the raw `Doc` enum restricted to the constructors `mimium-fmt/src/cst_print.rs` can build
(`Nil, Append, Group, FlatAlt, Nest, Hardline, text`); `line = FlatAlt(Hardline, " ")`,
`softline = Group(line)`, `space = text " "`.  Not modelled (never built by the formatter): `Union`, `Column`,
`Nesting`, `Annotated`, `Fail`.

Quirks that are ported literally:
* `Hardline` writes the indentation of the *next* command on the stack (if any), not its own;
* `fitting` scans the rest of the command stack in `Break` mode after the group's own content, stops with
  `true` at the first `Hardline` met in `Break` mode and with `false` at a `Hardline` met in `Flat` mode;
* text width is the stored render length (`RenderLen` for non-ASCII text, byte length otherwise): the model's
  `text len s` carries it as a separate field, theorems quantify over it;
* indentation arithmetic is `usize` saturating add/sub: `Nat` with truncated subtraction (no upper saturation:
  the model assumes indentation and column stay below 2^64).
`append_docs2` flattens nested `Append`s eagerly when pushing; the model pushes lazily — the sequence of leaves
and their indentation is the same (all pieces of one `Append` share `ind` and `mode`).

The renderer produces `Piece`s; `tok` = a text leaf outside every `FlatAlt`, `ws` = a text leaf inside a
`FlatAlt` (the `" "` of a flat `line`), `nl k` = newline followed by `k` spaces.  The `alt` flag on commands is
a ghost: erasing it gives the plain renderer, the emitted characters do not depend on it.
-/
namespace Mimium.Pretty

inductive Doc where
  | nil
  | hardline
  | text (len : Nat) (s : String)
  | append (l r : Doc)
  | flatAlt (b f : Doc)
  | group (d : Doc)
  | nest (off : Int) (d : Doc)
deriving Repr, Inhabited

inductive Mode where
  | brk | flat
deriving DecidableEq, Repr

inductive Piece where
  | tok (s : String)
  | ws (s : String)
  | nl (ind : Nat)
deriving DecidableEq, Repr

namespace Doc

def size : Doc → Nat
  | nil => 1
  | hardline => 1
  | text _ _ => 1
  | append l r => 1 + l.size + r.size
  | flatAlt b f => 1 + b.size + f.size
  | group d => 1 + d.size
  | nest _ d => 1 + d.size

theorem size_pos (d : Doc) : 0 < d.size := by cases d <;> simp [size] <;> omega

/-- `line()` of the crate -/
def line : Doc := flatAlt hardline (text 1 " ")
/-- `line_()` -/
def line' : Doc := flatAlt hardline nil
/-- `softline()` -/
def softline : Doc := group line
/-- `space()` -/
def space : Doc := text 1 " "

end Doc

def sizes : List Doc → Nat
  | [] => 0
  | d :: ds => d.size + sizes ds

/-- size of the rest stack, one extra unit per entry (moving an entry to the flat stack decreases the measure) -/
def sizes1 : List Doc → Nat
  | [] => 0
  | d :: ds => d.size + 1 + sizes1 ds

/-- `Best::fitting`: `fs` = `fcmds` (top first), `bs` = the documents of `bcmds` below (top first),
`mode` starts `flat` and becomes `brk` for good once the rest stack is entered. -/
def fits (w : Nat) (mode : Mode) (pos : Nat) (fs bs : List Doc) : Bool :=
  match fs, bs with
  | [], [] => true
  | [], d :: bs => fits w .brk pos [d] bs
  | d :: fs, bs =>
    match d with
    | .nil => fits w mode pos fs bs
    | .append l r => fits w mode pos (l :: r :: fs) bs
    | .hardline => mode == .brk
    | .text len _ => if pos + len > w then false else fits w mode (pos + len) fs bs
    | .flatAlt b f => fits w mode pos ((if mode == .brk then b else f) :: fs) bs
    | .group d => fits w mode pos (d :: fs) bs
    | .nest _ d => fits w mode pos (d :: fs) bs
termination_by sizes fs + sizes1 bs
decreasing_by
  all_goals simp only [sizes, sizes1, Doc.size]
  all_goals (try split)
  all_goals omega

structure Cmd where
  ind : Nat
  mode : Mode
  alt : Bool
  doc : Doc
deriving Repr

/-- `ind.saturating_add(off)` / `ind.saturating_sub(-off)` -/
def addOff (ind : Nat) (off : Int) : Nat :=
  if off ≥ 0 then ind + off.toNat else ind - (-off).toNat

def cmdSizes : List Cmd → Nat
  | [] => 0
  | c :: cs => c.doc.size + cmdSizes cs

/-- `Best::best` on the command stack `bcmds` (top first), current column `pos`. -/
def best (w : Nat) (pos : Nat) (cmds : List Cmd) : List Piece :=
  match cmds with
  | [] => []
  | ⟨_, _, _, .nil⟩ :: rest => best w pos rest
  | ⟨ind, mode, alt, .append l r⟩ :: rest => best w pos (⟨ind, mode, alt, l⟩ :: ⟨ind, mode, alt, r⟩ :: rest)
  | ⟨ind, mode, _, .flatAlt b f⟩ :: rest => best w pos (⟨ind, mode, true, if mode == .brk then b else f⟩ :: rest)
  | ⟨ind, mode, alt, .group d⟩ :: rest =>
    best w pos (⟨ind, if mode == .brk && fits w .flat pos [d] (rest.map (·.doc)) then .flat else mode, alt, d⟩ :: rest)
  | ⟨ind, mode, alt, .nest off d⟩ :: rest => best w pos (⟨addOff ind off, mode, alt, d⟩ :: rest)
  | [⟨ind, _, _, .hardline⟩] => [.nl ind]
  | ⟨_, _, _, .hardline⟩ :: n :: rest => .nl n.ind :: best w n.ind (n :: rest)
  | ⟨_, _, alt, .text len s⟩ :: rest => (if alt then Piece.ws s else Piece.tok s) :: best w (pos + len) rest
termination_by cmdSizes cmds
decreasing_by
  all_goals simp only [cmdSizes, Doc.size]
  all_goals (try split)
  all_goals omega

/-- characters of a piece -/
def Piece.chars : Piece → List Char
  | .tok s => s.toList
  | .ws s => s.toList
  | .nl k => '\n' :: List.replicate k ' '

def flatten (ps : List Piece) : List Char := ps.flatMap Piece.chars

/-- `doc.render(width, out)`: initial stack `[(0, Break, doc)]`, column 0 -/
def renderP (w : Nat) (d : Doc) : List Piece := best w 0 [⟨0, .brk, false, d⟩]

def render (w : Nat) (d : Doc) : String := String.ofList (flatten (renderP w d))

/-- the text leaves outside every `FlatAlt`, in document order: the *content* of a document -/
def texts : Doc → List String
  | .nil => []
  | .hardline => []
  | .text _ s => [s]
  | .append l r => texts l ++ texts r
  | .flatAlt _ _ => []
  | .group d => texts d
  | .nest _ d => texts d

/-- the content pieces of an output -/
def toks : List Piece → List String
  | [] => []
  | .tok s :: ps => s :: toks ps
  | _ :: ps => toks ps

/-- `stripLayout`: delete what `line`/`softline`/`nest`/`hardline` introduce (newlines, indentation and the
flat alternatives of `FlatAlt`), keep every content text verbatim -/
def stripLayout (ps : List Piece) : List Char := (toks ps).flatMap String.toList

/-- rewrite every `nest` offset -/
def mapNest (f : Int → Int) : Doc → Doc
  | .nil => .nil
  | .hardline => .hardline
  | .text l s => .text l s
  | .append l r => .append (mapNest f l) (mapNest f r)
  | .flatAlt b g => .flatAlt (mapNest f b) (mapNest f g)
  | .group d => .group (mapNest f d)
  | .nest off d => .nest (f off) (mapNest f d)

/-- no `Hardline` on the flat path (a group containing one can never be laid out flat) -/
def noHardFlat : Doc → Bool
  | .nil => true
  | .hardline => false
  | .text _ _ => true
  | .append l r => noHardFlat l && noHardFlat r
  | .flatAlt _ f => noHardFlat f
  | .group d => noHardFlat d
  | .nest _ d => noHardFlat d

/-- width of the flat layout -/
def flatLen : Doc → Nat
  | .nil => 0
  | .hardline => 0
  | .text len _ => len
  | .append l r => flatLen l + flatLen r
  | .flatAlt _ f => flatLen f
  | .group d => flatLen d
  | .nest _ d => flatLen d

/-- the flat layout: pieces of a document laid out on one line (`alt` = inside a `FlatAlt`) -/
def flatPieces (alt : Bool) : Doc → List Piece
  | .nil => []
  | .hardline => []
  | .text _ s => [if alt then .ws s else .tok s]
  | .append l r => flatPieces alt l ++ flatPieces alt r
  | .flatAlt _ f => flatPieces true f
  | .group d => flatPieces alt d
  | .nest _ d => flatPieces alt d

/-- number of newline pieces -/
def newlines : List Piece → Nat
  | [] => 0
  | .nl _ :: ps => 1 + newlines ps
  | _ :: ps => newlines ps

end Mimium.Pretty
