import Mimium.Model.Mir
/-!
# M13b — a decidable static check of ONE MIR function against its published state layout

`stateOkFn P ok f cert`: along every path through the block graph of `f` the state instructions are exactly the accesses
`expectedTrace f.sk 0` prescribes (optional `GetState` first, every cell in layout order reached by the pushes that bring the
cursor to its offset, a stateful callee's whole trace at the cursor, `ReturnFeed` last) and the cursor is back at the base at
every return.  The check is LOCAL: `cert` gives, per block, the abstract state `(cursor offset, accesses done)` at its
entry; every block is checked on its own against the certificates of its successors (so nested and sequential branches
cost nothing).  `inferCert` computes the certificate by one forward pass (it is not trusted: `stateOkFn` checks it).
Callees are resolved statically: `Call` through a register is accepted only directly after the `Uinteger` that defines
the register (what `emit_fncall` emits), and the callee must itself be in the checked set `ok`.
Soundness: `Proofs/MirStateSound.lean`, `Props/C05.lean: C05_mir_state_ok_sound`.
-/
namespace Mimium.Mir
open Mimium.StateMachine Mimium.Layout Mimium.StateTree Mimium.RustGen

def shiftAcc (b : Nat) (a : Access) : Access := ⟨a.kind, a.pos + b, a.size⟩

/-- cursor offset from the function's base, number of accesses of the expected trace already performed -/
structure Abs where
  off : Nat
  k : Nat
deriving Repr, DecidableEq, Inhabited

abbrev Cert := List (Option Abs)

/-- one non-terminator instruction; `lc` = the register the directly preceding `Uinteger` defined, and its value -/
def absStep (P : Prog) (ok : List Nat) (exp : List Access) (lc : Option (Nat × Nat)) (a : Abs) :
    Ins → Option (Abs × Option (Nat × Nat))
  | .const d w => some (a, some (d, w.toNat))
  | .push n => some (⟨a.off + n, a.k⟩, none)
  | .pop n => if n ≤ a.off then some (⟨a.off - n, a.k⟩, none) else none
  | .getState _ n => if exp[a.k]? = some ⟨.get, a.off, n⟩ then some (⟨a.off, a.k + 1⟩, none) else none
  | .mem _ _ => if exp[a.k]? = some ⟨.mem, a.off, 1⟩ then some (⟨a.off, a.k + 1⟩, none) else none
  | .delay _ len _ _ => if exp[a.k]? = some ⟨.delay, a.off, delayExtra + len⟩ then some (⟨a.off, a.k + 1⟩, none) else none
  | .call _ (.reg r) _ _ =>
    match lc with
    | some (r', g) =>
      if r' = r ∧ g ∈ ok then
        match P.fns[g]? with
        | some fg =>
          let eg := (expectedTrace fg.sk 0).map (shiftAcc a.off)
          if (exp.drop a.k).take eg.length = eg then some (⟨a.off, a.k + eg.length⟩, none) else none
        | none => none
      else none
    | none => none
  | _ => some (a, none)

def certIs (cert : Cert) (b : Nat) (a : Abs) : Bool := cert[b]? == some (some a)

/-- one block from its entry state: instructions in order, the first terminator decides -/
def absBlock (P : Prog) (ok : List Nat) (exp : List Access) (as : List Arm) (cert : Cert) (bi : Nat) :
    List Ins → Option (Nat × Nat) → Abs → Bool
  | [], _, a =>
    match lastContaining as bi with
    | some arm => certIs cert arm.merge a
    | none => false
  | .jmpIf _ t e _ :: _, _, a => certIs cert t a && certIs cert e a
  | .jmp off :: _, _, a => certIs cert (wrapUsize (bi + off)) a
  | .switch _ cases d _ :: _, _, a => cases.all (fun c => certIs cert c.2 a) && d.all (fun b => certIs cert b a)
  | .ret _ _ :: _, _, a => a.off == 0 && a.k == exp.length
  | .retFeed _ n :: _, _, a => a.off == 0 && a.k + 1 == exp.length && exp[a.k]? == some ⟨.set, 0, n⟩
  | i :: rest, lc, a =>
    match absStep P ok exp lc a i with
    | some (a', lc') => absBlock P ok exp as cert bi rest lc' a'
    | none => false

def allBlocks (p : Nat → List Ins → Bool) : Nat → List (List Ins) → Bool
  | _, [] => true
  | i, b :: bs => p i b && allBlocks p (i + 1) bs

/-- the static check of one function against its layout, given the per-block entry states -/
def stateOkFn (P : Prog) (ok : List Nat) (f : Fn) (cert : Cert) : Bool :=
  certIs cert 0 ⟨0, 0⟩ &&
  allBlocks (fun bi b =>
    match cert[bi]? with
    | some (some a) => absBlock P ok (expectedTrace f.sk 0) f.arms cert bi b none a
    | _ => true) 0 f.blocks

/-! ## certificate inference (untrusted) -/

def setCert (cert : Cert) (b : Nat) (a : Abs) : Cert :=
  match cert[b]? with
  | some none => cert.set b (some a)
  | _ => cert

/-- exit of a block: the abstract state in front of its terminator and the successor blocks -/
def absExit (P : Prog) (ok : List Nat) (exp : List Access) (as : List Arm) (bi : Nat) :
    List Ins → Option (Nat × Nat) → Abs → Option (Abs × List Nat)
  | [], _, a => some (a, (lastContaining as bi).toList.map (·.merge))
  | .jmpIf _ t e _ :: _, _, a => some (a, [t, e])
  | .jmp off :: _, _, a => some (a, [wrapUsize (bi + off)])
  | .switch _ cases d _ :: _, _, a => some (a, cases.map (·.2) ++ d.toList)
  | .ret _ _ :: _, _, a => some (a, [])
  | .retFeed _ _ :: _, _, a => some (a, [])
  | i :: rest, lc, a =>
    match absStep P ok exp lc a i with
    | some (a', lc') => absExit P ok exp as bi rest lc' a'
    | none => none

def inferGo (P : Prog) (ok : List Nat) (exp : List Access) (as : List Arm) : Nat → List (List Ins) → Cert → Cert
  | _, [], cert => cert
  | bi, b :: bs, cert =>
    let cert' := match cert[bi]? with
      | some (some a) =>
        match absExit P ok exp as bi b none a with
        | some (a', succs) => succs.foldl (fun c s => setCert c s a') cert
        | none => cert
      | _ => cert
    inferGo P ok exp as (bi + 1) bs cert'

def inferCert (P : Prog) (ok : List Nat) (f : Fn) : Cert :=
  inferGo P ok (expectedTrace f.sk 0) f.arms 0 f.blocks ((List.replicate f.blocks.length none).set 0 (some ⟨0, 0⟩))

/-- greatest set of functions each of which passes the check relative to the set: start from all, drop failures, repeat -/
def okSetGo (P : Prog) : Nat → List Nat → List Nat
  | 0, ok => ok
  | n + 1, ok =>
    let ok' := ok.filter fun g =>
      match P.fns[g]? with
      | some f => stateOkFn P ok f (inferCert P ok f)
      | none => false
    if ok'.length = ok.length then ok else okSetGo P n ok'

def okSet (P : Prog) : List Nat := okSetGo P (P.fns.length + 1) (List.range P.fns.length)

/-- final, self-contained verdict for the whole set (what the soundness theorem takes as hypothesis) -/
def okSetChecked (P : Prog) (ok : List Nat) : Bool :=
  ok.all fun g =>
    match P.fns[g]? with
    | some f => stateOkFn P ok f (inferCert P ok f)
    | none => false

end Mimium.Mir
