import Mimium.Model.Interner
/-! Line protocol of the interner model (drivers `drv_c15`, `drv_c19`).

One case per line: ops separated by `;`, each `tid:i:<str>` | `tid:r:<k>` | `tid:a:<payload>:<k1>,<k2>,…` | `tid:g:<k>`.
The model starts from an empty symbol table and an arena holding one node (the harness allocates one type first).
Output: for each thread `0..K-1` a field `hs|as|strs|nodes` (tab separated). -/
namespace Mimium.Interner

def parseOp (s : String) : Option (Nat × Op String) :=
  match s.splitOn ":" with
  | [t, "i", x] => t.toNat?.map (·, Op.intern x)
  | [t, "r", k] => do some ((← t.toNat?), Op.resolve (← k.toNat?))
  | [t, "a", p] => do some ((← t.toNat?), Op.alloc (← p.toNat?) [])
  | [t, "a", p, ks] => do
    let ks := if ks.isEmpty then [] else (ks.splitOn ",").filterMap String.toNat?
    some ((← t.toNat?), Op.alloc (← p.toNat?) ks)
  | [t, "g", k] => do some ((← t.toNat?), Op.get (← k.toNat?))
  | _ => none

def showNats (l : List Nat) : String := ",".intercalate (l.map toString)

def showNode : Option Node → String
  | none => "~"
  | some v => s!"{v.payload}/" ++ ".".intercalate (v.kids.map toString)

def showTh (t : Th String) : String :=
  showNats t.hs ++ "|" ++ showNats t.as ++ "|" ++ ",".intercalate (t.strs.map (fun o => o.getD "~")) ++ "|" ++
    ",".intercalate (t.nodes.map showNode)

def runLine (line : String) : String :=
  let toks := (line.splitOn ";").filter (fun s => !s.isEmpty)
  let ops := toks.filterMap parseOp
  if ops.length != toks.length then "bad-input" else
  let k := ops.foldl (fun m x => max m (x.1 + 1)) 0
  let st := run (init ([] : List String) [⟨0, []⟩]) ops
  "\t".intercalate ((List.range k).map (fun i => showTh (st.ths i)))

end Mimium.Interner
