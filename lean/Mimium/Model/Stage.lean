import Mimium.Model.Core
/-!
# M7 — the two-level (macro / main) calculus of mimium, as the compiler implements it

Literal port of the staging pipeline of `mimium-lang`:

* `Ex` — the syntax tree of `ast.rs` (`Expr`), restricted to the forms the core fragment uses, *one* type for both
  stages, with `bracket` (quote `` `e ``), `escape` (splice `$e`) and `macroExpand` (`f!(a)`);
* `convMacro`  = `convert_pronoun.rs::convert_macroexpand`  (`f!(a)` ↦ `$(f(a))`);
* `convSelf`   = `convert_pronoun.rs::convert_self` (`self` ↦ variable `feed_id<depth>` bound by a `feed` node at the
  enclosing lambda — the names are generated from the nesting depth, which is how they can clash);
* `trStage0` / `trCode` = `translate_staging.rs::translate_stage0` / `translate_code`: every stage-1 form is re-encoded
  as a call of a code-building combinator (`code_var("x")`, `code_let("x", v, b)`, …) — variables and binders become
  **strings**;
* `ev0` = the stage-0 execution (`compile_and_execute_stage0`: the real thing is the bytecode VM; here a call-by-value
  big-step evaluator of the pure fragment) with `applyExt` = `codegen_combinators.rs` (each combinator decodes its
  arguments and builds the tree node *from the names*) plus the arithmetic intrinsics and `lift_f`/`lift`;
* `expand` = the composition; `toCore` reads an expanded tree back into the core language of `Model/Core.lean`.

Types are not modelled (the combinators that carry type ids get a placeholder argument in the same position).
Literals carry the bits of their value (the compiler re-prints the number with Rust's shortest round-trip `Display`
and re-parses it; that this is the identity on the value is checked on the real side by the correspondence).
-/
namespace Mimium.Stage

inductive Ex where
  | flt (bits : UInt64)          -- Literal::Float
  | int (i : Nat)                -- Literal::Int   (stage 0 only: projection indices, type ids)
  | str (s : String)             -- Literal::String (stage 0 only: names handed to the combinators)
  | selfL | now | sr             -- Literal::SelfLit / Now / SampleRate
  | var (x : String)
  | app (f : Ex) (args : List Ex)
  | lam (ps : List String) (body : Ex)
  | letE (x : String) (v body : Ex)             -- Let(Pattern::Single x)   (`_` = Placeholder)
  | letT (xs : List String) (v body : Ex)       -- Let(Pattern::Tuple of Single/Placeholder)
  | letrec (x : String) (v body : Ex)
  | ite (c t e : Ex)
  | thenE (a b : Ex)
  | assign (l r : Ex)
  | tup (es : List Ex)
  | proj (e : Ex) (i : Nat)
  | arr (es : List Ex)           -- ArrayLiteral (stage 0: argument arrays of the combinators)
  | block (e : Ex)
  | feed (x : String) (e : Ex)
  | bracket (e : Ex)
  | escape (e : Ex)
  | macroExpand (f : Ex) (args : List Ex)
  | pipeM (arg fn : Ex)          -- BinOp(arg, Op::PipeMacro, fn):  `arg ||> fn`   (front end only)
  | placeholder                  -- Literal::PlaceHolder `_`                        (front end only)
deriving Repr, Inhabited

/-- the unit value `()`: what the compiler puts where a `let` has no continuation / an `if` has no `else` -/
def Ex.unit : Ex := .tup []

/-- `ExprNodeId::has_staging_constructs`: only programs that contain a quote, a splice or a macro call are sent through
the staging pipeline -/
def hasStaging : Ex → Bool
  | .bracket _ => true
  | .escape _ => true
  | .macroExpand _ _ => true
  | .pipeM a f => hasStaging a || hasStaging f
  | .app f args => hasStaging f || anyStaging args
  | .lam _ b => hasStaging b
  | .letE _ v b => hasStaging v || hasStaging b
  | .letT _ v b => hasStaging v || hasStaging b
  | .letrec _ v b => hasStaging v || hasStaging b
  | .ite c t e => hasStaging c || hasStaging t || hasStaging e
  | .thenE a b => hasStaging a || hasStaging b
  | .assign l r => hasStaging l || hasStaging r
  | .tup es => anyStaging es
  | .proj e _ => hasStaging e
  | .arr es => anyStaging es
  | .block e => hasStaging e
  | .feed _ e => hasStaging e
  | _ => false
where anyStaging : List Ex → Bool
  | [] => false
  | e :: es => hasStaging e || anyStaging es

/-! ## front-end passes that precede staging -/

/-! ### the macro pipe `x ||> f` (`convert_placeholder`, `convert_macro_pipe`, `substitute_macro_arg`)

`x ||> (|a| `{ … $a … })` is expanded at compile time, before staging: the piped argument (a stage-1 tree, not a code
value) replaces every splice `$a` in the quoted body; the `_` sugar `x ||> f(_, y)` is first turned into such a macro
lambda whose binder is the GENERATED name `__lambda_arg_<argument index>`. `substitute_macro_arg` looks at names only
(it does not know binders); the pass is capture-free for nested pipes because it works bottom-up: the pipes inside the
function part are expanded — their binders are gone — before the outer argument is inlined. -/

def lambdaArgName (i : Nat) : String := "__lambda_arg_" ++ toString i

def isPlaceholder : Ex → Bool
  | .placeholder => true
  | _ => false

/-- parameters of the generated macro lambda: one per placeholder, named after its argument position -/
def phParams (i : Nat) : List Ex → List String
  | [] => []
  | e :: rest => if isPlaceholder e then lambdaArgName i :: phParams (i + 1) rest else phParams (i + 1) rest

mutual
/-- `convert_placeholder` -/
def convPlaceholder : Ex → Ex
  | .placeholder => .var "_"
  | .app f args =>
    if args.any isPlaceholder then
      .lam (phParams 0 args) (.bracket (.app (convPlaceholder f) (phArgs 0 args)))
    else .app (convPlaceholder f) (convPlaceholderL args)
  | .lam ps b => .lam ps (convPlaceholder b)
  | .letE x v b => .letE x (convPlaceholder v) (convPlaceholder b)
  | .letT xs v b => .letT xs (convPlaceholder v) (convPlaceholder b)
  | .letrec x v b => .letrec x (convPlaceholder v) (convPlaceholder b)
  | .ite c t e => .ite (convPlaceholder c) (convPlaceholder t) (convPlaceholder e)
  | .thenE a b => .thenE (convPlaceholder a) (convPlaceholder b)
  | .assign l r => .assign (convPlaceholder l) (convPlaceholder r)
  | .tup es => .tup (convPlaceholderL es)
  | .proj e i => .proj (convPlaceholder e) i
  | .arr es => .arr (convPlaceholderL es)
  | .block e => .block (convPlaceholder e)
  | .feed x e => .feed x (convPlaceholder e)
  | .bracket e => .bracket (convPlaceholder e)
  | .escape e => .escape (convPlaceholder e)
  | .macroExpand f args => .macroExpand (convPlaceholder f) (convPlaceholderL args)
  | .pipeM a f => .pipeM (convPlaceholder a) (convPlaceholder f)
  | .flt b => .flt b
  | .int i => .int i
  | .str s => .str s
  | .selfL => .selfL
  | .now => .now
  | .sr => .sr
  | .var x => .var x
def convPlaceholderL : List Ex → List Ex
  | [] => []
  | e :: es => convPlaceholder e :: convPlaceholderL es
/-- the arguments of a call that has placeholders: `_` at position `i` becomes the splice `$__lambda_arg_i` -/
def phArgs (i : Nat) : List Ex → List Ex
  | [] => []
  | e :: rest => (if isPlaceholder e then .escape (.var (lambdaArgName i)) else convPlaceholder e) :: phArgs (i + 1) rest
end

mutual
/-- `substitute_macro_arg`: every splice `$target` becomes `rep` — by name, under any binder -/
def substMacroArg (target : String) (rep : Ex) : Ex → Ex
  | .escape e => match e with
    | .var x => if x = target then rep else .escape (.var x)
    | e => .escape (substMacroArg target rep e)
  | .app f args => .app (substMacroArg target rep f) (substMacroArgL target rep args)
  | .lam ps b => .lam ps (substMacroArg target rep b)
  | .letE x v b => .letE x (substMacroArg target rep v) (substMacroArg target rep b)
  | .letT xs v b => .letT xs (substMacroArg target rep v) (substMacroArg target rep b)
  | .letrec x v b => .letrec x (substMacroArg target rep v) (substMacroArg target rep b)
  | .ite c t e => .ite (substMacroArg target rep c) (substMacroArg target rep t) (substMacroArg target rep e)
  | .thenE a b => .thenE (substMacroArg target rep a) (substMacroArg target rep b)
  | .assign l r => .assign (substMacroArg target rep l) (substMacroArg target rep r)
  | .tup es => .tup (substMacroArgL target rep es)
  | .proj e i => .proj (substMacroArg target rep e) i
  | .arr es => .arr (substMacroArgL target rep es)
  | .block e => .block (substMacroArg target rep e)
  | .feed x e => .feed x (substMacroArg target rep e)
  | .bracket e => .bracket (substMacroArg target rep e)
  | .macroExpand f args => .macroExpand (substMacroArg target rep f) (substMacroArgL target rep args)
  | .pipeM a f => .pipeM (substMacroArg target rep a) (substMacroArg target rep f)
  | .placeholder => .placeholder
  | .flt b => .flt b
  | .int i => .int i
  | .str s => .str s
  | .selfL => .selfL
  | .now => .now
  | .sr => .sr
  | .var x => .var x
def substMacroArgL (target : String) (rep : Ex) : List Ex → List Ex
  | [] => []
  | e :: es => substMacroArg target rep e :: substMacroArgL target rep es
end

/-- one pipe step once argument and function are converted -/
def pipeStep (arg fn : Ex) : Ex :=
  match fn with
  | .lam [p] (.bracket inner) => substMacroArg p arg inner
  | _ => .app fn [arg]

mutual
/-- `convert_macro_pipe` (the pinned order: argument and function first, then the substitution) -/
def convMacroPipe : Ex → Ex
  | .pipeM a f => pipeStep (convMacroPipe a) (convMacroPipe f)
  | .app f args => .app (convMacroPipe f) (convMacroPipeL args)
  | .lam ps b => .lam ps (convMacroPipe b)
  | .letE x v b => .letE x (convMacroPipe v) (convMacroPipe b)
  | .letT xs v b => .letT xs (convMacroPipe v) (convMacroPipe b)
  | .letrec x v b => .letrec x (convMacroPipe v) (convMacroPipe b)
  | .ite c t e => .ite (convMacroPipe c) (convMacroPipe t) (convMacroPipe e)
  | .thenE a b => .thenE (convMacroPipe a) (convMacroPipe b)
  | .assign l r => .assign (convMacroPipe l) (convMacroPipe r)
  | .tup es => .tup (convMacroPipeL es)
  | .proj e i => .proj (convMacroPipe e) i
  | .arr es => .arr (convMacroPipeL es)
  | .block e => .block (convMacroPipe e)
  | .feed x e => .feed x (convMacroPipe e)
  | .bracket e => .bracket (convMacroPipe e)
  | .escape e => .escape (convMacroPipe e)
  | .macroExpand f args => .macroExpand (convMacroPipe f) (convMacroPipeL args)
  | .placeholder => .placeholder
  | .flt b => .flt b
  | .int i => .int i
  | .str s => .str s
  | .selfL => .selfL
  | .now => .now
  | .sr => .sr
  | .var x => .var x
def convMacroPipeL : List Ex → List Ex
  | [] => []
  | e :: es => convMacroPipe e :: convMacroPipeL es
end

mutual
/-- the OTHER order (not the compiler's): inline the outer argument first, expand the pipes of the resulting body
afterwards. Needs fuel (the recursion is on the substituted tree). Used only to show that the order matters. -/
def convMacroPipeTD (fuel : Nat) (e : Ex) : Ex :=
  match fuel with
  | 0 => e
  | fuel + 1 =>
    match e with
    | .pipeM a f =>
      let a' := convMacroPipeTD fuel a
      match f with
      | .lam [p] (.bracket inner) => convMacroPipeTD fuel (substMacroArg p a' inner)
      | _ => .app (convMacroPipeTD fuel f) [a']
    | .app f args => .app (convMacroPipeTD fuel f) (convMacroPipeTDL fuel args)
    | .lam ps b => .lam ps (convMacroPipeTD fuel b)
    | .letE x v b => .letE x (convMacroPipeTD fuel v) (convMacroPipeTD fuel b)
    | .letT xs v b => .letT xs (convMacroPipeTD fuel v) (convMacroPipeTD fuel b)
    | .letrec x v b => .letrec x (convMacroPipeTD fuel v) (convMacroPipeTD fuel b)
    | .ite c t e => .ite (convMacroPipeTD fuel c) (convMacroPipeTD fuel t) (convMacroPipeTD fuel e)
    | .thenE a b => .thenE (convMacroPipeTD fuel a) (convMacroPipeTD fuel b)
    | .assign l r => .assign (convMacroPipeTD fuel l) (convMacroPipeTD fuel r)
    | .tup es => .tup (convMacroPipeTDL fuel es)
    | .proj e i => .proj (convMacroPipeTD fuel e) i
    | .arr es => .arr (convMacroPipeTDL fuel es)
    | .block e => .block (convMacroPipeTD fuel e)
    | .feed x e => .feed x (convMacroPipeTD fuel e)
    | .bracket e => .bracket (convMacroPipeTD fuel e)
    | .escape e => .escape (convMacroPipeTD fuel e)
    | .macroExpand f args => .macroExpand (convMacroPipeTD fuel f) (convMacroPipeTDL fuel args)
    | e => e
def convMacroPipeTDL (fuel : Nat) (es : List Ex) : List Ex :=
  match fuel with
  | 0 => es
  | fuel + 1 =>
    match es with
    | [] => []
    | e :: es => convMacroPipeTD fuel e :: convMacroPipeTDL fuel es
end

mutual
/-- `convert_macroexpand`: `f!(a…)` becomes `$(f(a…))` -/
def convMacro : Ex → Ex
  | .macroExpand f args => .escape (.app (convMacro f) (convMacroL args))
  | .app f args => .app (convMacro f) (convMacroL args)
  | .lam ps b => .lam ps (convMacro b)
  | .letE x v b => .letE x (convMacro v) (convMacro b)
  | .letT xs v b => .letT xs (convMacro v) (convMacro b)
  | .letrec x v b => .letrec x (convMacro v) (convMacro b)
  | .ite c t e => .ite (convMacro c) (convMacro t) (convMacro e)
  | .thenE a b => .thenE (convMacro a) (convMacro b)
  | .assign l r => .assign (convMacro l) (convMacro r)
  | .tup es => .tup (convMacroL es)
  | .proj e i => .proj (convMacro e) i
  | .arr es => .arr (convMacroL es)
  | .block e => .block (convMacro e)
  | .feed x e => .feed x (convMacro e)
  | .bracket e => .bracket (convMacro e)
  | .escape e => .escape (convMacro e)
  | .pipeM a f => .pipeM (convMacro a) (convMacro f)
  | .placeholder => .placeholder
  | .flt b => .flt b
  | .int i => .int i
  | .str s => .str s
  | .selfL => .selfL
  | .now => .now
  | .sr => .sr
  | .var x => .var x
def convMacroL : List Ex → List Ex
  | [] => []
  | e :: es => convMacro e :: convMacroL es
end

/-- `FeedId::get_name`: `none` = `FeedId::Global` -/
def feedName : Option Nat → String
  | none => "feed_global"
  | some i => s!"feed_id{i}"

def nextFeed : Option Nat → Option Nat
  | none => some 0
  | some i => some (i + 1)

def anyTrue (bs : List Bool) : Bool := bs.any id

mutual
/-- `convert_self`: result and `found_any`. `self` in global context is an error (`none`). -/
def convSelf (ctx : Option Nat) : Ex → Option (Ex × Bool)
  | .selfL => match ctx with
    | none => none
    | some _ => some (.var (feedName ctx), true)
  | .lam ps b =>
    let n := nextFeed ctx
    match convSelf n b with
    | none => none
    | some (b', found) => some (.lam ps (if found then .feed (feedName n) b' else b'), false)
  | .app f args =>
    match convSelf ctx f, convSelfL ctx args with
    | some (f', a), some (args', b) => some (.app f' args', a || b)
    | _, _ => none
  | .letE x v b =>
    match convSelf ctx v, convSelf ctx b with
    | some (v', a), some (b', c) => some (.letE x v' b', a || c)
    | _, _ => none
  | .letT xs v b =>
    match convSelf ctx v, convSelf ctx b with
    | some (v', a), some (b', c) => some (.letT xs v' b', a || c)
    | _, _ => none
  | .letrec x v b =>
    match convSelf ctx v, convSelf ctx b with
    | some (v', a), some (b', c) => some (.letrec x v' b', a || c)
    | _, _ => none
  | .ite c t e =>
    match convSelf ctx c, convSelf ctx t, convSelf ctx e with
    | some (c', a), some (t', b), some (e', d) => some (.ite c' t' e', a || b || d)
    | _, _, _ => none
  | .thenE a b =>
    match convSelf ctx a, convSelf ctx b with
    | some (a', x), some (b', y) => some (.thenE a' b', x || y)
    | _, _ => none
  | .assign l r =>
    match convSelf ctx l, convSelf ctx r with
    | some (l', x), some (r', y) => some (.assign l' r', x || y)
    | _, _ => none
  | .tup es => match convSelfL ctx es with
    | some (es', a) => some (.tup es', a)
    | none => none
  | .proj e i => match convSelf ctx e with
    | some (e', a) => some (.proj e' i, a)
    | none => none
  | .arr es => match convSelfL ctx es with
    | some (es', a) => some (.arr es', a)
    | none => none
  | .block e => match convSelf ctx e with
    | some (e', a) => some (.block e', a)
    | none => none
  | .bracket e => match convSelf ctx e with
    | some (e', a) => some (.bracket e', a)
    | none => none
  | .escape e => match convSelf ctx e with
    | some (e', a) => some (.escape e', a)
    | none => none
  | .feed _ _ => none            -- "Feed should not be shown before conversion" (panic)
  | .macroExpand f args =>
    match convSelf ctx f, convSelfL ctx args with
    | some (f', a), some (args', b) => some (.macroExpand f' args', a || b)
    | _, _ => none
  | .pipeM a f =>
    match convSelf ctx a, convSelf ctx f with
    | some (a', x), some (f', y) => some (.pipeM a' f', x || y)
    | _, _ => none
  | e => some (e, false)
def convSelfL (ctx : Option Nat) : List Ex → Option (List Ex × Bool)
  | [] => some ([], false)
  | e :: es =>
    match convSelf ctx e, convSelfL ctx es with
    | some (e', a), some (es', b) => some (e' :: es', a || b)
    | _, _ => none
end

/-! ## `translate_staging.rs` -/

/-- `make_apply(name, args)` -/
def ap (name : String) (args : List Ex) : Ex := .app (.var name) args

/-- placeholder for the integer literals that carry `TypeNodeId`s (types are not modelled) -/
def tyTag : Ex := .int 0

mutual
/-- `translate_code`: a stage-1 tree becomes stage-0 code that rebuilds it by combinator calls -/
def trCode : Ex → Ex
  | .escape e => trStage0 e
  | .bracket e => ap "code_block" [trCode e]          -- nested quote: "treat as a code_block"
  | .flt b => ap "code_lit_f" [.flt b]
  | .int i => ap "code_lit_i" [.int i]
  | .str s => ap "code_lit_s" [.str s]
  | .selfL => ap "code_self" []
  | .now => ap "code_now" []
  | .sr => ap "code_samplerate" []
  | .var x => ap "code_var" [.str x]
  | .app f [] => ap "code_app" [trCode f, .arr []]
  | .app f [a] => ap "code_app1" [trCode f, trCode a]
  | .app f [a, b] => ap "code_app2" [trCode f, trCode a, trCode b]
  | .app f (a :: b :: c :: rest) =>
    ap "code_app" [trCode f, .arr (trCode a :: trCode b :: trCode c :: trCodeL rest)]
  | .lam [] body => ap "code_lam_finish_typed" [.arr [], .arr [], tyTag, trCode body]
  | .lam [p] body => ap "code_lam1_finish_typed" [.str p, tyTag, tyTag, trCode body]
  | .lam (p :: q :: ps) body =>
    ap "code_lam_finish_typed" [.arr ((p :: q :: ps).map .str), .arr ((p :: q :: ps).map fun _ => tyTag), tyTag, trCode body]
  | .letE x v b => ap "code_let" [.str x, trCode v, trCode b]
  | .letT xs v b => ap "code_let_tuple" [.arr (xs.map .str), trCode v, trCode b]
  | .letrec x v b => ap "code_letrec_typed" [.str x, tyTag, trCode v, trCode b]
  | .ite c t e => ap "code_if" [trCode c, trCode t, trCode e]
  | .thenE a b => ap "code_then" [trCode a, trCode b]
  | .assign l r => ap "code_assign" [trCode l, trCode r]
  | .tup es => ap "code_tuple" [.arr (trCodeL es)]
  | .proj e i => ap "code_proj" [trCode e, .int i]
  | .arr es => ap "code_array" [.arr (trCodeL es)]
  | .feed x e => ap "code_feed" [.str x, trCode e]
  | .block e => ap "code_block" [trCode e]
  | .macroExpand f args => .macroExpand f args         -- "desugared-only node in translate_code": left as is
  | .pipeM a f => .pipeM a f                            -- (never reaches staging: removed by the front end)
  | .placeholder => .placeholder
def trCodeL : List Ex → List Ex
  | [] => []
  | e :: es => trCode e :: trCodeL es
/-- `translate_stage0`: stage-0 code is walked; a quote switches to `trCode` -/
def trStage0 : Ex → Ex
  | .bracket e => trCode e
  | .escape e => .escape e                              -- "unexpected Escape at stage 0": left as is
  | .app f args => .app (trStage0 f) (trStage0L args)
  | .lam ps b => .lam ps (trStage0 b)
  | .letE x v b => .letE x (trStage0 v) (trStage0 b)
  | .letT xs v b => .letT xs (trStage0 v) (trStage0 b)
  | .letrec x v b => .letrec x (trStage0 v) (trStage0 b)
  | .ite c t e => .ite (trStage0 c) (trStage0 t) (trStage0 e)
  | .thenE a b => .thenE (trStage0 a) (trStage0 b)
  | .assign l r => .assign (trStage0 l) (trStage0 r)
  | .tup es => .tup (trStage0L es)
  | .proj e i => .proj (trStage0 e) i
  | .arr es => .arr (trStage0L es)
  | .block e => .block (trStage0 e)
  | .feed x e => .feed x (trStage0 e)
  | .flt b => .flt b
  | .int i => .int i
  | .str s => .str s
  | .selfL => .selfL
  | .now => .now
  | .sr => .sr
  | .var x => .var x
  | .macroExpand f args => .macroExpand f args
  | .pipeM a f => .pipeM a f
  | .placeholder => .placeholder
def trStage0L : List Ex → List Ex
  | [] => []
  | e :: es => trStage0 e :: trStage0L es
end

/-! ### what a quote means: hole filling

`fillWith h t` is the template `t` with every splice `$m` replaced by the code `h m` — plain substitution of trees: no
name of `t` or of the inserted code is changed (this is the *specification* of expansion, and the hand-written
expansion of a macro call; `Proofs/Stage.lean::fills` proves that the combinator encoding computes exactly this). A
nested quote becomes a block (as `translate_code` does); a macro call left in the template has no meaning. -/
mutual
def fillWith (h : Ex → Option Ex) : Ex → Option Ex
  | .escape m => h m
  | .bracket e => do let e' ← fillWith h e; pure (.block e')
  | .macroExpand _ _ => none
  | .pipeM _ _ => none
  | .placeholder => none
  | .flt b => some (.flt b)
  | .int i => some (.int i)
  | .str s => some (.str s)
  | .selfL => some .selfL
  | .now => some .now
  | .sr => some .sr
  | .var x => some (.var x)
  | .app f args => do let f' ← fillWith h f; let a' ← fillWithL h args; pure (.app f' a')
  | .lam ps b => do let b' ← fillWith h b; pure (.lam ps b')
  | .letE x v b => do let v' ← fillWith h v; let b' ← fillWith h b; pure (.letE x v' b')
  | .letT xs v b => do let v' ← fillWith h v; let b' ← fillWith h b; pure (.letT xs v' b')
  | .letrec x v b => do let v' ← fillWith h v; let b' ← fillWith h b; pure (.letrec x v' b')
  | .ite c t e => do let c' ← fillWith h c; let t' ← fillWith h t; let e' ← fillWith h e; pure (.ite c' t' e')
  | .thenE a b => do let a' ← fillWith h a; let b' ← fillWith h b; pure (.thenE a' b')
  | .assign l r => do let l' ← fillWith h l; let r' ← fillWith h r; pure (.assign l' r')
  | .tup es => do let es' ← fillWithL h es; pure (.tup es')
  | .proj e i => do let e' ← fillWith h e; pure (.proj e' i)
  | .arr es => do let es' ← fillWithL h es; pure (.arr es')
  | .block e => do let e' ← fillWith h e; pure (.block e')
  | .feed x e => do let e' ← fillWith h e; pure (.feed x e')
def fillWithL (h : Ex → Option Ex) : List Ex → Option (List Ex)
  | [] => some []
  | e :: es => do let e' ← fillWith h e; let es' ← fillWithL h es; pure (e' :: es')
end

/-- the splices of a template whose content is a macro-stage variable bound to code: `$x` stands for that code -/
def holeOracle (ρ : List (String × Option Ex)) : Ex → Option Ex
  | .var x => (ρ.lookup x).join
  | _ => none

/-! ### nested tuple patterns (`translate_let_tuple_pattern`)

`Ex.letT` has flat patterns; a nested pattern `let ((a, b), c) = v` inside quoted code is flattened by the translator
with temporaries `__dt<n>` taken from a counter that is never reset (thread-local `DESUGAR_COUNTER`). Modelled apart,
on already translated value / body, exactly like the Rust function. -/

inductive Pat where
  | single (x : String)
  | placeholder
  | tuple (ps : List Pat)
deriving Repr, Inhabited

def dtName (n : Nat) : String := "__dt" ++ toString n

/-- first loop of `translate_let_tuple_pattern`: top-level names, work list of nested sub-patterns, counter -/
def dtTop (n : Nat) : List Pat → List String × List (List Pat × String) × Nat
  | [] => ([], [], n)
  | .single x :: ps => let r := dtTop n ps; (x :: r.1, r.2.1, r.2.2)
  | .placeholder :: ps => let r := dtTop n ps; ("_" :: r.1, r.2.1, r.2.2)
  | .tuple sub :: ps => let r := dtTop (n + 1) ps; (dtName n :: r.1, (sub, dtName n) :: r.2.1, r.2.2)

/-- `translate_let_tuple_pattern(pats, translated_val, translated_body)`; `depth` bounds the nesting of the pattern -/
def trLetTuple (depth : Nat) (n : Nat) (pats : List Pat) (val body : Ex) : Ex × Nat :=
  match depth with
  | 0 => (ap "code_let_tuple" [.arr [], val, body], n)
  | depth + 1 =>
    let (names, nested, n1) := dtTop n pats
    -- nested tuples are processed in reverse order, each wrapping the body built so far
    let (body', n2) := nested.reverse.foldl
      (fun (acc : Ex × Nat) (w : List Pat × String) => trLetTuple depth acc.2 w.1 (ap "code_var" [.str w.2]) acc.1) (body, n1)
    (ap "code_let_tuple" [.arr (names.map .str), val, body'], n2)

/-! ## stage-0 execution (`compile_and_execute_stage0`) -/

/-- external functions of the macro stage: the code combinators of `codegen_combinator_signatures` that this model
implements, `lift`, and the arithmetic intrinsics -/
inductive Ext where
  | codeLitF | codeLitI | codeLitS | codeVar | codeApp | codeApp1 | codeApp2
  | codeLam1 | codeLam | codeLet | codeLetTuple | codeLetrec
  | codeIf | codeThen | codeAssign | codeTuple | codeProj | codeArray | codeFeed | codeBlock
  | codeSelf | codeNow | codeSamplerate | liftF
  | arith (op : Core.BinOp)
deriving Repr, Inhabited, DecidableEq

/-- run-time values of the macro stage. Code values are trees (the VM holds an index into `Machine::code_values`). -/
inductive V0 where
  | num (bits : UInt64)
  | int (i : Nat)
  | str (s : String)
  | arr (vs : List V0)
  | tup (vs : List V0)
  | code (e : Ex)
  /-- closure; `self = some f` for a `letrec`-bound function (it sees itself under the name `f`) -/
  | clo (ps : List String) (body : Ex) (env : List (String × V0)) (self : Option String)
  /-- external function: code combinator, arithmetic intrinsic, `lift` -/
  | ext (c : Ext)
deriving Repr, Inhabited

abbrev Env0 := List (String × V0)
abbrev R0 := Except String

def asCode : V0 → Option Ex | .code e => some e | _ => none
def asStr : V0 → Option String | .str s => some s | _ => none

/-- name → external function (the VM's `ext_fun_table` lookup) -/
def extOf : String → Option Ext
  | "code_lit_f" => some .codeLitF | "code_lit_i" => some .codeLitI | "code_lit_s" => some .codeLitS
  | "code_var" => some .codeVar | "code_app" => some .codeApp | "code_app1" => some .codeApp1
  | "code_app2" => some .codeApp2 | "code_lam1_finish_typed" => some .codeLam1
  | "code_lam_finish_typed" => some .codeLam | "code_let" => some .codeLet
  | "code_let_tuple" => some .codeLetTuple | "code_letrec_typed" => some .codeLetrec
  | "code_if" => some .codeIf | "code_then" => some .codeThen | "code_assign" => some .codeAssign
  | "code_tuple" => some .codeTuple | "code_proj" => some .codeProj | "code_array" => some .codeArray
  | "code_feed" => some .codeFeed | "code_block" => some .codeBlock | "code_self" => some .codeSelf
  | "code_now" => some .codeNow | "code_samplerate" => some .codeSamplerate
  -- `lift_f` / `code_lift_f` are `code_lit_f`; the polymorphic `lift` applied to a number likewise
  | "code_lift_f" => some .liftF | "lift_f" => some .liftF | "lift" => some .liftF
  | "add" => some (.arith .add) | "sub" => some (.arith .sub) | "mult" => some (.arith .mul)
  | "div" => some (.arith .div) | "lt" => some (.arith .lt) | "le" => some (.arith .le)
  | "gt" => some (.arith .gt) | "ge" => some (.arith .ge) | "eq" => some (.arith .eq)
  | "ne" => some (.arith .ne) | "and" => some (.arith .and) | "or" => some (.arith .or)
  | _ => none

/-- the combinator names this model implements (compared with the list extracted from the source) -/
def modelledCombinators : List String :=
  ["code_lit_f", "code_lit_i", "code_lit_s", "code_var", "code_app", "code_app1", "code_app2",
   "code_lam1_finish_typed", "code_lam_finish_typed", "code_let", "code_let_tuple", "code_letrec_typed",
   "code_if", "code_then", "code_assign", "code_tuple", "code_proj", "code_array", "code_feed", "code_block",
   "code_self", "code_now", "code_samplerate", "code_lift_f", "lift_f", "lift"]

/-- combinators that `translate_code` emits for forms outside this model's fragment (records, array access, default
parameters, `match`, a `let` whose pattern contains a record: `code_let_pattern`, repair of finding S7) -/
def unmodelledCombinators : List String :=
  ["code_array_access", "code_field_access", "code_imcomplete_record", "code_lam_finish_defaults_typed",
   "code_let_pattern", "code_match", "code_record", "code_record_update"]

/-- `Expr` variants of `ast.rs` that `Ex` has a constructor for (`QualifiedVar` is mangled to `var`; `BinOp`, `UniOp`,
`Paren` are removed by `convert_operators` before staging) … -/
def modelledForms : List String :=
  ["Literal", "Var", "QualifiedVar", "Block", "Tuple", "Proj", "ArrayLiteral", "Apply", "MacroExpand", "BinOp", "UniOp",
   "Paren", "Lambda", "Assign", "Then", "Feed", "Let", "LetRec", "If", "Bracket", "Escape"]
/-- … and those outside the fragment -/
def unmodelledForms : List String :=
  ["ArrayAccess", "RecordLiteral", "ImcompleteRecord", "RecordUpdate", "FieldAccess", "Match", "Error"]

/-- `codegen_combinators.rs`: every combinator reads its arguments and builds ONE tree node; names come in as strings -/
def applyExt (c : Ext) (vs : List V0) : R0 V0 :=
  match c, vs with
  | .codeLitF, [.num b] => .ok (.code (.flt b))
  | .codeLitI, [.int i] => .ok (.code (.int i))
  | .codeLitS, [.str s] => .ok (.code (.str s))
  | .codeVar, [.str x] => .ok (.code (.var x))
  | .codeApp, [.code f, .arr as] =>
    match as.mapM asCode with
    | some es => .ok (.code (.app f es))
    | none => .error "code_app: argument is not code"
  | .codeApp1, [.code f, .code a] => .ok (.code (.app f [a]))
  | .codeApp2, [.code f, .code a, .code b] => .ok (.code (.app f [a, b]))
  | .codeLam1, [.str p, _, _, .code b] => .ok (.code (.lam [p] b))
  | .codeLam, [.arr ns, _, _, .code b] =>
    match ns.mapM asStr with
    | some ps => .ok (.code (.lam ps b))
    | none => .error "code_lam_finish_typed: name is not a string"
  | .codeLet, [.str x, .code v, .code b] => .ok (.code (.letE x v b))
  | .codeLetTuple, [.arr ns, .code v, .code b] =>
    match ns.mapM asStr with
    | some xs => .ok (.code (.letT xs v b))
    | none => .error "code_let_tuple: name is not a string"
  | .codeLetrec, [.str x, _, .code v, .code b] => .ok (.code (.letrec x v b))
  | .codeIf, [.code c, .code t, .code e] => .ok (.code (.ite c t e))
  | .codeThen, [.code a, .code b] => .ok (.code (.thenE a b))
  | .codeAssign, [.code l, .code r] => .ok (.code (.assign l r))
  | .codeTuple, [.arr es] =>
    match es.mapM asCode with
    | some es => .ok (.code (.tup es))
    | none => .error "code_tuple: element is not code"
  | .codeProj, [.code e, .int i] => .ok (.code (.proj e i))
  | .codeArray, [.arr es] =>
    match es.mapM asCode with
    | some es => .ok (.code (.arr es))
    | none => .error "code_array: element is not code"
  | .codeFeed, [.str x, .code e] => .ok (.code (.feed x e))
  | .codeBlock, [.code e] => .ok (.code (.block e))
  | .codeSelf, [] => .ok (.code .selfL)
  | .codeNow, [] => .ok (.code .now)
  | .codeSamplerate, [] => .ok (.code .sr)
  | .liftF, [.num b] => .ok (.code (.flt b))
  | .arith o, [.num a, .num b] => .ok (.num (Core.evalBin o a b))
  | _, _ => .error "bad call of an external function"

def bindParams (env : Env0) : List String → List V0 → Env0
  | x :: xs, v :: vs => bindParams ((x, v) :: env) xs vs
  | _, _ => env

/-- tuple pattern: `_` binds nothing -/
def bindTuple (env : Env0) : List String → List V0 → Env0
  | x :: xs, v :: vs => bindTuple (if x == "_" then env else (x, v) :: env) xs vs
  | _, _ => env

mutual
/-- call-by-value evaluation of the pure macro-stage fragment (numbers, code, functions, tuples, arrays) -/
def ev0 (fuel : Nat) (env : Env0) (e : Ex) : R0 V0 :=
  match fuel with
  | 0 => .error "fuel"
  | fuel + 1 =>
    match e with
    | .flt b => .ok (.num b)
    | .int i => .ok (.int i)
    | .str s => .ok (.str s)
    | .var x =>
      match env.lookup x with
      | some v => .ok v
      | none => match extOf x with
        | some c => .ok (.ext c)
        | none => .error s!"unbound:{x}"
    | .app f args =>
      match ev0 fuel env f with
      | .error m => .error m
      | .ok fv =>
        match ev0L fuel env args with
        | .error m => .error m
        | .ok vs => apply0 fuel fv vs
    | .lam ps b => .ok (.clo ps b env none)
    | .letE x v b =>
      match ev0 fuel env v with
      | .error m => .error m
      | .ok vv => ev0 fuel (if x == "_" then env else (x, vv) :: env) b
    | .letT xs v b =>
      match ev0 fuel env v with
      | .error m => .error m
      | .ok (.tup vs) => if vs.length == xs.length then ev0 fuel (bindTuple env xs vs) b else .error "tuple pattern arity"
      | .ok _ => .error "tuple pattern"
    | .letrec x v b =>
      match ev0 fuel env v with
      | .error m => .error m
      | .ok (.clo ps body cenv _) => ev0 fuel ((x, .clo ps body cenv (some x)) :: env) b
      | .ok vv => ev0 fuel ((x, vv) :: env) b
    | .ite c t e =>
      match ev0 fuel env c with
      | .error m => .error m
      | .ok (.num x) => if Float.ofBits x > 0.0 then ev0 fuel env t else ev0 fuel env e
      | .ok _ => .error "condition"
    | .thenE a b =>
      match ev0 fuel env a with
      | .error m => .error m
      | .ok _ => ev0 fuel env b
    | .tup es =>
      match ev0L fuel env es with
      | .error m => .error m
      | .ok vs => .ok (.tup vs)
    | .proj a i =>
      match ev0 fuel env a with
      | .error m => .error m
      | .ok (.tup vs) => match vs[i]? with
        | some v => .ok v
        | none => .error "projection index"
      | .ok _ => .error "projection"
    | .arr es =>
      match ev0L fuel env es with
      | .error m => .error m
      | .ok vs => .ok (.arr vs)
    | .block a => ev0 fuel env a
    | .selfL => .error "self at macro stage"
    | .now => .error "now at macro stage"
    | .sr => .error "samplerate at macro stage"
    | .assign _ _ => .error "assignment at macro stage (outside the pure fragment)"
    | .feed _ _ => .error "feed at macro stage"
    | .bracket _ => .error "quote left after translation"
    | .escape _ => .error "splice at macro stage"
    | .macroExpand _ _ => .error "macro call left after conversion"
    | .pipeM _ _ => .error "macro pipe left after conversion"
    | .placeholder => .error "placeholder left after conversion"
def ev0L (fuel : Nat) (env : Env0) (es : List Ex) : R0 (List V0) :=
  match fuel with
  | 0 => .error "fuel"
  | fuel + 1 =>
    match es with
    | [] => .ok []
    | e :: es =>
      match ev0 fuel env e with
      | .error m => .error m
      | .ok v =>
        match ev0L fuel env es with
        | .error m => .error m
        | .ok vs => .ok (v :: vs)
def apply0 (fuel : Nat) (f : V0) (vs : List V0) : R0 V0 :=
  match fuel with
  | 0 => .error "fuel"
  | fuel + 1 =>
    match f with
    | .ext c => applyExt c vs
    | .clo ps body cenv self =>
      if ps.length != vs.length then .error "argument count" else
      let cenv := match self with
        | some g => (g, f) :: cenv
        | none => cenv
      ev0 fuel (bindParams cenv ps vs) body
    | _ => .error "application of a non-function"
end

/-- the front-end passes between parsing and staging -/
def frontEnd (src : Ex) : Option Ex :=
  (convSelf none (convMacro (convMacroPipe (convPlaceholder src)))).map (·.1)

/-- `wrap_to_staged_expr` + `translate_staging::translate` + stage-0 execution: the stage-1 tree the compiler goes on with -/
def expandWith (fuel : Nat) (e : Ex) : R0 Ex :=
  match ev0 fuel [] (trStage0 (.bracket e)) with
  | .ok (.code c) => .ok c
  | .ok _ => .error "stage-0 result is not code"
  | .error m => .error m

def expand (src : Ex) (fuel : Nat := 100000) : R0 Ex :=
  match frontEnd src with
  | none => .error "front end: self in global context"
  | some e => expandWith fuel e

end Mimium.Stage
