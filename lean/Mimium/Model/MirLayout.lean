import Mimium.Model.RustGen
/-!
# the block numbering `mirgen.rs` gives to nested `if` / `match` expressions

`Expr::If` (`eval_expr`): the condition is evaluated in the current block `c` (which then ends with `JmpIf`);
`eval_block(then)` opens block `c+1`; `eval_block(else)` opens the block after the last block of the then-arm; the merge
block (with the `Phi`) is opened after the last block of the else-arm; `add_new_basicblock` always appends, and the
current block is always the last one.  `eval_match`: the scrutinee in the current block (ending with `Switch`), one
new block per arm in source order (the wildcard arm last), the merge block (with `PhiSwitch`) after the last arm.

`Sh` is the shape of an expression as far as this numbering is concerned; `lay sh cur` returns the branch arms in the
order `collect_fallthrough_edges` visits them (through `armsOfIns`, the generator's own computation) and the new
current block.  The arms of a `match` are the right-nested `arm … (arm … noarm)` under `sw`.
-/
namespace Mimium.RustGen

inductive Sh where
  | leaf                       -- no control flow inside
  | seq (a b : Sh)             -- `a` evaluated before `b` (operands, statements, arguments)
  | ite (c t e : Sh)
  | sw (s : Sh) (arms : Sh)
  | arm (a rest : Sh)
  | noarm
deriving Repr, DecidableEq, Inhabited

structure Lay where
  starts : List Nat            -- first blocks of the arms of the enclosing `match` laid out so far
  arms : List Arm
  cur : Nat
deriving Repr, DecidableEq

def lay : Sh → Nat → Lay
  | .leaf, cur => ⟨[], [], cur⟩
  | .noarm, cur => ⟨[], [], cur⟩
  | .seq a b, cur =>
    let A := lay a cur
    let B := lay b A.cur
    ⟨[], A.arms ++ B.arms, B.cur⟩
  | .ite c t e, cur =>
    let C := lay c cur
    let T := lay t (C.cur + 1)
    let E := lay e (T.cur + 1)
    ⟨[], C.arms ++ (armsOfIns (.jmpIf 0 (C.cur + 1) (T.cur + 1) (E.cur + 1)) ++ (T.arms ++ E.arms)), E.cur + 1⟩
  | .sw s as, cur =>
    let S := lay s cur
    let L := lay as S.cur
    ⟨[], S.arms ++ (armsOfIns (.switch 0 (L.starts.map fun b => ((0 : Int), b)) none (L.cur + 1)) ++ L.arms), L.cur + 1⟩
  | .arm a rest, cur =>
    let A := lay a (cur + 1)
    let R := lay rest A.cur
    ⟨(cur + 1) :: R.starts, A.arms ++ R.arms, R.cur⟩

end Mimium.RustGen
