/-!
# M2a — the state cells: `mem`, `delay` ring buffer

Port of `runtime/vm/ringbuffer.rs` (`Ringbuffer::process`) — the WASM host function `state_delay_host`
is ported in `Model/StateMachine.lean` and proved equal to it.
Words are `UInt64`; indices are `Nat` (the stored `u64` indices stay below the ring length).
-/
namespace Mimium.Cells

structure Ring where
  rd : Nat
  wr : Nat
  data : List UInt64
deriving Repr, Inhabited, DecidableEq

def Ring.zero (n : Nat) : Ring := ⟨0, 0, List.replicate n 0⟩

/-- `delay_time.clamp(0.0, (len-1) as f64) as u64`: NaN and negatives give 0, large values saturate at `len-1`. -/
def clampTime (tbits : UInt64) (len : Nat) : Nat :=
  let t := Float.ofBits tbits
  let mx := Float.ofNat (len - 1)
  let c := if t < 0.0 then 0.0 else if t > mx then mx else t
  c.toUInt64.toNat

/-- the index arithmetic of `Ringbuffer::process` for an already clamped integral delay `d` -/
def Ring.processD (r : Ring) (input : UInt64) (d : Nat) : UInt64 × Ring :=
  let len := r.data.length
  if len = 0 then (0, r) else
  let w := r.wr % len
  let rdi := (w + len - d) % len
  let res := r.data.getD rdi 0
  (res, ⟨rdi, (w + 1) % len, r.data.set w input⟩)

/-- `Ringbuffer::process(input, time_raw)` -/
def Ring.process (r : Ring) (input : UInt64) (tbits : UInt64) : UInt64 × Ring :=
  r.processD input (clampTime tbits r.data.length)

/-- flat word image of a ring: read index, write index, data (layout of `StateTree::Delay`) -/
def Ring.words (r : Ring) : List UInt64 := [r.rd.toUInt64, r.wr.toUInt64] ++ r.data

end Mimium.Cells
