import Mimium.Model.CstPrintSpec
/-!
# Shapes the CST parser accepts without an error although they are no programs (`strictTree`), and `keepsAll` per node kind

`parse_cst` is lenient at a few places: it reports NO error for
* a comma that follows no item in a parameter list or between the bars of a lambda (`fn f(a,,b)`, `fn f(,)`, `|a,,| e`, `|,| e`:
  `parse_param_list` / `parse_lambda_params` skip a comma wherever they see one);
* an assignment where `parse_expr` is called for a condition, a then-branch or a macro argument (`if x = 1 {2}`, `if (c) y = 2`,
  `f!(x = 1)`: `parse_assignment_expr` leaves TWO children — the left-hand side and an `AssignExpr` node — in the parent).
The printer's loops have no slot for these children: the comma's comments, the `AssignExpr` or the branch that follows it are dropped
(`C14_lenient_shapes_lose_content`, witnesses replayed on the real formatter).  `strictTree` is the decidable predicate on the TREE
that excludes exactly these shapes; `C14_parsed_trees_keep_all` needs it next to "no parser error".

`keepsAllOn S` is `keepsAll` restricted to the node kinds in `S` (`keepsAllOn (fun _ => true) = keepsAll`).
-/
namespace Mimium.CstPrint
open Mimium.Gen (Kind SK)
open Mimium.Cst (Green)

/-- no `AssignExpr` child in front of the `else` token (condition and then-branch are one child each) -/
def strictIf (c : Ctx) (cs : List Green) : Bool :=
  (cs.takeWhile (fun g => !(tokKind c g == some .Else))).all (fun g => !isNodeOf g [.AssignExpr])

/-- every comma follows an item: `prevItem` = the previous child is neither the opening delimiter nor a comma -/
def commasFollowItems (c : Ctx) : Bool → List Green → Bool
  | _, [] => true
  | prevItem, g :: gs =>
    if tokKind c g == some .Comma then prevItem && commasFollowItems c false gs
    else commasFollowItems c true gs

/-- the children between the two `|` of a lambda -/
def lambdaParams (c : Ctx) (cs : List Green) : List Green :=
  (cs.drop 1).takeWhile (fun g => !(tokKind c g == some .LambdaArgBeginEnd))

def strictAt (c : Ctx) (k : SK) (cs : List Green) : Bool :=
  match k with
  | .IfExpr => strictIf c cs
  | .MacroExpansion => cs.all (fun g => !isNodeOf g [.AssignExpr])
  | .ParamList => commasFollowItems c false (cs.drop 1)
  | .LambdaExpr => commasFollowItems c false (lambdaParams c cs)
  | _ => true

def strictNode (c : Ctx) (kind : Nat) (cs : List Green) : Bool :=
  match Gen.skOfNat kind with
  | some k => strictAt c k cs
  | none => true

mutual
/-- no node of the tree has one of the lenient shapes -/
def strictTree (c : Ctx) : Green → Bool
  | .token _ _ => true
  | .node k cs => strictNode c k cs && strictTreeL c cs
def strictTreeL (c : Ctx) : List Green → Bool
  | [] => true
  | g :: gs => strictTree c g && strictTreeL c gs
end

/-- `nodeKeeps` asked only of the kinds in `S` -/
def nodeKeepsOn (S : SK → Bool) (c : Ctx) (kind : Nat) (cs : List Ch) : Bool :=
  match Gen.skOfNat kind with
  | some k => !S k || pfKeeps c (dispatch k) cs
  | none => false

mutual
def keepsAllOn (S : SK → Bool) (c : Ctx) : Green → Bool
  | .token _ _ => true
  | .node k cs => nodeKeepsOn S c k (chL c cs) && keepsAllOnL S c cs
def keepsAllOnL (S : SK → Bool) (c : Ctx) : List Green → Bool
  | [] => true
  | g :: gs => keepsAllOn S c g && keepsAllOnL S c gs
end

/-- the node kinds for which the shape theorem (`C14_parsed_trees_keep_all`) is proved: all of them -/
def covered : SK → Bool := fun _ => true

mutual
/-- every node of the tree has a kind in `S` -/
def usesOnly (S : SK → Bool) : Green → Bool
  | .token _ _ => true
  | .node k cs => (match Gen.skOfNat k with | some sk => S sk | none => false) && usesOnlyL S cs
def usesOnlyL (S : SK → Bool) : List Green → Bool
  | [] => true
  | g :: gs => usesOnly S g && usesOnlyL S gs
end

end Mimium.CstPrint
