import Mimium.Model.Lexer
import Mimium.Model.Preparse
import Mimium.Model.CstBuilder
/-! Text codec of the C13 correspondence protocol and the executable judge of the implementation's output. -/
namespace Mimium.LexerIO
open Mimium.Gen (Kind)
open Mimium.Lexer Mimium.Preparse

def hexVal (c : Char) : Nat :=
  if '0' ≤ c ∧ c ≤ '9' then c.toNat - 48 else if 'a' ≤ c ∧ c ≤ 'f' then c.toNat - 87 else 0

def hexBytes : List Char → ByteArray → ByteArray
  | a :: b :: rest, acc => hexBytes rest (acc.push (UInt8.ofNat (hexVal a * 16 + hexVal b)))
  | _, acc => acc

/-- hex-encoded UTF-8 → characters (`-` is the empty string) -/
def decodeHex (s : String) : Option (List Char) :=
  if s == "-" then some [] else
  match String.fromUTF8? (hexBytes s.toList ByteArray.empty) with
  | some str => some str.toList
  | none => none

def asciiStart (c : Char) : Bool := ('a' ≤ c ∧ c ≤ 'z') ∨ ('A' ≤ c ∧ c ≤ 'Z')
def asciiContinue (c : Char) : Bool := asciiStart c ∨ ('0' ≤ c ∧ c ≤ '9') ∨ c = '_'

/-- classes: ASCII part fixed, non-ASCII part as reported per case by the harness (`cp:sc` with s,c ∈ {0,1}) -/
def parseClasses (s : String) : Classes :=
  let ents : List (Nat × Bool × Bool) := (s.splitOn ",").filterMap fun e =>
    match e.splitOn ":" with
    | [cp, fl] => match cp.toNat?, fl.toList with
      | some n, [a, b] => some (n, a == '1', b == '1')
      | _, _ => none
    | _ => none
  let look (c : Char) : Bool × Bool := match ents.find? (·.1 == c.toNat) with
    | some e => e.2
    | none => (false, false)
  { xidStart := fun c => if c.toNat < 128 then asciiStart c else (look c).1
    xidContinue := fun c => if c.toNat < 128 then asciiContinue c else (look c).2 }

def showTokens (ts : List Token) : String :=
  if ts.isEmpty then "-" else ",".intercalate (ts.map fun t => s!"{t.kind.name}:{t.start}:{t.len}")

def showNats (xs : List Nat) : String :=
  if xs.isEmpty then "-" else ",".intercalate (xs.map toString)

def insertSorted (e : Nat × List Nat) : TMap → TMap
  | [] => [e]
  | x :: xs => if e.1 ≤ x.1 then e :: x :: xs else x :: insertSorted e xs

def showMap (m : TMap) : String :=
  if m.isEmpty then "-" else
  ",".intercalate ((m.foldr insertSorted []).map fun e => s!"{e.1}=" ++ ";".intercalate (e.2.map toString))

def kindOfName? (s : String) : Option Kind := Gen.allKinds.find? (·.name == s)

def parseTokens (s : String) : Option (List Token) :=
  if s == "-" then some [] else
  (s.splitOn ",").mapM fun e => match e.splitOn ":" with
    | [k, a, b] => do
      let k ← kindOfName? k
      let a ← a.toNat?
      let b ← b.toNat?
      pure ⟨k, a, b⟩
    | _ => none

def parseNats (s : String) : Option (List Nat) :=
  if s == "-" then some [] else (s.splitOn ",").mapM (·.toNat?)

def parseMap (s : String) : Option TMap :=
  if s == "-" then some [] else
  (s.splitOn ",").mapM fun e => match e.splitOn "=" with
    | [k, vs] => do
      let k ← k.toNat?
      let vs ← (vs.splitOn ";").mapM (·.toNat?)
      pure (k, vs)
    | _ => none

/-! ## Executable judge of an implementation output (independent of the model's own tokens) -/

/-- byte offsets that are character boundaries of `s` (including 0 and the end) -/
def boundaries (pos : Nat) : List Char → List Nat
  | [] => [pos]
  | c :: cs => pos :: boundaries (pos + c.utf8Size) cs

/-- contiguity from `pos`, returning the end position -/
def contigEnd : Nat → List Token → Option Nat
  | p, [] => some p
  | p, t :: ts => if t.start = p then contigEnd (p + t.len) ts else none

/-- the tiling clause of C13, checked on a concrete token list -/
def tilesOk (s : List Char) (ts : List Token) : Bool :=
  let n := utf8Len s
  let body := ts.dropLast
  let bs := boundaries 0 s
  ts.getLast? == some ⟨Kind.Eof, n, 0⟩ &&
  contigEnd 0 body == some n &&
  body.all (fun t => t.len > 0 && t.kind != Kind.Eof && bs.contains t.start) &&
  (ts.map (·.text s)).flatten == s

/-- the trivia clause on a concrete `PreParsedTokens`: every trivia token outside `dropped` is attached exactly once,
to the closest syntax token on the stated side; returns (ok, number of trivia tokens, number in the dropped class,
number of *unexpected* unattached/misattached) -/
def neighbourOk (ks : List Kind) (r : Result) (i : Nat) : Bool :=
  -- trailing owner k: tokenIndices[k] < i and no syntax token in between; leading owner k: i < tokenIndices[k], none between
  let tr := r.trailing.pairs.filter (·.2 == i)
  let ld := r.leading.pairs.filter (·.2 == i)
  tr.all (fun p => match r.tokenIndices[p.1]? with
    | some ti => ti < i && ((ks.drop (ti + 1)).take (i - ti - 1)).all (fun k => !isSyntax k)
    | none => false) &&
  ld.all (fun p => match r.tokenIndices[p.1]? with
    | some ti => i < ti && ((ks.drop (i + 1)).take (ti - i - 1)).all (fun k => !isSyntax k)
    | none => false)

structure TriviaReport where
  trivia : Nat := 0
  droppedClass : Nat := 0
  bad : Nat := 0
  firstBad : Option Nat := none

def triviaJudge (ks : List Kind) (r : Result) : TriviaReport := Id.run do
  let mut rep : TriviaReport := {}
  let mut i := 0
  -- running facts to keep the judge linear on big files
  for k in ks do
    if k.isTrivia then
      rep := { rep with trivia := rep.trivia + 1 }
    i := i + 1
  -- attached indices must be trivia indices < length (no syntax token hidden in a map)
  let vals := r.leading.vals ++ r.trailing.vals
  let n := ks.length
  let cnt : Array Nat := vals.foldl (fun (a : Array Nat) v => if v < n then a.modify v (· + 1) else a) (Array.replicate n 0)
  let oob := vals.any (· ≥ n)
  let mut seenSyntax := false
  -- dropped class, computed in one backward pass: droppedFrom(ks.drop i)
  let dfrom : Array Bool := Id.run do
    let mut a := Array.replicate (n + 1) true
    let mut j := n
    for k in ks.reverse do
      j := j - 1
      let v := if isSyntax k then false else if k = Kind.LineBreak then true else a[j + 1]!
      a := a.set! j v
    return a
  i := 0
  for k in ks do
    let c := cnt[i]!
    if k.isTrivia then
      let d := !seenSyntax && dfrom[i]!
      if d then rep := { rep with droppedClass := rep.droppedClass + 1 }
      let good := if d then c == 0 else c == 1 && neighbourOk ks r i
      if !good then rep := { rep with bad := rep.bad + 1, firstBad := rep.firstBad <|> some i }
    else if c != 0 then
      rep := { rep with bad := rep.bad + 1, firstBad := rep.firstBad <|> some i }
    if isSyntax k then seenSyntax := true
    i := i + 1
  if oob then rep := { rep with bad := rep.bad + 1 }
  return rep

/-- syntax token indices in order -/
def syntaxIndices (ks : List Kind) : List Nat :=
  (ks.zipIdx).filterMap fun (k, i) => if isSyntax k then some i else none

end Mimium.LexerIO
