import Mimium.Gen.FfiVariants
/-!
# Model of the plugin FFI encoding (C20)

Hand port of
* `runtime/ffi_serde.rs`  — `enum FfiValue`, `Value::to_ffi_value`, `FfiValue::to_value`, `serialize_value`,
  `deserialize_value`, `serialize_macro_args`, `deserialize_macro_args`;
* the part of `bincode` 1.3.3 (legacy `bincode::serialize` / `bincode::deserialize`: fixed-width little-endian integers,
  `u64` lengths, `u32` variant index, `u8` bool / option tag, trailing bytes allowed, no size limit) and of the
  serde-derived impls that those functions go through;
* `slotmap` 1.0.7 `KeyData` serde (`{idx:u32, version:u32}`; the *deserializer normalises*: `version := 1` when
  `idx = u32::MAX`, then `version |= 1`).

Numbers are raw 64-bit patterns (`f64::to_bits`), so NaN payloads, ±0, ±∞ are ordinary values.
Strings are Lean `String`s (= sequences of Unicode scalar values = Rust `String`), encoded as UTF-8.
Variant indices come from `Mimium.Gen.Ffi` (re-extracted from the Rust source on every run).
-/
namespace Mimium.Ffi
open Mimium.Gen.Ffi

abbrev Bytes := List UInt8

/-! ## fixed-width little-endian integers -/

/-- `k` little-endian bytes of `n` -/
def leBytes : Nat → Nat → Bytes
  | 0, _ => []
  | k+1, n => UInt8.ofNat (n % 256) :: leBytes k (n / 256)

/-- read `k` little-endian bytes -/
def readLE : Nat → Bytes → Option (Nat × Bytes)
  | 0, bs => some (0, bs)
  | _+1, [] => none
  | k+1, b :: bs =>
    match readLE k bs with
    | none => none
    | some (n, rest) => some (b.toNat + 256 * n, rest)

def encU32 (x : UInt32) : Bytes := leBytes 4 x.toNat
def encU64 (x : UInt64) : Bytes := leBytes 8 x.toNat

def readU32 (bs : Bytes) : Option (UInt32 × Bytes) :=
  match readLE 4 bs with
  | none => none
  | some (n, rest) => some (UInt32.ofNat n, rest)

def readU64 (bs : Bytes) : Option (UInt64 × Bytes) :=
  match readLE 8 bs with
  | none => none
  | some (n, rest) => some (UInt64.ofNat n, rest)

/-- a `usize` length (bincode writes it as `u64`) -/
def encLen (n : Nat) : Bytes := leBytes 8 n

def readLen (bs : Bytes) : Option (Nat × Bytes) := readLE 8 bs

/-- split off exactly `n` bytes (`SliceReader::get_byte_buffer`: `UnexpectedEof` when fewer remain) -/
def takeExact : Nat → Bytes → Option (Bytes × Bytes)
  | 0, bs => some ([], bs)
  | _+1, [] => none
  | n+1, b :: bs =>
    match takeExact n bs with
    | none => none
    | some (xs, rest) => some (b :: xs, rest)

/-! ## strings: `u64` byte length, then UTF-8 (`String::from_utf8` on the way back) -/

def strBytes (s : String) : Bytes := s.toUTF8.data.toList

def ofBytes? (bs : Bytes) : Option String := String.fromUTF8? ⟨bs.toArray⟩

def encStr (s : String) : Bytes := encLen (strBytes s).length ++ strBytes s

def readStr (bs : Bytes) : Option (String × Bytes) :=
  match readLen bs with
  | none => none
  | some (n, rest) =>
    match takeExact n rest with
    | none => none
    | some (raw, rest) =>
      match ofBytes? raw with
      | none => none
      | some s => some (s, rest)

/-! ## slotmap keys (`ExprNodeId`, `TypeNodeId` are `#[serde(transparent)]` wrappers of a key) -/

structure Key where
  idx : UInt32
  version : UInt32
deriving DecidableEq, Repr, Inhabited

/-- what `KeyData::deserialize` does to the two words it has read -/
def Key.norm (k : Key) : Key :=
  ⟨k.idx, (if k.idx = 0xFFFFFFFF then 1 else k.version) ||| 1⟩

/-- keys that `slotmap` itself hands out (odd version; the null key is `(MAX, 1)`) are fixed by `norm` -/
def Key.Valid (k : Key) : Prop := k.norm = k

instance (k : Key) : Decidable k.Valid := inferInstanceAs (Decidable (k.norm = k))

def encKey (k : Key) : Bytes := encU32 k.idx ++ encU32 k.version

def readKey (bs : Bytes) : Option (Key × Bytes) :=
  match readU32 bs with
  | none => none
  | some (i, rest) =>
    match readU32 rest with
    | none => none
    | some (v, rest) => some (Key.norm ⟨i, v⟩, rest)

/-! ## `FfiValue` -/

/-- `enum FfiValue` of `ffi_serde.rs`, variants in the source's order -/
inductive FfiValue where
  | errorV
  | unit
  | number (bits : UInt64)
  | string (s : String)
  | array (vs : List FfiValue)
  | tuple (vs : List FfiValue)
  | record (fs : List (String × FfiValue))
  | code (e : Key)
  | taggedUnion (tag : UInt64) (v : FfiValue)
deriving Repr, Inhabited

def FfiValue.ctor : FfiValue → FfiCtor
  | .errorV => .ErrorV
  | .unit => .Unit
  | .number _ => .Number
  | .string _ => .String
  | .array _ => .Array
  | .tuple _ => .Tuple
  | .record _ => .Record
  | .code _ => .Code
  | .taggedUnion _ _ => .TaggedUnion

mutual
/-- `bincode::serialize(&FfiValue)` -/
def encode : FfiValue → Bytes
  | .errorV => encU32 FfiCtor.ErrorV.tag
  | .unit => encU32 FfiCtor.Unit.tag
  | .number b => encU32 FfiCtor.Number.tag ++ encU64 b
  | .string s => encU32 FfiCtor.String.tag ++ encStr s
  | .array vs => encU32 FfiCtor.Array.tag ++ (encLen vs.length ++ encodeList vs)
  | .tuple vs => encU32 FfiCtor.Tuple.tag ++ (encLen vs.length ++ encodeList vs)
  | .record fs => encU32 FfiCtor.Record.tag ++ (encLen fs.length ++ encodeFields fs)
  | .code e => encU32 FfiCtor.Code.tag ++ encKey e
  | .taggedUnion t v => encU32 FfiCtor.TaggedUnion.tag ++ (encU64 t ++ encode v)
def encodeList : List FfiValue → Bytes
  | [] => []
  | v :: vs => encode v ++ encodeList vs
def encodeFields : List (String × FfiValue) → Bytes
  | [] => []
  | (k, v) :: fs => encStr k ++ (encode v ++ encodeFields fs)
end

mutual
/-- the derived `Deserialize for FfiValue` driven by bincode; `fuel` bounds the recursion
(`bs.length` is always enough: `decode_fuel` in `Proofs/Ffi.lean`) -/
def decode : Nat → Bytes → Option (FfiValue × Bytes)
  | 0, _ => none
  | f+1, bs =>
    match readU32 bs with
    | none => none
    | some (t, bs) =>
      match FfiCtor.ofTag t with
      | none => none
      | some .ErrorV => some (.errorV, bs)
      | some .Unit => some (.unit, bs)
      | some .Number =>
        match readU64 bs with
        | none => none
        | some (b, bs) => some (.number b, bs)
      | some .String =>
        match readStr bs with
        | none => none
        | some (s, bs) => some (.string s, bs)
      | some .Array =>
        match readLen bs with
        | none => none
        | some (n, bs) =>
          match decodeList f n bs with
          | none => none
          | some (vs, bs) => some (.array vs, bs)
      | some .Tuple =>
        match readLen bs with
        | none => none
        | some (n, bs) =>
          match decodeList f n bs with
          | none => none
          | some (vs, bs) => some (.tuple vs, bs)
      | some .Record =>
        match readLen bs with
        | none => none
        | some (n, bs) =>
          match decodeFields f n bs with
          | none => none
          | some (fs, bs) => some (.record fs, bs)
      | some .Code =>
        match readKey bs with
        | none => none
        | some (k, bs) => some (.code k, bs)
      | some .TaggedUnion =>
        match readU64 bs with
        | none => none
        | some (t, bs) =>
          match decode f bs with
          | none => none
          | some (v, bs) => some (.taggedUnion t v, bs)
def decodeList : Nat → Nat → Bytes → Option (List FfiValue × Bytes)
  | _, 0, bs => some ([], bs)
  | 0, _+1, _ => none
  | f+1, n+1, bs =>
    match decode f bs with
    | none => none
    | some (v, bs) =>
      match decodeList f n bs with
      | none => none
      | some (vs, bs) => some (v :: vs, bs)
def decodeFields : Nat → Nat → Bytes → Option (List (String × FfiValue) × Bytes)
  | _, 0, bs => some ([], bs)
  | 0, _+1, _ => none
  | f+1, n+1, bs =>
    match readStr bs with
    | none => none
    | some (k, bs) =>
      match decode f bs with
      | none => none
      | some (v, bs) =>
        match decodeFields f n bs with
        | none => none
        | some (fs, bs) => some ((k, v) :: fs, bs)
end

/-- decode one value from the front of `bs`, returning the unread rest -/
def decodeBytes (bs : Bytes) : Option (FfiValue × Bytes) := decode bs.length bs

/-- `bincode::deserialize::<FfiValue>(data)`: legacy options allow trailing bytes -/
def decodeTop (bs : Bytes) : Option FfiValue := (decodeBytes bs).map (·.1)

/-! ### keys after a trip (the only thing `decode ∘ encode` may change) -/
mutual
def FfiValue.norm : FfiValue → FfiValue
  | .errorV => .errorV
  | .unit => .unit
  | .number b => .number b
  | .string s => .string s
  | .array vs => .array (normList vs)
  | .tuple vs => .tuple (normList vs)
  | .record fs => .record (normFields fs)
  | .code e => .code e.norm
  | .taggedUnion t v => .taggedUnion t v.norm
def normList : List FfiValue → List FfiValue
  | [] => []
  | v :: vs => v.norm :: normList vs
def normFields : List (String × FfiValue) → List (String × FfiValue)
  | [] => []
  | (k, v) :: fs => (k, v.norm) :: normFields fs
end

/-- lengths fit `usize`/`u64` (true of every value that exists in a Rust process) -/
def LenOk (n : Nat) : Prop := n < 2 ^ 64

mutual
/-- representable in memory: every `Vec`/`String` length below 2^64 -/
def FfiValue.Rep : FfiValue → Prop
  | .errorV => True
  | .unit => True
  | .number _ => True
  | .string s => LenOk (strBytes s).length
  | .array vs => LenOk vs.length ∧ RepList vs
  | .tuple vs => LenOk vs.length ∧ RepList vs
  | .record fs => LenOk fs.length ∧ RepFields fs
  | .code _ => True
  | .taggedUnion _ v => v.Rep
def RepList : List FfiValue → Prop
  | [] => True
  | v :: vs => v.Rep ∧ RepList vs
def RepFields : List (String × FfiValue) → Prop
  | [] => True
  | (k, v) :: fs => LenOk (strBytes k).length ∧ v.Rep ∧ RepFields fs
end

mutual
/-- every `Code` key is one that slotmap hands out -/
def FfiValue.KeysValid : FfiValue → Prop
  | .errorV => True
  | .unit => True
  | .number _ => True
  | .string _ => True
  | .array vs => KeysValidList vs
  | .tuple vs => KeysValidList vs
  | .record fs => KeysValidFields fs
  | .code e => e.Valid
  | .taggedUnion _ v => v.KeysValid
def KeysValidList : List FfiValue → Prop
  | [] => True
  | v :: vs => v.KeysValid ∧ KeysValidList vs
def KeysValidFields : List (String × FfiValue) → Prop
  | [] => True
  | (_, v) :: fs => v.KeysValid ∧ KeysValidFields fs
end

/-! ## macro arguments: `Vec<(FfiValue, TypeNodeId)>` -/

def encodeArgsBody : List (FfiValue × Key) → Bytes
  | [] => []
  | (v, t) :: as => encode v ++ (encKey t ++ encodeArgsBody as)

def encodeArgs (as : List (FfiValue × Key)) : Bytes := encLen as.length ++ encodeArgsBody as

def decodeArgsBody (fuel : Nat) : Nat → Bytes → Option (List (FfiValue × Key) × Bytes)
  | 0, bs => some ([], bs)
  | n+1, bs =>
    match decode fuel bs with
    | none => none
    | some (v, bs) =>
      match readKey bs with
      | none => none
      | some (t, bs) =>
        match decodeArgsBody fuel n bs with
        | none => none
        | some (as, bs) => some ((v, t) :: as, bs)

def decodeArgs (bs : Bytes) : Option (List (FfiValue × Key) × Bytes) :=
  match readLen bs with
  | none => none
  | some (n, rest) => decodeArgsBody bs.length n rest

def decodeArgsTop (bs : Bytes) : Option (List (FfiValue × Key)) := (decodeArgs bs).map (·.1)

/-! ## `Value` (interpreter.rs) and the two conversions

`σ` is the type of interned symbols; the interner is the pair `resolve : σ → String` (`Symbol::as_str`),
`intern : String → σ` (`ToSymbol::to_symbol`).  `Closure`'s environment, `ExternalFn`'s function pointer are not
modelled (the conversion never looks at them). -/

inductive Value (σ : Type) where
  | errorV (e : Key)
  | unit
  | number (bits : UInt64)
  | string (s : σ)
  | array (vs : List (Value σ))
  | record (fs : List (σ × Value σ))
  | tuple (vs : List (Value σ))
  | closure (e : Key) (names : List σ)
  | fixpoint (s : σ) (e : Key)
  | code (e : Key)
  | externalFn (name : σ)
  | store (v : Value σ)
  | taggedUnion (tag : UInt64) (v : Value σ)
  | constructorFn (tag : UInt64) (s : σ) (t : Key)
deriving Repr, Inhabited

def Value.ctor {σ} : Value σ → ValCtor
  | .errorV _ => .ErrorV
  | .unit => .Unit
  | .number _ => .Number
  | .string _ => .String
  | .array _ => .Array
  | .record _ => .Record
  | .tuple _ => .Tuple
  | .closure _ _ => .Closure
  | .fixpoint _ _ => .Fixpoint
  | .code _ => .Code
  | .externalFn _ => .ExternalFn
  | .store _ => .Store
  | .taggedUnion _ _ => .TaggedUnion
  | .constructorFn _ _ _ => .ConstructorFn

section conv
variable {σ : Type} (resolve : σ → String) (intern : String → σ)

mutual
/-- `Value::to_ffi_value` (the error strings are the source's).  An error value is refused like the five opaque
variants: `FfiValue::ErrorV` stays in the enum (wire indices unchanged) but is never produced here. -/
def toFfi : Value σ → Except String FfiValue
  | .errorV _ => .error "Error values cannot be serialized across FFI boundaries"
  | .unit => .ok .unit
  | .number n => .ok (.number n)
  | .string s => .ok (.string (resolve s))
  | .array vs =>
    match toFfiList vs with
    | .error e => .error e
    | .ok xs => .ok (.array xs)
  | .tuple vs =>
    match toFfiList vs with
    | .error e => .error e
    | .ok xs => .ok (.tuple xs)
  | .record fs =>
    match toFfiFields fs with
    | .error e => .error e
    | .ok xs => .ok (.record xs)
  | .code e => .ok (.code e)
  | .taggedUnion t v =>
    match toFfi v with
    | .error e => .error e
    | .ok x => .ok (.taggedUnion t x)
  | .closure _ _ => .error "Closures cannot be serialized across FFI boundaries"
  | .fixpoint _ _ => .error "Fixpoints cannot be serialized across FFI boundaries"
  | .externalFn _ => .error "External functions cannot be serialized across FFI boundaries"
  | .store _ => .error "Mutable stores cannot be serialized across FFI boundaries"
  | .constructorFn _ _ _ => .error "Constructor functions cannot be serialized across FFI boundaries"
/-- `iter().map(to_ffi_value).collect::<Result<Vec<_>,_>>()`: stops at the first error -/
def toFfiList : List (Value σ) → Except String (List FfiValue)
  | [] => .ok []
  | v :: vs =>
    match toFfi v with
    | .error e => .error e
    | .ok x =>
      match toFfiList vs with
      | .error e => .error e
      | .ok xs => .ok (x :: xs)
def toFfiFields : List (σ × Value σ) → Except String (List (String × FfiValue))
  | [] => .ok []
  | (k, v) :: fs =>
    match toFfi v with
    | .error e => .error e
    | .ok x =>
      match toFfiFields fs with
      | .error e => .error e
      | .ok xs => .ok ((resolve k, x) :: xs)
end

mutual
/-- `FfiValue::to_value` -/
def toValue : FfiValue → Value σ
  | .errorV => .unit          -- "Best effort"; reachable only from bytes `to_ffi_value` did not write
  | .unit => .unit
  | .number n => .number n
  | .string s => .string (intern s)
  | .array vs => .array (toValueList vs)
  | .tuple vs => .tuple (toValueList vs)
  | .record fs => .record (toValueFields fs)
  | .code e => .code e
  | .taggedUnion t v => .taggedUnion t (toValue v)
def toValueList : List FfiValue → List (Value σ)
  | [] => []
  | v :: vs => toValue v :: toValueList vs
def toValueFields : List (String × FfiValue) → List (σ × Value σ)
  | [] => []
  | (k, v) :: fs => (intern k, toValue v) :: toValueFields fs
end

/-- `serialize_value` -/
def serializeValue (v : Value σ) : Except String Bytes :=
  match toFfi resolve v with
  | .error e => .error e
  | .ok x => .ok (encode x)

/-- `deserialize_value` (`none` = `Err`) -/
def deserializeValue (bs : Bytes) : Option (Value σ) :=
  match decodeTop bs with
  | none => none
  | some x => some (toValue intern x)

def toFfiArgs : List (Value σ × Key) → Except String (List (FfiValue × Key))
  | [] => .ok []
  | (v, t) :: as =>
    match toFfi resolve v with
    | .error e => .error e
    | .ok x =>
      match toFfiArgs as with
      | .error e => .error e
      | .ok xs => .ok ((x, t) :: xs)

def toValueArgs : List (FfiValue × Key) → List (Value σ × Key)
  | [] => []
  | (v, t) :: as => (toValue intern v, t) :: toValueArgs as

/-- `serialize_macro_args` -/
def serializeMacroArgs (as : List (Value σ × Key)) : Except String Bytes :=
  match toFfiArgs resolve as with
  | .error e => .error e
  | .ok xs => .ok (encodeArgs xs)

/-- `deserialize_macro_args` -/
def deserializeMacroArgs (bs : Bytes) : Option (List (Value σ × Key)) :=
  match decodeArgsTop bs with
  | none => none
  | some xs => some (toValueArgs intern xs)

end conv

/-! ### predicates on `Value` used by the theorems -/
mutual
/-- a `Closure`, `Fixpoint`, `ExternalFn`, `Store` or `ConstructorFn` occurs somewhere in the value
(not looking inside those five, which are opaque to the conversion) -/
def Value.HasOpaque {σ} : Value σ → Prop
  | .errorV _ => False
  | .unit => False
  | .number _ => False
  | .string _ => False
  | .array vs => HasOpaqueList vs
  | .record fs => HasOpaqueFields fs
  | .tuple vs => HasOpaqueList vs
  | .closure _ _ => True
  | .fixpoint _ _ => True
  | .code _ => False
  | .externalFn _ => True
  | .store _ => True
  | .taggedUnion _ v => v.HasOpaque
  | .constructorFn _ _ _ => True
def HasOpaqueList {σ} : List (Value σ) → Prop
  | [] => False
  | v :: vs => v.HasOpaque ∨ HasOpaqueList vs
def HasOpaqueFields {σ} : List (σ × Value σ) → Prop
  | [] => False
  | (_, v) :: fs => v.HasOpaque ∨ HasOpaqueFields fs
end

mutual
/-- an `ErrorV` occurs somewhere in the value -/
def Value.HasErrorV {σ} : Value σ → Prop
  | .errorV _ => True
  | .array vs => HasErrorVList vs
  | .record fs => HasErrorVFields fs
  | .tuple vs => HasErrorVList vs
  | .taggedUnion _ v => v.HasErrorV
  | _ => False
def HasErrorVList {σ} : List (Value σ) → Prop
  | [] => False
  | v :: vs => v.HasErrorV ∨ HasErrorVList vs
def HasErrorVFields {σ} : List (σ × Value σ) → Prop
  | [] => False
  | (_, v) :: fs => v.HasErrorV ∨ HasErrorVFields fs
end

mutual
/-- every `ErrorV` replaced by `Unit`: what `to_value ∘ to_ffi_value` returned BEFORE `to_ffi_value` refused error
values (finding F9, repaired).  Kept only so that the judge can name that regression (`errorv-to-unit`). -/
def Value.eraseErrors {σ} : Value σ → Value σ
  | .errorV _ => .unit
  | .array vs => .array (eraseErrorsList vs)
  | .record fs => .record (eraseErrorsFields fs)
  | .tuple vs => .tuple (eraseErrorsList vs)
  | .taggedUnion t v => .taggedUnion t v.eraseErrors
  | v => v
def eraseErrorsList {σ} : List (Value σ) → List (Value σ)
  | [] => []
  | v :: vs => v.eraseErrors :: eraseErrorsList vs
def eraseErrorsFields {σ} : List (σ × Value σ) → List (σ × Value σ)
  | [] => []
  | (k, v) :: fs => (k, v.eraseErrors) :: eraseErrorsFields fs
end

end Mimium.Ffi
