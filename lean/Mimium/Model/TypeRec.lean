import Mimium.Model.Occurs
/-!
# Two more unbounded recursions of the type checker (C04, findings T05 and T21)

Literal ports of

* `typing.rs::InferContext::substitute_type` (T05: stack overflow on `fn{a`): follows the `parent` pointer of EVERY type
  variable of a type, with no cycle check and no early exit;
* `typing.rs::InferContext::resolve_type_alias` (T21: stack overflow on `type alias=Gain fn(f:Gain{`): follows
  `self.type_aliases` at every `Type::TypeAlias(name)` (after mapping the name through
  `resolve_type_alias_symbol_fallback`), again with no cycle check, together with the cycle DETECTOR
  `detect_type_alias_cycle` / `detect_cycle_helper` that `register_type_aliases` runs — which only pushes a diagnostic: the
  cyclic alias stays registered — and which looks names up WITHOUT the fallback.

Both recurse through `TypeNodeId::apply_fn`, which maps a closure over the members of `Array`, `Tuple`, `Record`,
`Function`, `Ref`, `Boxed`, `Code` and returns every other type unchanged (`Union` and `UserSum` members are NOT visited;
the models visit every member, which can only add calls).
-/
namespace Mimium.TypeRec
open Mimium.Occurs (Ty Store parent)

/-- `substitute_type(t)`: `Intermediate` with parent `p` ↦ `substitute_type(p)`, without parent ↦ `Unknown` (= `other`);
everything else `t.apply_fn(substitute_type)`. `none` = out of fuel. -/
def subst (σ : Store) : Nat → Ty → Option Ty
  | 0, _ => none
  | _ + 1, .other => some .other
  | f + 1, .var v =>
    match parent σ v with
    | some p => subst σ f p
    | none => some .other
  | f + 1, .unary t =>
    match subst σ f t with
    | none => none
    | some t' => some (.unary t')
  | f + 1, .anyOf a b =>
    match subst σ f a, subst σ f b with
    | some a', some b' => some (.anyOf a' b')
    | _, _ => none
  | f + 1, .fn a r =>
    match subst σ f a, subst σ f r with
    | some a', some r' => some (.fn a' r')
    | _, _ => none

/-! ## type aliases -/

/-- types as `resolve_type_alias` sees them -/
inductive ATy where
  | leaf                         -- primitives, `Intermediate`, `Union`, `UserSum`, … (`apply_fn` returns them unchanged)
  | alias (name : Nat)           -- `Type::TypeAlias(name)`
  | unary (t : ATy)              -- `Array`, `Ref`, `Boxed`, `Code`
  | pair (a b : ATy)             -- `Function { arg, ret }`, `Tuple`, `Record` (n-ary: nested pairs, members in order)
deriving DecidableEq, Repr, Inhabited

/-- `self.type_aliases`: name ↦ target type (first entry wins) -/
abbrev AEnv := List (Nat × ATy)

def lookup (env : AEnv) (k : Nat) : Option ATy :=
  match env with
  | [] => none
  | (n, t) :: rest => if n = k then some t else lookup rest k

/-- `resolve_type_alias(t)`; `fb` = `resolve_type_alias_symbol_fallback` (maps a written name to the key that is looked up:
the `use` alias map, the name itself if it is a key, else the unique key ending in `$name`) -/
def resolve (fb : Nat → Nat) (env : AEnv) : Nat → ATy → Option ATy
  | 0, _ => none
  | _ + 1, .leaf => some .leaf
  | f + 1, .alias n =>
    match lookup env (fb n) with
    | some t => resolve fb env f t          -- "Recursively resolve in case the alias points to another alias"
    | none => some (.alias n)               -- "Return original if not found"
  | f + 1, .unary t =>
    match resolve fb env f t with
    | none => none
    | some t' => some (.unary t')
  | f + 1, .pair a b =>
    match resolve fb env f a, resolve fb env f b with
    | some a', some b' => some (.pair a' b')
    | _, _ => none

/-- `find_type_aliases_in_type` -/
def aliasesOf : ATy → List Nat
  | .leaf => []
  | .alias n => [n]
  | .unary t => aliasesOf t
  | .pair a b => aliasesOf a ++ aliasesOf b

/-- `detect_cycle_helper(current, path, type_aliases)`: `some (some cycle)` = cycle found, `some none` = none found,
`none` = out of fuel. Names are looked up as written (`type_aliases.get(&current)`): NO fallback. -/
def detect (env : AEnv) : Nat → Nat → List Nat → Option (Option (List Nat))
  | 0, _, _ => none
  | f + 1, current, path =>
    if current ∈ path then some (some (path.dropWhile (· ≠ current)))
    else match lookup env current with
      | none => some none
      | some target =>
        -- `.into_iter().find_map(|ref_alias| detect_cycle_helper(ref_alias, new_path.clone(), type_aliases))`
        (aliasesOf target).foldl (fun acc ref =>
          match acc with
          | some none => detect env f ref (path ++ [current])
          | r => r) (some none)

/-- `check_type_alias_cycles`: the aliases for which a `RecursiveTypeAlias` diagnostic is pushed -/
def flagged (env : AEnv) (fuel : Nat) : List Nat :=
  (env.map (·.1)).filter fun k => match detect env fuel k [] with
    | some (some _) => true
    | _ => false

/-- number of constructors -/
def ATy.size : ATy → Nat
  | .leaf => 1
  | .alias _ => 1
  | .unary t => t.size + 1
  | .pair a b => a.size + b.size + 1

/-- sum of the sizes of all alias targets -/
def atotal : AEnv → Nat
  | [] => 0
  | (_, t) :: rest => t.size + atotal rest

/-- the alias graph (an alias points to the KEYS its target's names are looked up under) has no cycle -/
def AcyclicA (fb : Nat → Nat) (env : AEnv) : Prop :=
  ∃ rk : Nat → Nat, ∀ k t, lookup env k = some t → ∀ n ∈ aliasesOf t, rk (fb n) < rk k

end Mimium.TypeRec
