/-!
# Three small pieces of the type checker on which totality of the front end hinges (C04, negative results)

Literal ports (quirks included) of
* `typing/unification.rs::occur_check` and the variable-binding step of `unify_types` that relies on it;
* the range check of tuple projection in `typing.rs::infer_type` (`Expr::Proj`);
* `compiler.rs::EvalStage::increment` (a `u8` counter bumped once per nested quote).

Types are abstracted to what `occur_check` looks at: `Tuple`/`Record`/`Union` fold their members with `any`, which is a chain
of short-circuit `||`, so an n-ary node is written as nested `anyOf`; `Array`/`Boxed` are `unary`; everything `occur_check`
answers `false` for (`Ref`, `Code`, primitives, type schemes, …) is `other`.  Short-circuit evaluation is kept, because it
decides where the recursion goes.  The recursion of the Rust function is unbounded, so the model takes fuel and answers
`none` when it runs out.
-/
namespace Mimium.Occurs

inductive Ty where
  | other
  | var (v : Nat)               -- `Type::Intermediate(cell)`, `cell.var = v`
  | unary (t : Ty)              -- `Array(t)`, `Boxed(t)`
  | anyOf (a b : Ty)            -- `Tuple` / `Record` / `Union`: `[a, b…].iter().any(cls)`
  | fn (arg ret : Ty)           -- `Function { arg, ret }`
deriving DecidableEq, Repr, Inhabited

/-- the `parent` fields of the type-variable cells: `v ↦ parent`, absent = `None` (the lookup `parent` is generic in the type of
the parents: `Model/Unify.lean` uses it on the un-abstracted types) -/
abbrev Store := List (Nat × Ty)

def parent {α : Type} (σ : List (Nat × α)) (v : Nat) : Option α :=
  match σ with
  | [] => none
  | (w, t) :: rest => if w = v then some t else parent rest v

/-- `occur_check(id1, t2)`.  `andQuirk = true` is the code as it is (`cls(arg) && cls(ret)` for function types),
`false` the intended `||`. -/
def occ (σ : Store) (andQuirk : Bool) (id1 : Nat) : Nat → Ty → Option Bool
  | 0, _ => none
  | _ + 1, .other => some false
  | f + 1, .var v =>
    match parent σ v with
    | some p => if id1 = v then some true else occ σ andQuirk id1 f p      -- `id1 == tv2.var || occur_check(id1, tid2)`
    | none => some (id1 = v)
  | f + 1, .unary t => occ σ andQuirk id1 f t
  | f + 1, .anyOf a b =>
    match occ σ andQuirk id1 f a with
    | none => none
    | some true => some true
    | some false => occ σ andQuirk id1 f b
  | f + 1, .fn a r =>
    match occ σ andQuirk id1 f a with
    | none => none
    | some x =>
      if andQuirk then (if x then occ σ andQuirk id1 f r else some false)     -- `cls(arg) && cls(ret)`
      else (if x then some true else occ σ andQuirk id1 f r)                  -- `cls(arg) || cls(ret)`

/-- the arm `(Type::Intermediate(i1), _)` of `unify_types`: occurs check, then `tv1.parent = Some(t2r)`.
`none` = the occurs check did not return; `some none` = `Error::CircularType`; `some (some σ')` = bound -/
def bindVar (σ : Store) (andQuirk : Bool) (fuel : Nat) (v : Nat) (t : Ty) : Option (Option Store) :=
  match occ σ andQuirk v fuel t with
  | none => none
  | some true => some none
  | some false => some (some ((v, t) :: σ))

def vars : Ty → List Nat
  | .other => []
  | .var v => [v]
  | .unary t => vars t
  | .anyOf a b => vars a ++ vars b
  | .fn a r => vars a ++ vars r

/-- the parent pointers contain no cycle: some ranking decreases along every pointer -/
def Acyclic (σ : Store) : Prop :=
  ∃ rk : Nat → Nat, ∀ v t, parent σ v = some t → ∀ w ∈ vars t, rk w < rk v

/-! ## enumeration of small types and their rendering as mimium expressions (correspondence with the real type checker) -/

/-- all types of constructor depth ≤ `d` over the leaves `other`, `?0`, `?1` -/
def enumTy : Nat → List Ty
  | 0 => [.other, .var 0, .var 1]
  | d + 1 =>
    let sub := enumTy d
    sub ++ sub.map .unary ++ (sub.flatMap fun a => sub.map fun b => .anyOf a b) ++ (sub.flatMap fun a => sub.map fun b => .fn a b)

/-- an expression whose inferred type is `t` when `x : ?0`, `y : ?1` (state: counter for fresh lambda parameters).
`other` = a number, `unary` = array literal, `anyOf` = pair, `fn a r` = `|p| { let u = [p, ⟦a⟧] ⟦r⟧ }` (the array literal
unifies the parameter with `⟦a⟧`). -/
def render : Ty → Nat → String × Nat
  | .other, k => ("1.0", k)
  | .var 0, k => ("x", k)
  | .var _, k => ("y", k)
  | .unary t, k => let (s, k) := render t k; ("[" ++ s ++ "]", k)
  | .anyOf a b, k =>
    let (sa, k) := render a k
    let (sb, k) := render b k
    ("(" ++ sa ++ ", " ++ sb ++ ")", k)
  | .fn a r, k =>
    let (sa, k1) := render a (k + 1)
    let (sr, k2) := render r k1
    (s!"|p{k}| \{ let u{k} = [p{k}, {sa}]\n {sr} }", k2)

/-- the program that makes the real type checker unify `?0` with `t` -/
def program (t : Ty) : String :=
  "fn f(x, y){ let w = [x, " ++ (render t 0).1 ++ "]\n 0.0 }\nfn dsp(){ 0.0 }\n"

/-! ## tuple projection (`Expr::Proj`) -/

/-- `vec_to_ans` as it was on the pinned tree: `if vec.len() < idx { Err(IndexOutOfRange) } else { Ok(vec[idx]) }`; the inner
`Option` is Rust's bounds check on `vec[idx]` (`none` = the index panic) -/
def projCheck {α : Type} (vec : List α) (idx : Nat) : Except Unit (Option α) :=
  if vec.length < idx then .error () else .ok vec[idx]?

/-- the range check since /repo 29dd9f5: `if vec.len() <= idx { Err(IndexOutOfRange) } else { Ok(vec[idx]) }` -/
def projCheckLe {α : Type} (vec : List α) (idx : Nat) : Except Unit (Option α) :=
  if vec.length ≤ idx then .error () else .ok vec[idx]?

/-! ## stage counter -/

/-- `EvalStage::Stage(n).increment()` with `n : u8`: `none` = `attempt to add with overflow` -/
def incrementStage (n : Nat) : Option Nat := if n + 1 ≤ 255 then some (n + 1) else none

/-- `increment` since /repo c4d9327: `n.saturating_add(1)` on `u8` -/
def incrementStageSat (n : Nat) : Nat := min (n + 1) 255

/-- stage reached inside `k` nested quotes with the saturating counter -/
def nestQuotesSat : Nat → Nat → Nat
  | 0, s => s
  | k + 1, s => nestQuotesSat k (incrementStageSat s)

/-- stage reached inside `k` nested quotes starting from stage `s` -/
def nestQuotes : Nat → Nat → Option Nat
  | 0, s => some s
  | k + 1, s => match incrementStage s with
    | none => none
    | some s' => nestQuotes k s'

end Mimium.Occurs
