import Mimium.Model.CstGrammar
import Mimium.Gen.Lower
import Mimium.Model.Lexer
/-!
# Port of `compiler/parser/lower.rs` (green tree → `Program` / `ast::Expr`) and of `ast/statement.rs`

`Lowerer` walks the green tree built by `cst_parser.rs` and produces the `Program` every later pass works on.  The port keeps the
functions of `lower.rs` one by one (the name of the Rust function is in the doc comment of its Lean counterpart); what differs is the
ORGANISATION of the recursion, chosen so that the whole port is structural recursion (total by construction) and so that byte offsets
cannot influence anything but the values of spans:

* **Leaves are resolved first** (`resolve`): a token leaf `GreenNode::Token { token_index }` becomes `Leaf ⟨j, tokens.get(token_index)⟩` —
  its ordinal `j` in the tree (leaves are numbered left to right) and the (relabelled) kind and text of the token, `none` when the index
  is outside `tokens`.  Nothing else of the token array is visible to the lowering.
* **Spans are terms** (`Sp`): `t.start..t.end()` of leaf `j` is `Sp.tok j`, `merge_spans` / the fold of `node_span` is `Sp.merge`,
  `0..0` / `Location::default()` is `Sp.zero`, `macro_expand_span` is `Sp.startEnd`.  `lower.rs` never inspects a span (it only builds
  them and asks whether `node_span` is `Some`), so the port can keep them symbolic; `Sp.eval` turns a term into byte offsets given the
  offsets of the leaves, and that is the ONLY place where offsets enter (`Model/LowerIO.lean` prints evaluated spans; the
  correspondence compares them with the real ones exactly).
* **One structural recursion** (`attr`): every function of `lower.rs` that recurses into the tree (`node_span`, `walk_tokens`,
  `lower_expr`, `lower_expr_sequence ∘ child_exprs`, `lower_statement`, `lower_pattern`, `lower_type`, `lower_match_pattern`,
  `lower_constructor_pattern`, `lower_tuple_pattern`, `lower_match_tuple_pattern`) is an ATTRIBUTE of the node, computed bottom-up from
  the attributes of its children by a non-recursive function (`lowerExpr`, `lowerStatement`, …) that is the body of the Rust function
  with the recursive calls replaced by attribute look-ups.  All other functions (`lower_function_decl`, `lower_param_list`,
  `lower_lambda`, `lower_arg_list`, `lower_record_fields`, `lower_match_arm`, …) are non-recursive and read attributes of children /
  grandchildren.  Rust evaluates lazily (only the attribute it needs), the port eagerly — the functions are pure, the values agree.

Deviations from the letter that are provably unobservable, each marked `NOTE` at its place: the `next_index` skipping of
`lower_param_list` / `lower_lambda` (skipped children are internal nodes, the loop ignores them anyway); `skip_next` of
`lower_expr_sequence` (never set); `collect_expr_nodes_after` compares node ids (`after` is the first pattern-kind child).
`file_path` (the `path` of every `Location`) is a constant of the run and is not modelled.
-/
namespace Mimium.Lower
open Mimium.Gen (Kind SK)
open Mimium.Cst (Green)

/-- `Symbol` -/
abbrev Sym := List Char

/-! ## Spans -/

/-- a span as `lower.rs` builds it -/
inductive Sp where
  | zero                       -- `0..0`, `Location::default()`, `into_id_without_span`
  | tok (j : Nat)              -- `t.start..t.end()` of the `j`-th leaf of the tree
  | merge (a b : Sp)           -- `merge_spans(a, b)` = `min(a.start, b.start)..max(a.end, b.end)`; one step of the fold of `node_span`
  | startEnd (a b : Sp)        -- `a.start..b.end` (`macro_expand_span`)
deriving DecidableEq, Repr, Inhabited

/-- byte offsets of a span term, given `start..end` of every leaf -/
def Sp.eval (offs : Nat → Nat × Nat) : Sp → Nat × Nat
  | .zero => (0, 0)
  | .tok j => offs j
  | .merge a b => (min (a.eval offs).1 (b.eval offs).1, max (a.eval offs).2 (b.eval offs).2)
  | .startEnd a b => ((a.eval offs).1, (b.eval offs).2)

/-! ## The resolved tree -/

/-- a token leaf as the lowering sees it -/
structure Leaf where
  j : Nat                        -- ordinal of the leaf (tree order)
  tok : Option (Kind × Sym)      -- `tokens.get(token_index)`: kind after relabelling, `text(source)`
deriving DecidableEq, Repr, Inhabited

inductive T where
  | leaf (l : Leaf)
  | node (k : Nat) (cs : List T)
deriving Repr, Inhabited

mutual
/-- number the leaves from `n` on and look their tokens up -/
def resolve (info : Nat → Option (Kind × Sym)) : Green → Nat → T × Nat
  | .token i _, n => (.leaf ⟨n, info i⟩, n + 1)
  | .node k cs, n => match resolveL info cs n with | (ts, n') => (T.node k ts, n')
def resolveL (info : Nat → Option (Kind × Sym)) : List Green → Nat → List T × Nat
  | [], n => ([], n)
  | g :: gs, n =>
    match resolve info g n with
    | (t, n1) => match resolveL info gs n1 with | (ts, n2) => (t :: ts, n2)
end

/-! ## The AST (`ast.rs`, `pattern.rs`, `types.rs`, `ast/program.rs`, `ast/statement.rs`) -/

/-- `ast::Literal` (numbers keep their text; `Int` only occurs in match patterns) -/
inductive Lit where
  | string (s : Sym) | int (n : Int) | float (s : Sym) | selfLit | now | sampleRate | placeHolder
deriving DecidableEq, Repr, Inhabited

/-- `ast::operators::Op` -/
inductive Op where
  | sum | minus | product | divide | equal | notEqual | lessThan | lessEqual | greaterThan | greaterEqual | modulo | exponent
  | and | or | at | pipe | pipeMacro | unknown (s : Sym)
deriving DecidableEq, Repr, Inhabited

inductive PType where
  | unit | int | numeric | string
deriving DecidableEq, Repr, Inhabited

/-- `types::Type` as far as `lower_type` builds it; every node carries the span of its `TypeNodeId` -/
inductive Ty where
  | prim (p : PType) (sp : Sp)
  | array (t : Ty) (sp : Sp)
  | tuple (ts : List Ty) (sp : Sp)
  | record (fs : List (Sym × Ty)) (sp : Sp)      -- `RecordTypeField { key, ty, has_default: false }`
  | fn (arg ret : Ty) (sp : Sp)
  | code (t : Ty) (sp : Sp)
  | union (ts : List Ty) (sp : Sp)
  | alias (name : Sym) (sp : Sp)                  -- `Type::TypeAlias`
  | unknown (sp : Sp)
deriving Repr, Inhabited

/-- `pattern::Pattern` -/
inductive Pattern where
  | single (s : Sym) | placeholder | tuple (ps : List Pattern) | record (fs : List (Sym × Pattern)) | error
deriving Repr, Inhabited

/-- `ast::MatchPattern` -/
inductive MatchPattern where
  | lit (l : Lit) | wildcard | var (s : Sym) | ctor (s : Sym) (inner : Option MatchPattern) | tuple (ps : List MatchPattern)
deriving Repr, Inhabited

inductive StageKind where
  | persistent | macro_ | main
deriving DecidableEq, Repr, Inhabited

/-- `ast::Expr` together with the span of its `ExprNodeId` (last field).  `TypedId` is `(id, ty, default_value)`;
`TypedPattern` is inlined in `let_` (`lower.rs` never sets its `default_value`). -/
inductive Expr where
  | lit (l : Lit) (sp : Sp)
  | var (s : Sym) (sp : Sp)
  | qvar (segs : List Sym) (sp : Sp)
  | block (e : Option Expr) (sp : Sp)
  | tuple (es : List Expr) (sp : Sp)
  | proj (e : Expr) (n : Int) (sp : Sp)
  | arrayAccess (e i : Expr) (sp : Sp)
  | arrayLit (es : List Expr) (sp : Sp)
  | recordLit (fs : List (Sym × Expr)) (sp : Sp)
  | incRecord (fs : List (Sym × Expr)) (sp : Sp)
  | recordUpdate (e : Expr) (fs : List (Sym × Expr)) (sp : Sp)
  | fieldAccess (e : Expr) (f : Sym) (sp : Sp)
  | apply (f : Expr) (args : List Expr) (sp : Sp)
  | macroExpand (f : Expr) (args : List Expr) (sp : Sp)
  | binOp (l : Expr) (op : Op) (osp : Sp) (r : Expr) (sp : Sp)
  | uniOp (op : Op) (osp : Sp) (e : Expr) (sp : Sp)
  | paren (e : Expr) (sp : Sp)
  | lambda (ps : List (Sym × Ty × Option Expr)) (rt : Option Ty) (body : Expr) (sp : Sp)
  | assign (l r : Expr) (sp : Sp)
  | then_ (e : Expr) (k : Option Expr) (sp : Sp)
  | feed (s : Sym) (e : Expr) (sp : Sp)
  | let_ (pat : Pattern) (pty : Ty) (e : Expr) (k : Option Expr) (sp : Sp)
  | letRec (id : Sym × Ty × Option Expr) (e : Expr) (k : Option Expr) (sp : Sp)
  | if_ (c t : Expr) (e : Option Expr) (sp : Sp)
  | match_ (s : Expr) (arms : List (MatchPattern × Expr)) (sp : Sp)
  | bracket (e : Expr) (sp : Sp)
  | escape (e : Expr) (sp : Sp)
  | error (sp : Sp)
deriving Repr, Inhabited

/-- `pattern::TypedId` -/
abbrev TypedId := Sym × Ty × Option Expr

/-- `ExprNodeId::to_span` -/
def Expr.span : Expr → Sp
  | .lit _ sp | .var _ sp | .qvar _ sp | .block _ sp | .tuple _ sp | .proj _ _ sp | .arrayAccess _ _ sp | .arrayLit _ sp
  | .recordLit _ sp | .incRecord _ sp | .recordUpdate _ _ sp | .fieldAccess _ _ sp | .apply _ _ sp | .macroExpand _ _ sp
  | .binOp _ _ _ _ sp | .uniOp _ _ _ sp | .paren _ sp | .lambda _ _ _ sp | .assign _ _ sp | .then_ _ _ sp | .feed _ _ sp
  | .let_ _ _ _ _ sp | .letRec _ _ _ sp | .if_ _ _ _ sp | .match_ _ _ sp | .bracket _ sp | .escape _ sp | .error sp => sp

/-- `ast::statement::Statement` -/
inductive Statement where
  | let_ (pat : Pattern) (pty : Ty) (e : Expr)
  | letRec (id : TypedId) (e : Expr)
  | assign (l r : Expr)
  | single (e : Expr)
  | declareStage (k : StageKind)
  | error
deriving Repr, Inhabited

/-- `ast::program::UseTarget` -/
inductive UseTarget where
  | single | multiple (ss : List Sym) | wildcard
deriving Repr, Inhabited

/-- `ast::program::ProgramStatement` (`vis = true`: `Visibility::Public`); `Comment` / `DocComment` are never built by `lower.rs` -/
inductive PStmt where
  | fnDef (vis : Bool) (name : Sym) (params : List TypedId) (psp : Sp) (ret : Option Ty) (body : Expr)
  | stageDecl (k : StageKind)
  | global (s : Statement)
  | import_ (s : Sym)
  | moduleDef (vis : Bool) (name : Sym) (body : Option (List (PStmt × Sp)))
  | useStmt (vis : Bool) (path : List Sym) (target : UseTarget)
  | typeAlias (vis : Bool) (name : Sym) (ty : Ty)
  | typeDecl (vis : Bool) (name : Sym) (variants : List (Sym × Option Ty)) (isRec : Bool)
  | error
deriving Repr, Inhabited

/-! ## `ast/statement.rs` -/

/-- `stmt_from_expr` / `stmt_from_expr_top` -/
def stmtFromExpr : Expr → List Statement
  | .let_ pat ty e k _ => Statement.let_ pat ty e :: (match k with | some t => stmtFromExpr t | none => [])
  | .letRec id e k _ => Statement.letRec id e :: (match k with | some t => stmtFromExpr t | none => [])
  | e => [.single e]

/-- the closure `into_then_expr` builds for one statement; `last` = `last_stage` when the statement is reached -/
def thenCls (last : StageKind) : Statement × Sp → Option Expr → Option Expr
  | (.let_ pat ty e, loc), k => some (.let_ pat ty e k loc)
  | (.letRec id e, loc), k => some (.letRec id e k loc)
  | (.assign l r, loc), k => some (.then_ (.assign l r loc) k loc)
  | (.single e, loc), k => (match k with | none => some e | some t => some (.then_ e (some t) loc))
  | (.declareStage stage, loc), k =>
    (match last, stage with
     | .macro_, .main => k.map fun e => .bracket e loc
     | .main, .macro_ => k.map fun e => .escape e loc
     | _, _ => k)
  | (.error, loc), k => some (.then_ (.error loc) k loc)

/-- the forward pass of `into_then_expr`: every statement with the stage declared before it -/
def withStages : StageKind → List (Statement × Sp) → List (StageKind × (Statement × Sp))
  | _, [] => []
  | last, s :: rest =>
    (last, s) :: withStages (match s.1 with | .declareStage k => k | _ => last) rest

/-- `into_then_expr` -/
def intoThenExpr (stmts : List (Statement × Sp)) : Option Expr :=
  (withStages .main stmts).foldr (fun c k => thenCls c.1 c.2 k) none

/-! ## Attributes -/

/-- what the recursive functions of `lower.rs` return for one node -/
structure Attrs where
  span : Option Sp                 -- `node_span`
  toks : List Leaf                 -- `walk_tokens`
  expr : Expr                      -- `lower_expr`
  seq : Expr                       -- `lower_expr_sequence(&child_exprs(node))`
  stmt : Option (PStmt × Sp)       -- `lower_statement`
  pat : Option (Pattern × Sp)      -- `lower_pattern`
  ty : Ty                          -- `lower_type`
  mpat : MatchPattern              -- `lower_match_pattern`
  cpat : MatchPattern              -- `lower_constructor_pattern`
  tpat : MatchPattern              -- `lower_tuple_pattern`
  mtpat : MatchPattern             -- `lower_match_tuple_pattern`
deriving Repr, Inhabited

/-- a green node with its attributes: `kind = arena.kind(node)` (`none` for a token), `leaf` for `GreenNode::Token` -/
inductive A where
  | mk (kind : Option SK) (leaf : Option Leaf) (children : List A) (attrs : Attrs)
deriving Repr, Inhabited

def A.kind : A → Option SK | .mk k _ _ _ => k
def A.leaf : A → Option Leaf | .mk _ l _ _ => l
def A.children : A → List A | .mk _ _ cs _ => cs
def A.attrs : A → Attrs | .mk _ _ _ a => a

/-- `get_token_index(child)` and `tokens.get(idx)` -/
def A.tok? (a : A) : Option (Kind × Sym) := match a.leaf with | some l => l.tok | none => none
/-- the node is a token whose kind satisfies `p` -/
def A.isTok (a : A) (p : Kind → Bool) : Bool := match a.tok? with | some t => p t.1 | none => false
/-- `arena.kind(node).map(p) == Some(true)` -/
def A.hasKind (a : A) (p : SK → Bool) : Bool := match a.kind with | some k => p k | none => false
/-- `arena.kind(node) == Some(k)` -/
def A.is (a : A) (k : SK) : Bool := a.hasKind (· == k)
/-- `token.start..token.end()` of a token child -/
def A.tokSpan (a : A) : Sp := match a.leaf with | some l => .tok l.j | none => .zero
/-- `token.text(source)` of a token child -/
def A.tokText (a : A) : Sym := match a.tok? with | some t => t.2 | none => []

/-- `is_expr_kind` -/
def isExprKind : SK → Bool
  | .BinaryExpr | .UnaryExpr | .ParenExpr | .CallExpr | .FieldAccess | .IndexExpr | .AssignExpr | .ArrayExpr | .MacroExpansion
  | .BracketExpr | .EscapeExpr | .LambdaExpr | .IfExpr | .MatchExpr | .BlockExpr | .TupleExpr | .RecordExpr | .IntLiteral
  | .FloatLiteral | .StringLiteral | .SelfLiteral | .NowLiteral | .SampleRateLiteral | .PlaceHolderLiteral | .Identifier
  | .QualifiedPath => true
  | _ => false

/-- `is_pattern_kind` -/
def isPatternKind : SK → Bool
  | .Pattern | .SinglePattern | .TuplePattern | .RecordPattern => true
  | _ => false

/-- `is_type_kind` -/
def isTypeKind : SK → Bool
  | .PrimitiveType | .UnitType | .TupleType | .RecordType | .FunctionType | .ArrayType | .CodeType | .UnionType | .TypeIdent => true
  | _ => false

/-- `child_exprs` = `collect_expr_nodes` -/
def childExprs (cs : List A) : List A := cs.filter (·.hasKind isExprKind)
/-- `child_patterns` -/
def childPatterns (cs : List A) : List A := cs.filter (·.hasKind isPatternKind)
/-- `find_child` -/
def findChild (cs : List A) (p : SK → Bool) : Option A := cs.find? (·.hasKind p)
/-- `find_token` on the result of `walk_tokens` -/
def findToken (toks : List Leaf) (p : Kind → Bool) : Option Leaf :=
  toks.find? fun l => match l.tok with | some t => p t.1 | none => false
/-- `token_text(idx)` -/
def Leaf.text? (l : Leaf) : Option Sym := l.tok.map (·.2)
/-- `text_of_first_token` -/
def textOfFirstToken (toks : List Leaf) : Option Sym := toks.head?.bind Leaf.text?
/-- the children that are type nodes -/
def typeChildren (cs : List A) : List A := cs.filter (·.hasKind isTypeKind)
/-- `children.iter().find(is_type_kind).map(lower_type)` -/
def firstTypeOf (cs : List A) : Option Ty := (cs.find? (·.hasKind isTypeKind)).map (·.attrs.ty)

/-- `node_span` of an internal node: the fold over the children that have a span -/
def nodeSpanOf (cs : List A) : Option Sp :=
  cs.foldl (fun acc c => match c.attrs.span with
    | none => acc
    | some s => (match acc with | none => some s | some a => some (.merge a s))) none

/-- `str::trim_matches('"')` -/
def trimQuotes (s : Sym) : Sym := ((s.dropWhile (· == '"')).reverse.dropWhile (· == '"')).reverse

def digitsVal : List Char → Nat → Option Nat
  | [], acc => some acc
  | c :: cs, acc => if 48 ≤ c.toNat && c.toNat ≤ 57 then digitsVal cs (acc * 10 + (c.toNat - 48)) else none

/-- `text.parse::<i64>().ok()` -/
def parseI64 : Sym → Option Int
  | [] => none
  | '-' :: ds => if ds.isEmpty then none else (digitsVal ds 0).bind fun v => if v ≤ 2 ^ 63 then some (-(v : Int)) else none
  | '+' :: ds => if ds.isEmpty then none else (digitsVal ds 0).bind fun v => if v < 2 ^ 63 then some (v : Int) else none
  | ds => (digitsVal ds 0).bind fun v => if v < 2 ^ 63 then some (v : Int) else none

/-- `str::cmp` is `Less` (bytewise on UTF-8 = by code point) -/
def symLt : Sym → Sym → Bool
  | [], [] => false
  | [], _ :: _ => true
  | _ :: _, [] => false
  | a :: as, b :: bs => if a.toNat < b.toNat then true else if b.toNat < a.toNat then false else symLt as bs

def insertField (x : Sym × Expr) : List (Sym × Expr) → List (Sym × Expr)
  | [] => [x]
  | y :: ys => if symLt x.1 y.1 then x :: y :: ys else y :: insertField x ys

/-- `fields.sort_by(|a, b| a.name.cmp(b.name))` (stable) -/
def sortFields (fs : List (Sym × Expr)) : List (Sym × Expr) := fs.foldl (fun acc x => insertField x acc) []

/-! ## Expressions -/

/-- `Expr::Error.into_id_without_span()` -/
def errNoSpan : Expr := .error .zero

/-- `unwrap_paren` -/
def unwrapParen : Expr → Expr
  | .paren inner _ => unwrapParen inner
  | e => e

/-- `lower_assign(lhs, node)` -/
def lowerAssign (lhs : Expr) (n : A) : Expr :=
  .assign lhs n.attrs.seq (.merge lhs.span n.attrs.seq.span)

/-- `lower_expr_sequence(nodes)`: the `try_fold` with accumulator `acc`.  `lower_binary(node)`, `lower_call(node)`, … are
`lower_expr(node)` for a node of that kind.  NOTE `skip_next` is never set in `lower.rs`; the call `lower_expr_sequence(&nodes[i..])`
of the `Then(first, None)` arm starts with an empty accumulator at a node of the last arm, i.e. continues with
`Some(lower_expr(node))` — written out here so that the recursion is on the tail. -/
def seqGo : Option Expr → List A → Expr
  | acc, [] => acc.getD errNoSpan
  | acc, n :: rest =>
    match n.kind with
    | none => seqGo acc rest
    | some k =>
      if k == .BinaryExpr || k == .CallExpr || k == .FieldAccess || k == .IndexExpr then seqGo (some n.attrs.expr) rest
      else if k == .AssignExpr then
        match acc with
        | some lhs =>
          let assign := lowerAssign lhs n
          if rest.isEmpty then seqGo (some assign) rest
          else
            let cont := seqGo none rest
            .then_ assign (some cont) (.merge assign.span cont.span)
        | none => seqGo (some n.attrs.expr) rest
      else
        match acc with
        | some (.then_ first none psp) =>
          let rhs := seqGo (some n.attrs.expr) rest
          .then_ first (some rhs) (.merge psp rhs.span)
        | _ => seqGo (some n.attrs.expr) rest

/-- `lower_expr_sequence` -/
def lowerExprSequence (nodes : List A) : Expr := seqGo none nodes

/-- the closure `collect_args` / `collect_elems` of `lower_arg_list` / `lower_expr_list`: `(args, current)` newest first -/
def collectGo : List Expr → List A → List A → List Expr
  | args, cur, [] => (if cur.isEmpty then args else lowerExprSequence cur.reverse :: args).reverse
  | args, cur, c :: rest =>
    if c.isTok (· == .Comma) then
      collectGo (if cur.isEmpty then args else lowerExprSequence cur.reverse :: args) [] rest
    else if c.hasKind isExprKind then collectGo args (c :: cur) rest
    else collectGo args cur rest

def collectArgs (cs : List A) : List Expr := collectGo [] [] cs

/-- `lower_arg_list` -/
def lowerArgList (cs : List A) : List Expr :=
  match findChild cs (· == .ArgList) with
  | some a => collectArgs a.children
  | none => collectArgs cs

/-- `lower_expr_list` -/
def lowerExprList (cs : List A) : List Expr := collectArgs cs

/-- `lower_qualified_path`: the `Ident` tokens among the children -/
def lowerQualifiedPath (cs : List A) : Option (List Sym) :=
  let segs := cs.filterMap fun c => if c.isTok (· == .Ident) then some c.tokText else none
  if segs.isEmpty then none else some segs

/-- `lower_record_fields` -/
def lowerRecordFields (cs : List A) : List (Sym × Expr) :=
  let r := cs.foldl (fun (st : List (Sym × Expr) × Option Sym) c =>
    if c.isTok (· == .Ident) then (st.1, some c.tokText)
    else if c.hasKind isExprKind then
      (match st.2 with
       | some name => (st.1 ++ [(name, c.attrs.expr)], none)
       | none => st)
    else st) ([], none)
  sortFields r.1

/-- the type of a `TypeAnnotation` node, `Type::Unknown` at `loc` if it has no type child -/
def annoTypeOr (a : A) (loc : Sp) : Ty := (firstTypeOf a.children).getD (.unknown loc)

/-- `lower_lambda`: the parameters.  NOTE `next_index` only skips the `TypeAnnotation` child, an internal node the loop ignores. -/
def lambdaParams : List A → List TypedId
  | [] => []
  | c :: rest =>
    (if c.isTok (fun k => k == .Ident || k == .IdentParameter) then
      let loc := c.tokSpan
      let ty := match rest with
        | a :: _ => if a.is .TypeAnnotation then annoTypeOr a loc else .unknown loc
        | [] => .unknown loc
      [(c.tokText, ty, none)]
    else []) ++ lambdaParams rest

/-- `lower_param_list`: the parameters.  NOTE as for `lambdaParams` (`TypeAnnotation`, `ParamDefault` are internal nodes). -/
def paramListGo : List A → List TypedId
  | [] => []
  | c :: rest =>
    (if c.isTok (fun k => k == .Ident || k == .IdentParameter) then
      let loc := c.tokSpan
      let hasAnno := match rest with | a :: _ => a.is .TypeAnnotation | [] => false
      let ty := match rest with
        | a :: _ => if a.is .TypeAnnotation then annoTypeOr a loc else .unknown loc
        | [] => .unknown loc
      let rest' := if hasAnno then rest.drop 1 else rest
      let dflt := match rest' with
        | d :: _ => if d.is .ParamDefault then (if (childExprs d.children).isEmpty then none else some d.attrs.seq) else none
        | [] => none
      [(c.tokText, ty, dflt)]
    else []) ++ paramListGo rest

/-- `lower_param_list` -/
def lowerParamList (n : A) : List TypedId × Sp := (paramListGo n.children, n.attrs.span.getD .zero)

/-- `lower_block_statements` -/
def lowerBlockStatements (cs : List A) : List (Statement × Sp) :=
  ((cs.filter (·.is .Statement)).filterMap (·.attrs.stmt)).map fun (stmt, span) =>
    ((match stmt with
      | .global s => s
      | .stageDecl k => .declareStage k
      | _ => .error), span)

/-- `lower_match_arm` -/
def lowerMatchArm (n : A) : MatchPattern × Expr :=
  let cs := n.children
  let pattern := match cs.find? (·.is .MatchPattern) with | some p => p.attrs.mpat | none => .wildcard
  let body := match (cs.filter (fun c => !c.is .MatchPattern)).find? (·.hasKind isExprKind) with
    | some c => c.attrs.expr
    | none => .error (n.attrs.span.getD .zero)
  (pattern, body)

/-- `lower_match_expr` -/
def lowerMatchExpr (cs : List A) (loc : Sp) : Expr :=
  let scrutinee := match cs.find? (·.hasKind isExprKind) with | some c => c.attrs.expr | none => .error loc
  let arms := match cs.find? (·.is .MatchArmList) with
    | some l => (l.children.filter (·.is .MatchArm)).map lowerMatchArm
    | none => []
  .match_ scrutinee arms loc

/-- `macro_expand_span` -/
def macroExpandSpan (toks : List Leaf) (base : Sp) : Sp :=
  match findToken toks (· == .MacroExpand) with
  | some l => .startEnd base (.tok l.j)
  | none => .startEnd base base

/-- `lower_macro_expand` -/
def lowerMacroExpand (cs : List A) (toks : List Leaf) : Expr × List Expr :=
  let args := lowerArgList cs
  let namePath := (cs.takeWhile (fun c => !c.isTok (· == .MacroExpand))).find? (·.is .QualifiedPath)
  match namePath.bind (fun p => (lowerQualifiedPath p.children).map fun path => (p, path)) with
  | some (p, path) => (.qvar path (macroExpandSpan toks (p.attrs.span.getD .zero)), args)
  | none =>
    let nameTok := findToken toks (· == .Ident)
    let name := (nameTok.bind Leaf.text?).getD []
    let identSpan := match nameTok with | some l => Sp.tok l.j | none => .zero
    (.var name (macroExpandSpan toks identSpan), args)

/-- `extract_unary_op` -/
def extractUnaryOp (toks : List Leaf) : Option Op :=
  toks.findSome? fun l => match l.tok with
    | some (.OpMinus, _) => some Op.minus
    | some (.OpSum, _) => some Op.sum
    | _ => none

def binOpOf : Kind → Option Op
  | .OpSum => some .sum | .OpMinus => some .minus | .OpProduct => some .product | .OpDivide => some .divide
  | .OpEqual => some .equal | .OpNotEqual => some .notEqual | .OpLessThan => some .lessThan | .OpLessEqual => some .lessEqual
  | .OpGreaterThan => some .greaterThan | .OpGreaterEqual => some .greaterEqual | .OpModulo => some .modulo
  | .OpExponent => some .exponent | .OpAnd => some .and | .OpOr => some .or | .OpAt => some .at | .OpPipe => some .pipe
  | .OpPipeMacro => some .pipeMacro
  | _ => none

/-- `extract_binary_op`: the first DIRECT child that is an operator token -/
def extractBinaryOp (cs : List A) : Option (Op × Sp) :=
  cs.findSome? fun c => match c.tok? with
    | some t => (binOpOf t.1).map fun op => (op, c.tokSpan)
    | none => none

/-- `lower_binary` -/
def lowerBinary (cs : List A) : Expr :=
  let (op, opSpan) := (extractBinaryOp cs).getD (.unknown [], .zero)
  let es := childExprs cs
  let (lhs, rhs) := match es, es.getLast? with
    | l :: _ :: _, some r => (l.attrs.expr, r.attrs.expr)
    | [r], _ => (errNoSpan, r.attrs.expr)
    | _, _ => (errNoSpan, errNoSpan)
  .binOp lhs op opSpan rhs (.merge lhs.span rhs.span)

/-- `lower_call` -/
def lowerCall (cs : List A) (span : Option Sp) : Expr :=
  let callee := match childExprs cs with | c :: _ => c.attrs.expr | [] => errNoSpan
  let args := (lowerArgList cs).map unwrapParen
  let callSpan := span.getD callee.span
  .apply callee args (.merge callee.span callSpan)

/-- `lower_field_access` -/
def lowerFieldAccess (cs : List A) (span : Option Sp) : Expr :=
  let lhs := match childExprs cs with | c :: _ => c.attrs.expr | [] => errNoSpan
  let fieldTok := (cs.filter fun c => c.isTok fun k => k == .Ident || k == .Int).getLast?
  let sp := match span with | some s => Sp.merge lhs.span s | none => lhs.span
  match fieldTok.bind (·.tok?) with
  | some (.Ident, text) => .fieldAccess lhs text sp
  | some (.Int, text) => (match parseI64 text with | some n => .proj lhs n sp | none => .error sp)
  | _ => .error sp

/-- `lower_index` -/
def lowerIndex (cs : List A) : Expr :=
  let (lhs, index) := match childExprs cs with
    | a :: b :: _ => (a.attrs.expr, b.attrs.expr)
    | [a] => (a.attrs.expr, errNoSpan)
    | [] => (errNoSpan, errNoSpan)
  .arrayAccess lhs index (.merge lhs.span index.span)

/-- `lower_expr`; `seq` = `lower_expr_sequence(&child_exprs(node))` -/
def lowerExpr (kind : Option SK) (cs : List A) (span : Option Sp) (toks : List Leaf) (seq : Expr) : Expr :=
  let loc := span.getD .zero
  let noExprs := (childExprs cs).isEmpty
  match kind with
  | some .IntLiteral => .lit (.float ((textOfFirstToken toks).getD ['0'])) loc
  | some .FloatLiteral => .lit (.float ((textOfFirstToken toks).getD ['0', '.', '0'])) loc
  | some .StringLiteral => .lit (.string (trimQuotes ((textOfFirstToken toks).getD ['"']))) loc
  | some .SelfLiteral => .lit .selfLit loc
  | some .NowLiteral => .lit .now loc
  | some .SampleRateLiteral => .lit .sampleRate loc
  | some .PlaceHolderLiteral => .lit .placeHolder loc
  | some .Identifier => .var ((textOfFirstToken toks).getD []) loc
  | some .QualifiedPath =>
    (match lowerQualifiedPath cs with
     | some [s] => .var s loc
     | some path => .qvar path loc
     | none => .error loc)
  | some .TupleExpr => .tuple (lowerExprList cs) loc
  | some .ArrayExpr => .arrayLit (lowerExprList cs) loc
  | some .RecordExpr =>
    if (findToken toks (· == .LeftArrow)).isSome then
      let base := match childExprs cs with | c :: _ => c.attrs.expr | [] => .error loc
      .recordUpdate base (lowerRecordFields cs) loc
    else if (findToken toks (· == .DoubleDot)).isSome then .incRecord (lowerRecordFields cs) loc
    else .recordLit (lowerRecordFields cs) loc
  | some .IfExpr =>
    let es := childExprs cs
    let rawCond := match es with | c :: _ => c.attrs.expr | [] => .error loc
    let cond := match rawCond with | .paren inner _ => inner | e => e
    let thenE := match es.drop 1 with | c :: _ => c.attrs.expr | [] => .error loc
    let elseE := match es.drop 2 with | c :: _ => some c.attrs.expr | [] => none
    .if_ cond thenE elseE loc
  | some .MatchExpr => lowerMatchExpr cs loc
  | some .BlockExpr => .block (intoThenExpr (lowerBlockStatements cs)) loc
  | some .LambdaExpr => .lambda (lambdaParams cs) none seq loc
  | some .UnaryExpr =>
    let op := (extractUnaryOp toks).getD .minus
    .uniOp op loc (if noExprs then .error loc else seq) loc
  | some .ParenExpr => if noExprs then .error loc else seq
  | some .MacroExpansion => let r := lowerMacroExpand cs toks; .macroExpand r.1 r.2 loc
  | some .BinaryExpr => lowerBinary cs
  | some .CallExpr => lowerCall cs span
  | some .FieldAccess => lowerFieldAccess cs span
  | some .IndexExpr => lowerIndex cs
  | some .AssignExpr => .error loc
  | some .BracketExpr => .bracket (if noExprs then .error loc else seq) loc
  | some .EscapeExpr => .escape (if noExprs then .error loc else seq) loc
  | _ => .error loc

/-! ## Types -/

/-- the `RecordType` arm of `lower_type` -/
def recordTypeFields (cs : List A) : List (Sym × Ty) :=
  (cs.foldl (fun (st : List (Sym × Ty) × Option Sym) c =>
    if c.isTok (fun k => k == .Ident || k == .IdentParameter) then (st.1, some c.tokText)
    else if c.hasKind isTypeKind then
      (match st.2 with
       | some name => (st.1 ++ [(name, c.attrs.ty)], none)
       | none => st)
    else st) ([], none)).1

/-- `lower_type` -/
def lowerType (kind : Option SK) (leaf : Option Leaf) (cs : List A) (span : Option Sp) (toks : List Leaf) : Ty :=
  let loc := span.getD .zero
  match kind with
  | some .PrimitiveType =>
    let text := (textOfFirstToken toks).getD "float".toList
    .prim (if text == "float".toList then .numeric else if text == "int".toList then .int
           else if text == "string".toList then .string else .numeric) loc
  | some .UnitType => .prim .unit loc
  | some .TupleType => .tuple ((typeChildren cs).map (·.attrs.ty)) loc
  | some .ArrayType => .array ((firstTypeOf cs).getD (.unknown loc)) loc
  | some .FunctionType =>
    let lowered := (typeChildren cs).map (·.attrs.ty)
    (match lowered, lowered.getLast? with
     | [a, r], _ => .fn a r loc
     | _ :: _ :: _, some r => .fn (.tuple lowered.dropLast loc) r loc
     | _, _ => .unknown loc)
  | some .RecordType => .record (recordTypeFields cs) loc
  | some .CodeType => .code ((firstTypeOf cs).getD (.unknown loc)) loc
  | some .UnionType => .union ((typeChildren cs).map (·.attrs.ty)) loc
  | some .TypeIdent =>
    let segs := cs.filterMap fun c => if c.isTok (· == .Ident) then some c.tokText else none
    if segs.isEmpty then .unknown loc else .alias (['$'].intercalate segs) loc
  | _ =>
    (match leaf.bind (·.tok) with
     | some (.Ident, text) => .alias text loc
     | _ => .unknown loc)

/-! ## Patterns -/

/-- the `RecordPattern` arm of `lower_pattern` -/
def recordPatternItems (cs : List A) : List (Sym × Pattern) :=
  (cs.foldl (fun (st : List (Sym × Pattern) × Option Sym) c =>
    if c.isTok (fun k => k == .Ident || k == .IdentParameter) then (st.1, some c.tokText)
    else if c.hasKind isPatternKind then
      (match c.attrs.pat, st.2 with
       | some (p, _), some name => (st.1 ++ [(name, p)], none)
       | _, _ => st)
    else st) ([], none)).1

/-- `lower_pattern` -/
def lowerPattern (kind : Option SK) (cs : List A) (span : Option Sp) (toks : List Leaf) : Option (Pattern × Sp) :=
  match span with
  | none => none
  | some sp =>
    match kind with
    | some .Pattern =>
      (match childPatterns cs with
       | c :: _ => c.attrs.pat
       | [] => some (.error, sp))
    | some .SinglePattern =>
      let name := (textOfFirstToken toks).getD []
      some (if name == ['_'] then .placeholder else .single name, sp)
    | some .TuplePattern => some (.tuple (((childPatterns cs).filterMap (·.attrs.pat)).map (·.1)), sp)
    | some .RecordPattern => some (.record (recordPatternItems cs), sp)
    | _ => some (.error, sp)

/-- `lower_match_pattern` -/
def lowerMatchPattern (cs : List A) : MatchPattern :=
  (cs.findSome? fun c => match c.kind with
    | some .IntLiteral => ((textOfFirstToken c.attrs.toks).bind parseI64).map fun n => MatchPattern.lit (.int n)
    | some .FloatLiteral => (textOfFirstToken c.attrs.toks).map fun t => MatchPattern.lit (.float t)
    | some .PlaceHolderLiteral => some .wildcard
    | some .ConstructorPattern => some c.attrs.cpat
    | some .TuplePattern => some c.attrs.mtpat
    | some .Identifier => (textOfFirstToken c.attrs.toks).map fun t => MatchPattern.ctor t none
    | _ => none).getD .wildcard

/-- `lower_constructor_pattern` -/
def lowerConstructorPattern (cs : List A) : MatchPattern :=
  let r := cs.foldl (fun (st : Option Sym × Option MatchPattern) c =>
    match c.kind with
    | some .Identifier =>
      (match textOfFirstToken c.attrs.toks with
       | some text => (match st.1 with | none => (some text, st.2) | some _ => (st.1, some (.var text)))
       | none => st)
    | some .PlaceHolderLiteral => (st.1, some .wildcard)
    | some .TuplePattern => (st.1, some c.attrs.tpat)
    | _ => st) (none, none)
  match r.1 with
  | some name => .ctor name r.2
  | none => .wildcard

/-- `lower_tuple_pattern` -/
def lowerTuplePattern (cs : List A) : MatchPattern :=
  let ps := cs.filterMap fun c => match c.kind with
    | some .Identifier => (textOfFirstToken c.attrs.toks).map MatchPattern.var
    | some .SinglePattern => (textOfFirstToken c.attrs.toks).map MatchPattern.var
    | some .PlaceHolderLiteral => some .wildcard
    | some .TuplePattern => some c.attrs.tpat
    | _ => none
  match ps with
  | [MatchPattern.tuple qs] => .tuple qs
  | _ => .tuple ps

/-- `lower_match_tuple_pattern` -/
def lowerMatchTuplePattern (cs : List A) : MatchPattern :=
  .tuple ((cs.filter (·.is .MatchPattern)).map (·.attrs.mpat))

/-! ## Statements and declarations -/

/-- `lower_use_target_multiple` -/
def lowerUseTargetMultiple (cs : List A) : List Sym :=
  cs.filterMap fun c => if c.isTok (· == .Ident) then some c.tokText else none

/-- `lower_use_path` -/
def lowerUsePath (cs : List A) : Option (List Sym × UseTarget) :=
  let r := cs.foldl (fun (st : List Sym × UseTarget) c =>
    match c.kind with
    | some .UseTargetWildcard => (st.1, .wildcard)
    | some .UseTargetMultiple => (st.1, .multiple (lowerUseTargetMultiple c.children))
    | _ => if c.isTok (· == .Ident) then (st.1 ++ [c.tokText], st.2) else st) ([], UseTarget.single)
  match r with
  | ([], .single) => none
  | _ => some r

/-- `lower_use_stmt` -/
def lowerUseStmt (n : A) (vis : Bool) : Option PStmt :=
  (findChild n.children (· == .QualifiedPath)).bind fun p =>
    (lowerUsePath p.children).map fun (path, target) => .useStmt vis path target

/-- `lower_module_decl` -/
def lowerModuleDecl (n : A) (vis : Bool) : Option PStmt :=
  ((findToken n.attrs.toks (· == .Ident)).bind Leaf.text?).map fun name =>
    let hasBlock := (findToken n.attrs.toks (· == .BlockBegin)).isSome
    .moduleDef vis name (if hasBlock then some ((n.children.filter (·.is .Statement)).filterMap (·.attrs.stmt)) else none)

/-- `lower_variant_def` -/
def lowerVariantDef (n : A) : Option (Sym × Option Ty) :=
  ((findToken n.attrs.toks (· == .Ident)).bind Leaf.text?).map fun name =>
    let ts := (typeChildren n.children).map (·.attrs.ty)
    (name, match ts with
      | [] => none
      | [t] => some t
      | _ => some (.tuple ts .zero))

/-- `lower_type_decl` -/
def lowerTypeDecl (n : A) (vis : Bool) : Option PStmt :=
  let isRec := (findToken n.attrs.toks (· == .Rec)).isSome
  ((findToken n.attrs.toks (· == .Ident)).bind Leaf.text?).bind fun name =>
    let variants := (n.children.filter (·.is .VariantDef)).filterMap lowerVariantDef
    if variants.isEmpty then (firstTypeOf n.children).map fun t => .typeAlias vis name t
    else some (.typeDecl vis name variants isRec)

/-- `lower_let_decl`.  NOTE `collect_expr_nodes_after(node, pattern_node)` skips up to the node id of `pattern_node`, which is the
first child of a pattern kind. -/
def lowerLetDecl (n : A) : Option PStmt :=
  (findChild n.children isPatternKind).bind fun pn =>
    pn.attrs.pat.map fun (pat, patSpan) =>
      let anno := (findChild n.children (· == .TypeAnnotation)).bind fun a => firstTypeOf a.children
      let exprNodes := childExprs ((n.children.dropWhile (fun c => !c.hasKind isPatternKind)).drop 1)
      let value := lowerExprSequence exprNodes
      .global (.let_ pat (anno.getD (.unknown patSpan)) value)

/-- the `return_type` of `lower_function_decl` -/
def fnReturnType (cs : List A) : Option Ty :=
  cs.findSome? fun c => match c.kind with
    | some .TypeAnnotation => firstTypeOf c.children
    | some k => if isTypeKind k then some c.attrs.ty else none
    | none => none

/-- `lower_function_decl` -/
def lowerFunctionDecl (n : A) (vis : Bool) : Option PStmt :=
  ((findToken n.attrs.toks (fun k => k == .IdentFunction || k == .Ident)).bind Leaf.text?).bind fun name =>
    let (params, paramsSpan) := match findChild n.children (· == .ParamList) with
      | some p => lowerParamList p
      | none => ([], n.attrs.span.getD .zero)
    let bodyNode := match findChild n.children (· == .BlockExpr) with
      | some b => some b
      | none => findChild n.children isExprKind
    bodyNode.map fun b =>
      let body := if b.is .BlockExpr then (intoThenExpr (lowerBlockStatements b.children)).getD errNoSpan else b.attrs.expr
      .fnDef vis name params paramsSpan (fnReturnType n.children) body

/-- `lower_letrec_decl` -/
def lowerLetrecDecl (n : A) : Option PStmt :=
  ((findToken n.attrs.toks (· == .Ident)).bind Leaf.text?).bind fun name =>
    n.attrs.span.map fun span => .global (.letRec (name, .unknown span, none) n.attrs.seq)

/-- `lower_include` -/
def lowerInclude (n : A) : Option PStmt :=
  ((findToken n.attrs.toks (· == .Str)).bind Leaf.text?).map fun raw => .import_ (trimQuotes raw)

/-- `lower_stage_decl` -/
def lowerStageDecl (n : A) : Option PStmt :=
  (findToken n.attrs.toks (fun k => k == .Main || k == .Macro)).bind fun l =>
    l.tok.map fun t => .stageDecl (if t.1 == .Macro then .macro_ else .main)

/-- `extract_visibility` -/
def extractVisibility (cs : List A) : Bool := (cs.find? (·.is .VisibilityPub)).isSome

/-- `lower_statement`; `seq` = `lower_expr_sequence(&collect_expr_nodes(node))` -/
def lowerStatement (kind : Option SK) (cs : List A) (span : Option Sp) (seq : Expr) : Option (PStmt × Sp) :=
  span.map fun sp =>
    ((match kind with
      | some .Statement =>
        let vis := extractVisibility cs
        (match cs.find? (·.hasKind (· != .VisibilityPub)) with
         | some c =>
           (match c.kind with
            | some .FunctionDecl => (lowerFunctionDecl c vis).getD .error
            | some .LetDecl => (lowerLetDecl c).getD .error
            | some .LetRecDecl => (lowerLetrecDecl c).getD .error
            | some .IncludeStmt => (lowerInclude c).getD .error
            | some .StageDecl => (lowerStageDecl c).getD .error
            | some .ModuleDecl => (lowerModuleDecl c vis).getD .error
            | some .UseStmt => (lowerUseStmt c vis).getD .error
            | some .TypeDecl => (lowerTypeDecl c vis).getD .error
            | _ => .global (.single seq))
         | none => .error)
      | _ => .error), sp)

/-! ## The recursion -/

/-- all attributes of a node from its kind, its token (for a leaf) and its attributed children -/
def mkA (kind : Option SK) (leaf : Option Leaf) (cs : List A) : A :=
  let span : Option Sp := match leaf with
    | some l => l.tok.map fun _ => Sp.tok l.j
    | none => nodeSpanOf cs
  let toks : List Leaf := match leaf with
    | some l => [l]
    | none => cs.flatMap (·.attrs.toks)
  let seq := lowerExprSequence (childExprs cs)
  .mk kind leaf cs
    { span := span, toks := toks, seq := seq
      expr := lowerExpr kind cs span toks seq
      stmt := lowerStatement kind cs span seq
      pat := lowerPattern kind cs span toks
      ty := lowerType kind leaf cs span toks
      mpat := lowerMatchPattern cs
      cpat := lowerConstructorPattern cs
      tpat := lowerTuplePattern cs
      mtpat := lowerMatchTuplePattern cs }

mutual
/-- the attributed tree (structural recursion: this is the whole recursion of `lower.rs`) -/
def attr : T → A
  | .leaf l => mkA none (some l) []
  | .node k cs => mkA (some ((SK.ofNat? k).getD .Error)) none (attrL cs)
/-- `attr` on every child -/
def attrL : List T → List A
  | [] => []
  | c :: cs => attr c :: attrL cs
end

/-- the state of the `fold` of `lower_program` -/
structure ProgAcc where
  stmts : List (PStmt × Sp) := []
  pending : List (Statement × Sp) := []
  pendingSpan : Sp := .zero

/-- push the merged pending global statements (`into_then_expr(&pending_statements)`) -/
def ProgAcc.flush (a : ProgAcc) : List (PStmt × Sp) :=
  if a.pending.isEmpty then a.stmts
  else match intoThenExpr a.pending with
    | some merged => a.stmts ++ [(.global (.single merged), a.pendingSpan)]
    | none => a.stmts

/-- one step of the `fold` of `lower_program` -/
def progStep (a : ProgAcc) (x : PStmt × Sp) : ProgAcc :=
  match x.1 with
  | .global (.single e) =>
    { a with pending := a.pending ++ (stmtFromExpr e).map (fun s => (s, x.2)), pendingSpan := x.2 }
  | _ => { a with stmts := a.flush ++ [x], pending := [] }

/-- `lower_program`: `Program.statements` -/
def lowerProgram (root : A) : List (PStmt × Sp) :=
  (((root.children.filter (·.is .Statement)).filterMap (·.attrs.stmt)).foldl progStep {}).flush

/-! ## The whole front end: text → tokens → CST → AST -/

open Mimium.Lexer in
/-- `Lowerer::new(source, &tokens, &arena, _).lower_program(root)` on the output of the ported `parse_cst`: `kinds` are the relabelled
token kinds, `texts` the token texts -/
def lowerGreen (kinds : Array Kind) (texts : Array Sym) (g : Green) : List (PStmt × Sp) :=
  let info := fun i => match kinds[i]?, texts[i]? with | some k, some t => some (k, t) | _, _ => none
  lowerProgram (attr (resolve info g 0).1)

/-- `GLOBAL_LABEL` -/
def globalLabel : Sym := "_mimium_global".toList

/-- the reserved-name diagnostics `parse_program` appends: indices of the tokens of kind `Ident` spelled `_mimium_global` -/
def reservedErrors (kinds : Array Kind) (texts : Array Sym) : List Nat :=
  (List.range kinds.size).filter fun i => kinds[i]? == some Kind.Ident && texts[i]? == some globalLabel

structure FrontEnd where
  toks : List Lexer.Token
  texts : List Sym
  parse : Grammar.St
  prog : List (PStmt × Sp)
  reserved : List Nat
  /-- raw token index of every leaf, in tree order: `Sp.tok j` is the span of token `leaves[j]` -/
  leaves : List Nat

open Mimium.Lexer in
/-- `parse_program(source, _)`: `tokenize`, `preparse`, `parse_cst`, `Lowerer::lower_program` -/
def frontEnd (C : Classes) (Tb : Tables) (s : List Char) : FrontEnd :=
  let toks := tokenize C Tb s
  let texts := (splitProj none (lex C Tb s)).map (·.text) ++ [[]]
  let st := Grammar.parseTokens (toks.map Token.kind) (toks.map Token.len)
  let ta := texts.toArray
  match st.b.root with
  | some g => ⟨toks, texts, st, lowerGreen st.kinds ta g, reservedErrors st.kinds ta, g.leaves⟩
  | none => ⟨toks, texts, st, [], reservedErrors st.kinds ta, []⟩

/-- byte offsets of the leaves: `leaves[j]`-th token's `start..end()` -/
def leafOffsets (toks : Array Lexer.Token) (leaves : Array Nat) (j : Nat) : Nat × Nat :=
  match leaves[j]? with
  | some r => (match toks[r]? with | some t => (t.start, t.start + t.len) | none => (0, 0))
  | none => (0, 0)

end Mimium.Lower
