import Mimium.Model.Cells
/-!
# M3 — reference semantics of the mimium core language (the independent definition C02 asks for)

Call-by-value big-step evaluator with
* a store of mutable locations (closures capture locations, so assignments to captured variables are shared),
* **per-call-site state**: every stateful construct (`call` of a named function, `mem`, `delay`) carries the
  identifier of its textual site; the state of a function instance is a tree node holding its previous return
  value (`self`) and one cell per site, zero-initialised on first use and carried from one sample to the next,
* `now` / `samplerate` / dsp inputs supplied by the per-sample driver.

The evaluator takes fuel (one unit per AST node visited); `none`-like results are explicit errors.
Numbers are raw binary64 bit patterns; arithmetic goes through Lean's `Float` (IEEE double).
-/
namespace Mimium.Core
open Mimium.Cells

inductive BinOp | add | sub | mul | div | lt | le | gt | ge | eq | ne | and | or
deriving Repr, DecidableEq, Inhabited

inductive UnOp | neg | sqrt | abs | not | floor | ceil | round
deriving Repr, DecidableEq, Inhabited

/-- shape of a (first-order) value: used to build the zero value of `self` -/
inductive Shape | num | tup (ss : List Shape)
deriving Repr, Inhabited

inductive Expr where
  | lit (bits : UInt64)
  | var (x : String)
  | un (op : UnOp) (e : Expr)
  | bin (op : BinOp) (a b : Expr)
  | ite (c a b : Expr)
  | letE (x : String) (e body : Expr)
  | letTup (xs : List String) (e body : Expr)
  | tup (es : List Expr)
  | proj (e : Expr) (i : Nat)
  | call (f : String) (args : List Expr) (site : Nat)
  | app (f : Expr) (args : List Expr)
  | lam (params : List String) (body : Expr)
  | self
  | mem (e : Expr) (site : Nat)
  | delay (n : Nat) (e t : Expr) (site : Nat)
  | now
  | samplerate
  | assign (x : String) (e rest : Expr)
deriving Repr, Inhabited

abbrev Env := List (String × Nat)

inductive Val where
  | num (bits : UInt64)
  | tup (vs : List Val)
  | clo (params : List String) (body : Expr) (env : Env)
deriving Repr, Inhabited

structure FnDecl where
  name : String
  params : List String
  body : Expr
  /-- shape of the return value when the body mentions `self` -/
  selfShape : Option Shape
deriving Repr, Inhabited

structure Prog where
  globals : List (String × Expr)
  fns : List FnDecl
  dsp : FnDecl
deriving Repr, Inhabited

mutual
/-- state of one function instance: previous return value and one cell per stateful site of its body -/
inductive SNode where
  | mk (selfv : Option Val) (cells : List (Nat × SCell))
inductive SCell where
  | mem (w : UInt64)
  | delay (r : Ring)
  | child (n : SNode)
end

instance : Inhabited SNode := ⟨.mk none []⟩

def SNode.empty : SNode := .mk none []
def SNode.selfv : SNode → Option Val | .mk s _ => s
def SNode.cells : SNode → List (Nat × SCell) | .mk _ c => c
def SNode.setSelf : SNode → Val → SNode | .mk _ c, v => .mk (some v) c

def lookupCell (cs : List (Nat × SCell)) (site : Nat) : Option SCell :=
  match cs with
  | [] => none
  | (k, c) :: rest => if k == site then some c else lookupCell rest site

def setCell (cs : List (Nat × SCell)) (site : Nat) (c : SCell) : List (Nat × SCell) :=
  match cs with
  | [] => [(site, c)]
  | (k, c') :: rest => if k == site then (k, c) :: rest else (k, c') :: setCell rest site c

def SNode.setCell : SNode → Nat → SCell → SNode | .mk s cs, site, c => .mk s (Core.setCell cs site c)

/-- content of the `mem` cell of a site (0 when the site has not been evaluated yet) -/
def SNode.memAt (st : SNode) (site : Nat) : UInt64 :=
  match lookupCell st.cells site with
  | some (.mem w) => w
  | _ => 0

/-- the ring of a `delay` site (all zeros, length `n`, when the site has not been evaluated yet) -/
def SNode.ringAt (st : SNode) (n site : Nat) : Cells.Ring :=
  match lookupCell st.cells site with
  | some (.delay r) => r
  | _ => Cells.Ring.zero n

/-- the state of the function instance called at a site (empty when the site has not been evaluated yet) -/
def SNode.childAt (st : SNode) (site : Nat) : SNode :=
  match lookupCell st.cells site with
  | some (.child n) => n
  | _ => SNode.empty

/-- what the per-sample driver supplies -/
structure Rt where
  now : UInt64          -- bits of the sample index as f64
  samplerate : UInt64
deriving Repr, Inhabited

inductive Err | fuel | unbound (x : String) | type (what : String) | nofn (f : String)
deriving Repr, Inhabited

abbrev Store := List Val


def zeroOf : Shape → Val
  | .num => .num 0
  | .tup ss => .tup (zeroOfL ss)
where zeroOfL : List Shape → List Val
  | [] => []
  | s :: ss => zeroOf s :: zeroOfL ss

def fbool (b : Bool) : UInt64 := if b then (1.0 : Float).toBits else (0.0 : Float).toBits

def evalBin (op : BinOp) (a b : UInt64) : UInt64 :=
  let x := Float.ofBits a
  let y := Float.ofBits b
  match op with
  | .add => (x + y).toBits
  | .sub => (x - y).toBits
  | .mul => (x * y).toBits
  | .div => (x / y).toBits
  | .lt => fbool (x < y)
  | .le => fbool (x ≤ y)
  | .gt => fbool (x > y)
  | .ge => fbool (x ≥ y)
  | .eq => fbool (x == y)
  | .ne => fbool (x != y)
  | .and => fbool (x > 0.0 && y > 0.0)
  | .or => fbool (x > 0.0 || y > 0.0)

def evalUn (op : UnOp) (a : UInt64) : UInt64 :=
  let x := Float.ofBits a
  match op with
  | .neg => ((0.0 : Float) - x).toBits   -- `-e` is desugared to `0.0 - e` (convert_pronoun.rs)
  | .sqrt => x.sqrt.toBits
  | .abs => x.abs.toBits
  | .not => fbool (!(x > 0.0))
  | .floor => x.floor.toBits
  | .ceil => x.ceil.toBits
  | .round => x.round.toBits      -- ties away from zero, as Rust's `f64::round`

def findFn (fns : List FnDecl) (f : String) : Option FnDecl := fns.find? (·.name == f)

def bindAll (env : Env) (σ : Store) (xs : List String) (vs : List Val) : Env × Store :=
  match xs, vs with
  | x :: xs, v :: vs => bindAll ((x, σ.length) :: env) (σ ++ [v]) xs vs
  | _, _ => (env, σ)

abbrev Res (α : Type) := Except Err α

mutual
/-- `eval fuel P rt env e σ st` = (value, store, state of the current function instance) -/
def eval (fuel : Nat) (P : Prog) (rt : Rt) (env : Env) (e : Expr) (σ : Store) (st : SNode) :
    Res (Val × Store × SNode) :=
  match fuel with
  | 0 => .error .fuel
  | fuel + 1 =>
    match e with
    | .lit b => .ok (.num b, σ, st)
    | .var x =>
      match env.lookup x with
      | none => .error (.unbound x)
      | some l =>
        match σ[l]? with
        | some v => .ok (v, σ, st)
        | none => .error (.unbound x)
    | .un op a =>
      match eval fuel P rt env a σ st with
      | .error e => .error e
      | .ok (.num x, σ, st) => .ok (.num (evalUn op x), σ, st)
      | .ok _ => .error (.type "unary operand")
    | .bin op a b =>
      match eval fuel P rt env a σ st with
      | .error e => .error e
      | .ok (.num x, σ, st) =>
        match eval fuel P rt env b σ st with
        | .error e => .error e
        | .ok (.num y, σ, st) => .ok (.num (evalBin op x y), σ, st)
        | .ok _ => .error (.type "binary operand")
      | .ok _ => .error (.type "binary operand")
    | .ite c a b =>
      match eval fuel P rt env c σ st with
      | .error e => .error e
      | .ok (.num x, σ, st) =>
        if Float.ofBits x > 0.0 then eval fuel P rt env a σ st else eval fuel P rt env b σ st
      | .ok _ => .error (.type "condition")
    | .letE x a body =>
      match eval fuel P rt env a σ st with
      | .error e => .error e
      | .ok (v, σ, st) => eval fuel P rt ((x, σ.length) :: env) body (σ ++ [v]) st
    | .letTup xs a body =>
      match eval fuel P rt env a σ st with
      | .error e => .error e
      | .ok (.tup vs, σ, st) =>
        if vs.length == xs.length then
          let (env', σ') := bindAll env σ xs vs
          eval fuel P rt env' body σ' st
        else .error (.type "tuple pattern arity")
      | .ok _ => .error (.type "tuple pattern")
    | .tup es =>
      match evalList fuel P rt env es σ st with
      | .error e => .error e
      | .ok (vs, σ, st) => .ok (.tup vs, σ, st)
    | .proj a i =>
      match eval fuel P rt env a σ st with
      | .error e => .error e
      | .ok (.tup vs, σ, st) =>
        match vs[i]? with
        | some v => .ok (v, σ, st)
        | none => .error (.type "projection index")
      | .ok _ => .error (.type "projection")
    | .call f args site =>
      match evalList fuel P rt env args σ st with
      | .error e => .error e
      | .ok (vs, σ, st) =>
        match findFn P.fns f with
        | none => .error (.nofn f)
        | some d =>
          if d.params.length != vs.length then .error (.type "argument count") else
          let child := st.childAt site
          let child := match child.selfv, d.selfShape with
            | none, some sh => child.setSelf (zeroOf sh)
            | _, _ => child
          -- named functions see the global environment only (globals occupy the first store locations)
          let (env', σ') := bindAll (globalEnv P) σ d.params vs
          match eval fuel P rt env' d.body σ' child with
          | .error e => .error e
          | .ok (v, σ, child) =>
            let child := if d.selfShape.isSome then child.setSelf v else child
            .ok (v, σ, st.setCell site (.child child))
    | .app f args =>
      match eval fuel P rt env f σ st with
      | .error e => .error e
      | .ok (.clo ps body cenv, σ, st) =>
        match evalList fuel P rt env args σ st with
        | .error e => .error e
        | .ok (vs, σ, st) =>
          if ps.length != vs.length then .error (.type "argument count") else
          let (env', σ') := bindAll cenv σ ps vs
          -- closures of this fragment are stateless: their body runs against a scratch state
          match eval fuel P rt env' body σ' SNode.empty with
          | .error e => .error e
          | .ok (v, σ, _) => .ok (v, σ, st)
      | .ok _ => .error (.type "application of a non-function")
    | .lam ps body => .ok (.clo ps body env, σ, st)
    | .self =>
      match st.selfv with
      | some v => .ok (v, σ, st)
      | none => .error (.type "self outside a function with a declared self shape")
    | .mem a site =>
      match eval fuel P rt env a σ st with
      | .error e => .error e
      | .ok (.num x, σ, st) =>
        .ok (.num (st.memAt site), σ, st.setCell site (.mem x))
      | .ok _ => .error (.type "mem operand")
    | .delay n a t site =>
      match eval fuel P rt env a σ st with
      | .error e => .error e
      | .ok (.num x, σ, st) =>
        match eval fuel P rt env t σ st with
        | .error e => .error e
        | .ok (.num tm, σ, st) =>
          let r := st.ringAt n site
          .ok (.num (r.process x tm).1, σ, st.setCell site (.delay (r.process x tm).2))
        | .ok _ => .error (.type "delay time")
      | .ok _ => .error (.type "delay input")
    | .now => .ok (.num rt.now, σ, st)
    | .samplerate => .ok (.num rt.samplerate, σ, st)
    | .assign x a rest =>
      match eval fuel P rt env a σ st with
      | .error e => .error e
      | .ok (v, σ, st) =>
        match env.lookup x with
        | none => .error (.unbound x)
        | some l => eval fuel P rt env rest (List.set σ l v) st
/-- arguments / tuple components, left to right -/
def evalList (fuel : Nat) (P : Prog) (rt : Rt) (env : Env) (es : List Expr) (σ : Store) (st : SNode) :
    Res (List Val × Store × SNode) :=
  match fuel with
  | 0 => .error .fuel
  | fuel + 1 =>
    match es with
    | [] => .ok ([], σ, st)
    | e :: es =>
      match eval fuel P rt env e σ st with
      | .error e => .error e
      | .ok (v, σ, st) =>
        match evalList fuel P rt env es σ st with
        | .error e => .error e
        | .ok (vs, σ, st) => .ok (v :: vs, σ, st)
/-- the i-th global lives at store location i -/
def globalEnv (P : Prog) : Env :=
  (P.globals.zipIdx.map fun (g, i) => (g.1, i)).reverse
end

/-- machine state between samples -/
structure Machine where
  store : Store         -- exactly the globals
  root : SNode          -- state of `dsp`
  t : Nat               -- next sample index
deriving Inhabited

def natToF64Bits (n : Nat) : UInt64 := (Float.ofNat n).toBits

/-- global initialisation (`main`): evaluate the globals in order -/
def initGlobals (fuel : Nat) (P : Prog) (rt : Rt) : List (String × Expr) → Env → Store → Res Store
  | [], _, σ => .ok σ
  | (x, e) :: rest, env, σ =>
    match eval fuel P rt env e σ SNode.empty with
    | .error e => .error e
    | .ok (v, σ', _) =>
      -- a global's initialiser may have allocated temporaries; only the value is kept, at the next global slot
      let σ'' := σ ++ [v]
      let _ := σ'
      initGlobals fuel P rt rest ((x, σ.length) :: env) σ''

def Machine.init (fuel : Nat) (P : Prog) (sr : UInt64) : Res Machine :=
  match initGlobals fuel P ⟨natToF64Bits 0, sr⟩ P.globals [] [] with
  | .error e => .error e
  | .ok σ => .ok ⟨σ, SNode.empty, 0⟩

mutual
/-- the output words of a value (closures occupy no output word) -/
def flattenVal : Val → List UInt64
  | .num b => [b]
  | .tup vs => flattenVals vs
  | .clo .. => []
def flattenVals : List Val → List UInt64
  | [] => []
  | v :: vs => flattenVal v ++ flattenVals vs
end

/-- one dsp call: inputs in, output words out -/
def Machine.step (fuel : Nat) (P : Prog) (sr : UInt64) (m : Machine) (inputs : List UInt64) :
    Res (List UInt64 × Machine) :=
  let rt : Rt := ⟨natToF64Bits m.t, sr⟩
  let root := match m.root.selfv, P.dsp.selfShape with
    | none, some sh => m.root.setSelf (zeroOf sh)
    | _, _ => m.root
  let args := (P.dsp.params.zipIdx.map fun (_, i) => Val.num (inputs.getD i 0))
  let (env, σ) := bindAll (globalEnv P) m.store P.dsp.params args
  match eval fuel P rt env P.dsp.body σ root with
  | .error e => .error e
  | .ok (v, σ', root') =>
    let root' := if P.dsp.selfShape.isSome then root'.setSelf v else root'
    -- locals die with the sample; globals (the first |globals| locations) persist
    .ok (flattenVal v, ⟨σ'.take m.store.length, root', m.t + 1⟩)

end Mimium.Core
