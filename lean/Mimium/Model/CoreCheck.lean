import Mimium.Proofs.CoreTy
/-!
# An algorithmic type checker for the core language (executable; sound w.r.t. `Proofs/CoreTy.lean`)

`Proofs/CoreTy.lean` (Mathlib-free, definitions only) gives the types `Ty`, contexts, signatures and the DECLARATIVE typing
`HasType` / `WellTyped` that `Props/C03.lean` proves sound for the reference semantics.  This file is the ALGORITHM:

* `inferE Φ B Γ ρ e : Option Ty` (+ `inferL` for lists) — syntax-directed type synthesis.  The only construct whose rule is
  not syntax-directed in `HasType` is `lam` (the parameter types are guessed); the checker reads them from a side table
  `B : Binders` (parameter name ↦ type, absent = `num`).  `Expr` is unchanged.
* `checkProg A P : Option (Sig × List Ty × Ty)` — decides every clause of `WellTyped`: globals in order (typed without
  signatures, first-order), every declared function against the signature `sigOf A d` (parameter types from `A.binders`,
  return type from `A.rets`, absent = `num`), `selfShape` = return type, `Agree (calls body)` (decided exactly by
  `agreeB`), `dsp` with numeric parameters; additionally the output type must be first-order (`Ty.fo`).
  Returns the signatures, the types of the globals and the output type.
* `sitesUniqueProg P` — the generator's stronger guarantee (decidable `SitesUnique` of every body), reported by the driver.

The annotations `A` come either from the program text (`CoreCheckIO`: optional S-expression form) or from the untrusted
inference pre-pass `Model/CoreInfer.lean`; the soundness theorem (`Props/C03.lean`, `C03_check_sound`) holds for EVERY `A`.
-/
namespace Mimium.Core

/-! ### decidable equality of types -/
mutual
def Ty.beq : Ty → Ty → Bool
  | .num, .num => true
  | .tup as, .tup bs => Ty.beqL as bs
  | .fn as a, .fn bs b => Ty.beqL as bs && Ty.beq a b
  | _, _ => false
def Ty.beqL : List Ty → List Ty → Bool
  | [], [] => true
  | a :: as, b :: bs => Ty.beq a b && Ty.beqL as bs
  | _, _ => false
end

mutual
theorem Ty.beq_eq : ∀ (a b : Ty), Ty.beq a b = true → a = b
  | .num, .num, _ => rfl
  | .tup as, .tup bs, h => by simp only [Ty.beq] at h; rw [Ty.beqL_eq as bs h]
  | .fn as a, .fn bs b, h => by
    simp only [Ty.beq, Bool.and_eq_true] at h
    rw [Ty.beqL_eq as bs h.1, Ty.beq_eq a b h.2]
  | .num, .tup _, h => by simp [Ty.beq] at h
  | .num, .fn _ _, h => by simp [Ty.beq] at h
  | .tup _, .num, h => by simp [Ty.beq] at h
  | .tup _, .fn _ _, h => by simp [Ty.beq] at h
  | .fn _ _, .num, h => by simp [Ty.beq] at h
  | .fn _ _, .tup _, h => by simp [Ty.beq] at h
theorem Ty.beqL_eq : ∀ (as bs : List Ty), Ty.beqL as bs = true → as = bs
  | [], [], _ => rfl
  | a :: as, b :: bs, h => by
    simp only [Ty.beqL, Bool.and_eq_true] at h
    rw [Ty.beq_eq a b h.1, Ty.beqL_eq as bs h.2]
  | [], _ :: _, h => by simp [Ty.beqL] at h
  | _ :: _, [], h => by simp [Ty.beqL] at h
end

mutual
theorem Ty.beq_refl : ∀ (a : Ty), Ty.beq a a = true
  | .num => rfl
  | .tup as => by simp only [Ty.beq]; exact Ty.beqL_refl as
  | .fn as a => by simp only [Ty.beq, Bool.and_eq_true]; exact ⟨Ty.beqL_refl as, Ty.beq_refl a⟩
theorem Ty.beqL_refl : ∀ (as : List Ty), Ty.beqL as as = true
  | [] => rfl
  | a :: as => by simp only [Ty.beqL, Bool.and_eq_true]; exact ⟨Ty.beq_refl a, Ty.beqL_refl as⟩
end

instance : DecidableEq Ty := fun a b =>
  if h : Ty.beq a b = true then isTrue (Ty.beq_eq a b h)
  else isFalse (fun e => h (e ▸ Ty.beq_refl a))

/-! ### annotations -/

/-- types of function / lambda parameters, by parameter name (absent = `num`) -/
abbrev Binders := List (String × Ty)

def Binders.ty (B : Binders) (x : String) : Ty := (B.lookup x).getD .num

/-- what the program text does not say: parameter types (by name) and return types of the named functions (by name) -/
structure Annot where
  binders : Binders
  rets : List (String × Ty)
deriving Repr, Inhabited

def Annot.ret (A : Annot) (f : String) : Ty := (A.rets.lookup f).getD .num

/-! ### expressions -/
mutual
/-- type synthesis: `some τ` iff `e` has type `τ` under signatures Φ, context Γ, `self` type ρ, with the parameters of every
lambda typed by `B` -/
def inferE (Φ : Sig) (B : Binders) : Ctx → Option Ty → Expr → Option Ty
  | _, _, .lit _ => some .num
  | Γ, _, .var x => Γ.lookup x
  | Γ, ρ, .un _ e =>
    match inferE Φ B Γ ρ e with
    | some .num => some .num
    | _ => none
  | Γ, ρ, .bin _ a b =>
    match inferE Φ B Γ ρ a with
    | some .num =>
      match inferE Φ B Γ ρ b with
      | some .num => some .num
      | _ => none
    | _ => none
  | Γ, ρ, .ite c a b =>
    match inferE Φ B Γ ρ c with
    | some .num =>
      match inferE Φ B Γ ρ a with
      | some τa =>
        match inferE Φ B Γ ρ b with
        | some τb => if τa = τb then some τa else none
        | none => none
      | none => none
    | _ => none
  | Γ, ρ, .letE x e body =>
    match inferE Φ B Γ ρ e with
    | some τ₁ => inferE Φ B ((x, τ₁) :: Γ) ρ body
    | none => none
  | Γ, ρ, .letTup xs e body =>
    match inferE Φ B Γ ρ e with
    | some (.tup τs) => if xs.length = τs.length then inferE Φ B (bindCtx Γ xs τs) ρ body else none
    | _ => none
  | Γ, ρ, .tup es =>
    match inferL Φ B Γ ρ es with
    | some τs => some (.tup τs)
    | none => none
  | Γ, ρ, .proj e i =>
    match inferE Φ B Γ ρ e with
    | some (.tup τs) => τs[i]?
    | _ => none
  | Γ, ρ, .call f args _ =>
    match Φ.lookup f with
    | some (τs, τ) =>
      match inferL Φ B Γ ρ args with
      | some τs' => if τs' = τs then some τ else none
      | none => none
    | none => none
  | Γ, ρ, .app f args =>
    match inferE Φ B Γ ρ f with
    | some (.fn τs τ) =>
      match inferL Φ B Γ ρ args with
      | some τs' => if τs' = τs then some τ else none
      | none => none
    | _ => none
  | Γ, _, .lam ps body =>
    match inferE Φ B (bindCtx Γ ps (ps.map B.ty)) none body with
    | some τ => some (.fn (ps.map B.ty) τ)
    | none => none
  | _, ρ, .self => ρ
  | Γ, ρ, .mem e _ =>
    match inferE Φ B Γ ρ e with
    | some .num => some .num
    | _ => none
  | Γ, ρ, .delay _ e t _ =>
    match inferE Φ B Γ ρ e with
    | some .num =>
      match inferE Φ B Γ ρ t with
      | some .num => some .num
      | _ => none
    | _ => none
  | _, _, .now => some .num
  | _, _, .samplerate => some .num
  | Γ, ρ, .assign x e rest =>
    match Γ.lookup x with
    | some τx =>
      match inferE Φ B Γ ρ e with
      | some τe => if τe = τx then inferE Φ B Γ ρ rest else none
      | none => none
    | none => none
def inferL (Φ : Sig) (B : Binders) : Ctx → Option Ty → List Expr → Option (List Ty)
  | _, _, [] => some []
  | Γ, ρ, e :: es =>
    match inferE Φ B Γ ρ e with
    | some τ =>
      match inferL Φ B Γ ρ es with
      | some τs => some (τ :: τs)
      | none => none
    | none => none
end

/-! ### side conditions -/

/-- decides `Agree C`: two pairs with the same site identifier name the same function -/
def agreeB (C : List (Nat × String)) : Bool :=
  C.all fun p => C.all fun q => !(p.1 == q.1) || p.2 == q.2

/-! ### programs -/

/-- the signature the annotations give a declared function -/
def sigOf (A : Annot) (d : FnDecl) : String × List Ty × Ty := (d.name, d.params.map A.binders.ty, A.ret d.name)

/-- a declared function against a signature: arity, body, `selfShape` = return type, call sites agree -/
def checkFn (Φ : Sig) (B : Binders) (Γg : Ctx) (d : FnDecl) (τs : List Ty) (τ : Ty) : Bool :=
  decide (d.params.length = τs.length) &&
  decide (inferE Φ B (bindCtx Γg d.params τs) d.selfTy d.body = some τ) &&
  (match d.selfShape with
   | some sh => decide (τ = tyOfShape sh)
   | none => true) &&
  agreeB (calls d.body)

/-- global initialisers in order: typed without signatures, first-order -/
def checkGlobals (B : Binders) : Ctx → List (String × Expr) → Option (List Ty)
  | _, [] => some []
  | Γ, (x, e) :: gs =>
    match inferE [] B Γ none e with
    | some τ =>
      if τ.fo then
        match checkGlobals B ((x, τ) :: Γ) gs with
        | some τs => some (τ :: τs)
        | none => none
      else none
    | none => none

/-- the type a `dsp` body synthesises (its parameters are numbers) -/
def dspTy (Φ : Sig) (B : Binders) (Γg : Ctx) (d : FnDecl) : Option Ty :=
  inferE Φ B (bindCtx Γg d.params (List.replicate d.params.length .num)) d.selfTy d.body

/-- **the checker**: `some (Φ, Ψg, τout)` iff the program is well typed under the annotations `A` (and its output type is
first-order) -/
def checkProg (A : Annot) (P : Prog) : Option (Sig × List Ty × Ty) :=
  match checkGlobals A.binders [] P.globals with
  | none => none
  | some Ψg =>
    let Γg := globalCtx P Ψg
    let Φ := P.fns.map (sigOf A)
    if P.fns.all (fun d => checkFn Φ A.binders Γg d (sigOf A d).2.1 (sigOf A d).2.2) then
      match dspTy Φ A.binders Γg P.dsp with
      | some τ =>
        if checkFn Φ A.binders Γg P.dsp (List.replicate P.dsp.params.length .num) τ && τ.fo then some (Φ, Ψg, τ)
        else none
      | none => none
    else none

/-- the generator's stronger guarantee on site identifiers: pairwise distinct within every body -/
def sitesUniqueProg (P : Prog) : Bool :=
  P.fns.all (fun d => decide (SitesUnique d.body)) && decide (SitesUnique P.dsp.body)

/-- why a program is rejected (diagnostic only; not used by the theorems) -/
def whyRejected (A : Annot) (P : Prog) : String :=
  match checkGlobals A.binders [] P.globals with
  | none => "globals"
  | some Ψg =>
    let Γg := globalCtx P Ψg
    let Φ := P.fns.map (sigOf A)
    match P.fns.find? (fun d => !checkFn Φ A.binders Γg d (sigOf A d).2.1 (sigOf A d).2.2) with
    | some d =>
      let s := sigOf A d
      if inferE Φ A.binders (bindCtx Γg d.params s.2.1) d.selfTy d.body = none then s!"fn:{d.name}:body"
      else if inferE Φ A.binders (bindCtx Γg d.params s.2.1) d.selfTy d.body ≠ some s.2.2 then s!"fn:{d.name}:ret"
      else if !agreeB (calls d.body) then s!"fn:{d.name}:sites" else s!"fn:{d.name}:self"
    | none =>
      match dspTy Φ A.binders Γg P.dsp with
      | none => "dsp:body"
      | some τ => if !τ.fo then "dsp:output-not-first-order" else if !agreeB (calls P.dsp.body) then "dsp:sites" else "dsp:self"

end Mimium.Core
