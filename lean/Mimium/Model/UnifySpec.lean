import Mimium.Model.Unify
/-!
# What a successful unification establishes (C03): `Len`, and the textbook relation `SEq`

`SEq σ a b` — the textbook statement — `a` and `b` are the same type once the bindings of `σ` are followed.
`Len σ args a b` — what the real `unify_types` (`args = false`) / `unify_types_args` (`args = true`) establish when they answer
`Ok(_)`: equality modulo the bindings of `σ` AND modulo the clauses below, one per arm of the two `match` tables that answers
`Ok` without establishing equality.  Every clause that `SEq` does not have is a place where the type checker accepts two different
types; the clause names are referred to by design.d/C03.md (findings K1, K4, K8, K9, K10, K16).
-/
namespace Mimium.Unify
open Mimium.Occurs (parent)

/-- `t` leads to `r` along parent pointers (`get_root` passes through here) -/
inductive Chain (σ : Store) : Ty → Ty → Prop where
  | refl (t : Ty) : Chain σ t t
  | step {v : Nat} {p r : Ty} : parent σ v = some p → Chain σ p r → Chain σ (.var v) r

/-- syntactic equality modulo the bindings of `σ` -/
inductive SEq (σ : Store) : Ty → Ty → Prop where
  | refl (t : Ty) : SEq σ t t
  | varL {v : Nat} {p b : Ty} : parent σ v = some p → SEq σ p b → SEq σ (.var v) b
  | varR {v : Nat} {p a : Ty} : parent σ v = some p → SEq σ a p → SEq σ a (.var v)
  | array {a b : Ty} : SEq σ a b → SEq σ (.array a) (.array b)
  | ref {a b : Ty} : SEq σ a b → SEq σ (.ref a) (.ref b)
  | code {a b : Ty} : SEq σ a b → SEq σ (.code a) (.code b)
  | fn {a1 r1 a2 r2 : Ty} : SEq σ a1 a2 → SEq σ r1 r2 → SEq σ (.fn a1 r1) (.fn a2 r2)

/-- the relation a successful call establishes between its two arguments, in the store it leaves -/
inductive Len (σ : Store) : Bool → Ty → Ty → Prop where
  -- equality modulo bindings (what a sound checker has, too)
  | refl (k : Bool) (t : Ty) : Len σ k t t
  | varL {k : Bool} {v : Nat} {p b : Ty} : parent σ v = some p → Len σ k p b → Len σ k (.var v) b
  | varR {k : Bool} {v : Nat} {p a : Ty} : parent σ v = some p → Len σ k a p → Len σ k a (.var v)
  | array {a b : Ty} : Len σ false a b → Len σ false (.array a) (.array b)
  | ref {a b : Ty} : Len σ false a b → Len σ false (.ref a) (.ref b)
  | code {a b : Ty} : Len σ false a b → Len σ false (.code a) (.code b)
  | boxed {a b : Ty} : Len σ false a b → Len σ false (.boxed a) (.boxed b)
  | fn {a1 r1 a2 r2 : Ty} : Len σ true a1 a2 → Len σ false r1 r2 → Len σ false (.fn a1 r1) (.fn a2 r2)
  -- `unify_vec` drops the errors of the members: two tuples of the same LENGTH unify, whatever their members
  | tupleSameLength {as bs : List Ty} : as.length = bs.length → Len σ false (.tuple as) (.tuple bs)
  -- records: the fields that `recPairs` pairs up (same key; a missing field whose counterpart has a default is paired with
  -- that counterpart) unify; fields present on one side only are accepted (`Subtype` / `Supertype`, ignored by most callers)
  | record {fs gs : List F} : (∀ p ∈ recPairs fs gs, ∀ f g, p = (some f, some g) → Len σ false f.ty g.ty) →
      Len σ false (.record fs) (.record gs)
  -- `unit` is the empty tuple and the empty record
  | unitTuple0 : Len σ false (.prim .unit) (.tuple [])
  | tuple0Unit : Len σ false (.tuple []) (.prim .unit)
  | unitRecord0 : Len σ false (.prim .unit) (.record [])
  | record0Unit : Len σ false (.record []) (.prim .unit)
  -- a one-element tuple is its element
  | tuple1R {a v : Ty} : Len σ false a v → Len σ false a (.tuple [v])
  | tuple1L {v b : Ty} : Len σ false v b → Len σ false (.tuple [v]) b
  -- `Failure` and `Any` unify with everything
  | failureL (b : Ty) : Len σ false .failure b
  | failureR (a : Ty) : Len σ false a .failure
  | anyL (b : Ty) : Len σ false .any b
  | anyR (a : Ty) : Len σ false a .any
  -- unions
  | unionBoth {us1 us2 : List Ty} (pick : Ty → Ty) : us1.length = us2.length → (∀ m ∈ us1, pick m ∈ us2) →
      (∀ m ∈ us1, Len σ false m (pick m)) → Len σ false (.union us1) (.union us2)
  | unionR {a m : Ty} {us : List Ty} : m ∈ us → Len σ false a m → Len σ false a (.union us)
  | unionL {b : Ty} {us : List Ty} : (∀ m ∈ us, Len σ false m b) → Len σ false (.union us) b
  -- implicit boxing
  | boxedL {inner b : Ty} : Len σ false inner b → Len σ false (.boxed inner) b
  | boxedR {a inner : Ty} : Len σ false a inner → Len σ false a (.boxed inner)
  -- `unify_types_args`: everything `unify_types` accepts …
  | args {a b : Ty} : Len σ false a b → Len σ true a b
  -- … a one-field record is its field (as the parameter pack always; as the argument pack unless the field has a default) …
  | argsRecord1L {f : F} {b : Ty} : Len σ true f.ty b → Len σ true (.record [f]) b
  | argsRecord1R {f : F} {a : Ty} : f.dflt = false → Len σ true a f.ty → Len σ true a (.record [f])
  | argsTuple1R {a v : Ty} : Len σ true a v → Len σ true a (.tuple [v])
  | argsTuple1L {v b : Ty} : Len σ true v b → Len σ true (.tuple [v]) b
  -- … a record of parameters against a tuple of arguments is the tuple of its field types (keys and defaults forgotten) …
  | argsRecordTuple {kvs : List F} {b : Ty} : Len σ true (.tuple (kvs.map (·.ty))) b → Len σ true (.record kvs) b
  -- … a tuple against a record is the record against the tuple …
  | argsSwap {a b : Ty} {as : List Ty} {fs : List F} : Chain σ a (.tuple as) → Chain σ b (.record fs) → Len σ true b a → Len σ true a b
  -- … and a union parameter takes an argument of one of its members
  | argsUnionL {m b : Ty} {us : List Ty} : m ∈ us → Len σ true m b → Len σ true (.union us) b

/-- the fragment on which unification is the textbook algorithm: no tuple, record, union, `Boxed`, `Any`, `Failure` -/
def strict : Ty → Bool
  | .prim _ => true
  | .var _ => true
  | .array t => strict t
  | .ref t => strict t
  | .code t => strict t
  | .fn a r => strict a && strict r
  | .usersum _ => true
  | .scheme _ => true
  | .alias _ => true
  | .unknown => true
  | .boxed _ => false
  | .tuple _ => false
  | .record _ => false
  | .union _ => false
  | .any => false
  | .failure => false

/-- every parent of the store is in the strict fragment -/
def StrictStore (σ : Store) : Prop := ∀ v p, parent σ v = some p → strict p = true

/-- the answer of a call (for the kernel-evaluated witnesses) -/
def verdict (o : Out) : Option Res := o.map (·.2)

/-- the parent a call left for variable `v` -/
def parentAfter (o : Out) (v : Nat) : Option Ty := o.bind fun x => parent x.1 v

end Mimium.Unify
