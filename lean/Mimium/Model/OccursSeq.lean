import Mimium.Model.Occurs
/-!
# Every place of the type checker that writes a `parent` pointer, as steps on the store of `Model/Occurs.lean` (C04)

`TypeVar::parent` is assigned by 13 statements of /repo/crates (grep `parent = Some(`, test modules aside; the translator
re-counts them on every run: `Gen/ParentWriters.lean`, pinned by `C04_parent_writers_pinned`), which make five writers:

* the three variable arms of `typing/unification.rs::unify_types` and the same three arms of `unify_types_args`
  (they differ only in which `bound` field and which `level` they update, which the occurs check never reads):
  `(Intermediate, Intermediate)` (four assignments, see below), `(Intermediate, _)`, `(_, Intermediate)`;
* `typing.rs::InferContext::extend_record_with_field`, which REPLACES the parent `Record(fields)` of a bound variable by
  `Record(fields ++ [field : ?fresh])` without calling `unify_types` (and hence without an occurs check).

`parent` is never reset to `None`, and `bound.lower` is only ever written together with `parent`, so the branch of
`extend_record_with_field` that reads the fields from `bound.lower` when `parent` is `None` is dead.

How `unify_types` treats a variable that is ALREADY bound: it never looks at it.  Both arguments are first replaced by
`get_root()` (follow `parent` until an unbound variable or a non-variable type), and the `match` is on the roots.  So the
variable that gets bound in any of the arms is always a root (`parent = None`), and the type it is bound to is a root, too.
In the `(Intermediate, Intermediate)` arm `parent1`/`parent2` are therefore both `None`, only the `(None, None)` case of the
inner `match` is reachable, and `tv1_eq == tv2_eq` (structural equality of the two `TypeVar`s) is equality of the variable
numbers (`gen_intermediate_type_with_location` is the only creator of cells and numbers them consecutively).  The occurs
check of that arm is made against `t2`, NOT `t2r` — ported as such.

`unify_types_args` has five arms in front of the variable arms (records / tuples with a single member) which delegate to
another call without touching the store.  Everything else `unify_types` does (the structural arms) likewise only issues
further `unify_types` calls and touches the store through them; a run of the checker is thus, as far as the store is concerned, a SEQUENCE of requests `Req`.  The theorems
(`Props/C04.lean`) quantify over all such sequences.
-/
namespace Mimium.Occurs

/-- `TypeNodeId::get_root`: `tv.parent.map_or(self, |t| t.get_root())`; unbounded recursion in Rust, hence fuel (`none` = ran out) -/
def root (σ : Store) : Nat → Ty → Option Ty
  | 0, _ => none
  | f + 1, .var v =>
    match parent σ v with
    | some p => root σ f p
    | none => some (.var v)
  | _ + 1, t => some t

/-- store effect of the top-level arm of one call `unify_types(t1, t2)` (or `unify_types_args(t1, t2)`), `||` occurs check.
`none` = `get_root` or `occur_check` did not return; `some none` = `Error::CircularType`; `some (some σ')` = the store afterwards
(`σ' = σ` for the arms that bind nothing themselves). -/
def unifyStep (σ : Store) (fuel : Nat) (t1 t2 : Ty) : Option (Option Store) :=
  match root σ fuel t1, root σ fuel t2 with
  | none, _ => none
  | _, none => none
  | some (.var v1), some (.var v2) =>
    if v1 = v2 then some (some σ)                                   -- `tv1_eq == tv2_eq`: `Ok(Identical)`
    else match occ σ false v1 fuel t2 with                          -- `occur_check(var1, t2)` (not `t2r`)
      | none => none
      | some true => some none
      | some false =>
        if v1 > v2 then some (some ((v2, .var v1) :: σ))            -- `i2.parent = Some(t1r)`
        else some (some ((v1, .var v2) :: σ))                       -- `i1.parent = Some(t2r)`
  | some (.var v1), some t2r => bindVar σ false fuel v1 t2r         -- `(Intermediate(i1), _)`
  | some t1r, some (.var v2) => bindVar σ false fuel v2 t1r         -- `(_, Intermediate(i2))`
  | some _, some _ => some (some σ)

/-- what the checker asks of the store -/
inductive Req where
  | unify (t1 t2 : Ty)              -- a call of `unify_types`, or of `unify_types_args` that gets to its variable arms
  | extend (v fresh : Nat)          -- `extend_record_with_field` on `?v`, `fresh` = the variable generated for the new field
deriving DecidableEq, Repr, Inhabited

/-- one request. `none` = some recursion ran out of fuel. A `CircularType` error is pushed to the error list and checking goes
on with the store unchanged. `extend` applies when `?v` is bound (to a record: `Record(fields ++ [?fresh])` is
`fields.any(cls) || cls(?fresh)` for the occurs check, i.e. `anyOf p (var fresh)`) and `?fresh` is a new, unbound cell. -/
def step (σ : Store) (fuel : Nat) : Req → Option Store
  | .unify t1 t2 =>
    match unifyStep σ fuel t1 t2 with
    | none => none
    | some none => some σ
    | some (some σ') => some σ'
  | .extend v fresh =>
    match parent σ v, parent σ fresh with
    | some p, none => some ((v, .anyOf p (.var fresh)) :: σ)
    | _, _ => some σ

/-- all requests in order; the list of stores after each of them (`none` = some step ran out of fuel) -/
def run (fuel : Nat) : Store → List Req → Option (List Store)
  | _, [] => some []
  | σ, r :: rs =>
    match step σ fuel r with
    | none => none
    | some σ' =>
      match run fuel σ' rs with
      | none => none
      | some tr => some (σ' :: tr)

/-- number of constructors -/
def size : Ty → Nat
  | .other => 1
  | .var _ => 1
  | .unary t => size t + 1
  | .anyOf a b => size a + size b + 1
  | .fn a r => size a + size r + 1

/-- sum of the sizes of all parents -/
def total : Store → Nat
  | [] => 0
  | (_, t) :: rest => size t + total rest

def Req.size : Req → Nat
  | .unify t1 t2 => max (Occurs.size t1) (Occurs.size t2)
  | .extend _ _ => 1

def maxReq : List Req → Nat
  | [] => 1
  | r :: rs => max r.size (maxReq rs)

/-- fuel that suffices for every recursion of a whole run from the empty store: with `n` requests whose types have at most
`m` constructors, no parent ever has more than `m + 2 n` constructors and there are at most `n` of them -/
def fuelBound (reqs : List Req) : Nat := (reqs.length + 1) * (maxReq reqs + 2 * reqs.length) + 1

end Mimium.Occurs
