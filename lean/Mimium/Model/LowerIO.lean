import Mimium.Model.Lower
import Mimium.Model.CstGrammarIO
/-! Wire format of the lowering correspondence (C16 / C04 / C14): the `Program` as an S-expression, every span evaluated to byte
offsets (`@start..end`), symbols quoted and escaped.  `harness/src/lower_print.rs` prints the real `Program` in the same format. -/
namespace Mimium.LowerIO
open Mimium.Lower

/-- how spans are printed: `none` = not at all -/
abbrev Ev := Option (Sp → Nat × Nat)

def pSp (ev : Ev) (sp : Sp) (acc : String) : String :=
  match ev with
  | none => acc
  | some f => let r := f sp; ((acc.push '@') ++ toString r.1 ++ "..") ++ toString r.2

def escChar (c : Char) (acc : String) : String :=
  if c.isAlphanum || c == '_' || c == '.' || c == '$' then acc.push c
  else ((acc.push '\\') ++ String.ofList (Nat.toDigits 16 c.toNat)).push ';'

def pSym (s : Sym) (acc : String) : String := (s.foldl (fun a c => escChar c a) (acc.push '\'')).push '\''

def pLit : Lit → String → String
  | .string s, acc => (pSym s (acc ++ "(string ")).push ')'
  | .int n, acc => acc ++ "(int " ++ toString n ++ ")"
  | .float s, acc => (pSym s (acc ++ "(float ")).push ')'
  | .selfLit, acc => acc ++ "self"
  | .now, acc => acc ++ "now"
  | .sampleRate, acc => acc ++ "samplerate"
  | .placeHolder, acc => acc ++ "placeholder"

def pOp : Op → String → String
  | .sum, a => a ++ "sum" | .minus, a => a ++ "minus" | .product, a => a ++ "product" | .divide, a => a ++ "divide"
  | .equal, a => a ++ "equal" | .notEqual, a => a ++ "notequal" | .lessThan, a => a ++ "lessthan" | .lessEqual, a => a ++ "lessequal"
  | .greaterThan, a => a ++ "greaterthan" | .greaterEqual, a => a ++ "greaterequal" | .modulo, a => a ++ "modulo"
  | .exponent, a => a ++ "exponent" | .and, a => a ++ "and" | .or, a => a ++ "or" | .at, a => a ++ "at" | .pipe, a => a ++ "pipe"
  | .pipeMacro, a => a ++ "pipemacro"
  | .unknown s, a => (pSym s (a ++ "(unknown ")).push ')'

/-- `f` on every element, each preceded by a blank -/
@[inline] def pList {α : Type} (f : α → String → String) (xs : List α) (acc : String) : String :=
  xs.foldl (fun a x => f x (a.push ' ')) acc

@[inline] def pOpt {α : Type} (f : α → String → String) (x : Option α) (acc : String) : String :=
  match x with | some v => f v acc | none => acc.push '-'

partial def pTy (ev : Ev) : Ty → String → String
  | .prim .unit sp, a => (pSp ev sp (a ++ "(unit")).push ')'
  | .prim .int sp, a => (pSp ev sp (a ++ "(int")).push ')'
  | .prim .numeric sp, a => (pSp ev sp (a ++ "(numeric")).push ')'
  | .prim .string sp, a => (pSp ev sp (a ++ "(string")).push ')'
  | .array t sp, a => (pSp ev sp (pTy ev t (a ++ "(tarray "))).push ')'
  | .tuple ts sp, a => (pSp ev sp (pList (pTy ev) ts (a ++ "(ttuple"))).push ')'
  | .record fs sp, a =>
    (pSp ev sp (pList (fun (f : Sym × Ty) b => (pTy ev f.2 ((pSym f.1 (b.push '(')).push ' ') ++ " 0)")) fs (a ++ "(trecord"))).push ')'
  | .fn x r sp, a => (pSp ev sp (pTy ev r ((pTy ev x (a ++ "(tfn ")).push ' '))).push ')'
  | .code t sp, a => (pSp ev sp (pTy ev t (a ++ "(tcode "))).push ')'
  | .union ts sp, a => (pSp ev sp (pList (pTy ev) ts (a ++ "(tunion"))).push ')'
  | .alias n sp, a => (pSp ev sp (pSym n (a ++ "(talias "))).push ')'
  | .unknown sp, a => (pSp ev sp (a ++ "(unknown")).push ')'

partial def pPat : Pattern → String → String
  | .single s, a => (pSym s (a ++ "(psingle ")).push ')'
  | .placeholder, a => a ++ "pplaceholder"
  | .tuple ps, a => (pList pPat ps (a ++ "(ptuple")).push ')'
  | .record fs, a => (pList (fun (f : Sym × Pattern) b => (pPat f.2 ((pSym f.1 (b.push '(')).push ' ')).push ')') fs (a ++ "(precord")).push ')'
  | .error, a => a ++ "perror"

partial def pMPat : MatchPattern → String → String
  | .lit l, a => (pLit l (a ++ "(mlit ")).push ')'
  | .wildcard, a => a ++ "mwild"
  | .var s, a => (pSym s (a ++ "(mvar ")).push ')'
  | .ctor s i, a => (pOpt pMPat i ((pSym s (a ++ "(mctor ")).push ' ')).push ')'
  | .tuple ps, a => (pList pMPat ps (a ++ "(mtuple")).push ')'

def pStage : StageKind → String → String
  | .persistent, a => a ++ "persistent"
  | .macro_, a => a ++ "macro"
  | .main, a => a ++ "main"

mutual
partial def pExpr (ev : Ev) : Expr → String → String
  | .lit l sp, a => (pSp ev sp (pLit l (a ++ "(lit "))).push ')'
  | .var s sp, a => (pSp ev sp (pSym s (a ++ "(var "))).push ')'
  | .qvar ss sp, a => (pSp ev sp (pList pSym ss (a ++ "(qvar"))).push ')'
  | .block e sp, a => (pSp ev sp (pOpt (pExpr ev) e (a ++ "(block "))).push ')'
  | .tuple es sp, a => (pSp ev sp (pList (pExpr ev) es (a ++ "(tuple"))).push ')'
  | .proj e n sp, a => (pSp ev sp ((pExpr ev e (a ++ "(proj ")) ++ " " ++ toString n)).push ')'
  | .arrayAccess e i sp, a => (pSp ev sp (pExpr ev i ((pExpr ev e (a ++ "(arrayaccess ")).push ' '))).push ')'
  | .arrayLit es sp, a => (pSp ev sp (pList (pExpr ev) es (a ++ "(array"))).push ')'
  | .recordLit fs sp, a => (pSp ev sp (pList (pField ev) fs (a ++ "(record"))).push ')'
  | .incRecord fs sp, a => (pSp ev sp (pList (pField ev) fs (a ++ "(increcord"))).push ')'
  | .recordUpdate e fs sp, a => (pSp ev sp (pList (pField ev) fs (pExpr ev e (a ++ "(recupdate ")))).push ')'
  | .fieldAccess e f sp, a => (pSp ev sp (pSym f ((pExpr ev e (a ++ "(field ")).push ' '))).push ')'
  | .apply f args sp, a => (pSp ev sp ((pList (pExpr ev) args ((pExpr ev f (a ++ "(app ")) ++ " (args")).push ')')).push ')'
  | .macroExpand f args sp, a => (pSp ev sp ((pList (pExpr ev) args ((pExpr ev f (a ++ "(macro ")) ++ " (args")).push ')')).push ')'
  | .binOp l op osp r sp, a =>
    (pSp ev sp (pExpr ev r ((pExpr ev l ((pSp ev osp (pOp op (a ++ "(binop "))).push ' ')).push ' '))).push ')'
  | .uniOp op osp e sp, a => (pSp ev sp (pExpr ev e ((pSp ev osp (pOp op (a ++ "(uniop "))).push ' '))).push ')'
  | .paren e sp, a => (pSp ev sp (pExpr ev e (a ++ "(paren "))).push ')'
  | .lambda ps rt b sp, a =>
    (pSp ev sp (pExpr ev b ((pOpt (pTy ev) rt (((pList (pTid ev) ps (a ++ "(lambda (params")).push ')').push ' ')).push ' '))).push ')'
  | .assign l r sp, a => (pSp ev sp (pExpr ev r ((pExpr ev l (a ++ "(assign ")).push ' '))).push ')'
  | .then_ e k sp, a => (pSp ev sp (pOpt (pExpr ev) k ((pExpr ev e (a ++ "(then ")).push ' '))).push ')'
  | .feed s e sp, a => (pSp ev sp (pExpr ev e ((pSym s (a ++ "(feed ")).push ' '))).push ')'
  | .let_ p t e k sp, a =>
    (pSp ev sp (pOpt (pExpr ev) k ((pExpr ev e ((pTy ev t ((pPat p (a ++ "(let (tpat ")).push ' ')) ++ " -) ")).push ' '))).push ')'
  | .letRec id e k sp, a => (pSp ev sp (pOpt (pExpr ev) k ((pExpr ev e ((pTid ev id (a ++ "(letrec ")).push ' ')).push ' '))).push ')'
  | .if_ c t e sp, a => (pSp ev sp (pOpt (pExpr ev) e ((pExpr ev t ((pExpr ev c (a ++ "(if ")).push ' ')).push ' '))).push ')'
  | .match_ s arms sp, a =>
    (pSp ev sp (pList (fun (m : MatchPattern × Expr) b => (pExpr ev m.2 ((pMPat m.1 (b ++ "(arm ")).push ' ')).push ')') arms
      (pExpr ev s (a ++ "(match ")))).push ')'
  | .bracket e sp, a => (pSp ev sp (pExpr ev e (a ++ "(bracket "))).push ')'
  | .escape e sp, a => (pSp ev sp (pExpr ev e (a ++ "(escape "))).push ')'
  | .error sp, a => (pSp ev sp (a ++ "(error")).push ')'
partial def pField (ev : Ev) (f : Sym × Expr) (a : String) : String := (pExpr ev f.2 ((pSym f.1 (a.push '(')).push ' ')).push ')'
partial def pTid (ev : Ev) (t : Sym × Ty × Option Expr) (a : String) : String :=
  (pOpt (pExpr ev) t.2.2 ((pTy ev t.2.1 ((pSym t.1 (a ++ "(tid ")).push ' ')).push ' ')).push ')'
end

def pStatement (ev : Ev) : Statement → String → String
  | .let_ p t e, a => (pExpr ev e ((pTy ev t ((pPat p (a ++ "(slet (tpat ")).push ' ')) ++ " -) ")).push ')'
  | .letRec id e, a => (pExpr ev e ((pTid ev id (a ++ "(sletrec ")).push ' ')).push ')'
  | .assign l r, a => (pExpr ev r ((pExpr ev l (a ++ "(sassign ")).push ' ')).push ')'
  | .single e, a => (pExpr ev e (a ++ "(single ")).push ')'
  | .declareStage k, a => (pStage k (a ++ "(sstage ")).push ')'
  | .error, a => a ++ "serror"

def pVis (v : Bool) (a : String) : String := a ++ (if v then "pub" else "priv")

mutual
partial def pPStmt (ev : Ev) : PStmt → String → String
  | .fnDef v n ps psp rt b, a =>
    (pExpr ev b ((pOpt (pTy ev) rt (((pSp ev psp (pList (pTid ev) ps ((pSym n ((pVis v (a ++ "(fn ")).push ' ')) ++ " (params"))).push ')').push ' ')).push ' ')).push ')'
  | .stageDecl k, a => (pStage k (a ++ "(stage ")).push ')'
  | .global s, a => (pStatement ev s (a ++ "(global ")).push ')'
  | .import_ s, a => (pSym s (a ++ "(import ")).push ')'
  | .moduleDef v n body, a =>
    (pOpt (fun (b : List (PStmt × Sp)) c => (pList (pItem ev) b (c ++ "(body")).push ')') body ((pSym n ((pVis v (a ++ "(mod ")).push ' ')).push ' ')).push ')'
  | .useStmt v path t, a =>
    let a := ((pList pSym path ((pVis v (a ++ "(use ")) ++ " (path")).push ')').push ' '
    (match t with
     | .single => a ++ "single"
     | .wildcard => a ++ "wildcard"
     | .multiple ss => (pList pSym ss (a ++ "(multiple")).push ')').push ')'
  | .typeAlias v n t, a => (pTy ev t ((pSym n ((pVis v (a ++ "(alias ")).push ' ')).push ' ')).push ')'
  | .typeDecl v n vs r, a =>
    (pList (fun (x : Sym × Option Ty) b => (pOpt (pTy ev) x.2 ((pSym x.1 (b ++ "(variant ")).push ' ')).push ')') vs
      ((pSym n ((pVis v (a ++ "(typedecl ")).push ' ')) ++ (if r then " rec" else " norec"))).push ')'
  | .error, a => a ++ "perr"
partial def pItem (ev : Ev) (x : PStmt × Sp) (a : String) : String := (pSp ev x.2 (pPStmt ev x.1 (a.push '['))).push ']'
end

/-- the whole program -/
def showProgram (ev : Ev) (p : List (PStmt × Sp)) : String := (pList (pItem ev) p "(program").push ')'

/-- remove every `@digits..digits` (symbols are escaped, so `@` only starts a span) -/
def stripSpans (s : String) : String :=
  let rec go (cs : List Char) (inSpan : Bool) (acc : String) : String :=
    match cs with
    | [] => acc
    | c :: rest =>
      if c == '@' then go rest true acc
      else if inSpan && (c.isDigit || c == '.') then go rest true acc
      else go rest false (acc.push c)
  go s.toList false ""

/-- the errors `parse_program` returns: the parser's, then the reserved-name diagnostics -/
def showErrors (errs : List Grammar.PErr) (reserved : List Nat) : String :=
  let a := errs.reverse.map fun e => s!"{e.tokenIndex}|{GrammarIO.detail e.detail}"
  let b := reserved.map fun i => s!"{i}|Invalid syntax: `_mimium_global` is reserved for the entry function the compiler generates"
  if (a ++ b).isEmpty then "-" else " ## ".intercalate (a ++ b)

/-- the printed program of a front-end run, spans evaluated -/
def showFrontEnd (fe : FrontEnd) : String :=
  let ta := fe.toks.toArray
  let la := fe.leaves.toArray
  showProgram (some (Sp.eval (leafOffsets ta la))) fe.prog

end Mimium.LowerIO
