import Mimium.Gen.TokenTables
/-!
# Model of `compiler/parser/preparser.rs` (`preparse`)

`preparse` looks only at the *kinds* of the tokens, so the model runs over `List Kind`.  The two `HashMap<usize, Vec<usize>>`
are association lists; `entry(k).or_default().append(xs)` is `appendAt`.  The loop is ported statement by statement,
including the `pending_trivia.clear()` that drops trivia seen before the first syntax token (finding F7).
-/
namespace Mimium.Preparse
open Mimium.Gen (Kind)

abbrev TMap := List (Nat × List Nat)

/-- `map.entry(k).or_default().append(xs)` -/
def appendAt (m : TMap) (k : Nat) (xs : List Nat) : TMap :=
  match m with
  | [] => [(k, xs)]
  | (k', ys) :: rest => if k' = k then (k', ys ++ xs) :: rest else (k', ys) :: appendAt rest k xs

/-- `map.get(&k)` (empty when absent) -/
def lookup (m : TMap) (k : Nat) : List Nat :=
  match m with
  | [] => []
  | (k', ys) :: rest => if k' = k then ys else lookup rest k

/-- loop state of `preparse` -/
structure St where
  tokenIndices : List Nat := []      -- `result.token_indices`
  leading : TMap := []               -- `result.leading_trivia_map`
  trailing : TMap := []              -- `result.trailing_trivia_map`
  pending : List Nat := []           -- `pending_trivia`
  lastWasLinebreak : Bool := false
  lastTokenIdx : Option Nat := none
  /-- GHOST (not in the Rust code, read by nothing): what `pending_trivia.clear()` and the final `if let Some(last_idx)`
  throw away; lets the theorems account for every trivia token -/
  discarded : List Nat := []
deriving Repr

/-- a syntax token: neither trivia nor the end marker -/
def isSyntax (k : Kind) : Bool := !k.isTrivia && k != Kind.Eof

/-- one iteration of `for (i, token) in tokens.iter().enumerate()` -/
def step (st : St) (i : Nat) (k : Kind) : St :=
  if k.isTrivia then
    let st := { st with pending := st.pending ++ [i] }
    if k = Kind.LineBreak then
      match st.lastTokenIdx with
      | some last => { st with trailing := appendAt st.trailing last st.pending, pending := [], lastWasLinebreak := true }
      | none => { st with pending := [], lastWasLinebreak := true, discarded := st.discarded ++ st.pending }
    else { st with lastWasLinebreak := false }
  else if k != Kind.Eof then
    let cur := st.tokenIndices.length
    let st :=
      if st.pending.isEmpty then st
      else if st.lastWasLinebreak || st.lastTokenIdx.isNone then
        { st with leading := appendAt st.leading cur st.pending, pending := [] }
      else match st.lastTokenIdx with
        | some last => { st with trailing := appendAt st.trailing last st.pending, pending := [] }
        | none => st
    { st with tokenIndices := st.tokenIndices ++ [i], lastTokenIdx := some cur, lastWasLinebreak := false }
  else st

/-- the `for` loop from token index `i` on -/
def loop : St → Nat → List Kind → St
  | st, _, [] => st
  | st, i, k :: ks => loop (step st i k) (i + 1) ks

/-- "Handle any remaining trailing trivia" -/
def finish (st : St) : St :=
  if st.pending.isEmpty then st
  else match st.lastTokenIdx with
    | some last => { st with trailing := appendAt st.trailing last st.pending, pending := [] }
    | none => { st with pending := [], discarded := st.discarded ++ st.pending }

/-- `PreParsedTokens` -/
structure Result where
  tokenIndices : List Nat
  leading : TMap
  trailing : TMap
deriving Repr, DecidableEq

def preparse (ks : List Kind) : Result :=
  let st := finish (loop {} 0 ks)
  ⟨st.tokenIndices, st.leading, st.trailing⟩

/-- indices (from `off`) of the syntax tokens, in order -/
def syntaxIndices (off : Nat) : List Kind → List Nat
  | [] => []
  | k :: ks => if isSyntax k then off :: syntaxIndices (off + 1) ks else syntaxIndices (off + 1) ks

/-- all `(owner position, trivia index)` pairs of a map -/
def TMap.pairs (m : TMap) : List (Nat × Nat) := m.flatMap fun e => e.2.map fun i => (e.1, i)

/-- all trivia indices stored in a map (with multiplicity) -/
def TMap.vals (m : TMap) : List Nat := m.flatMap (·.2)

/-- how many times token index `i` is attached to some token -/
def Result.attachCount (r : Result) (i : Nat) : Nat := r.leading.vals.count i + r.trailing.vals.count i

/-- `DroppedLeading`: the class of trivia that `preparse` attaches to nothing.
`i` is a trivia token with no syntax token before it and, before the first syntax token after it (if any), there is a
line break at or after `i` — or there is no syntax token at all. -/
def droppedFrom : List Kind → Bool
  | [] => true                                   -- no syntax token follows: dropped
  | k :: ks => if isSyntax k then false          -- reached the first syntax token without a line break: kept (leading)
               else if k = Kind.LineBreak then true
               else droppedFrom ks

/-- `Dropped ks i`: see `droppedFrom`; `(ks.take i)` contains no syntax token. -/
def dropped (ks : List Kind) (i : Nat) : Bool :=
  i < ks.length && (ks.getD i Kind.Eof).isTrivia && (ks.take i).all (fun k => !isSyntax k) && droppedFrom (ks.drop i)

end Mimium.Preparse
