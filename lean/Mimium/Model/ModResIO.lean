import Mimium.Model.ModRes
/-!
# C17 model, observation side: what the rest of the compiler does with the resolved program

Only *exercised* by the correspondence (no theorem is stated about this file):
* `scopeOk` — the lexical lookup of `typing.rs` (`Expr::Var` → `lookup`, `VariableNotFound`): the flattened program is
  one chain of nested `LetRec`s, so a name is visible only in and after its own definition;
* `eval` — a fuel-bounded call-by-value evaluator, used to learn *which* constant a reference reaches;
* `render` — mimium concrete syntax of a module tree;
* `observe` — the predicted observation `class / value` of a whole program.
-/
namespace Mimium.ModRes

def scopeOk : List Sym → Expr → Bool
  | _, .unit => true
  | _, .lit _ => true
  | env, .var s => env.contains s
  | _, .qvar _ => false
  | env, .call f => scopeOk env f
  | env, .letE x e t => scopeOk env e && scopeOk ([x] :: env) t
  | env, .lam ps b => scopeOk (ps.map (fun p => [p]) ++ env) b
  | env, .letrec f b t => scopeOk (f :: env) b && scopeOk (f :: env) t

inductive Val where
  | unit
  | num (k : Nat)
  | clo (ps : List Name) (body : Expr) (env : List (Sym × Val)) (self : Option Sym)
deriving Inhabited

def lookupVal : List (Sym × Val) → Sym → Option Val
  | [], _ => none
  | (k, v) :: rest, s => if k = s then some v else lookupVal rest s

/-- `none` = stuck (type error) or out of fuel -/
def eval : Nat → List (Sym × Val) → Expr → Option Val
  | 0, _, _ => none
  | n + 1, env, e =>
    match e with
    | .unit => some .unit
    | .lit k => some (.num k)
    | .var s => lookupVal env s
    | .qvar _ => none
    | .call f =>
      match eval n env f with
      | some (.clo [] body cenv self) =>
        let cenv' := match self with
          | some s => (s, Val.clo [] body cenv self) :: cenv
          | none => cenv
        eval n cenv' body
      | _ => none
    | .letE x e t =>
      match eval n env e with
      | some v => eval n (([x], v) :: env) t
      | none => none
    | .lam ps b => some (.clo ps b env none)
    | .letrec f b t =>
      match b with
      | .lam ps body => eval n ((f, .clo ps body env (some f)) :: env) t
      | _ => none

/-- name 0 is `dsp`; concrete spelling of an identifier. Module names 1, 2, 3 are spelled so that one is a proper string prefix of the
next (`n1`, `n10`, `n100`): a comparison of mangled paths as strings instead of segment lists is then visible. -/
def nm (n : Name) : String :=
  if n = 0 then "dsp" else if n = 2 then "n10" else if n = 3 then "n100" else s!"n{n}"

def joinWith (sep : String) (xs : List String) : String := sep.intercalate xs

def renderExpr : Expr → String
  | .unit => "0.0"
  | .lit k => s!"{k}.0"
  | .var s => joinWith "$" (s.map nm)
  | .qvar segs => joinWith "::" (segs.map nm)
  | .call f =>
    match f with
    | .var _ | .qvar _ => renderExpr f ++ "()"
    | _ => "(" ++ renderExpr f ++ ")()"
  | .letE x e t => s!"let {nm x} = {renderExpr e}\n{renderExpr t}"
  | .lam ps b => "|" ++ (if ps.isEmpty then " " else joinWith "," (ps.map nm)) ++ "| {\n" ++ renderExpr b ++ "\n}"
  | .letrec f e t => s!"letrec {joinWith "$" (f.map nm)} = {renderExpr e}\n{renderExpr t}"

mutual
def Item.render : Item → String
  | .fn p x ps b =>
    (if p then "pub " else "") ++ "fn " ++ nm x ++ "(" ++ joinWith "," (ps.map nm) ++ "){\n" ++ renderExpr b ++ "\n}\n"
  | .mod p x sub => (if p then "pub " else "") ++ "mod " ++ nm x ++ " {\n" ++ renderL sub ++ "}\n"
  | .use p path t =>
    (if p then "pub " else "") ++ "use " ++
      (match t with
       | .single => joinWith "::" (path.map nm)
       | .multiple ns => joinWith "::" (path.map nm) ++ "::{" ++ joinWith ", " (ns.map nm) ++ "}"
       | .wildcard => joinWith "::" (path.map nm) ++ "::*") ++ "\n"
  | .letD p x e => (if p then "pub " else "") ++ "let " ++ nm x ++ " = " ++ renderExpr e ++ "\n"
def renderL : List Item → String
  | [] => ""
  | i :: is => i.render ++ renderL is
end

def symStr (s : Sym) : String := joinWith "$" (s.map nm)

/-- replace what follows the last statement of a flattened program -/
def setTail (t : Expr) : Expr → Expr
  | .letrec f e b => .letrec f e (setTail t b)
  | .letE x e b => .letE x e (setTail t b)
  | .unit => t
  | e => e

/-- predicted observation of a program: `(class, value)`; after `execute_main` the harness calls `dsp` -/
def observe (p : List Item) : String × String :=
  let evs := events p
  let info := lowerInfo evs
  let r := convertProgram evs .unit
  -- all diagnostics are collected; the harness reports `private` if any is a PrivateMemberAccess, else
  -- `unresolved` if any is a VariableNotFound, else `other` (e.g. `<base>.mmm` not found)
  if !r.2.isEmpty then ("private", "-")
  else if !scopeOk [] r.1 then ("unresolved", "-")
  else if info.fileErrs > 0 then ("other", "-")
  else
    match eval 200 [] (setTail (.call (.var [0])) r.1) with
    | some (.num k) => ("ok", toString k)
    | _ => ("other", "-")

end Mimium.ModRes
