/-!
# The path-keyed source cache of the diagnostic renderer (`utils/error.rs`: `FILE_BUCKET`, `report`)

`report(src, path, errs)` renders every diagnostic with ariadne from a **process-wide** cache `path ↦ source text`
(`static FILE_BUCKET: LazyLock<Mutex<FileCache>>`).  Several threads of one process report different texts under the
same path (in-memory programs: the empty path, mimium-web's `/`).  What keeps a thread's diagnostic from being rendered
from another thread's program is that the text is stored and the diagnostic rendered under ONE acquisition of the mutex.

Texts and paths are abstract ids.  A schedule is any list of steps of any number of threads: `report j` is the
critical section of the code as it stands (atomic); `store j` / `render j` are the two halves of a `report` that takes
the lock twice (the protocol the code must NOT have).
-/
namespace Mimium.ReportCache

structure Job where
  thread : Nat
  path : Nat
  text : Nat
deriving DecidableEq, Repr

abbrev Cache := List (Nat × Nat)

def get (c : Cache) (p : Nat) : Option Nat := (c.find? (fun e => e.1 == p)).map (·.2)

/-- `storage.insert(path, Source::from(src))` -/
def put (c : Cache) (p t : Nat) : Cache := (p, t) :: c

inductive Step where
  | report (j : Job)      -- lock; insert; eprint; unlock
  | store (j : Job)       -- lock; insert; unlock
  | render (j : Job)      -- lock; eprint; unlock
deriving DecidableEq, Repr

/-- what a rendering step shows: the job and the text its diagnostic was rendered from -/
abbrev Shown := Job × Option Nat

def step (c : Cache) : Step → Cache × List Shown
  | .report j => (put c j.path j.text, [(j, get (put c j.path j.text) j.path)])
  | .store j => (put c j.path j.text, [])
  | .render j => (c, [(j, get c j.path)])

def run : Cache → List Step → List Shown
  | _, [] => []
  | c, s :: rest => (step c s).2 ++ run (step c s).1 rest

/-- a schedule of the code as it stands: atomic reports only -/
def atomicOnly (l : List Step) : Bool := l.all (fun s => match s with | .report _ => true | _ => false)

/-- a schedule of the split protocol in which every thread still stores its text before it renders
(`pending` = jobs stored and not yet rendered) -/
def splitWellFormed : List Job → List Step → Bool
  | _, [] => true
  | pend, .store j :: rest => splitWellFormed (j :: pend) rest
  | pend, .render j :: rest => pend.contains j && splitWellFormed (pend.erase j) rest
  | _, .report _ :: _ => false

end Mimium.ReportCache
